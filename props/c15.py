"""C15 — consistent hashing: deterministic, member-only, minimally disruptive."""
import json
import os

import vlib

LEVEL = "model_checking"
RULE = ("TLC model-checks RingImpl.tla (go-zero's keys/ring/nodes algorithm) for EVERY placement of virtual nodes, "
        "probe key, inner hash and scores on small rings against the property predicates (member-only, minimal "
        "disruption, history independence via a freshly built ring, reference placement), prints one shortest "
        "operation history per distinct reachable implementation state of a collision-rich 3-node ring "
        "(RingImplGen), and each is performed on a fresh real ConsistentHash whose node names make "
        "repr(node)+itoa(i) ambiguous ('n','n1','n11'; 7,71,711; ...); seeded random multi-instance histories over "
        "string / Stringer / numeric nodes (every Go integer and float type that holds the value, pointers to them; "
        "numeric families made of the boundary values of the 8/16/32/64-bit types with their two's-complement, truncation "
        "and magnitude twins, zero, fractions, a number beyond 64 bits), all Add* variants, caps 100..250, rebuilds of the same members in another "
        "order through detours, and cache.New / kv.NewStore clusters on miniredis are added. After every "
        "operation all probe keys (random + keys aimed at shared virtual nodes) are looked up; TLC validates every "
        "recorded trace against Ring.tla. distinct = distinct operation histories executed (generated ones by "
        "content and node family, random ones by seed and index).")

FAM = "hash"
PKG = "core/hash"
DRV = ["zz_verif_ring_test.go"]
TR, CFG, PCFG = "RingTrace", "RingTrace.cfg", "RingPlaceTrace.cfg"


def _side_validation(run, cfg, trace_file, label, key):
    """Validate traces whose rejection is NOT a verdict about the property (custom hash functions,
    conformance to the placement model): trace by trace, reported in the evidence only."""
    lines = [ln for ln in open(trace_file).read().splitlines() if ln.strip()]
    starts = [i for i, ln in enumerate(lines) if json.loads(ln).get("e") == "reset"] + [len(lines)]
    acc, rej, detail = 0, 0, []
    ok, hw, _ = run._validate_lines(FAM, TR, cfg, lines, 900, False)
    if ok:
        acc = len(starts) - 1
    else:
        for a, b in zip(starts, starts[1:]):
            sub = lines[a:b]
            ok, hw, _ = run._validate_lines(FAM, TR, cfg, sub, 900, False)
            if ok:
                acc += 1
            else:
                rej += 1
                head = json.loads(sub[0])
                where = json.loads(sub[hw - 1]) if hw and 1 <= hw <= len(sub) else {}
                detail.append({"hash": head.get("hash"), "family": head.get("family"), "line": hw,
                               "event": {k: where.get(k) for k in ("e", "i", "n", "kind", "arg")}})
    run.extra[key] = {"traces": len(starts) - 1, "accepted": acc, "rejected": rej, "events": len(lines),
                      "rejections": detail[:5]}
    vlib.log("  SIDE %-26s %4d traces %7d events accepted=%d rejected=%d (not part of the verdict)" %
             (label, len(starts) - 1, len(lines), acc, rej))
    for d in detail[:3]:
        vlib.log("       NOTE %s: not accepted: %s" % (label, json.dumps(d)))
    return rej


def check(run):
    thorough = run.tier == "thorough"
    run.assumptions += [
        "a node is identified by its name = what lang.Repr is meant to return: a number's mathematical value in decimal "
        "whatever its Go type, a string's / Stringer's text (Add(1), Add(uint8(1)), Add(1.0) and Add(\"1\") are one "
        "node, the later value replaces the earlier; uint64(2^64-7), int64(-7) and 7 are three nodes); the driver "
        "derives names from the typed values itself (strconv / math/big on the concrete type), not through lang.Repr, "
        "and maps returned values back by Go equality; Ring.tla ValsOK checks the numbering",
        "float nodes / keys are restricted to values whose shortest round-trip spelling is the exact decimal expansion "
        "(integers below 2^24 resp. 2^53, small dyadic fractions, 3e20)",
        "a node added with 0 (or negative) replicas owns no virtual node: it is not 'in the ring', Get answers none "
        "when no member owns one",
        "replica count of AddWithReplicas(r) = min(r, cap), of AddWithWeight(w) = min(cap, cap*w/100), of Add = cap "
        "(as documented on the methods); cap = ConsistentHash.replicas read by the in-package driver",
        "verdict-bearing runs use the default hash (murmur3); rings with custom hash functions are validated by the "
        "same spec but reported separately (the property's quantifier does not range over hash functions)",
        "the placement conformance check trusts the driver's rank compression of the 64-bit hashes "
        "(hash.Hash / lang.Repr, as the code computes them)",
        "operations on one ring are sequential (the property quantifies over histories, not schedules)",
    ]
    # ---------------------------------------------------------------- design level
    W = 4
    if os.environ.get("VERIF_C15_NOMC") == "1":      # development aid (mutation runs): conformance part only
        return _conformance(run, thorough)
    _design(run, thorough, W)
    _conformance(run, thorough)


def _design(run, thorough, W):
    run.model_check(FAM, "RingImpl", "RingImplMC.cfg", workers=W,
                    note="go-zero as found, 2 nodes x cap 2, 4 positions, every placement WITHOUT shared positions")
    run.model_check(FAM, "RingImpl", "RingImplMC3.cfg", workers=W,
                    note="go-zero as found, 3 nodes x cap 1, 4 positions, no shared positions")
    run.model_check(FAM, "RingImpl", "RingImplFixedMC.cfg", workers=W,
                    note="repaired Remove + rendezvous bucket choice, 2 nodes x cap 2, 3 positions, EVERY placement")
    for cfg, what in [("RingImplBugOrder.cfg", "as found + shared positions: Get depends on insertion order"),
                      ("RingImplBugRemove.cfg", "as found + shared positions: Remove drops another node's key "
                                                "(stale ring entry, Get panics on empty keys)"),
                      ("RingImplBugDisrupt.cfg", "as found + shared positions: an operation on one node moves keys "
                                                 "between two other nodes")]:
        run.model_check(FAM, "RingImpl", cfg, workers=2, expect="violation", note="documented counterexample: " + what)
    # node identity: the property's nodes are values (strings, numbers, Stringers); the ring knows them by lang.Repr
    run.model_check(FAM, "RingRepr", "RingReprMC.cfg", workers=2,
                    note="lang.Repr's per-type integer formatting (types scaled to 2/3/4 bits, signed + unsigned, plus "
                         "numeral and non-numeral texts): same representation <=> same node, EVERY pair of values")
    run.model_check(FAM, "RingImpl", "RingImplBugRepr.cfg", workers=2, expect="violation",
                    note="documented counterexample: two distinct nodes with one representation (ReprOf = ReprTwin), no "
                         "shared positions, repaired ring: the later Add evicts the twin / Remove removes the other node")
    if thorough:
        for cfg, what in [("RingReprBugWrap.cfg", "unsigned values formatted through the widest signed type: the top half "
                                                  "of the widest unsigned type wraps to the negative numbers"),
                          ("RingReprBugNarrow.cfg", "integers formatted through a narrower signed type: truncation twins")]:
            run.model_check(FAM, "RingRepr", cfg, workers=2, expect="violation", note="documented counterexample: " + what)
    if thorough:
        run.model_check(FAM, "RingImpl", "RingImplFixedMC3.cfg", workers=8,
                        note="repaired, 3 nodes x cap 1, 3 positions, every placement, scores 0..2")
        run.model_check(FAM, "RingImpl", "RingImplFixedMC32.cfg", workers=8, timeout=2700,
                        note="repaired, 3 nodes x cap 2, 3 positions, every placement up to rotation, scores 0..1, "
                             "operations Add / AddWithReplicas 0..2 / AddWithWeight 50 / Remove")
        run.model_check(FAM, "RingImpl", "RingImplMC32.cfg", workers=8, timeout=2700,
                        note="as found, 3 nodes x cap 2, 6 positions, no shared positions, up to rotation")


def _conformance(run, thorough):
    # ---------------------------------------------------------------- spec -> code
    beh = run.generate(FAM, "RingImplGen", "RingImplGen.cfg", workers=1)
    fams = 4 if thorough else 2
    numfams = 4 if thorough else 1     # numeric node families (boundary values and their twins), 64-bit first
    for b in beh:
        for f in range(fams + numfams):
            if f < fams or thorough or len(b) <= 3:
                run.distinct.add((f, vlib.distinct_key(b)))
                run.evaluations += 1
    tr = run.go_driver(PKG, DRV, "TestVerifRingReplay$", inp=beh,
                       env={"VERIF_RING_FAMILIES": fams, "VERIF_RING_KEYS": 64,
                            "VERIF_RING_NUMFAMS": numfams, "VERIF_RING_NUMKEYS": 48 if thorough else 24,
                            "VERIF_RING_NUMMAXLEN": 0 if thorough else 3})
    run.validate(FAM, TR, CFG, tr, label="replay", split=1)
    # ---------------------------------------------------------------- code -> spec: random histories, default hash
    env = {"VERIF_RING_SESSIONS": 150 if thorough else 16, "VERIF_RING_LENGTH": 90 if thorough else 60,
           "VERIF_RING_KEYS": 128 if thorough else 96, "VERIF_RING_NUMERIC": 24 if thorough else 4}
    tr = run.go_driver(PKG, DRV, "TestVerifRingRandom$", env=env)
    n0 = run.traces
    run.validate(FAM, TR, CFG, tr, label="random", split=8)
    run.evaluations += run.traces - n0
    for i in range(env["VERIF_RING_SESSIONS"] + env["VERIF_RING_NUMERIC"]):
        run.distinct.add(("random", run.seed, i))
    # cluster dispatch: cache.New and kv.NewStore on miniredis, compared with bare rings in the same trace
    for pkg, drv, fn in [("core/stores/cache", "zz_verif_ringcache_test.go", "TestVerifRingCache$"),
                         ("core/stores/kv", "zz_verif_ringkv_test.go", "TestVerifRingKv$")]:
        tr = run.go_driver(pkg, [drv], fn, env={"VERIF_RING_SESSIONS": 8 if thorough else 2})
        n0 = run.traces
        run.validate(FAM, TR, CFG, tr, label=pkg.split("/")[-1])
        run.evaluations += run.traces - n0
        for i in range(run.traces - n0):
            run.distinct.add((pkg, run.seed, i))
    # ---------------------------------------------------------------- not part of the verdict
    tr = run.go_driver(PKG, DRV, "TestVerifRingPlace$",
                       env={"VERIF_RING_SESSIONS": 12 if thorough else 4, "VERIF_RING_LENGTH": 30, "VERIF_RING_KEYS": 16})
    if run.validate(FAM, TR, CFG, tr, label="place"):
        drift = _side_validation(run, PCFG, tr, "placement-model", "placement_model_conformance")
        if drift:
            run.notes.append("MODEL-DRIFT: the real ring no longer places keys like RingPlace.tla / RingImpl.tla "
                             "(the property holds on these traces); update the Layer-I model")
            vlib.log("  NOTE MODEL-DRIFT: placement of the real code differs from RingPlace.tla (no violation)")
    else:
        run.extra["placement_model_conformance"] = {"skipped": "traces rejected by the property spec"}
    tr = run.go_driver(PKG, DRV, "TestVerifRingCustom$",
                       env={"VERIF_RING_SESSIONS": 20 if thorough else 5, "VERIF_RING_LENGTH": 40, "VERIF_RING_KEYS": 48})
    _side_validation(run, CFG, tr, "custom-hash", "custom_hash_rings")


LEVEL_TEXT = ("Exhaustive TLC model checking of the ring algorithm for every placement of virtual nodes and keys on small "
              "rings (2-3 nodes, cap 1-2, 3-6 positions) against the property predicates, and of the node representation "
              "(RingRepr: every pair of values of scaled-down signed/unsigned integer types and texts: same representation "
              "iff same node), plus conformance: one history per reachable implementation state replayed on real rings "
              "with ambiguous node names and with numeric nodes at the type boundaries, random multi-instance histories "
              "over string and numeric node families, cache/kv clusters; every trace validated by TLC against Ring.tla.")
LEVEL_NOTE = ("Trusted: TLC/SANY, the Go toolchain, the driver's mapping of returned Go values to node ids. The real code is "
              "sampled (finite probe-key sets, seeded histories); exhaustive only at design level for small rings. "
              "Custom hash functions and the placement model are checked but are not part of the verdict. "
              "Concurrency (Get during AddWithReplicas' remove-then-add window) is outside the property's quantifier.")
TECHNIQUE = ("TLA+ specs (RingProps/Ring = property, RingPlace = reference placement, RingImpl = go-zero algorithm "
             "parameterised by the node representation, RingRepr = lang.Repr's integer formatting), TLC "
             "exhaustive check over all placements, TLC-generated state-cover replay + TLC trace validation")
DESIGN_REF = "DESIGN.md Part B C15"


def replay(run, path):
    run.replay(FAM, TR, CFG, path)
