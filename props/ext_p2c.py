"""Extension p2c (advisory; host C02): the zRPC client-side balancer p2c_ewma
(zrpc/internal/balancer/p2c/p2c.go) -- behaviour beyond the listed properties."""
import json
import os

HOST = "C02"
WHAT = ("zRPC client balancer p2c_ewma: Pick returns one of two candidates -- the less loaded one (sqrt(lag+1) x "
        "(inflight+1)), unless the other was not picked for more than forcePick (then that one is forced); draws over "
        ">= 3 connections stop at the first pair of healthy candidates (at most pickTimes); Pick stamps the chosen "
        "connection and counts it in flight and in the request counter; the done-callback decrements in-flight, "
        "moves lag and success towards the sample with weight exp(-td/10s) (no history: the sample itself), unacceptable "
        "gRPC codes count as failures; a completion >= logInterval after the last statistics line writes one line "
        "(load, reqs per connection) and resets the counters; under concurrent Pick/done: in-flight envelope and exact "
        "conservation at rest, every pick reported exactly once, one statistics logger per interval")
QUICK = False
FAM = "p2c"
PKG = "zrpc/internal/balancer/p2c"
DRV = ["zz_verif_ext_p2c_test.go"]
COV = ["-coverage", "1"]      # the evidence lists actions never taken per config

TR = ("P2cTrace", "P2cTrace.cfg")
CTR = ("P2cConcTrace", "P2cConcTrace.cfg")

# generation configs: (cfg, N, T0, simulate?)  -- model time unit = 1 s (FP = 1, LogIv = 60)
UNIT = 1000
GENS = [("P2cImplGen2.cfg", 2, 1, False), ("P2cImplSim2.cfg", 2, 1, True), ("P2cImplSim3.cfg", 3, 1, True)]


def _plans(run, beh, n, t0):
    seen, plans = set(), []
    for b in beh:
        k = json.dumps(b, sort_keys=True)
        if k in seen:
            continue
        seen.add(k)
        run.distinct.add(("p2c-plan", n, k))
        plans.append({"n": n, "t0": t0 * UNIT, "unit": UNIT, "ops": b})
    return plans


def check(run):
    only = set(x for x in os.environ.get("VERIF_EXT_P2C_ONLY", "").split(",") if x)   # development: parts to run

    def on(part):
        return not only or part in only

    if on("mc"):
        # Layer P: the pick rule and the accounting as invariants, under an arbitrary bounded environment
        run.model_check(FAM, "P2cMC", "P2cMC.cfg", workers=4, args=COV,
                        note="Layer P, 0..2 connections: conservation, ranges, stamps, every pick reported once, "
                             "overdue first, never the worse one unless forced, one pass-over per forcePick window")
        run.model_check(FAM, "P2cMC", "P2cMC3.cfg", workers=4, args=COV, note="Layer P, 3 connections")
        run.model_check(FAM, "P2cMC", "P2cMCStarve.cfg", workers=2, expect="violation",
                        note="NOT a property: an overdue connection is passed over at most once altogether "
                             "(picks more than forcePick apart: both candidates overdue every time)")
        # Layer I: p2c.go statement by statement; sequential schedules refine Layer P
        run.model_check(FAM, "P2cImpl", "P2cImplMC.cfg", workers=4, args=COV,
                        note="choose/Pick/done of p2c.go, 2 connections, non-overlapping calls: refines Layer P")
        run.model_check(FAM, "P2cImpl", "P2cImplMC1.cfg", workers=4, args=COV, note="1 connection: refines Layer P")
        run.model_check(FAM, "P2cImpl", "P2cImplMC3.cfg", workers=4, args=COV,
                        note="3 connections, draws of candidates (pickTimes = 2): refines Layer P, IDrawsLaw")
        run.model_check(FAM, "P2cImpl", "P2cImplConc.cfg", workers=4, args=COV,
                        note="every interleaving of the atomic steps of 2 goroutines: in-flight conservation, envelope, "
                             "every pick reported once, one logger, no deadlock")
        run.model_check(FAM, "P2cImpl", "P2cImplBugWorse.cfg", workers=2, expect="violation",
                        note="choose returns the more loaded candidate: not a step of Layer P")
        run.model_check(FAM, "P2cImpl", "P2cImplBugNoStamp.cfg", workers=2, expect="violation",
                        note="a forced pick does not stamp the connection: not a step of Layer P")
        run.model_check(FAM, "P2cImpl", "P2cImplBugNonAtomic.cfg", workers=2, expect="violation",
                        note="inflight-- as load;store: lost update (IConservation)")
        run.model_check(FAM, "P2cImpl", "P2cImplBugNoCas.cfg", workers=2, expect="violation",
                        note="statistics without the CompareAndSwap on the stamp: two loggers in one interval")
        run.model_check(FAM, "P2cImpl", "P2cImplStarve.cfg", workers=2, expect="violation",
                        note="the code returns the MORE loaded candidate whenever both are overdue (documented, "
                             "allowed by Layer P: the comment does not say which one is forced)")
    if on("replay"):
        # spec -> code: one history per reachable state of P2cImpl (2 connections) + simulated longer ones
        plans = []
        for cfg, n, t0, sim in GENS:
            args = ["-simulate", "num=%d" % 250, "-depth", "600", "-seed", str(run.seed)] if sim else []
            beh = run.generate(FAM, "P2cImpl", cfg, workers=1, args=args)
            plans += _plans(run, beh, n, t0)
        run.evaluations += len(plans)
        tr = run.go_driver(PKG, DRV, "TestVerifExtp2cReplay$", inp=plans)
        run.validate(FAM, TR[0], TR[1], tr, label="ext-p2c-replay")
    if on("random"):
        # code -> spec: seeded random sequential histories
        tr = run.go_driver(PKG, DRV, "TestVerifExtp2cRandom$")
        n0 = run.traces
        run.validate(FAM, TR[0], TR[1], tr, label="ext-p2c-random")
        run.evaluations += run.traces - n0
    if on("conc"):
        # code -> spec: rounds of parallel Pick / done
        tr = run.go_driver(PKG, DRV, "TestVerifExtp2cConcurrent$", cpu=4)
        n0 = run.traces
        run.validate(FAM, CTR[0], CTR[1], tr, label="ext-p2c-concurrent")
        run.evaluations += run.traces - n0
