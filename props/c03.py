"""C03 — rate limiters never grant more than the configured quota."""
import subprocess
import threading
import time

import vlib

LEVEL = "model_checking"
RULE = ("TLC explores the abstract period limiter (PeriodLimit.tla: per-key counter with a period opened by the first "
        "request) and the abstract token limiter (TokenBucket.tla: one shared whole-second bucket for all instances, "
        "per-instance fallback with a local bound) over all histories of Take / AllowN(n in {0,1,2,burst,burst+1}) / "
        "clock advances / store outage at every position / monitor recovery up to a length bound, checking the "
        "statement's bounds on an explicit grant log, and the implementation-shaped model TokenImpl.tla (the Lua "
        "script with its key ttl, the redisAlive flag, monitor and rescue limiter, several goroutines) against the "
        "abstract limiter; it prints one shortest history per distinct (state, last operation) and each is replayed on "
        "real PeriodLimit / TokenLimiter objects over miniredis (FastForward clock in lock-step with the `now` "
        "argument, error-reply and closed-server outages); seeded long random histories ((period, quota) in [1,6]^2, "
        "(rate, burst) in [1,8]^2 and beyond including burst < rate/2) and rounds of simultaneous calls from 2..8 "
        "goroutines (callStart/callEnd, TLC finds the linearisation; store up, down, going down mid-round, callers "
        "one second apart) are added; Align() limiters built at another second of the aligned period than the one "
        "they are used in (every Take bracketed by two reads of the local wall-clock second, from which the "
        "specification computes the aligned window; store clock virtual, and in the thorough tier following real "
        "time over 3-4 periods) and outages that last 0..4 s of REAL time, after which the driver's own client proves "
        "the store reachable and logs how long an instance lingers in fallback mode (the specification accepts less "
        "than RecoverBound = 10 s); TokenMonitor.tla (real-time model of startMonitor/waitForRedis, outages of every "
        "length) and PeriodImpl.tla with Align() are model-checked against the abstract limiters; every recorded "
        "trace is validated by TLC. distinct = distinct operation "
        "histories executed (generated ones by content; random and concurrent ones by seed and index).")

FAM = "limit"
PKG = "core/limit"
DRV = ["zz_verif_limit_test.go", "zz_verif_tokenlimit_test.go", "zz_verif_periodlimit_test.go",
       "zz_verif_c03_wb_test.go", "zz_verif_c03_nowb_test.go"]


def check(run):
    thorough = run.tier == "thorough"
    run.assumptions += [
        "miniredis is a faithful Redis for EVAL/EVALSHA with INCRBY/EXPIRE/GET/SETEX (scripts run atomically under "
        "the store lock; SETEX with ttl 0 is an error as in Redis) and its keys expire only through FastForward",
        "the `now` passed to AllowN is kept in lock-step with the store's clock (FastForward); callers' clocks never "
        "run backwards; in the skew rounds concurrent callers are at most one second apart and the store's clock "
        "catches up before time moves on",
        "the path of a token call (store / fail / local) is what a go-redis hook on the limiter's client saw for "
        "that call's context; the client's circuit breaker is kept closed after an outage by moving go-zero's "
        "relative clock (timex.VerifNow) past its window, so a reachable store is never hidden by the breaker",
        "recovery of an instance is logged only when the driver saw redisAlive = 1 and the monitor gone with no call "
        "in flight",
        "REAL TIME (the monitor's 100 ms ticker cannot be virtualised without a hook): a goroutine with a 100 ms "
        "ticker gets to run and have one PING answered at least once while the driver's own client, in the same "
        "process, has had its PINGs answered for 10 s without a gap (only intervals of at most 150 ms between two "
        "successful probes are counted, so a stalled process earns nothing) and the client's breaker is kept closed; "
        "an instance found in fallback mode after that is reported as a violation (TokenBucket.tla RecoverBound)",
        "Align(): the limiter reads time.Now() (no hook); the local wall-clock second it saw lies between the two "
        "reads the driver makes just before and after the call (same zone offset, the wall clock is not stepped "
        "backwards during a call); the store's clock is FastForward "
        "(in the 'wall' traces: FastForward by the real time elapsed)",
        "local (fallback) answers are only held to the statement's bound burst + rate x elapsed per outage; "
        "denying locally is always accepted",
    ]
    # The design-level model checking and the conformance part are independent: they run side by side (one
    # thread each; 3 + 1 TLC workers in quick, 5 + 1 in thorough).
    run._spec_copy(FAM)
    lock = threading.Lock()
    tmp0 = run.tmp

    def tmp(name):
        with lock:
            return tmp0(name)
    run.tmp = tmp
    failure = []

    def design():
        try:
            design_level(run, thorough)
        except BaseException as ex:  # noqa
            failure.append(ex)
    th = threading.Thread(target=design)
    th.start()
    try:
        conformance(run, thorough)
    finally:
        th.join()
    if failure:
        raise failure[0]


def drive(run, *a, **kw):
    """go_driver; a run the drivers themselves discarded because a store command stalled for more than 2 s
    (machine too busy: go-redis would re-send the command) is repeated, at most twice."""
    for attempt in range(3):
        try:
            return run.go_driver(*a, **kw)
        except vlib.Infra as ex:
            if "machine too busy" not in str(ex) or attempt == 2:
                raise
            vlib.log("  NOTE driver run discarded (a store command stalled > 2 s on a busy machine); running it again")
            run.notes.append("a driver run was discarded (stalled store command) and repeated")


def skipped(run, tr, label):
    """A driver that could not run because its white-box accessors do not compile against this tree wrote one
    'info' event: nothing to validate; say so in the evidence."""
    import json as _json
    lines = [l for l in open(tr) if l.strip()]
    if lines and all(_json.loads(l).get("e") == "info" for l in lines):
        why = _json.loads(lines[0]).get("skipped", "")
        vlib.log("  NOTE %s: driver skipped itself (%s); not validated" % (label, why))
        run.notes.append("%s skipped: %s" % (label, why))
        run.extra.setdefault("skipped_drivers", []).append({"label": label, "why": why})
        return True
    return False


def design_level(run, thorough):
    w = 5 if thorough else 3
    # ---- design level
    run.model_check(FAM, "PeriodLimitMC", "PeriodLimitMC.cfg", workers=w,
                    note="abstract period limiter, 2 keys, (period,quota) in {(3,2),(2,1),(1,3)}, Align on/off with the wall "
                         "clock 0 / 0.4 / 1 / 2.6 s ahead of the store's, <= 7 ops, failed Takes may have been counted: "
                         "ExactlyQuota, PCanonical, AlignedEnd, AlignedQuota")
    run.model_check(FAM, "TokenMonitor", "TokenMonitorMC.cfg", workers=1,
                    note="real-time model of startMonitor / waitForRedis (one probe per 100 ms unit, at most 5 units "
                         "missed), outages of every length: Conforms (StoreFail / Linger / Recover of TokenBucket), "
                         "BackInTime (fallback mode ends within RecoverBound of the store being reachable), NeverStuck")
    run.model_check(FAM, "PeriodImpl", "PeriodImplAlign.cfg", workers=w,
                    note="Align(): window argument computed from the wall clock at every Take, then the atomic script; "
                         "2 goroutines, 3 Takes, (period,quota) in {(3,1),(2,2)}, wall clock 0 / 1.4 s ahead, 2 clock "
                         "steps of 0.4 s / 1 s / period between any two steps, checked step by step against PeriodLimit")
    run.model_check(FAM, "TokenBucketMC", "TokenBucketMC.cfg", workers=w,
                    note="abstract token limiter, 2 instances, (rate,burst) in {(2,1),(2,3),(5,2)}, <= 6 ops: "
                         "JointBound, LocalBound, FallbackNeedsOutage")
    run.model_check(FAM, "TokenImpl", "TokenImplMC.cfg", workers=w,
                    note="Lua script + key ttl + redisAlive/monitor/rescue limiter (both script fixes in), 2 goroutines "
                         "on 2 instances, (rate,burst) in {(2,3),(5,2)}, 3 calls, callers up to 1 s behind, checked step by "
                         "step against TokenBucket")
    run.model_check(FAM, "TokenImpl", "TokenImplMC3.cfg", workers=w, heap="4g",
                    note="3 goroutines on 2 instances (two share an instance), (rate,burst) = (5,2), 3 calls")
    bugs = [("TokenImpl", "TokenImplBugTtl.cfg",
             "ttl = floor(2*burst/rate) without a lower bound: SETEX 0 fails for burst < rate/2"),
            ("TokenImpl", "TokenImplBugTs.cfg",
             "the script stores the caller's second even if it is older than the stored one")]
    if thorough:
        bugs += [("TokenImpl", "TokenImplBugNil.cfg", "a refused request (nil reply) treated as a store error"),
                 ("TokenImpl", "TokenImplBugMon.cfg", "startMonitor clears redisAlive before looking at monitorStarted: "
                  "meeting a leaving monitor the instance is stuck in fallback mode (NeverStuck)"),
                 ("PeriodImpl", "PeriodImplBug.cfg", "INCRBY and EXPIRE as two commands"),
                 ("PeriodImpl", "PeriodImplBugFreeze.cfg", "Align(): the window argument computed once, when the limiter "
                  "object is built (cached script arguments): later periods are cut at the wrong second"),
                 ("TokenMonitor", "TokenMonitorBugCtx.cfg", "all probes of a monitor share one deadline 1 s after its "
                  "start: after an outage longer than that the instance never leaves fallback mode (BackInTime)")]
    for module, cfg, what in bugs:
        run.model_check(FAM, module, cfg, workers=2, expect="violation", note="documented counterexample: " + what)
    run.model_check(FAM, "PeriodImpl", "PeriodImplMC.cfg", workers=w,
                    note="atomic INCRBY+EXPIRE script, 3 goroutines, 5 Takes, outage and clock between any two steps, "
                         "checked step by step against PeriodLimit")
    if thorough:
        run.model_check(FAM, "PeriodLimitMC", "PeriodLimitMCx.cfg", workers=w,
                        note="abstract period limiter, 5 (period,quota) incl. quota 0, <= 9 ops, exact accounting")
        run.model_check(FAM, "PeriodImpl", "PeriodImplAlignX.cfg", workers=w,
                        note="as PeriodImplAlign.cfg with 4 Takes, 3 clock steps, wall clock 0 / 1.4 / 2.6 s ahead")
        run.model_check(FAM, "TokenBucketMC", "TokenBucketMC7.cfg", workers=w, note="as TokenBucketMC.cfg, <= 7 ops")
        run.model_check(FAM, "TokenBucketMC", "TokenBucketMCx.cfg", workers=w,
                        note="abstract token limiter, (rate,burst) in {(1,1),(3,1),(1,2),(3,4),(7,3)}, <= 6 ops")
        run.model_check(FAM, "TokenImpl", "TokenImplMC3c.cfg", workers=w, heap="4g",
                        note="as TokenImplMC.cfg with (rate,burst) in {(2,1),(2,3),(5,2)} and advances of 1 and 3 s")
        run.model_check(FAM, "TokenImpl", "TokenImplMC4.cfg", workers=w, timeout=1500, heap="4g",
                        note="4 calls, (rate,burst) = (5,2)")
    if thorough:
        apalache(run)


def conformance(run, thorough):
    # ---- spec -> code
    gens = [("PeriodLimitMC", "PeriodLimitGenX.cfg" if thorough else "PeriodLimitGen.cfg", "TestVerifPeriodReplay$",
             "PeriodLimitTrace", "period-replay",
             {"VERIF_PERIOD_KEYS": 2, "VERIF_PERIOD_CLOSED_EVERY": 500 if thorough else 0}),
            ("TokenBucketMC", "TokenBucketGenX.cfg" if thorough else "TokenBucketGen.cfg", "TestVerifTokenReplay$",
             "TokenBucketTrace", "token-replay",
             {"VERIF_TOKEN_N": 2, "VERIF_TOKEN_CLOSED_EVERY": 500 if thorough else 0})]
    if thorough:
        gens.append(("TokenBucketMC", "TokenBucketGenB.cfg", "TestVerifTokenReplay$", "TokenBucketTrace",
                     "token-replay-B", {"VERIF_TOKEN_N": 2, "VERIF_TOKEN_CLOSED_EVERY": 0}))
    for module, cfg, test, tmod, label, env in gens:
        beh = run.generate(FAM, module, cfg, workers=1)
        for b in beh:
            run.distinct.add((label, str(b)))
        run.evaluations += len(beh)
        tr = drive(run, PKG, DRV, test, inp=beh, env=env, timeout=900)
        if skipped(run, tr, label):
            continue
        run.validate(FAM, tmod, tmod + ".cfg", tr, label=label, heap="3g", dfs=True)
    # ---- code -> spec
    if thorough:
        drivers = [("TestVerifPeriodAligned$", "PeriodLimitTrace", "period-aligned", None),
                   ("TestVerifTokenOutage$", "TokenBucketTrace", "token-outage", None),
                   ("TestVerifPeriodRandom$", "PeriodLimitTrace", "period-random", None),
                   ("TestVerifPeriodConcurrent$", "PeriodLimitTrace", "period-concurrent", "2,8"),
                   ("TestVerifTokenRandom$", "TokenBucketTrace", "token-random", None),
                   ("TestVerifTokenConcurrent$", "TokenBucketTrace", "token-concurrent", "2,8")]
    else:
        drivers = [("TestVerifPeriod(Aligned|Random|Concurrent)$", "PeriodLimitTrace",
                    "period-aligned+random+concurrent", "4"),
                   ("TestVerifToken(Outage|Random|Concurrent)$", "TokenBucketTrace",
                    "token-outage+random+concurrent", "4")]
    # while the ts-regress defect is recorded as an OPEN known finding every trace that shows it is re-validated
    # several times (with and without the deviation): keep the number of such traces small
    kf_open = any(f.get("status") == "open" and f.get("deviation") == "KF_TokenTsRegress" for f in run.findings)
    env = {"VERIF_TOKEN_SKEW_EVERY": (12 if not thorough else 40) if kf_open else 1}
    for test, tmod, label, cpu in drivers:
        tr = drive(run, PKG, DRV, test, cpu=cpu, timeout=900, env=env)
        if skipped(run, tr, label):
            continue
        n0 = run.traces
        run.validate(FAM, tmod, tmod + ".cfg", tr, label=label, heap="3g", dfs=True)
        run.evaluations += run.traces - n0
        for i in range(run.traces - n0):
            run.distinct.add((label, run.seed, i))


def apalache(run):
    """Bonus (thorough): Apalache proves 'exactly the first quota requests of a period are granted, the quota-th
    flagged' inductive for ALL periods, quotas, clock values and advances (2 keys). Never part of the verdict:
    any trouble is only noted."""
    d = run._spec_copy(FAM)
    t = time.time()
    results = []
    try:
        for init, inv, length in (("IndInit", "IndInv", "0"), ("IndInv", "IndInv", "1"),
                                  ("IndInv", "ExactlyQuota", "0")):
            p = subprocess.run(["timeout", "-k", "5", "300", "apalache-mc", "check", "--init=" + init, "--inv=" + inv,
                                "--next=IndNext", "--length=" + length,
                                "--out-dir=" + run.tmp("apalache"), "PeriodLimitInd.tla"],
                               cwd=d, stdout=subprocess.PIPE, stderr=subprocess.STDOUT, text=True, errors="replace")
            ok = p.returncode == 0 and "The outcome is: NoError" in p.stdout
            results.append("%s=>%s:%s" % (init, inv, "ok" if ok else "rc=%d" % p.returncode))
            if not ok:
                break
    except Exception as ex:  # noqa
        results.append("not run: %s" % ex)
    note = "apalache inductive check (bonus, not the verdict): " + ", ".join(results)
    run.notes.append(note)
    run.extra["apalache"] = {"result": results, "wall_s": round(time.time() - t, 1)}
    vlib.log("  APALACHE %s  %.1fs" % (", ".join(results), time.time() - t))


LEVEL_TEXT = ("Exhaustive TLC model checking (length-bounded) of the abstract period and token limiters with the "
              "statement's bounds as invariants over an explicit grant log, and of the implementation-shaped model "
              "of the token script / fallback machinery against the abstract limiter, plus conformance: every "
              "TLC-reachable (state, operation) replayed on the real limiters over miniredis, long random histories "
              "and concurrent rounds, each trace validated by TLC against PeriodLimit.tla / TokenBucket.tla.")
LEVEL_NOTE = ("Trusted: TLC/SANY, the Go toolchain, miniredis (script atomicity, ttl by FastForward, SETEX 0 rejected), "
              "the go-redis hook that classifies a call's path, the emitter's ordering, and for the one real-time "
              "verdict (an instance still in fallback mode after the driver's own client has seen the store answer "
              "for 10 s) that the Go scheduler runs a 100 ms ticker goroutine within that time. Not covered: real "
              "Redis and cluster mode, a zone offset that changes during a run (Align()), callers whose clock runs "
              "backwards or is more than a second away from the store's, rates for which time.Second/rate is 0.")
TECHNIQUE = ("TLA+ specs (PeriodLimit, TokenBucket / TokenImpl, PeriodImpl), TLC model checking, TLC-generated "
             "(state, operation) cover replay + TLC trace validation with inferred linearisation points")
DESIGN_REF = "DESIGN.md Part B C03"


def replay(run, path):
    first = ""
    with open(path) as fh:
        for ln in fh:
            if '"e": "reset"' in ln or '"e":"reset"' in ln:
                first = ln
                break
    if '"period"' in first:
        run.replay(FAM, "PeriodLimitTrace", "PeriodLimitTrace.cfg", path, dfs=True)
    else:
        run.replay(FAM, "TokenBucketTrace", "TokenBucketTrace.cfg", path, dfs=True)
