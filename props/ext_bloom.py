"""Extension bloom (advisory; host C19): core/bloom -- the redis-backed bloom filter (Add / Exists on a key of a
shared store) -- behaviour beyond the listed properties.

Layer P  specs/bloom/Bloom.tla      a filter is a set of <<element, geometry>> pairs per key with an over-approximating
                                    membership test: no false negative, an empty filter is empty, the answer is a
                                    monotone function of the set (order / multiplicity / which Filter object asks /
                                    clear-and-refill do not matter), filters sharing a key share the set, Del / Expire
                                    (+ the store's clock) clear it as a whole, adding never touches the expiry; an
                                    out-of-range offset and a store that is down give an error and change nothing, a
                                    healthy store never errs; the argument slice is only read
         specs/bloom/BloomMC.tla    the most permissive machine obeying the law (satisfiable, consistent) + generation
Layer I  specs/bloom/BloomImpl.tla  bloom.go + the two Lua scripts over explicit bits for arbitrary hash tables, every
                                    interleaving of 2 calls, clock, faults: refines Layer P; wrong variants
         specs/bloom/BloomBits.tla  what the bits of a key may look like when nothing is known about the hash function
                                    but "at most 14 positions below bits per element, always the same ones"
"""
import json
import os
import random

HOST = "C19"
WHAT = ("core/bloom redis-backed bloom filter: Add/Exists as a set with an over-approximating membership test per key -- "
        "no false negative, an empty filter is empty, the answer is a monotone function of the set of (element, bits) "
        "pairs added since the key was last cleared (independent of order, multiplicity, which Filter object asks); "
        "Filters sharing a key share the set, different bits = different positions; Del / Expire + the store's clock "
        "clear a key as a whole, adding never changes the expiry; an out-of-range offset (>= bits) and a store that is "
        "down are reported as errors and change nothing, a healthy store never errs; linearizable under concurrent "
        "Add/Exists/Del/Expire and at the granularity of store commands; the caller's slice is only read; white-box: "
        "every element owns <= 14 fixed bit positions below bits, Add sets exactly those, Exists = all of them set")
QUICK = False
FAM = "bloom"
PKG = "core/bloom"
DRV = ["zz_verif_ext_bloom_test.go"]
COV = ["-coverage", "1"]      # the evidence lists actions never taken per config

TR = ("BloomTrace", "BloomTrace.cfg")
BTR = ("BloomBitsTrace", "BloomBitsTrace.cfg")

KF_ARG = {
    "property": HOST, "status": "open", "deviation": "KF_ArgClobbered",
    "what": ("[extension bloom, advisory] bloom.Filter.getLocations hashes append(data, byte(i)): when the caller's slice "
             "has spare capacity the byte behind it is overwritten (Add(buf[:4]) on \"abcdefgh\" leaves \"abcd\\rfgh\"), and "
             "concurrent Add/Exists calls given sub-slices of one buffer compute bit positions from each other's "
             "scribbling: an acknowledged Add can miss bits, the element then tests absent (false negative) for good; "
             "fix: proposed/ext-bloom-fix.diff (hash a private copy)"),
}


def _with_finding(run, fn):
    """validate with this extension's own known finding (not in known_findings.json: that file belongs to the listed
    properties).  The deviation is enabled only for a trace TLC rejected under the specification proper."""
    saved_f, saved_k = run.findings, list(run.known)
    run.findings = [KF_ARG]
    try:
        fn()
    finally:
        new = [k for k in run.known if k not in saved_k]
        run.findings, run.known = saved_f, saved_k
        if new:
            run.extra.setdefault("extension_findings", []).extend(new)


def check(run):
    only = set(x for x in os.environ.get("VERIF_EXT_BLOOM_ONLY", "").split(",") if x)   # development: parts to run

    full = os.environ.get("VERIF_EXT_BLOOM_FULL", "") == "1"    # also the configs left out to stay within the budget

    def on(part):
        return not only or part in only

    if on("mc"):
        run.model_check(FAM, "BloomMC", "BloomMC.cfg", workers=4, args=COV,
                        note="Layer P alone, 2 Filter objects on one key, 2 elements, 3 calls (2 overlapping), faults, "
                             "clock: the law is satisfiable in every state (Progress), answers stay consistent "
                             "(AnswersOK), errors change nothing, only Del/Expire/clock shrink a set and only to empty, "
                             "Add keeps the ttl")
        if full:
            run.model_check(FAM, "BloomMC", "BloomMCGeo.cfg", workers=4, args=COV,
                            note="Layer P alone, 3 filters on one key in two geometries, 2 calls, 2 faults / clock steps")
        run.model_check(FAM, "BloomImpl", "BloomImplMC.cfg", workers=4, args=COV,
                        note="bloom.go + Lua scripts over bits, colliding hash table, 3 filters / 2 geometries, every "
                             "interleaving of 3 calls (2 overlapping), clock, faults: Law (refines Layer P), "
                             "Correspondence, AnswersAreBits")
        run.model_check(FAM, "BloomImpl", "BloomImplMCAll.cfg", workers=4, args=COV,
                        note="one call at a time, for EVERY hash table of 2 elements in 3 bits (<= 2 positions each), 3 calls")
        for cfg, w in (("BloomImplBug_pipeline.cfg", "Add as one SETBIT per command: a Del in between loses an "
                                                      "acknowledged element (AckedPresent)"),
                       ("BloomImplBug_offbyone.cfg", "buildOffsetArgs refuses offset > bits instead of >= bits"),
                       ("BloomImplBug_swallow.cfg", "check() reports store errors as (false, nil)"),
                       ("BloomImplBug_cacheyes.cfg", "Filter-local memory of positive answers: stale yes after Del")):
            if "swallow" in cfg and not full:
                continue
            run.model_check(FAM, "BloomImpl", cfg, workers=2, expect="violation", note="documented counterexample: " + w)
        run.model_check(FAM, "BloomBitsMC", "BloomBitsMC.cfg", workers=4, args=COV,
                        note="the bit-level observer against bit-level filters for every hash table of 3 elements in 3 "
                             "bits, histories of any length: never rejects (Okay), its bracket holds the row (Sound), "
                             "learns a row exactly from an Add into an empty key")
        if full:
            run.model_check(FAM, "BloomBitsMC", "BloomBitsMC2.cfg", workers=4, args=COV,
                            note="the same, 1 element through geometries 2, 3, 4 on one key")
            run.model_check(FAM, "BloomBitsMC", "BloomBitsBug_extra.cfg", workers=2, expect="violation",
                            note="documented counterexample: Add turns on a position the element does not own")
        run.model_check(FAM, "BloomBitsMC", "BloomBitsBug_firstbit.cfg", workers=2, expect="violation",
                        note="documented counterexample: Exists looks at one position only - the observer rejects")
    if on("replay"):
        # spec -> code: one shortest history per distinct transition (state, operation, state) of Layer P, <= 4 operations:
        # all of those with <= 3 operations, a seeded sample of the rest
        beh = run.generate(FAM, "BloomMC", "BloomGen.cfg", workers=1)
        short = [b for b in beh if len(b) <= 3]
        rest = [b for b in beh if len(b) > 3]
        rnd = random.Random(run.seed * 7919 + 19)
        beh = short + rnd.sample(rest, min(len(rest), 200))
        for b in beh:
            run.distinct.add(("bloom-replay", json.dumps(b, sort_keys=True)))
        run.evaluations += len(beh)
        tr = run.go_driver(PKG, DRV, "TestVerifExtbloomReplay$", inp=beh)
        run.validate(FAM, TR[0], TR[1], tr, label="ext-bloom-replay")
        if on("bits"): run.validate(FAM, BTR[0], BTR[1], tr, label="ext-bloom-replay-bits")
    if on("random"):
        # code -> spec: seeded random sequential histories
        tr = run.go_driver(PKG, DRV, "TestVerifExtbloomRandom$")
        n0 = run.traces
        run.validate(FAM, TR[0], TR[1], tr, label="ext-bloom-random")
        run.evaluations += run.traces - n0
        if on("bits"): run.validate(FAM, BTR[0], BTR[1], tr, label="ext-bloom-random-bits")
    if on("conc"):
        # code -> spec: free-running rounds of parallel calls, and rounds interleaved command by command
        tr = run.go_driver(PKG, DRV, "TestVerifExtbloom(Concurrent|Sched)$", cpu=4)
        n0 = run.traces
        run.validate(FAM, TR[0], TR[1], tr, label="ext-bloom-concurrent+sched")
        run.evaluations += run.traces - n0
    if on("alias"):
        # the caller's buffer: spare capacity behind the argument, one sub-slice given to several calls at once
        tr = run.go_driver(PKG, DRV, "TestVerifExtbloomAlias$", cpu=4)
        n0 = run.traces
        _with_finding(run, lambda: run.validate(FAM, TR[0], TR[1], tr, label="ext-bloom-alias"))
        run.evaluations += run.traces - n0
