"""Extension specification "discovpub" (host C13, ADVISORY): the life cycle of core/discov.Publisher as a protocol
with the etcd client (Grant -> Put -> KeepAlive, Revoke on Stop / Pause / stream end, one re-registration attempt per
tick, Pause / Resume / Stop), driven against a fake internal.EtcdClient.  specs/discovpub/*."""
import json

import vlib  # lib/ is on sys.path (set up by ./check)

HOST = "C13"
WHAT = ("core/discov.Publisher life cycle as a protocol with the etcd client: Grant(TimeToLive) -> Put(key/<id|lease>, value, "
        "lease) -> KeepAlive(lease) in this order, one registration at a time, exactly one Revoke of the current lease per "
        "completed registration (stream end, Pause, Stop), nothing granted while paused or after Stop returned, Pause / "
        "Resume return only when a loop took them, one re-registration attempt per tick, no loop goroutine left after Stop")
QUICK = False
FAM = "discovpub"
PKG = "core/discov"
DRV = ["zz_verif_ext_discovpub_test.go"]
TR = ("PubTrace", "PubTrace.cfg")


def _maximal(behs):
    """A behaviour that is a proper prefix of another one is covered by replaying the longer one (the driver lets the
    library come to rest after every command and records it)."""
    ser = [tuple(json.dumps(c, sort_keys=True) for c in b) for b in behs]
    pref = set()
    for s in ser:
        for i in range(1, len(s)):
            pref.add(s[:i])
    return [b for b, s in zip(behs, ser) if s not in pref]


def _validate(run, tr, label):
    n0 = run.traces
    ok = run.validate(FAM, TR[0], TR[1], tr, label="ext-discovpub-" + label, split=150)
    run.evaluations += run.traces - n0
    return ok


def _first_trace(path, need):
    """The first recorded trace that contains an event of kind `need`."""
    cur, out = [], None
    for ln in open(path):
        if not ln.strip():
            continue
        if json.loads(ln).get("e") == "reset":
            if cur and any(json.loads(x)["e"] == need for x in cur):
                return cur
            cur = []
        cur.append(ln.strip())
    return cur if any(json.loads(x)["e"] == need for x in cur) else out


def _vacuity(run, path):
    """The binding is not vacuous: a recorded trace with one Revoke dropped / one rest observation falsified must be
    rejected by the specification."""
    t = _first_trace(path, "revoke")
    if not t:
        raise vlib.Infra("ext-discovpub: no recorded trace contains a revoke event")
    i = next(k for k, x in enumerate(t) if json.loads(x)["e"] == "revoke")
    dropped = t[:i] + t[i + 1:]
    ok, _, _ = run._validate_lines(FAM, TR[0], TR[1], dropped, 300, False)
    if ok:
        raise vlib.Infra("ext-discovpub: a trace with its Revoke removed was accepted (binding vacuous)")
    k = max(j for j, x in enumerate(t) if json.loads(x)["e"] == "rest")
    ev = json.loads(t[k])
    ev["loops"] = 1 - min(ev["loops"], 1)
    ok, _, _ = run._validate_lines(FAM, TR[0], TR[1], t[:k] + [json.dumps(ev)] + t[k + 1:], 300, False)
    if ok:
        raise vlib.Infra("ext-discovpub: a trace with a falsified final rest observation was accepted (binding vacuous)")
    run.notes.append("ext discovpub: non-vacuity: a recorded trace without its Revoke event and one with a falsified "
                     "final rest observation are both rejected by PubTrace")
    vlib.log("  ext-discovpub: corrupted traces rejected (revoke dropped, rest falsified)")


def check(run):
    cov = ["-coverage", "1"]
    run.assumptions += [
        "ext discovpub: KeepAlive() is called only while no renewing / re-registration loop of the same publisher runs "
        "and no other KeepAlive() call is in flight (the usage of the doc comments, readme and publisher_test.go)",
        "ext discovpub: the etcd client is a fake whose every call blocks until the driver answers it (ok / error, leases "
        "1, 2, 3, ...); leases abandoned after a failed Put / KeepAlive call are left to etcd's TTL (accepted, not demanded)",
        "ext discovpub: 'rest' observations are goroutine dumps (runtime.Stack) in which every goroutine attributed to the "
        "publisher (ancestry through goroutines that called the fake client) is parked; the one-second ticker of "
        "doKeepAlive is real time: the driver waits for it, the specification never asks for a bound",
    ]
    # ---- design level ----------------------------------------------------------------------------------
    run.model_check(FAM, "PubMC", "PubMC.cfg", workers=4, args=cov,
                    note="Layer P on its own: environment x most liberal publisher, 3 leases, WithId / no id; one "
                         "registration at a time, registered while renewing, clean while paused / after Stop; no dead event")
    run.model_check(FAM, "PubImpl", "PubImplMC.cfg", workers=4, args=cov,
                    note="publisher.go step by step (goroutines, pauseChan / resumeChan / quit, ticker) against the Layer-P "
                         "guards, every interleaving: 1 KeepAlive, 1 Pause, 1 Resume, 1 Stop, 1 failure, 1 stream end, 1 response")
    run.model_check(FAM, "PubImpl", "PubImplMC2.cfg", workers=4,
                    note="WithId, 2 KeepAlive calls, 2 stream ends")
    run.model_check(FAM, "PubImpl", "PubImplMC3.cfg", workers=4,
                    note="2 failures, 2 Pause, 2 Stop")
    run.model_check(FAM, "PubImpl", "PubImplBugPauseQuit.cfg", workers=2, expect="violation",
                    note="wrong variant: the paused select has no quit case -> a loop is left after Stop (Rest)")
    run.model_check(FAM, "PubImpl", "PubImplBugNoRevoke.cfg", workers=2, expect="violation",
                    note="wrong variant: stream ended, re-registration without Revoke (RevokeCurrent / OneAtATime)")
    run.model_check(FAM, "PubImpl", "PubImplBugNoChk.cfg", workers=2, expect="violation",
                    note="wrong variant: doKeepAlive does not look at quit -> registration after Stop returned (Stopped)")
    # ---- spec -> code: one command list per distinct quiescent state of the Layer-I model ----------------------
    jobs = []
    for cfg, pid in (("PubImplGen1.cfg", 0), ("PubImplGen2.cfg", 7)):
        behs = _maximal(run.generate(FAM, "PubImpl", cfg))
        for b in behs:
            jobs.append({"id": pid, "cmds": b})
    for j in jobs:
        run.distinct.add(("ext-discovpub-replay", json.dumps(j, sort_keys=True)))
    tr = run.go_driver(PKG, DRV, "TestVerifExtdiscovpubReplay$", inp=jobs, env={"VERIF_EXT_PUB_WORKERS": 64})
    _validate(run, tr, "replay")
    _vacuity(run, tr)
    # ---- code -> spec: seeded random command lists, callers / replies / stream ends race with the loops --------
    tr = run.go_driver(PKG, DRV, "TestVerifExtdiscovpubStress$",
                       env={"VERIF_EXT_PUB_RUNS": 320, "VERIF_EXT_PUB_WORKERS": 64})
    _validate(run, tr, "stress")
    tr = run.go_driver(PKG, DRV, "TestVerifExtdiscovpubStress$", cpu=2,
                       env={"VERIF_EXT_PUB_RUNS": 160, "VERIF_EXT_PUB_WORKERS": 32, "VERIF_EXT_PUB_SALT": 1})
    _validate(run, tr, "stress-2cpu")
