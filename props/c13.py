"""C13 — service discovery: a subscriber's view equals the live registrations."""
LEVEL = "model_checking"
RULE = ("TLC explores DiscovImpl (cluster.values + calculateChanges + container.values/mapping of core/discov) in "
        "lock-step with the abstract Discov spec over all put/update/delete/reload histories of 3 keys x 2 values "
        "and prints one shortest event history per distinct implementation state (thorough: also of the pre-fix "
        "algorithm); each is replayed on the real container, through the real Subscriber/Registry/cluster stack (fake "
        "etcd client) and on the real cluster with recording listeners; seeded random histories (in-place updates, "
        "shared values, identical re-puts, several events per watch response, compaction and reconnect reloads, late "
        "subscription) are added; discovBuilder.Build runs against an in-process etcd server with tables on both sides "
        "of 32; KubeEpImpl histories + random informer notification histories run on the real EventHandler; two gated "
        "schedules let a listener join while an event is delivered. Every recorded trace is validated by TLC. "
        "distinct = distinct event histories executed.")

FAM = "discov"
PKG = "core/discov"
DRV = ["zz_verif_discov_test.go"]


def _gen(run, cache, cfg, module="DiscovImpl"):
    if cfg not in cache:
        cache[cfg] = run.generate(FAM, module, cfg, workers=1)
    return cache[cfg]


def _drive(run, beh, pkg, drv, test, trace, label, split=400):
    """behaviours (TLC-generated) + the driver's own seeded histories -> trace -> TLC"""
    for b in beh:
        run.distinct.add((label, str(b)))
    n0 = run.traces
    tr = run.go_driver(pkg, drv, test, inp=beh if beh else None)
    run.validate(FAM, trace, trace + ".cfg", tr, label=label, split=split)
    extra = max(run.traces - n0 - len(beh), 0)
    for i in range(extra):
        run.distinct.add((label, "random", run.seed, i))
    run.evaluations += run.traces - n0


def check(run):
    thorough = run.tier == "thorough"
    run.assumptions += [
        "registry events are the events as they reach the subscriber (watch events in order; a reload replaces the table)",
        "keys registered by one snapshot have no order among themselves: for the exclusive rule any of them may be the latest",
        "fake etcd client / in-process etcd server deliver exactly what the driver feeds; unbuffered watch channel + "
        "second (empty) response as a barrier, compaction + snapshot as a barrier for asynchronous delivery",
        "UpdateListener protocol at the registry layer: OnAdd = upsert of the key, OnDelete = drop of the key",
        "kube: one Endpoints object per handler (kubeBuilder watches metadata.name=<service>); Update(...) is called "
        "directly only before the informer's first notification",
    ]
    # ---- design level
    run.model_check(FAM, "DiscovImpl", "DiscovImplMC.cfg", workers=4,
                    note="refinement DiscovImpl => Discov, fix (addKv unlinks, calculateChanges removes vanished keys only), "
                         "3 keys x 2 values, histories of any length")
    run.model_check(FAM, "DiscovImpl", "DiscovImplBug.cfg", workers=2, expect="violation",
                    note="pre-fix algorithm: put k a; put k b leaves a in the view")
    run.model_check(FAM, "KubeEpImpl", "KubeEpImplMC.cfg", workers=2,
                    note="EventHandler (OnAdd replaces, tombstones unwrapped) publishes exactly the current addresses")
    run.model_check(FAM, "KubeEpImpl", "KubeEpImplBug.cfg", workers=2, expect="violation",
                    note="EventHandler before the fix: Update(S0) then OnAdd(S1) publishes S0 u S1")
    run.model_check(FAM, "DiscovConc", "DiscovConcSerial.cfg", workers=2,
                    note="critical-section model of watcher + Registry.Monitor join: converges when the join does not overlap an event")
    run.model_check(FAM, "DiscovConc", "DiscovConcJoinRace.cfg", workers=2, expect="violation",
                    note="join overlapping an event: the joiner keeps a superseded entry or misses the event (KF_JoinRace)")
    if thorough:
        run.model_check(FAM, "DiscovImpl", "DiscovImplBugUnlinkOnly.cfg", workers=2, expect="violation",
                        note="addKv unlink alone: reload add-before-remove of a changed key drops it")
        run.model_check(FAM, "DiscovConc", "DiscovConcReload.cfg", workers=2, expect="violation",
                        note="outside C13: cluster.reload waits for the watcher with c.lock held -> deadlock with a response in hand")
        run.model_check(FAM, "DiscovImpl", "DiscovImplMCrmfirst.cfg", workers=8,
                        note="alternative repair (removes before adds) also refines")
        run.model_check(FAM, "DiscovImpl", "DiscovImplMC33.cfg", workers=8, note="3 keys x 3 values")
        run.model_check(FAM, "DiscovImpl", "DiscovImplMC42.cfg", workers=8, note="4 keys x 2 values")
        run.model_check(FAM, "KubeEpImpl", "KubeEpImplBugTomb.cfg", workers=2, expect="violation",
                        note="OnAdd replaces but tombstones ignored: a re-list delete leaves the addresses published")
        run.model_check(FAM, "KubeEpImpl", "KubeEpImplMC4.cfg", workers=4, note="4 addresses")
    # ---- spec -> code -> spec
    g = {}
    INT = "core/discov/internal"
    RES = "zrpc/resolver/internal"
    if thorough:
        cont = _gen(run, g, "DiscovImplGenC.cfg") + _gen(run, g, "DiscovImplGenOldC.cfg")
        stack = _gen(run, g, "DiscovImplGenS.cfg") + _gen(run, g, "DiscovImplGenOldS.cfg")
        clus = stack
    else:
        cont = _gen(run, g, "DiscovImplGenC.cfg")
        stack = _gen(run, g, "DiscovImplGenS.cfg")
        clus = stack
    _drive(run, cont, PKG, DRV, "TestVerifDiscovContainer$", "DiscovTrace", "container")
    _drive(run, stack, PKG, DRV, "TestVerifDiscovStack$", "DiscovTrace", "stack")
    _drive(run, clus, INT, ["zz_verif_cluster_test.go"], "TestVerifDiscovCluster$", "ClusterTrace", "cluster")
    # a listener joining while an event is being delivered (gated, deterministic)
    _drive(run, [], INT, ["zz_verif_cluster_test.go"], "TestVerifDiscovClusterJoin$", "ClusterTrace", "cluster-join")
    # the gRPC resolver: subset() directly, and discovBuilder.Build against an in-process etcd server
    _drive(run, [], RES, ["zz_verif_resolver_test.go"], "TestVerifResolver(Build|Subset)$", "DiscovTrace", "resolver")
    # the Kubernetes endpoints handler
    kube = _gen(run, g, "KubeEpImplGen.cfg", module="KubeEpImpl")
    KUBE = RES + "/kube"
    relist = [b for b in kube if any(o["op"] == "kset" or (o["op"] == "kdelete" and o["tomb"]) for o in b)]
    plain = [b for b in kube if b not in relist]
    _drive(run, plain, KUBE, ["zz_verif_kube_test.go"], "TestVerifKubeHandler$", "KubeEpTrace", "kube")
    _drive(run, relist, KUBE, ["zz_verif_kube_test.go"], "TestVerifKubeHandlerRelist$", "KubeEpTrace", "kube-relist")


LEVEL_TEXT = ("Exhaustive TLC model checking that the cluster/container algorithm refines the abstract subscriber view "
              "(3-4 keys x 2-3 values, histories of any length incl. reload snapshots), of the endpoints handler against "
              "the informer life cycle, and of a critical-section model of watcher/join/reload; plus conformance: every "
              "TLC-reachable implementation state is replayed on the real container, the real "
              "Subscriber/Registry/cluster stack and the real cluster, random histories are added, the resolver is built "
              "against an in-process etcd, and TLC validates every recorded trace against the Layer-P specs.")
LEVEL_NOTE = ("Trusted: TLC/SANY, the Go toolchain, the fake etcd client / in-process etcd server and the barriers "
              "described in the assumptions, etcd clientv3 and client-go informer semantics as modelled. Bounded: 4 keys "
              "x 2 values / 3 x 3 exhaustively at design level; real code sampled beyond. Not covered: Publisher "
              "(lease keep-alive / re-registration), kubeBuilder's own closure (needs a cluster), real connectivity "
              "flaps (cluster.reload is called directly), schedules other than the two gated join overlaps.")
TECHNIQUE = ("TLA+ specs (Discov/DiscovImpl/DiscovConc, KubeEp/KubeEpImpl), TLC refinement checks, TLC-generated "
             "state-cover replay + TLC trace validation (DiscovTrace, ClusterTrace, KubeEpTrace)")
DESIGN_REF = "DESIGN.md Part B C13"


def replay(run, path):
    import json
    head = json.loads(open(path).readline())
    mod = head.get("spec", "discov/DiscovTrace.tla").split("/")[-1][:-4] if head.get("e") == "header" else "DiscovTrace"
    run.replay(FAM, mod, mod + ".cfg", path)
