"""Extension fxretry (advisory; host C04): core/fx DoWithRetry / DoWithRetryCtx, core/errorx BatchError,
core/contextx ValueOnlyFrom -- behaviour beyond the listed properties."""
import json
import os
import random

HOST = "C04"
WHAT = ("retry helpers: fx.DoWithRetry/DoWithRetryCtx (attempt count, stop at first success, ignored errors, "
        "timeout / caller context end the call with the context error appended, errors aggregated in order, no "
        "goroutine left blocked), errorx.BatchError (Add/Err/NotNil, linearizable under concurrent use, Err is a "
        "snapshot), contextx.ValueOnlyFrom (values visible, deadline/cancellation detached) inside arbitrary "
        "context trees")
QUICK = False
FAM = "retry"

COV = ["-coverage", "1"]      # the evidence lists actions never taken (none: no dead action)
PKG_FX = "core/fx"
DRV_FX = ["zz_verif_ext_fxretry_test.go"]


def _plans(beh):
    """A TLC behaviour of Retry.tla -> the plan the driver executes: options, fn's script, where the caller
    cancels.  Plans in which the cancellation races with retry's select are run in both cancel modes."""
    seen, plans = set(), []
    for b in beh:
        c = b[0]
        script, cpos = [], -1
        for op in b[1:]:
            if op["op"] == "att":
                script.append(op["out"])
            elif op["op"] == "cancel":
                cpos = len(script)
        key = (json.dumps(c, sort_keys=True), tuple(script), cpos)
        if key in seen:
            continue
        seen.add(key)
        base = {"variant": c["variant"], "times": c["times"], "ivl": c["ivl"], "tmo": c["tmo"],
                "ign": list(c["ign"]), "pre": c["pre"], "script": script, "cancel": cpos, "mode": 0, "jitter": 0}
        plans.append(base)
        if cpos >= 1 and script[cpos - 1] != "hang":
            plans.append(dict(base, mode=1, jitter=len(plans) % 3))
    return plans


def _retry(run):
    # design level: retry.go's loop/select/goroutines (Layer I) against the observable law (Layer P)
    run.model_check(FAM, "RetryImpl", "RetryImplMC.cfg", workers=4, args=COV,
                    note="retry.go loop+select+attempt goroutines+environment: Refines Layer P, NoLeak; 405 option sets")
    run.model_check(FAM, "RetryImpl", "RetryImplLive.cfg", workers=4,
                    note="fairness: the call returns unless fn hangs; returns once the context has ended")
    run.model_check(FAM, "RetryImpl", "RetryImplBugNoBreak.cfg", workers=2, expect="violation",
                    note="ctx.Done case without return: attempts after an abandoned one")
    run.model_check(FAM, "RetryImpl", "RetryImplBugIgnoreRetry.cfg", workers=2, expect="violation",
                    note="ignored error retried instead of ending the call")
    run.model_check(FAM, "RetryImpl", "RetryImplBugUnbuffered.cfg", workers=2, expect="violation",
                    note="unbuffered errChan: abandoned attempt blocked for ever (NoLeak)")
    run.model_check(FAM, "RetryImpl", "RetryImplBugExtra.cfg", workers=2, expect="violation",
                    note="i <= times: one attempt too many")
    run.model_check(FAM, "RetryGen", "RetryMC.cfg", workers=4, args=COV,
                    note="Layer P alone: its predicates hold in every state (times up to 4)")
    # spec -> code
    beh = run.generate(FAM, "RetryGen", "RetryGen.cfg", workers=1)
    plans = _plans(beh)
    for p in plans:
        run.distinct.add(("fxretry-plan", json.dumps(p, sort_keys=True)))
    run.evaluations += len(plans)
    tr = run.go_driver(PKG_FX, DRV_FX, "TestVerifExtfxretryReplay$", inp=plans)
    run.validate(FAM, "RetryTrace", "RetryTrace.cfg", tr, label="ext-fxretry-replay")
    # code -> spec
    tr = run.go_driver(PKG_FX, DRV_FX, "TestVerifExtfxretryRandom$", env={"VERIF_EXT_CALLS": 2500})
    n0 = run.traces
    run.validate(FAM, "RetryTrace", "RetryTrace.cfg", tr, label="ext-fxretry-random")
    run.evaluations += run.traces - n0


PKG_EX = "core/errorx"
PKG_CX = "core/contextx"
DRV = ["zz_verif_ext_fxretry_test.go"]


def _batch(run):
    run.model_check(FAM, "BatchErrImpl", "BatchErrImplMC.cfg", workers=4, args=COV,
                    note="batcherror.go (slice + RWMutex, append = read then write) refines BatchErr, 3 goroutines")
    run.model_check(FAM, "BatchErrImpl", "BatchErrImplBugNoLock.cfg", workers=2, expect="violation",
                    note="Add without the lock: lost update")
    run.model_check(FAM, "BatchErrImpl", "BatchErrImplBugRLock.cfg", workers=2, expect="violation",
                    note="Add under the read lock: two appenders at once")
    beh = run.generate(FAM, "BatchErrGen", "BatchErrGen.cfg", workers=1)
    for b in beh:
        run.distinct.add(("batcherr", json.dumps(b, sort_keys=True)))
    run.evaluations += len(beh)
    tr = run.go_driver(PKG_EX, DRV, "TestVerifExtfxretryBatchReplay$", inp=beh)
    run.validate(FAM, "BatchErrTrace", "BatchErrTrace.cfg", tr, label="ext-fxretry-batch-replay")
    tr = run.go_driver(PKG_EX, DRV, "TestVerifExtfxretryBatch(Random|Concurrent)$")
    n0 = run.traces
    run.validate(FAM, "BatchErrTrace", "BatchErrTrace.cfg", tr, label="ext-fxretry-batch-random", dfs=True)
    run.evaluations += run.traces - n0


KF_CAUSE = {
    "property": HOST, "status": "open", "deviation": "KF_ValueOnlyCauseLeak",
    "what": ("[extension fxretry, advisory] contextx.ValueOnlyFrom(c) does not detach context.Cause: after c (or an "
             "ancestor) is cancelled, Err() of the value-only context and of WithValue contexts derived from it is nil "
             "but context.Cause returns the ancestor's cancellation error (the cancelCtx lookup key passes through the "
             "embedded Context's Value); fix: proposed/ext-fxretry-fix.diff (context.WithoutCancel)"),
}


def _ctx(run):
    run.model_check(FAM, "ValueCtxGen", "ValueCtxMC.cfg", workers=4, args=COV,
                    note="every tree of 4 contexts x 2 cancels: Detached, ValuesKept, scope cut (EndedForAReason), ...")
    run.model_check(FAM, "ValueCtxGen", "ValueCtxBugDone.cfg", workers=2, expect="violation",
                    note="ValueOnlyFrom delegating Done/Err")
    run.model_check(FAM, "ValueCtxGen", "ValueCtxBugDeadline.cfg", workers=2, expect="violation",
                    note="ValueOnlyFrom delegating Deadline")
    beh = run.generate(FAM, "ValueCtxGen", "ValueCtxGen3.cfg", workers=1)
    beh4 = run.generate(FAM, "ValueCtxGen", "ValueCtxGen4.cfg", workers=1)
    rnd = random.Random(run.seed * 7919 + 4)
    beh += rnd.sample(beh4, min(len(beh4), 1500))
    for b in beh:
        run.distinct.add(("valuectx", json.dumps(b, sort_keys=True)))
    run.evaluations += len(beh)
    tr = run.go_driver(PKG_CX, DRV, "TestVerifExtfxretryCtxReplay$", inp=beh)
    run.validate(FAM, "ValueCtxTrace", "ValueCtxTrace.cfg", tr, label="ext-fxretry-ctx-replay")
    tr = run.go_driver(PKG_CX, DRV, "TestVerifExtfxretryCtxRandom$")
    n0 = run.traces
    run.validate(FAM, "ValueCtxTrace", "ValueCtxTrace.cfg", tr, label="ext-fxretry-ctx-random")
    run.evaluations += run.traces - n0
    # context.Cause: a known finding of this extension (not in known_findings.json: that file belongs to the
    # listed properties).  The deviation is enabled for these few traces only, and only after TLC rejected them.
    tr = run.go_driver(PKG_CX, DRV, "TestVerifExtfxretryCtxCause$")
    saved_f, saved_k = run.findings, list(run.known)
    run.findings = [KF_CAUSE]
    try:
        run.validate(FAM, "ValueCtxTrace", "ValueCtxTrace.cfg", tr, label="ext-fxretry-ctx-cause")
    finally:
        new = [k for k in run.known if k not in saved_k]
        run.findings, run.known = saved_f, saved_k
        if new:
            run.extra.setdefault("extension_findings", []).extend(new)


def check(run):
    only = os.environ.get("VERIF_EXT_FXRETRY_ONLY", "")
    if only in ("", "retry"):
        _retry(run)
    if only in ("", "batch"):
        _batch(run)
    if only in ("", "ctx"):
        _ctx(run)
