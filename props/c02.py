"""C02 — adaptive load shedder: sheds only when overloaded (or hot) and over 10 % of the capacity
estimate, does shed when overloaded with count and average above the estimate, conserves the
in-flight count, a nop shedder never sheds."""
LEVEL = "model_checking"
RULE = ("TLC explores ShedderImpl (bucket ring with lazy expiry + shouldDrop/highThru/stillHot of "
        "adaptiveshedder.go, every overload factor in {0.1, 0.5, 1}) in lock-step with the law Shedder.tla and "
        "prints one operation history per distinct reachable state; each is replayed on the real shedder under "
        "the virtual clock with the CPU verdict injected. Added: seeded long sequential histories over 11+ "
        "(buckets, bucket length, cpu threshold) geometries incl. the default one, a ShedderGroup with a decoy key "
        "and a disabled (nop) shedder, with in-flight targets wandering around the capacity estimate and gaps "
        "placed on bucket edges, window lengths and the 1 s cool-off boundary (+-1 ms); rounds of truly parallel "
        "Allow / Pass / Fail calls at a standing clock. Request level (both tiers): TLC explores ShedderWrapImpl (the "
        "control flow of the shedding middlewares -- Allow, handler ending ok / failure answer / other error / panic, "
        "deferred Pass|Fail, return -- over any lawful shedder, in lock-step with ShedderWrap.tla) and prints one "
        "request-level history per distinct reachable state; each is replayed through the real rest SheddingHandler "
        "(alone, in front of TimeoutHandler, in front of TimeoutHandler+RecoverHandler, with a disabled shedder) and the "
        "real zRPC UnarySheddingInterceptor (alone, inside Recover->Shedding->Timeout, with a disabled shedder) with "
        "gated handlers ending in 2xx/3xx/4xx/503/5xx/panic/abort resp. nil/DeadlineExceeded (bare, wrapped, joined)/"
        "other errors/status errors/panics/cancelled or expired contexts; plus seeded random request-level histories "
        "with failure-heavy and panic-heavy outcome profiles. Every recorded trace is validated by TLC against "
        "Shedder.tla resp. ShedderWrap.tla; distinct = distinct operation histories executed.")

import concurrent.futures
import os
import threading

import vlib

FAM = "shedder"
PKG = "core/load"
DRV = ["zz_verif_shedder_test.go"]
TR = ("ShedderTrace", "ShedderTrace.cfg")
WTR = ("ShedderWrapTrace", "ShedderWrapTrace.cfg")


def _split(tr, max_events):
    """Traces per TLC run such that no batch exceeds max_events lines.  TLC refuses behaviours of
    65536 or more states once its state queue spills to disk (seen with the branching traces of
    overlapping calls: reported as 'rejected in a batch, accepted alone'); one line is one state,
    an overlapping call adds up to three unlogged ones."""
    longest, n = 1, 0
    for ln in open(tr):
        if '"e":"reset"' in ln:
            longest, n = max(longest, n), 0
        n += 1
    return max(1, max_events // max(longest, n))


def _val(run, tr, label, kind, max_events=50000):
    n0 = run.traces
    ok = run.validate(FAM, TR[0], TR[1], tr, label=label, split=_split(tr, max_events))
    n = run.traces - n0
    run.evaluations += n
    for i in range(n):
        run.distinct.add((kind, label, run.seed, i))
    return ok


def _small_mcs(run, items):
    """Model-check small configurations four at a time, one TLC worker each.  Run.tmp hands out numbered
    scratch names; serialise it while several TLC runs are being set up."""
    lock = threading.Lock()
    orig = run.tmp

    def tmp(name):
        with lock:
            return orig(name)
    run.tmp = tmp
    try:
        with concurrent.futures.ThreadPoolExecutor(max_workers=4) as ex:
            futs = [ex.submit(run.model_check, FAM, mod, cfg, workers=1, expect=expect, note=note)
                    for mod, cfg, expect, note in items]
            errs = []
            for f in futs:
                try:
                    f.result()
                except vlib.Infra as e:       # report the first one after every run has ended
                    errs.append(e)
            if errs:
                raise errs[0]
    finally:
        del run.tmp


def check(run):
    thorough = run.tier == "thorough"
    run.assumptions += [
        "hook H1: timex.VerifNow replaces the clock of both rolling windows, of overloadTime and of the promise "
        "start time; the driver moves it only while no call is inside the library (whole milliseconds)",
        "the CPU verdict is injected through the package variable systemOverloadChecker; the overload factor "
        "(real stat.CpuUsage) is not controlled and not needed: the law only uses its bounds 0.1 and 1",
        "definitions fixed as in go-zero: buckets aligned to the creation instant, window = the nb-1 complete "
        "buckets before the current one, estimate = max(1, peak passes) x min bucket-average latency (1000 ms if "
        "empty) / bucket ms, at least 1; moving average 0.9/0.1 updated on every resolution (fixed point x1e5; "
        "'must shed' needs the average to clear the estimate by 2e-4; bucket averages may round either way; "
        "exact ties may go either way; exactly 1000 ms after the latest overloaded Allow either answer)",
        "white-box: flying / avgFlying are read after each call (through an exported accessor overlaid into core/load "
        "for the middleware drivers)",
        "request level: a recording shedder (wrapping the real one) logs the Allow / Pass / Fail the middleware performs; "
        "a shim around what the middleware calls as its handler logs, in a defer, how it ended (as observed); handlers "
        "are gated so that one thing happens at a time; contexts are ended by hand (no wall clock)",
        "request level: which of Pass / Fail a wrapper chooses is left free (the statement does not say); demanded: one "
        "Allow per request, the promise resolved exactly once, after the wrapper's handler ended (return, error or "
        "panic) and before the wrapper gives control back; in flight = handed out - resolved",
        "overlapping calls: only the 'sheds only if' half and conservation are demanded; the CPU verdict is "
        "constant within a burst (ShedderRaceMixed.cfg documents the design-level corner otherwise)",
        "harness emit order is one total order; aStart before / aEnd after the library call",
    ]
    w = 8 if thorough else 4
    # design level
    run.model_check(FAM, "ShedderMC", "ShedderMCt.cfg" if thorough else "ShedderMC.cfg", workers=w,
                    note="the law itself under an arbitrary environment incl. overlapping calls: envelope consistent, "
                         "conservation, no unjustified shed, nop never sheds")
    run.model_check(FAM, "ShedderImpl", "ShedderImplMC.cfg", workers=w,
                    note="ring + shouldDrop obey Shedder.tla for factors 0.1/0.5/1; NB=3, <=4 in flight, 7 ops")
    run.model_check(FAM, "ShedderImpl", "ShedderImplMC2.cfg", workers=w,
                    note="same with a large default estimate (the 10 % floor binds)")
    # the small configurations (each well under 20 000 states; the JVM start dominates): one TLC worker each,
    # four at a time -- the same four cores a 4-worker run would use
    small = [
        ("ShedderImpl", "ShedderImplBugNoFloor.cfg", "violation", "overload factor without its lower bound 0.1 violates Allowed"),
        ("ShedderImpl", "ShedderImplBugCurrent.cfg", "violation", "Reduce not ignoring the current bucket violates Agree"),
        ("ShedderRace", "ShedderRace.cfg", "ok",
         "non-atomic Allow, 3 overloaded calls + 2 resolutions racing: every shed linearisable, counter conserved"),
        ("ShedderRace", "ShedderRaceHot.cfg", "ok", "same, not overloaded but hot"),
        ("ShedderRace", "ShedderRaceCold.cfg", "ok", "same, cool-off expired"),
        ("ShedderRace", "ShedderRaceMixed.cfg", "violation",
         "design-level: mixed CPU verdicts across an expiring cool-off: a hot shed the law does not "
         "see (not reproduced on the code; the concurrent driver keeps the verdict constant per burst)"),
        ("ShedderWrapImpl", "ShedderWrapImplBugInline.cfg", "violation",
         "request level: resolution in line after handler() instead of in a defer: a panicking handler leaks its promise"),
    ]
    if thorough:
        small += [
            ("ShedderImpl", "ShedderImplBugOr.cfg", "violation", "shouldDrop with || instead of && violates Allowed"),
            ("ShedderImpl", "ShedderImplBugFailLeak.cfg", "violation", "Fail not decrementing violates Agree"),
            ("ShedderWrapImpl", "ShedderWrapImplBugDouble.cfg", "violation",
             "request level: Fail on a failure answer and the deferred Pass: resolved twice"),
            ("ShedderWrapImpl", "ShedderWrapImplBugEarly.cfg", "violation",
             "request level: promise passed before the handler has run"),
            ("ShedderWrapImpl", "ShedderWrapImplBugErrLeak.cfg", "violation",
             "request level: early return on a handler error skips the resolution"),
        ]
    _small_mcs(run, small)
    if thorough:
        run.model_check(FAM, "ShedderImpl", "ShedderImplMCt.cfg", workers=w, timeout=1500, note="same as MC, 8 ops")
    # spec -> code: one history per distinct reachable model state
    gens = [("ShedderImplGenAq.cfg", 250, -1000000000, "genA")]
    if thorough:
        gens = [("ShedderImplGenA.cfg", 250, -1000000000, "genA"), ("ShedderImplGenB.cfg", 250, 999, "genB"),
                ("ShedderImplGenC.cfg", 25, -1000000000, "genC")]
    for cfg, unit, thr, label in gens:
        beh = run.generate(FAM, "ShedderImpl", cfg, workers=1)
        for b in beh:
            run.distinct.add((label, str(b)))
        run.evaluations += len(beh)
        tr = run.go_driver(PKG, DRV, "TestVerifC02Replay$", inp=beh,
                           env={"VERIF_C02_UNIT": unit, "VERIF_C02_THR": thr, "VERIF_C02_NB": 3, "VERIF_C02_BD": 2})
        run.validate(FAM, TR[0], TR[1], tr, label="replay-" + label, split=_split(tr, 50000))
    # code -> spec
    env = {"VERIF_C02_HIST": 400, "VERIF_C02_LEN": 1000, "VERIF_C02_CHIST": 16, "VERIF_C02_ROUNDS": 50, "VERIF_C02_G": 5, "VERIF_C02_STORM": 30} \
        if thorough else \
          {"VERIF_C02_HIST": 46, "VERIF_C02_LEN": 500, "VERIF_C02_CHIST": 5, "VERIF_C02_ROUNDS": 32, "VERIF_C02_G": 4, "VERIF_C02_STORM": 25}
    tr = run.go_driver(PKG, DRV, "TestVerifC02Random$", env=env)
    _val(run, tr, "random", "history")
    tr = run.go_driver(PKG, DRV, "TestVerifC02Conc$", env=env)
    _val(run, tr, "concurrent", "history", max_events=25000)
    _wrappers(run, thorough, w)


def _wrappers(run, thorough, w):
    """Request level: the promise-resolution protocol of the REST / zRPC shedding middlewares."""
    # design level: the middleware control flow in lock-step with ShedderWrap.tla, on top of the law
    run.model_check(FAM, "ShedderWrapImpl", "ShedderWrapImplMCt.cfg" if thorough else "ShedderWrapImplMC.cfg", workers=w,
                    timeout=1500,
                    note="wrapper control flow (Allow; handler ends ok / failure answer / other error / panic; deferred "
                         "Pass|Fail; return) for interleaved requests over any lawful shedder: every admitted request "
                         "resolved exactly once after its handler ended and before the wrapper returns; in flight = "
                         "handed out - resolved = requests holding a promise; drained wrappers leave nothing in flight")
    # spec -> code -> spec: one request-level history per distinct reachable model state, replayed through the real
    # middlewares in every mode, plus seeded random request-level histories; validated against ShedderWrap.tla
    beh = run.generate(FAM, "ShedderWrapImpl", "ShedderWrapImplGent.cfg" if thorough else "ShedderWrapImplGen.cfg", workers=1)
    for b in beh:
        run.distinct.add(("genW", str(b)))
    run.evaluations += len(beh)
    exp = {os.path.join(vlib.REPO, "core/load/zz_verif_c02_export.go"):
           os.path.join(vlib.OVERLAY, "core/load/zz_verif_c02export_test.go")}
    env = {"VERIF_C02_WHIST": 40, "VERIF_C02_WLEN": 150} if thorough else {"VERIF_C02_WHIST": 12, "VERIF_C02_WLEN": 60}
    env["VERIF_C02_UNIT"] = 250
    for pkg, f, test, label in [
            ("rest/handler", "zz_verif_shedding_test.go", "TestVerifC02(WrapReplay|SheddingHandler)$", "rest-handler"),
            ("zrpc/internal/serverinterceptors", "zz_verif_shedding_test.go", "TestVerifC02(WrapReplay|Interceptor)$",
             "zrpc-server")]:
        tr = run.go_driver(pkg, [f], test, inp=beh, env=env, extra_overlay=exp)
        n0 = run.traces
        run.validate(FAM, WTR[0], WTR[1], tr, label=label)  # one event = one state: vlib bounds a batch at 25000 lines
        n = run.traces - n0
        run.evaluations += n
        for i in range(n):
            run.distinct.add(("wrapper", label, run.seed, i))


LEVEL_TEXT = ("Exhaustive TLC model checking of the law (Shedder.tla: envelope consistent, conservation, no "
              "unjustified shed, incl. overlapping calls), of the implementation model in lock-step with it "
              "(ShedderImpl: bucket ring with lazy expiry + shouldDrop for every overload factor, NB=3, <=4 in flight, "
              "7/8 operations), of the non-atomic Allow (ShedderRace) and of the middleware control flow in lock-step "
              "with the request-level law (ShedderWrapImpl / ShedderWrap: every admitted request resolved exactly once "
              "however its handler ends, in flight = handed out - resolved; 2-3 interleaved requests, 5-6 operations); "
              "plus conformance: TLC-generated state-cover histories replayed on the real shedder and through the real "
              "REST and zRPC shedding middlewares, long random sequential / truly parallel histories and random "
              "request-level histories, validated by TLC against Shedder.tla / ShedderWrap.tla.")
LEVEL_NOTE = ("Trusted: TLC/SANY, the Go toolchain, hook H1 (virtual clock), the harness emit order. The overload "
              "factor is not controlled: between 10 % and 100 % of the estimate any answer is accepted. Times are "
              "whole ms. Design level bounded to NB=3 buckets; real geometries (incl. 50 x 100 ms) are exercised "
              "through the real code only. For overlapping calls only the safety half and conservation are checked.")
TECHNIQUE = ("TLA+ law (Shedder, request level ShedderWrap) + implementation models in lock-step (ShedderImpl, "
             "ShedderWrapImpl) + race model (ShedderRace), TLC "
             "exhaustive checks, TLC-generated replay, TLC trace validation with inferred sense/decide/apply points")
DESIGN_REF = "DESIGN.md Part B C02"


def replay(run, path):
    # request-level traces (through the middlewares) belong to ShedderWrapTrace: the header of a replay file names
    # the module that rejected it; a bare trace is recognised by its hin events
    wrap = False
    with open(path) as fh:
        for ln in fh:
            if 'ShedderWrapTrace' in ln or '"e":"hin"' in ln.replace(" ", ""):
                wrap = True
                break
    m = WTR if wrap else TR
    run.replay(FAM, m[0], m[1], path)
