"""C02 — adaptive load shedder: sheds only when overloaded (or hot) and over 10 % of the capacity
estimate, does shed when overloaded with count and average above the estimate, conserves the
in-flight count, a nop shedder never sheds."""
LEVEL = "model_checking"
RULE = ("TLC explores ShedderImpl (bucket ring with lazy expiry + shouldDrop/highThru/stillHot of "
        "adaptiveshedder.go, every overload factor in {0.1, 0.5, 1}) in lock-step with the law Shedder.tla and "
        "prints one operation history per distinct reachable state; each is replayed on the real shedder under "
        "the virtual clock with the CPU verdict injected. Added: seeded long sequential histories over 11+ "
        "(buckets, bucket length, cpu threshold) geometries incl. the default one, a ShedderGroup with a decoy key "
        "and a disabled (nop) shedder, with in-flight targets wandering around the capacity estimate and gaps "
        "placed on bucket edges, window lengths and the 1 s cool-off boundary (+-1 ms); rounds of truly parallel "
        "Allow / Pass / Fail calls at a standing clock; (thorough) histories through rest SheddingHandler and the "
        "zRPC UnarySheddingInterceptor with gated handlers. Every recorded trace is validated by TLC against "
        "Shedder.tla; distinct = distinct operation histories executed.")

import os

import vlib

FAM = "shedder"
PKG = "core/load"
DRV = ["zz_verif_shedder_test.go"]
TR = ("ShedderTrace", "ShedderTrace.cfg")


def _split(tr, max_events):
    """Traces per TLC run such that no batch exceeds max_events lines.  TLC refuses behaviours of
    65536 or more states once its state queue spills to disk (seen with the branching traces of
    overlapping calls: reported as 'rejected in a batch, accepted alone'); one line is one state,
    an overlapping call adds up to three unlogged ones."""
    longest, n = 1, 0
    for ln in open(tr):
        if '"e":"reset"' in ln:
            longest, n = max(longest, n), 0
        n += 1
    return max(1, max_events // max(longest, n))


def _val(run, tr, label, kind, max_events=50000):
    n0 = run.traces
    ok = run.validate(FAM, TR[0], TR[1], tr, label=label, split=_split(tr, max_events))
    n = run.traces - n0
    run.evaluations += n
    for i in range(n):
        run.distinct.add((kind, label, run.seed, i))
    return ok


def check(run):
    thorough = run.tier == "thorough"
    run.assumptions += [
        "hook H1: timex.VerifNow replaces the clock of both rolling windows, of overloadTime and of the promise "
        "start time; the driver moves it only while no call is inside the library (whole milliseconds)",
        "the CPU verdict is injected through the package variable systemOverloadChecker; the overload factor "
        "(real stat.CpuUsage) is not controlled and not needed: the law only uses its bounds 0.1 and 1",
        "definitions fixed as in go-zero: buckets aligned to the creation instant, window = the nb-1 complete "
        "buckets before the current one, estimate = max(1, peak passes) x min bucket-average latency (1000 ms if "
        "empty) / bucket ms, at least 1; moving average 0.9/0.1 updated on every resolution (fixed point x1e5; "
        "'must shed' needs the average to clear the estimate by 2e-4; bucket averages may round either way; "
        "exact ties may go either way; exactly 1000 ms after the latest overloaded Allow either answer)",
        "white-box: flying / avgFlying are read after each call (reflect in the middleware drivers)",
        "overlapping calls: only the 'sheds only if' half and conservation are demanded; the CPU verdict is "
        "constant within a burst (ShedderRaceMixed.cfg documents the design-level corner otherwise)",
        "harness emit order is one total order; aStart before / aEnd after the library call",
    ]
    w = 8 if thorough else 4
    # design level
    run.model_check(FAM, "ShedderMC", "ShedderMCt.cfg" if thorough else "ShedderMC.cfg", workers=w,
                    note="the law itself under an arbitrary environment incl. overlapping calls: envelope consistent, "
                         "conservation, no unjustified shed, nop never sheds")
    run.model_check(FAM, "ShedderImpl", "ShedderImplMC.cfg", workers=w,
                    note="ring + shouldDrop obey Shedder.tla for factors 0.1/0.5/1; NB=3, <=4 in flight, 7 ops")
    run.model_check(FAM, "ShedderImpl", "ShedderImplMC2.cfg", workers=w,
                    note="same with a large default estimate (the 10 % floor binds)")
    run.model_check(FAM, "ShedderImpl", "ShedderImplBugNoFloor.cfg", workers=w, expect="violation",
                    note="overload factor without its lower bound 0.1 violates Allowed")
    run.model_check(FAM, "ShedderImpl", "ShedderImplBugCurrent.cfg", workers=w, expect="violation",
                    note="Reduce not ignoring the current bucket violates Agree")
    run.model_check(FAM, "ShedderRace", "ShedderRace.cfg", workers=w,
                    note="non-atomic Allow, 3 overloaded calls + 2 resolutions racing: every shed linearisable, counter conserved")
    run.model_check(FAM, "ShedderRace", "ShedderRaceHot.cfg", workers=w, note="same, not overloaded but hot")
    run.model_check(FAM, "ShedderRace", "ShedderRaceCold.cfg", workers=w, note="same, cool-off expired")
    run.model_check(FAM, "ShedderRace", "ShedderRaceMixed.cfg", workers=w, expect="violation",
                    note="design-level: mixed CPU verdicts across an expiring cool-off: a hot shed the law does not "
                         "see (not reproduced on the code; the concurrent driver keeps the verdict constant per burst)")
    if thorough:
        run.model_check(FAM, "ShedderImpl", "ShedderImplMCt.cfg", workers=w, timeout=1500, note="same as MC, 8 ops")
        run.model_check(FAM, "ShedderImpl", "ShedderImplBugOr.cfg", workers=w, expect="violation",
                        note="shouldDrop with || instead of && violates Allowed")
        run.model_check(FAM, "ShedderImpl", "ShedderImplBugFailLeak.cfg", workers=w, expect="violation",
                        note="Fail not decrementing violates Agree")
    # spec -> code: one history per distinct reachable model state
    gens = [("ShedderImplGenAq.cfg", 250, -1000000000, "genA")]
    if thorough:
        gens = [("ShedderImplGenA.cfg", 250, -1000000000, "genA"), ("ShedderImplGenB.cfg", 250, 999, "genB"),
                ("ShedderImplGenC.cfg", 25, -1000000000, "genC")]
    for cfg, unit, thr, label in gens:
        beh = run.generate(FAM, "ShedderImpl", cfg, workers=1)
        for b in beh:
            run.distinct.add((label, str(b)))
        run.evaluations += len(beh)
        tr = run.go_driver(PKG, DRV, "TestVerifC02Replay$", inp=beh,
                           env={"VERIF_C02_UNIT": unit, "VERIF_C02_THR": thr, "VERIF_C02_NB": 3, "VERIF_C02_BD": 2})
        run.validate(FAM, TR[0], TR[1], tr, label="replay-" + label, split=_split(tr, 50000))
    # code -> spec
    env = {"VERIF_C02_HIST": 400, "VERIF_C02_LEN": 1000, "VERIF_C02_CHIST": 16, "VERIF_C02_ROUNDS": 50, "VERIF_C02_G": 5, "VERIF_C02_STORM": 30} \
        if thorough else \
          {"VERIF_C02_HIST": 66, "VERIF_C02_LEN": 500, "VERIF_C02_CHIST": 8, "VERIF_C02_ROUNDS": 40, "VERIF_C02_G": 4, "VERIF_C02_STORM": 25}
    tr = run.go_driver(PKG, DRV, "TestVerifC02Random$", env=env)
    _val(run, tr, "random", "history")
    tr = run.go_driver(PKG, DRV, "TestVerifC02Conc$", env=env)
    _val(run, tr, "concurrent", "history", max_events=25000)
    if thorough:
        exp = {os.path.join(vlib.REPO, "core/load/zz_verif_c02_export.go"):
               os.path.join(vlib.OVERLAY, "core/load/zz_verif_c02export_test.go")}
        for pkg, f, test, label in [
                ("rest/handler", "zz_verif_shedding_test.go", "TestVerifC02SheddingHandler$", "rest-handler"),
                ("zrpc/internal/serverinterceptors", "zz_verif_shedding_test.go", "TestVerifC02Interceptor$", "zrpc-server")]:
            tr = run.go_driver(pkg, [f], test, extra_overlay=exp)
            _val(run, tr, label, "wrapper")


LEVEL_TEXT = ("Exhaustive TLC model checking of the law (Shedder.tla: envelope consistent, conservation, no "
              "unjustified shed, incl. overlapping calls), of the implementation model in lock-step with it "
              "(ShedderImpl: bucket ring with lazy expiry + shouldDrop for every overload factor, NB=3, <=4 in flight, "
              "7/8 operations) and of the non-atomic Allow (ShedderRace); plus conformance: TLC-generated state-cover "
              "histories replayed on the real shedder and long random sequential / truly parallel histories "
              "(thorough: also through the REST and zRPC shedding middlewares) validated by TLC against Shedder.tla.")
LEVEL_NOTE = ("Trusted: TLC/SANY, the Go toolchain, hook H1 (virtual clock), the harness emit order. The overload "
              "factor is not controlled: between 10 % and 100 % of the estimate any answer is accepted. Times are "
              "whole ms. Design level bounded to NB=3 buckets; real geometries (incl. 50 x 100 ms) are exercised "
              "through the real code only. For overlapping calls only the safety half and conservation are checked.")
TECHNIQUE = ("TLA+ law (Shedder) + implementation model in lock-step (ShedderImpl) + race model (ShedderRace), TLC "
             "exhaustive checks, TLC-generated replay, TLC trace validation with inferred sense/decide/apply points")
DESIGN_REF = "DESIGN.md Part B C02"


def replay(run, path):
    run.replay(FAM, TR[0], TR[1], path)
