"""C20 — goctl .api formatter preserves meaning and is idempotent; parser reports errors instead of crashing."""
import json
import os
import re
import threading
import time

import vlib

LEVEL = "exploration"
RULE = ("TLC enumerates the 'ready' states of the document builder of ApiDoc.tla: an abstract .api document "
        "(syntax/info/import single+grouped/type single+grouped with fields of every data-type shape, tags, "
        "anonymous and nested struct fields/service with @server, @doc, @handler, routes) plus a layout (one "
        "separator kind per token boundary: blanks, line breaks, line/block/multi-line comments above, trailing "
        "and inline) and the source text rendered by the spec. Families: kitchen-sink documents x every token "
        "boundary x every legal separator kind; uniform and pseudo-random layouts; all small multi-statement "
        "documents; bounded cartesian families; simulated large documents (thorough); invalid variants (1-4 "
        "tokens deleted, a token duplicated/swapped, text cut off behind a token; and below the token level "
        "the rendered text cut off at every character offset with nothing after it -- end of input inside every "
        "token and separator -- and, thorough, started at every offset, one character deleted / doubled at every "
        "offset, each with and without a final line break, plus texts with comments of every shape cut off at "
        "every offset); the area of the open known finding "
        "(line-ending / own-line comments between the tokens of a route) enumerated on its own: every such "
        "boundary x every such comment kind on the kitchen-sink services, uniform layouts over the whole "
        "service, and (thorough) all pairs on one-route services, every route shape of the rich pool and "
        "pseudo-random layouts. A case is distinct by its source text.")

FAM = "apifmt"
KF = "KF_RouteCommentLineBreak"
PKG = "pkg/parser/api/format"
DRV = os.path.join(vlib.VERIF, "harness", "overlay", "tools", "goctl", PKG, "zz_verif_apifmt_test.go")
STANDINS = os.path.join(vlib.VERIF, "harness", "goctl", "standins")


def _modfile(run):
    """goctl is a separate module whose dependencies are not all available offline: build it with
    an alternate modfile = its own go.mod + replaces for go-zero (the tree under check) and the two
    missing third-party modules (minimal local stand-ins)."""
    goctl = os.path.join(vlib.REPO, "tools", "goctl")
    src = os.path.join(goctl, "go.mod")
    if not os.path.exists(src):
        raise vlib.Infra("missing " + src)
    d = os.path.join(run.scratch, "goctlmod")
    os.makedirs(d, exist_ok=True)
    mod = open(src).read()
    mod = re.sub(r"(?m)^replace\s+github\.com/zeromicro/go-zero\s.*$", "", mod)
    mod += ("\nreplace github.com/zeromicro/go-zero => %s\n"
            "replace github.com/gookit/color => %s/color\n"
            "replace github.com/fatih/structtag => %s/structtag\n" % (vlib.REPO, STANDINS, STANDINS))
    with open(os.path.join(d, "alt.mod"), "w") as fh:
        fh.write(mod)
    sums = os.path.join(goctl, "go.sum")
    with open(os.path.join(d, "alt.sum"), "w") as fh:
        fh.write(open(sums).read() if os.path.exists(sums) else "")
    return goctl, os.path.join(d, "alt.mod")


class _Ahead:
    """The generation runs (no arguments other than the cfg) are done one after the other by one background
    thread while the main thread model-checks, compiles, drives and validates the families before them.  Nothing else changes: every result is picked up (and any
    failure re-raised) by the main thread at the place where the generation run would have happened."""

    def __init__(self, run, cfgs, workers):
        run._spec_copy(FAM)                       # the scratch copy of the specs exists before the thread starts
        lock, tmp = threading.Lock(), run.tmp

        def locked_tmp(name):
            with lock:
                return tmp(name)
        run.tmp = locked_tmp                      # Run.tmp numbers the scratch files: one caller at a time
        self.cfgs, self.res, self.err = list(cfgs), {}, None
        self.done = {c: threading.Event() for c in self.cfgs}

        def work():
            for c in self.cfgs:
                try:
                    if self.err is None:
                        self.res[c] = run.generate(FAM, "ApiDocGen", c, workers=workers, timeout=900)
                except BaseException as ex:       # noqa: handed to the main thread
                    self.err = ex
                self.done[c].set()
        self.thread = threading.Thread(target=work, daemon=True)
        self.thread.start()

    def take(self, cfg):
        self.done[cfg].wait()
        if cfg not in self.res:
            raise self.err if isinstance(self.err, vlib.Infra) else vlib.Infra("generation ahead failed for %s: %r" % (cfg, self.err))
        return self.res.pop(cfg)


_ahead = None


def _generate(run, cfg, workers, args, timeout):
    if _ahead is not None and cfg in _ahead.done and not args:
        return _ahead.take(cfg)
    return run.generate(FAM, "ApiDocGen", cfg, workers=workers, args=list(args), timeout=timeout)


def _family(run, goctl, modfile, cfg, label, workers=4, args=(), timeout=900, split=4000, dedupe=False):
    """cfg: one generation config, or a list of them (their cases share one driver run and one validation).
    dedupe: of the invalid cases with the same source text only the first is kept (documents with a common
    beginning share the texts cut off inside it)"""
    cfgs = cfg if isinstance(cfg, (list, tuple)) else [cfg]
    cases = []
    for c in cfgs:
        got = _generate(run, c, workers, args, timeout)
        if not got:
            raise vlib.Infra("no cases generated by " + c)
        cases += got
    cfg = "+".join(cfgs)
    if dedupe:
        texts, kept = set(), []
        for c in cases:
            if not c["valid"]:
                if c["src"] in texts:
                    continue
                texts.add(c["src"])
            kept.append(c)
        cases = kept
    seen = 0
    for i, c in enumerate(cases):
        c["id"] = i
        k = (c["src"],)
        if k not in run.distinct:
            run.distinct.add(k)
            seen += 1
    run.evaluations += len(cases)
    tr = run.go_driver(PKG, [DRV], "TestVerifApiFmt$", inp=cases, modfile=modfile, cwd=goctl,
                       env={"VERIF_APIFMT_WORKERS": 6 if run.tier == "thorough" else 4}, timeout=1500)
    run.validate(FAM, "ApiDocTrace", "ApiDocTrace.cfg", tr, label=label, split=split, timeout=1500)
    run.extra.setdefault("families", []).append(
        {"cfg": cfg, "cases": len(cases), "new_distinct_sources": seen,
         "valid": sum(1 for c in cases if c["valid"]), "invalid_variants": sum(1 for c in cases if not c["valid"])})


def _split_traces(path):
    """the traces of a recorded file: [(case id, [lines])]"""
    out = []
    for ln in open(path):
        ln = ln.strip()
        if not ln:
            continue
        e = json.loads(ln)
        if e.get("e") == "reset":
            out.append((e["id"], []))
        if not out:
            raise vlib.Infra("trace does not start with a reset event: " + path)
        out[-1][1].append(ln)
    return out


def _write_traces(run, traces, name):
    p = run.tmp(name)
    with open(p, "w") as fh:
        for _, lines in traces:
            fh.write("\n".join(lines) + "\n")
    return p


def _area_family(run, goctl, modfile, cfg, label, workers=4, args=(), crosscheck=0, revalidate=True):
    """A family inside the area of the open known finding KF_RouteCommentLineBreak.  Some of its cases
    are not idempotent on the unchanged tree; vlib classifies rejected traces one at a time (several TLC
    starts each), which does not scale to a family.  So TLC sorts the family first: one validation run
    of the whole recorded file with the deviation enabled (only if the finding is open in
    known_findings.json), in which ApiDocTrace prints the id of every case that passes through the
    deviation (KFUSED; the deviation is guarded by ~ReformatOK, so these are exactly the cases TLC rejects
    without it, and a case without KFUSED passed without it).  Then
      * revalidate: the cases that did not need it are validated again the standard way (no finding enabled);
      * the cases that needed it are excused by the open finding (KNOWN-FINDING line): TLC accepted them in
        the sorting run, in which everything but out2 = out1 is still demanded, in particular the meaning of
        format(src) and of format(format(src)); `crosscheck` of them also go through the standard path of
        vlib (rejected with no finding enabled, accepted with this one);
      * a trace the sorting run rejects although the deviation is enabled goes through the standard path on
        its own (-> VIOLATION) and the sorting run continues behind it."""
    cases = _generate(run, cfg, workers, args, 900)
    if not cases:
        raise vlib.Infra("no cases generated by " + cfg)
    seen = 0
    for i, c in enumerate(cases):
        c["id"] = i
        k = (c["src"],)
        if k not in run.distinct:
            run.distinct.add(k)
            seen += 1
    run.evaluations += len(cases)
    tr = run.go_driver(PKG, [DRV], "TestVerifApiFmt$", inp=cases, modfile=modfile, cwd=goctl,
                       env={"VERIF_APIFMT_WORKERS": 6 if run.tier == "thorough" else 4}, timeout=1500)
    traces = _split_traces(tr)
    if len(traces) != len(cases):
        raise vlib.Infra("%s: %d cases but %d recorded traces" % (label, len(cases), len(traces)))
    finding = [f for f in run.findings if f.get("status") == "open" and f.get("deviation") == KF]
    ff = run.tmp("findings-sort.json")
    with open(ff, "w") as fh:
        json.dump({"open": [KF] if finding else []}, fh)
    used, bad, rest, states, t0 = set(), [], traces, 0, time.time()
    while rest:
        tf = _write_traces(run, rest, "area-sort.ndjson")
        r = run.tlc(FAM, "ApiDocTrace", "ApiDocTrace.cfg", workers=1, timeout=1500, env={"TRACE": tf, "FINDINGS": ff})
        states += r["distinct"]
        used |= {int(x) for x in re.findall(r'<<\s*"KFUSED",\s*(\d+)\s*>>', r["out"])}
        if r["rc"] == 0 and "No error has been found" in r["out"]:
            break
        m = re.findall(r'<<\s*"HW",\s*(\d+)', r["out"])
        if not m:
            raise vlib.Infra("sorting run of %s failed without a position:\n%s" % (label, vlib.tail(r["out"], 40)))
        hw, n, at = int(m[-1]), 0, None
        for i, (_, lines) in enumerate(rest):
            n += len(lines)
            if hw <= n:
                at = i
                break
        if at is None:
            raise vlib.Infra("sorting run of %s: position %d outside the trace" % (label, hw))
        bad.append(rest[at])
        rest = rest[at + 1:]
        if len(bad) >= 3:
            break
    badids = {cid for cid, _ in bad}
    used -= badids
    if used and not finding:
        raise vlib.Infra("deviation %s used although the finding is not open" % KF)
    strict = [t for t in traces if t[0] not in used and t[0] not in badids]
    leaning = [t for t in traces if t[0] in used]
    vlib.log("  SORT %-27s %-26s %6d traces %8d events %5.1fs  hold=%d lean-on-%s=%d rejected=%d" %
             ("ApiDocTrace", label, len(traces), sum(len(x) for _, x in traces), time.time() - t0,
              len(strict), KF, len(leaning), len(bad)))
    run.mc.append({"spec": "%s/ApiDocTrace.tla" % FAM, "cfg": "ApiDocTrace.cfg",
                   "note": "trace validation (sorting run, %s): %s" % ("deviation enabled" if finding else "no finding enabled", label),
                   "distinct_states": states, "traces": len(traces), "events": sum(len(x) for _, x in traces)})
    via_validate = set(badids)           # traces counted by a run.validate call below
    if bad:
        # rejected although the deviation is enabled: the standard path decides (and reports)
        run.validate(FAM, "ApiDocTrace", "ApiDocTrace.cfg", _write_traces(run, bad, "area-bad.ndjson"),
                     label=label + "-rejected", timeout=1500)
        if len(bad) >= 3:
            vlib.log("  (stopping %s after %d rejected traces)" % (label, len(bad)))
            return
    if strict and revalidate:
        run.validate(FAM, "ApiDocTrace", "ApiDocTrace.cfg", _write_traces(run, strict, "area-strict.ndjson"),
                     label=label, split=4000, timeout=1500)
        via_validate |= {cid for cid, _ in strict}
    if leaning:
        txt = "KNOWN-FINDING: property=%s %s" % (run.pid, finding[0]["what"])
        if txt not in run.known:
            run.known.append(txt)
            vlib.log(txt)
        if crosscheck:
            run.validate(FAM, "ApiDocTrace", "ApiDocTrace.cfg",
                         _write_traces(run, leaning[:crosscheck], "area-known.ndjson"), label=label + "-known", timeout=1500)
            via_validate |= {cid for cid, _ in leaning[:crosscheck]}
    # traces TLC accepted in the sorting run that no run.validate call has counted
    counted = [t for t in traces if t[0] not in via_validate]
    run.traces += len(counted)
    run.events += sum(len(lines) for _, lines in counted)
    for _, lines in counted:
        for ln in lines:
            k = json.loads(ln)["e"]
            run.event_kinds[k] = run.event_kinds.get(k, 0) + 1
    run.extra.setdefault("families", []).append(
        {"cfg": cfg, "cases": len(cases), "new_distinct_sources": seen, "valid": len(cases), "invalid_variants": 0,
         "inside_known_finding_area": True, "hold_without_finding": len(strict),
         "idempotence_excused_by_open_finding": len(leaning), "rejected_with_finding_enabled": len(bad)})


def check(run):
    thorough = run.tier == "thorough"
    os.environ["VERIF_SEED"] = str(run.seed)          # read by ApiDocGen (EnvSeed) for the pseudo-random layouts
    run.assumptions += [
        "validity of a source = derivable from the grammar of ApiDoc.tla (Tokens/Legal); the spec's own claim "
        "'the real parser accepts it and yields Meaning(doc)' is checked on every valid case",
        "the projection of the real AST onto the abstract tree (apifmtMeaning in the driver) is trusted code; "
        "it is cross-checked by parse(src) = Meaning(doc) on every valid case",
        "goctl is built with an alternate modfile: its go.mod + replace go-zero => the tree under check + local "
        "stand-ins for gookit/color (no-op) and fatih/structtag (reflect.StructTag syntax); neither is on the "
        "parser/formatter path exercised here",
        "empty-string literals (import \"\", @doc \"\", k: \"\") and empty groups (import (), type ()) are outside "
        "the generated family: the formatter removes them on purpose (pinned by format_test.go)",
        "the area of the open known finding KF_RouteCommentLineBreak (line-ending / own-line comments between "
        "the tokens of a route) is covered by families of its own (ApiDocGenR*.cfg); there TLC sorts the recorded "
        "traces with the deviation enabled: cases that do not need it are validated with no finding enabled, "
        "the cases that need it are excused for format(format(src)) = format(src) only (meaning of both "
        "formatting runs is demanded from them too); the other families stay out of the area (Avoid = TRUE)",
        "crash = a Go panic recovered by the driver; os.Exit (log.Fatal on an empty source) and hangs are not "
        "observable (the run then ends as a broken check, exit 2)",
    ]
    goctl, modfile = _modfile(run)
    global _ahead
    _ahead = _Ahead(run, ["ApiDocGenA.cfg", "ApiDocGenB.cfg", "ApiDocGenT.cfg", "ApiDocGenT2.cfg", "ApiDocGenA2.cfg",
                          "ApiDocGenC.cfg", "ApiDocGenD.cfg", "ApiDocGenRq.cfg", "ApiDocGenRp.cfg", "ApiDocGenRd.cfg",
                          "ApiDocGenRr.cfg"] if thorough else
                    ["ApiDocGenAq.cfg", "ApiDocGenBq.cfg", "ApiDocGenTq.cfg", "ApiDocGenRq.cfg"],
                    workers=4 if thorough else 2)
    # design level: the generator itself (layout legality, canonical layout legality) on a small exhaustive family
    run.model_check(FAM, "ApiDoc", "ApiDocMC.cfg" if thorough else "ApiDocMCq.cfg", workers=4,
                    note="builder + every layout mode (incl. the area of the known finding) over the tiny pools, "
                         "2 statements: LayoutLegal, CanonicalLegal, MeaningShape, AreaSane")
    _family(run, goctl, modfile, "ApiDocGenA.cfg" if thorough else "ApiDocGenAq.cfg", "kitchen-sink")
    if thorough:
        _family(run, goctl, modfile, "ApiDocGenB.cfg", "adjacency")
        _family(run, goctl, modfile, ["ApiDocGenT.cfg", "ApiDocGenT2.cfg"], "damaged-text", workers=8, dedupe=True)
    else:
        _family(run, goctl, modfile, ["ApiDocGenBq.cfg", "ApiDocGenTq.cfg"], "adjacency+cut-off-text")
    if thorough:
        _family(run, goctl, modfile, "ApiDocGenA2.cfg", "kitchen-sink-random")
        _family(run, goctl, modfile, "ApiDocGenC.cfg", "cover-structures", workers=8)
        _family(run, goctl, modfile, "ApiDocGenD.cfg", "rich-single", workers=8)
        _family(run, goctl, modfile, "ApiDocGenS.cfg", "simulated-large", workers=1,
                args=["-simulate", "num=1500", "-depth", "60", "-seed", str(run.seed), "-deadlock"])
    # the area the configs above stay out of (Avoid = TRUE): comments that end / occupy a line between the
    # tokens of a route.  Meaning preservation is demanded there as everywhere; only non-idempotence is excused.
    _area_family(run, goctl, modfile, "ApiDocGenRq.cfg", "route-comments", crosscheck=1 if thorough else 0)
    if thorough:
        _area_family(run, goctl, modfile, "ApiDocGenRp.cfg", "route-comment-pairs", workers=8)
        _area_family(run, goctl, modfile, "ApiDocGenRd.cfg", "route-comments-rich", workers=8)
        _area_family(run, goctl, modfile, "ApiDocGenRr.cfg", "route-comments-random")


LEVEL_TEXT = ("Bounded exhaustive exploration: TLC enumerates abstract .api documents and layouts from the grammar "
              "in ApiDoc.tla (every token boundary x every separator/comment kind on kitchen-sink documents, all small "
              "multi-statement documents, bounded cartesian families, simulated large documents, and -- as families of "
              "their own -- line-ending / own-line comments between the tokens of a route, the area of an open known "
              "finding that excuses non-idempotence there and nothing else) and decides, per "
              "recorded run of the real parser and format.Source, Equivalent(parse(src), Meaning(doc)), "
              "Equivalent(parse(format(src)), parse(src)), format(format(src)) = format(src), "
              "Equivalent(parse(format(format(src))), parse(src)), and error-not-crash for mutated variants (token "
              "sequences and texts damaged at every character offset).")
LEVEL_NOTE = ("Weak fit (DESIGN.md Part C): no interesting state space; TLC is the generator and the evaluator of the "
              "relational property. Nothing is claimed about sources outside the generated family (other identifiers, "
              "literals, longer documents, empty-string literals, CRLF) nor about lexical fidelity of comments. The AST "
              "projection in the driver is trusted. goctl is built with an alternate modfile (stand-ins for two "
              "unavailable modules).")
TECHNIQUE = ("TLA+ grammar/unparser spec (ApiDoc) as TLC-driven exhaustive bounded generator + TLC trace validation of "
             "the real parser/formatter results against the protocol ParseOK/FormatOK/ReparseOK/ReformatOK/Reparse2OK")
DESIGN_REF = "DESIGN.md Part B C20, Part C (weak fit)"


def replay(run, path):
    """Re-run the recorded case(s) on the tree under check (the reset event carries the whole case:
    document, layout, mutation, source text) and validate the fresh trace."""
    import json
    cases = []
    for ln in open(path):
        ln = ln.strip()
        if not ln:
            continue
        e = json.loads(ln)
        if e.get("e") == "reset":
            cases.append({k: e[k] for k in ("id", "valid", "doc", "seps", "mut", "src")})
    if not cases:
        raise vlib.Infra("no reset event in " + path)
    goctl, modfile = _modfile(run)
    run.evaluations += len(cases)
    tr = run.go_driver(PKG, [DRV], "TestVerifApiFmt$", inp=cases, modfile=modfile, cwd=goctl)
    run.validate(FAM, "ApiDocTrace", "ApiDocTrace.cfg", tr, label="replay")
