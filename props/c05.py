"""C05 — concurrency caps are never exceeded and capacity is never leaked."""
import json
import os
import re

import vlib  # lib/ is on sys.path (set up by ./check)

LEVEL = "model_checking"
RULE = ("TLC model-checks implementation-shaped PlusCal models of syncx.Limit, syncx.TimeoutLimit (lossy Cond), syncx.Pool "
        "(mutex+cond, created, idle list, maxAge) and threading.TaskRunner -- library steps and event logging interleaved "
        "freely, panics anywhere in the region, NoLeak probe in every terminal state -- against the Layer-P guards of "
        "Semaphore.tla; TLC then enumerates every sequential environment schedule (try/block/timeout acquire, exit by "
        "return or panic of the oldest/newest holder, over-return) up to a depth for capacities 1..3, each schedule is "
        "replayed through gates on every real primitive that supports its operations (Limit, TimeoutLimit, Pool with "
        "virtual-clock expiry, TaskRunner, MaxConnsHandler, mr.MapReduce/ForEach workers, fx.Parallel workers) followed by "
        "drain and the n+1 NoLeak probe; TIME: TLC enumerates the schedules of a timed abstract semaphore (SemGenTimed: a "
        "timed acquire parks with a deadline, the clock advances, a release wakes it before / exactly at / after the "
        "deadline, with or without a third party taking the permit between wake-up and retry) and each is replayed on the "
        "real TimeoutLimit with the clock it reads (timex hook H1) owned by the engine; POOL: TLC enumerates the schedules "
        "of an abstract pool with an explicit clock (PoolGen: idle resources fresh / exactly maxAge old / expired, Gets "
        "that destroy 0..n idle resources) in which a second Get arrives while the create/destroy callback of the first "
        "one is running, replayed on the real Pool (intruder started from inside the callback); free-running stress runs (2..64 goroutines, capacities 1..4, panics) and "
        "WorkerGroup runs are added; every recorded trace is validated by TLC against Semaphore.tla. "
        "(TimeoutLimit's clock jumps ahead at random moments there) "
        "distinct = distinct (kind, capacity, schedule) triples executed + stress runs.")

FAM = "caps"
TRACE = ("SemaphoreTrace", "SemaphoreTrace.cfg")
TIMED_T = 2        # = constant T of the SemGenTimed*.cfg files (timeout of a parked borrow in clock units)
POOL_MAXAGE = 1    # = constant MaxAge of the PoolGen*.cfg files (clock units; the driver's unit is one second)
ENGINE = os.path.join(vlib.OVERLAY, "core/syncx", "zz_verif_caps_engine_test.go")

# package -> (driver file, kinds)
PKGS = [
    ("core/syncx", "zz_verif_caps_syncx_test.go", ["limit", "tlimit", "pool"]),
    ("core/threading", "zz_verif_caps_threading_test.go", ["taskrunner"]),
    ("rest/handler", "zz_verif_caps_maxconns_test.go", ["maxconns"]),
    ("core/mr", "zz_verif_caps_mr_test.go", ["mr", "mrfe"]),
    ("core/fx", "zz_verif_caps_fx_test.go", ["fx"]),
]
SUPPORTS = {
    "limit": {"try", "block", "over", "panic"},
    "tlimit": {"try", "block", "timeout", "over", "panic"},
    "pool": {"block", "panic"},
    "taskrunner": {"try", "block", "panic"},
    "maxconns": {"try", "panic"},
    "mr": {"block"},
    "mrfe": {"block"},
    "fx": {"block", "panic"},
}


def _needs(ops):
    need = set()
    for op in ops:
        if op["op"] == "acq":
            need.add(op["mode"])
        elif op["op"] == "over":
            need.add("over")
        elif op["op"] == "exit" and op["how"] == "panic":
            need.add("panic")
    return need


def _engine_overlay(run, pkg):
    """The engine source lives once (package syncx); other packages get a copy with the
    package clause rewritten."""
    pkgdir = os.path.join(vlib.REPO, pkg)
    name = vlib.go_package_name(pkgdir)
    src = open(ENGINE).read()
    src = re.sub(r"(?m)^package \w+", "package " + name, src, count=1)
    p = run.tmp("caps_engine_%s_test.go" % name)
    with open(p, "w") as fh:
        fh.write(src)
    return {os.path.join(pkgdir, "zz_verif_caps_engine_test.go"): p}


def _drive(run, pkg, drv, test, inp=None, env=None, cpu=None):
    """Run one driver; returns the recorded trace file."""
    files = [drv]
    extra = None
    if pkg != "core/syncx":
        extra = _engine_overlay(run, pkg)
    else:
        files.append("zz_verif_caps_engine_test.go")
    return run.go_driver(pkg, files, test, inp=inp, env=env, cpu=cpu, extra_overlay=extra, timeout=900)


def _validate(run, files, label, split=1200):
    """Validate the traces of several driver runs in one batch (one JVM start per `split` traces)."""
    tf = run.tmp("merged-%s.ndjson" % label)
    with open(tf, "w") as out:
        for f in files:
            out.write(open(f).read())
    n0 = run.traces
    run.validate(FAM, TRACE[0], TRACE[1], tf, label=label, split=split, heap="2g")
    return run.traces - n0


def check(run):
    thorough = run.tier == "thorough"
    only = os.environ.get("VERIF_C05_ONLY")          # debugging aid: restrict to one package, skip MC
    global PKGS
    if only:
        PKGS = [x for x in PKGS if x[0] == only]
    run.assumptions += [
        "events are ordered by the harness emitter (one mutex): acqStart is logged before the library is asked, acqEnd(ok) "
        "is the first and relStart the last statement of the guarded region (harness callback), relEnd is logged after the "
        "library is known to have completed the release (Return/Put/ServeHTTP returned, TaskRunner.Wait returned, the "
        "mr/fx call returned)",
        "tickets are unique ints per trace; Pool resources are numbered by the harness create callback",
        "over-returns (Return without Borrow) are only issued while nothing is borrowed",
        "steering hints (expected admission/refusal/blocking from SemGen) only decide what the engine waits for; a blocked "
        "request is given a short grace period (affects only what can be caught, never the verdict). The only time bound "
        "that reaches the verdict is a 20 s watchdog on attempts that do not finish with every gate open, which the spec "
        "classifies (end.pending must be empty; the probe must show n inside)",
        "TimeoutLimit: an ErrTimeout is accepted at any time (the property does not forbid spurious timeouts); its "
        "'blocking' borrow is Borrow(250ms), finite on purpose: Cond.Signal is lossy, a waiter whose wake-up was lost "
        "stays parked although a permit is free until its timer fires (TimeoutLimitLost.cfg; seen on the real code "
        "under load with Borrow(1h))",
        "TimeoutLimit computes the time a woken waiter has left from timex.Now/Since (Cond.WaitWithTimeout); the drivers "
        "install the engine's clock there (hook H1, timex.VerifNow): it follows real time in the untimed schedules, jumps "
        "ahead at random moments in the stress runs, and is frozen and moved only by `tick` steps in the SemGenTimed "
        "schedules; the timer that ends a wait stays a real one (250 ms), so a parked borrow that nobody wakes leaves by "
        "ErrTimeout, which the spec accepts at any time. `tick` / `wake` events carry no obligation (binding check only)",
    ]
    w = 8 if thorough else 4

    def mc(mod, cfg, note, expect="ok", timeout=1200):
        if not only:
            run.model_check(FAM, mod, cfg, workers=w, note=note, expect=expect, timeout=timeout, heap="3g")
    # ---- design level: the algorithms have the property, and Layer P never rejects them ------------
    mc("LimitImpl", "LimitImplMC.cfg", "Limit: 3 users, n=2, try/block, panic, over-return, probe")
    mc("TimeoutLimitImpl", "TimeoutLimitImplMC.cfg", "TimeoutLimit: 3 users, n=1, lossy Signal, timer fires anywhere")
    mc("PoolImpl", "PoolImplMC.cfg", "Pool: 3 users, n=2, no maxAge")
    mc("PoolImpl", "PoolImplMCAge.cfg", "Pool: 2 users x 2 rounds, n=1, maxAge=1, clock 0..2")
    mc("TaskRunnerImpl", "TaskRunnerImplMC.cfg", "TaskRunner: 3 schedulers, n=2, Schedule/ScheduleImmediately, panics, Wait, probe")
    mc("TaskRunnerImpl", "TaskRunnerImplBugPanic.cfg", "seeded: slot not released on the panic path", "violation")
    if thorough:
        mc("TimeoutLimitImpl", "TimeoutLimitImplBugLate.cfg",
           "seeded: a woken waiter checks the remaining time after TryBorrow took the permit -> ErrTimeout keeps it", "violation")
        mc("LimitImpl", "LimitImplBugLeak.cfg", "seeded: Return does not give the permit back -> probe refused", "violation")
        mc("TimeoutLimitImpl", "TimeoutLimitLost.cfg",
           "observation, not a violation of C05: lost wake-up strands a waiter although a permit is free", "violation")
        mc("PoolImpl", "PoolImplBugExpire.cfg", "seeded: expiry does not decrement created -> capacity lost", "violation")
        mc("PoolImpl", "PoolImplBugUnlocked.cfg",
           "seeded: the destroy callback runs with the lock released, list and counter updated afterwards", "violation")
        mc("LimitImpl", "LimitImplBugOver.cfg", "seeded: over-return enlarges the capacity -> (n+1)-th admitted", "violation")
        mc("TimeoutLimitImpl", "TimeoutLimitImplBugWake.cfg", "seeded: a woken waiter is admitted without TryBorrow", "violation")
        mc("PoolImpl", "PoolImplBugShare.cfg", "seeded: Get does not unlink the idle node -> resource handed out twice", "violation")
        mc("LimitImpl", "LimitImplMC2.cfg", "Limit: 3 users x 2 rounds, n=1")
        mc("TimeoutLimitImpl", "TimeoutLimitImplMC2.cfg", "TimeoutLimit: 3 users x 2 rounds, n=2")
        mc("PoolImpl", "PoolImplMC3.cfg", "Pool: 3 users, n=2, maxAge=1, clock 0..2")
        mc("TaskRunnerImpl", "TaskRunnerImplMC2.cfg", "TaskRunner: 3 schedulers x 2 rounds, n=1")
    # ---- spec -> code: every sequential schedule, replayed on every primitive that supports it ------
    ALL = set(SUPPORTS)
    BLK = {"pool", "mr", "mrfe", "fx", "taskrunner"}          # deeper block-only schedules
    TRY = {"maxconns", "taskrunner", "limit"}                 # deeper try-only schedules
    gens = [("SemGenQ1.cfg", 1, ALL), ("SemGenQ2.cfg", 2, ALL), ("SemGenB2.cfg", 2, BLK), ("SemGenY2.cfg", 2, TRY)]
    if thorough:
        gens = [("SemGenT1.cfg", 1, ALL), ("SemGenT2.cfg", 2, ALL), ("SemGenT3.cfg", 3, ALL),
                ("SemGenB3.cfg", 3, BLK), ("SemGenY3.cfg", 3, TRY)]
    scheds, seen = [], {}
    for cfg, n, who in gens:
        for ops in run.generate(FAM, "SemGen", cfg):
            key = (n, json.dumps(ops, sort_keys=True))
            if key in seen:
                seen[key][3].update(who)
            else:
                seen[key] = (n, ops, _needs(ops), set(who))
                scheds.append(seen[key])
    # ---- time: schedules of the timed abstract semaphore (SemGenTimed), for the primitive whose acquire carries
    # a deadline.  A parked borrow is woken by a release before / exactly at / after its deadline on the clock the
    # library reads (hook H1), with or without a third party taking the permit between wake-up and retry.
    tgens = [("SemGenTimedQ1.cfg", 1), ("SemGenTimedQ2.cfg", 2)]
    if thorough:
        tgens = [("SemGenTimedT1.cfg", 1), ("SemGenTimedT2.cfg", 2), ("SemGenTimedQ2.cfg", 2), ("SemGenTimedT3.cfg", 3),
                 ("SemGenTimedW1.cfg", 1)]
    timed = []
    for cfg, n in tgens:
        for ops in run.generate(FAM, "SemGenTimed", cfg):
            key = (n, json.dumps(ops, sort_keys=True))
            if key not in seen:
                seen[key] = (n, ops, _needs(ops), {"tlimit"})
                timed.append((n, ops))
    # ---- Pool with an explicit clock and slow callbacks (PoolGen): ages of idle resources are part of the model, and a
    # second Get arrives while the create / destroy callback of the first one is running
    pooled = []
    for sch in run.generate(FAM, "PoolGen", "PoolGenT.cfg" if thorough else "PoolGenQ.cfg"):
        key = ("pool", sch["n"], json.dumps(sch["ops"], sort_keys=True))
        if key not in seen:
            seen[key] = True
            pooled.append((sch["n"], sch["ops"]))
    kf_pool = any(f.get("status") == "open" and f.get("deviation") == "KF_PoolDoublePut" for f in run.findings)
    small = []
    for pkg, drv, kinds in PKGS:
        inp = []
        for kind in kinds:
            i = 0
            for n, ops, need, who in scheds:
                if kind in who and need <= SUPPORTS[kind]:
                    i += 1
                    inp.append({"kind": kind, "n": n, "age": (i % 3) if kind == "pool" else 0, "ops": ops})
                    run.distinct.add((kind, n, json.dumps(ops, sort_keys=True)))
        if "tlimit" in kinds:
            for n, ops in timed:
                inp.append({"kind": "tlimit", "n": n, "age": 0, "t": TIMED_T, "ops": ops})
                run.distinct.add(("tlimit", n, json.dumps(ops, sort_keys=True)))
        if "pool" in kinds:
            for n, ops in pooled:
                inp.append({"kind": "pool", "n": n, "age": POOL_MAXAGE, "t": 1, "ops": ops})
                run.distinct.add(("pool-clock", n, json.dumps(ops, sort_keys=True)))
        run.evaluations += len(inp)
        tr = _drive(run, pkg, drv, "TestVerifCapsReplay$", inp=inp)
        if pkg == "core/syncx":
            w0 = run.event_kinds.get("wake", 0)
            _validate(run, [tr], "replay-syncx")
            wakes = run.event_kinds.get("wake", 0) - w0
            asked = sum(1 for n, ops in timed for op in ops if "steal" in op)
            run.extra["timed_wakeups"] = {"asked_for": asked, "observed": wakes}
            run.notes.append("timed schedules: %d wake-ups of a parked timed borrow asked for, %d observed "
                             "(the rest: signal lost or the real timer was first)" % (asked, wakes))
            vlib.log("  timed schedules: %d, wake-ups asked for %d, observed %d" % (len(timed), asked, wakes))
        else:
            small.append(tr)
    if small:
        _validate(run, small, "replay-threading-handler-mr-fx")
    # ---- code -> spec: free-running stress, WorkerGroup -------------------------------------------
    runs = 40 if thorough else 8
    for cpu in ([4] if not thorough else [1, 4, 16]):
        trs = [_drive(run, pkg, drv, "TestVerifCapsStress$", env={"VERIF_CAPS_RUNS": runs}, cpu=cpu) for pkg, drv, kinds in PKGS]
        if not only or only == "core/threading":
            trs.append(_drive(run, "core/threading", "zz_verif_caps_threading_test.go", "TestVerifCapsWorkerGroup$",
                              env={"VERIF_CAPS_RUNS": 40 if thorough else 12}, cpu=cpu))
        k = _validate(run, trs, "stress-cpu%d" % cpu)
        run.evaluations += k
        for i in range(k):
            run.distinct.add(("stress", cpu, run.seed, i))
    if kf_pool:
        _validate(run, [_drive(run, "core/syncx", "zz_verif_caps_syncx_test.go", "TestVerifCapsPoolDoublePut$")], "pool-double-put")
    else:
        run.notes.append("Pool double-Put scenario not driven: known finding KF_PoolDoublePut is not registered")


LEVEL_TEXT = ("Exhaustive TLC model checking of implementation-shaped PlusCal models of Limit, TimeoutLimit, Pool and TaskRunner "
              "against the property-level Semaphore spec (every interleaving of library steps and logging, panics, expiry, "
              "NoLeak probe in every terminal state), plus conformance: every TLC-enumerated sequential schedule up to a depth "
              "is replayed on each real primitive and free-running stress traces are validated by TLC against Semaphore.tla.")
LEVEL_NOTE = ("Bounded at design level: 2-3 users, n<=2, <=2 rounds. Real code: sequential schedules are exact (tight call "
              "intervals); for racing goroutines the Layer-P guards are necessary conditions derived from call intervals, so "
              "an over-admission that no logged interval exposes is not seen. A blocked request is observed as 'not admitted "
              "within a grace period and not before a release'. Trusted: TLC/SANY, Go toolchain, harness emit order.")
TECHNIQUE = ("TLA+ Layer-P spec (Semaphore) + PlusCal Layer-I models, TLC refinement checks, TLC-generated schedule replay "
             "through gates + TLC trace validation")
DESIGN_REF = "DESIGN.md Part B C05"


def replay(run, path):
    run.replay(FAM, TRACE[0], TRACE[1], path)
