"""C12 — timing wheel fires every timer exactly once, at its due tick."""
LEVEL = "model_checking"
RULE = ("TLC explores WheelImpl (slots/circle/diff algorithm of timingwheel.go) in lock-step with the "
        "abstract Wheel spec and prints one operation history per distinct reachable implementation state; "
        "each is replayed on the real TimingWheel (harness ticker) and flushed; seeded random histories over "
        "wheel sizes 1..300 with delays up to 3 revolutions are added; every recorded trace is validated by "
        "TLC against Wheel.tla. distinct = distinct operation histories executed.")

FAM = "wheel"
PKG = "core/collection"
DRV = ["zz_verif_wheel_test.go"]


def check(run):
    thorough = run.tier == "thorough"
    run.assumptions += [
        "delays are >= one interval (the property's premise)",
        "hook wheel.fire/wheel.drain.item only tells the driver how many callbacks to wait for; "
        "the fired keys/values come from the callback itself",
        "harness ticker delivers ticks synchronously; events ordered by one harness sequence",
    ]
    # design level: the algorithm refines the abstract wheel; documented counterexample for the old arithmetic
    run.model_check(FAM, "WheelImpl", "WheelImplMC.cfg", note="refinement WheelImpl => Wheel, N=3")
    run.model_check(FAM, "WheelImpl", "WheelImplBug.cfg", expect="violation",
                    note="slot-index comparison (pre-fix moveTask) violates Refines")
    if thorough:
        run.model_check(FAM, "WheelImpl", "WheelImplMC4.cfg", workers=16, note="refinement, N=4, 2 keys, 7 ops")
        run.model_check(FAM, "WheelImpl", "WheelImplMC2.cfg", workers=16, note="refinement, N=2, 3 keys")
    # spec -> code: one history per distinct implementation state
    gens = [("WheelImplGen3.cfg", 3, 7)]
    if thorough:
        gens += [("WheelImplGen2.cfg", 2, 5), ("WheelImplGen4.cfg", 4, 9), ("WheelImplGen1.cfg", 1, 3)]
    for cfg, n, ms in gens:
        beh = run.generate(FAM, "WheelImpl", cfg, workers=1)
        for b in beh:
            run.distinct.add((n, str(b)))
        run.evaluations += len(beh)
        tr = run.go_driver(PKG, DRV, "TestVerifWheelReplay$", inp=beh,
                           env={"VERIF_WHEEL_N": n, "VERIF_WHEEL_MAXSTEPS": ms})
        run.validate(FAM, "WheelTrace", "WheelTrace.cfg", tr, label="replay-N%d" % n)
    # code -> spec: long random histories
    tr = run.go_driver(PKG, DRV, "TestVerifWheelRandom$")
    n0 = run.traces
    run.validate(FAM, "WheelTrace", "WheelTrace.cfg", tr, label="random")
    run.evaluations += run.traces - n0
    for i in range(run.traces - n0):
        run.distinct.add(("random", run.seed, i))

LEVEL_TEXT = ("Exhaustive TLC model checking that the slot/circle/diff algorithm refines the abstract wheel (N<=4), "
              "plus conformance: every TLC-reachable implementation state is replayed on the real TimingWheel and "
              "random long histories (sizes 1..300, delays up to 3 revolutions) are validated by TLC against Wheel.tla.")
LEVEL_NOTE = ("Trusted: TLC/SANY, the Go toolchain, the harness ticker + hook ordering (DESIGN.md A.5). Delays < one "
              "interval are outside the property's premise. Bounded: N<=4 exhaustively at design level; real code "
              "sampled for larger N.")
TECHNIQUE = "TLA+ spec (Wheel/WheelImpl), TLC refinement check, TLC-generated state-cover replay + TLC trace validation"
DESIGN_REF = "DESIGN.md Part B C12"


def replay(run, path):
    run.replay(FAM, "WheelTrace", "WheelTrace.cfg", path)
