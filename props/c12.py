"""C12 — timing wheel fires every timer exactly once, at its due tick."""
LEVEL = "model_checking"
RULE = ("TLC explores WheelImpl (slots/circle/diff algorithm of timingwheel.go) in lock-step with the "
        "abstract Wheel spec and prints one operation history per distinct reachable implementation state; "
        "each is replayed on the real TimingWheel (harness ticker) and flushed; seeded random histories over "
        "wheel sizes 1..300 with delays up to 3 revolutions are added; every recorded trace is validated by "
        "TLC against Wheel.tla. Callback windows: TLC explores WheelCbImpl (timers map, slot lists and firing "
        "goroutines kept apart; operations issued from inside an executing callback and from outside while "
        "callbacks are executing or queued) against WheelCb and prints one history per distinct implementation "
        "state that has a callback window in its past; each is replayed with every execute callback held at a "
        "gate, plus seeded random histories with held callbacks; validated by TLC against WheelCb.tla. "
        "distinct = distinct operation histories executed.")

FAM = "wheel"
PKG = "core/collection"
DRV = ["zz_verif_wheel_test.go"]
DRV_CB = ["zz_verif_wheel_test.go", "zz_verif_c12_cb_test.go"]


def check(run):
    thorough = run.tier == "thorough"
    run.assumptions += [
        "delays are >= one interval (the property's premise)",
        "hook wheel.fire/wheel.drain.item only tells the driver how many callbacks to wait for; "
        "the fired keys/values come from the callback itself",
        "harness ticker delivers ticks synchronously; events ordered by one harness sequence",
    ]
    # design level: the algorithm refines the abstract wheel; documented counterexample for the old arithmetic
    run.model_check(FAM, "WheelImpl", "WheelImplMC.cfg", note="refinement WheelImpl => Wheel, N=3")
    run.model_check(FAM, "WheelImpl", "WheelImplBug.cfg", expect="violation",
                    note="slot-index comparison (pre-fix moveTask) violates Refines")
    if thorough:
        run.model_check(FAM, "WheelImpl", "WheelImplMC4.cfg", workers=16, note="refinement, N=4, 2 keys, 7 ops")
        run.model_check(FAM, "WheelImpl", "WheelImplMC2.cfg", workers=16, note="refinement, N=2, 3 keys")
    # spec -> code: one history per distinct implementation state
    gens = [("WheelImplGen3.cfg", 3, 7)]
    if thorough:
        gens += [("WheelImplGen2.cfg", 2, 5), ("WheelImplGen4.cfg", 4, 9), ("WheelImplGen1.cfg", 1, 3)]
    for cfg, n, ms in gens:
        beh = run.generate(FAM, "WheelImpl", cfg, workers=1)
        for b in beh:
            run.distinct.add((n, str(b)))
        run.evaluations += len(beh)
        tr = run.go_driver(PKG, DRV, "TestVerifWheelReplay$", inp=beh,
                           env={"VERIF_WHEEL_N": n, "VERIF_WHEEL_MAXSTEPS": ms})
        run.validate(FAM, "WheelTrace", "WheelTrace.cfg", tr, label="replay-N%d" % n)
    # code -> spec: long random histories
    tr = run.go_driver(PKG, DRV, "TestVerifWheelRandom$")
    n0 = run.traces
    run.validate(FAM, "WheelTrace", "WheelTrace.cfg", tr, label="random")
    run.evaluations += run.traces - n0
    for i in range(run.traces - n0):
        run.distinct.add(("random", run.seed, i))
    check_callback_windows(run, thorough)


def check_callback_windows(run, thorough):
    """Operations that land between the tick that fires a timer and the end of its callback: issued by the
    callback itself (re-arm), by another callback, or by another goroutine while the callback is held or still
    queued behind a slow one (WheelCb / WheelCbImpl)."""
    run.assumptions += [
        "callback windows: every operation line is written before the call, one call in flight at a time; "
        "'settled' (nothing owed) is only recorded when every firing the run loop announced has entered its "
        "callback; bounded waits never decide anything",
    ]
    # design level: refinement WheelCbImpl => WheelCb (map, slot lists, firing goroutines apart; operations from
    # inside and during callbacks).  In the quick tier the generation run below IS the exhaustive check for N=2,
    # 6 operations (its cfg carries every invariant); the thorough tier adds the larger configurations.
    run.model_check(FAM, "WheelCbImpl", "WheelCbImplBugEnd.cfg", workers=2, expect="violation",
                    note="timers-map cleanup deferred to the end of the callback violates Observable")
    if thorough:
        run.model_check(FAM, "WheelCbImpl", "WheelCbImplMC.cfg", workers=4,
                        note="refinement WheelCbImpl => WheelCb, N=2, steps<=5, 6 ops")
        run.model_check(FAM, "WheelCbImpl", "WheelCbImplBugBegin.cfg", workers=2, expect="violation",
                        note="timers-map cleanup deferred to the firing goroutine violates Observable")
        run.model_check(FAM, "WheelCbImpl", "WheelCbImplMCfull.cfg", workers=8,
                        note="refinement, N=2, 6 ops, full view (entry identities, tombstones)")
        run.model_check(FAM, "WheelCbImpl", "WheelCbImplMC3.cfg", workers=8, note="refinement, N=3, 6 ops")
        run.model_check(FAM, "WheelCbImpl", "WheelCbImplMC7.cfg", workers=8, note="refinement, N=2, 8 ops")
    gens = [("WheelCbImplGen2.cfg", 2, 4)]
    if thorough:
        gens = [("WheelCbImplGen27.cfg", 2, 4), ("WheelCbImplGen3.cfg", 3, 7), ("WheelCbImplGen1.cfg", 1, 3)]
    for cfg, n, ms in gens:
        beh = run.generate(FAM, "WheelCbImpl", cfg, workers=1)
        for b in beh:
            run.distinct.add(("cb", n, str(b)))
        run.evaluations += len(beh)
        tr = run.go_driver(PKG, DRV_CB, "TestVerifWheelCbReplay$", inp=beh,
                           env={"VERIF_WHEEL_N": n, "VERIF_WHEEL_MAXSTEPS": ms})
        run.validate(FAM, "WheelCbTrace", "WheelCbTrace.cfg", tr, label="cb-replay-N%d" % n)
    tr = run.go_driver(PKG, DRV_CB, "TestVerifWheelCbRandom$")
    n0 = run.traces
    run.validate(FAM, "WheelCbTrace", "WheelCbTrace.cfg", tr, label="cb-random")
    run.evaluations += run.traces - n0
    for i in range(run.traces - n0):
        run.distinct.add(("cb-random", run.seed, i))

LEVEL_TEXT = ("Exhaustive TLC model checking that the slot/circle/diff algorithm refines the abstract wheel (N<=4), "
              "and that the implementation with map, slot lists and firing goroutines modelled apart refines the "
              "wheel with asynchronous delivery (operations from inside and during callbacks, N<=3), "
              "plus conformance: every TLC-reachable implementation state is replayed on the real TimingWheel and "
              "random long histories (sizes 1..300, delays up to 3 revolutions, callbacks held at gates and issuing "
              "operations themselves) are validated by TLC against Wheel.tla / WheelCb.tla.")
LEVEL_NOTE = ("Trusted: TLC/SANY, the Go toolchain, the harness ticker + hook ordering (DESIGN.md A.5). Delays < one "
              "interval are outside the property's premise. Bounded: N<=4 exhaustively at design level; real code "
              "sampled for larger N. Operations after Drain are not exercised (Drain is the shutdown path). While a "
              "callback is held and another firing of the same tick has not entered its callback yet, a late firing "
              "is only noticed at the next point where every announced callback has started.")
TECHNIQUE = "TLA+ spec (Wheel/WheelImpl, WheelCb/WheelCbImpl), TLC refinement check, TLC-generated state-cover replay + TLC trace validation"
DESIGN_REF = "DESIGN.md Part B C12"


def replay(run, path):
    # traces of the callback-window drivers carry "a" (actor) / "cb" / "settled" lines and no "fired" field
    import json
    mod = "WheelTrace"
    for ln in open(path):
        ln = ln.strip()
        if not ln:
            continue
        ev = json.loads(ln)
        if ev.get("e") == "header":
            if "WheelCbTrace" in ev.get("spec", ""):
                mod = "WheelCbTrace"
                break
            continue
        if ev.get("e") in ("cb", "cbend", "settled") or "a" in ev:
            mod = "WheelCbTrace"
            break
        if "fired" in ev:
            break
    run.replay(FAM, mod, mod + ".cfg", path)
