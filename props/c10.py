"""C10 — MapReduce: exactly-once mapping, complete reduction, clean termination."""
import json
import os
import random

LEVEL = "model_checking"
RULE = ("TLC model-checks MRImpl.tla (the channel plumbing of core/mr/mapreduce.go: source/collector/output/done channels, "
        "panicChan CAS+send, the two sync.Once, worker pool, wait group, guarded writers, parked-select semantics; user "
        "functions as nondeterministic scripts that send/write/receive/cancel/panic/return at any point; the context ends at "
        "any point) against the Layer-P guards of MR.tla in every interleaving (refinement, no stuck state = no deadlock and "
        "no leak, liveness under fairness), with documented counterexamples for the code as it is. In steering mode TLC prints "
        "one environment schedule (operations of the generator / each mapper / the reducer, the context's end, hook-gate "
        "releases) per distinct final state, and every schedule ending stuck or with a failed guard; each is replayed on the "
        "real MapReduce / MapReduceVoid / MapReduceChan / ForEach (gated user functions, quiescence from goroutine states). "
        "The worker option ranges over its whole domain (not given, 1, n, more than the items, 0, negative: MR!EffWorkers says "
        "what each means; schedules generated for one worker are replayed with WithWorkers(1 / 0 / -1 / -5 / -2^30) in rotation; "
        "Finish/FinishVoid with 0..6 functions), the error passed to cancel over the error domain of MR.tla (nil, ordinary values, "
        "typed-nil pointer/map/func, uncomparable values, fmt.Errorf/errors.Join wrappers, pointer errors passed twice, "
        "context.Canceled/DeadlineExceeded passed by user code; Layer I chooses the identity in the GenE schedules) and the "
        "driver reports the identity of the error that came back. "
        "Seeded free-running calls (all six entry points; random sizes, workers, fan-out, reducer shapes, one or two faults at "
        "random positions, stalls, context end before / during / after) and tens of thousands of tiny calls in which "
        "everything the caller selects on becomes ready at once (so that the caller sometimes arrives late) are added. Every recorded trace, including the "
        "goroutine accounting at its end, is validated by TLC against MR.tla. distinct = distinct (entry point, workers, "
        "schedule) triples replayed + free-running calls.")

FAM = "mr"
PKG = "core/mr"
DRV = ["zz_verif_mr_c10_test.go", "zz_verif_mr_c10run_test.go"]
TRACE = ("MRTrace", "MRTrace.cfg")


def vlog(*a):
    print(*a, flush=True)


def _on(phase):
    """development aid: VERIF_C10_ONLY=mc,stuck,gen,hook,stress restricts the phases that run (default: all)"""
    only = os.environ.get("VERIF_C10_ONLY", "")
    return not only or phase in only.split(",")


def _mc(run, cfg, workers, note, expect="ok", timeout=1500):
    if not _on("mc"):
        return None
    return run.model_check(FAM, "MRImpl", cfg, workers=workers, note=note, expect=expect, timeout=timeout)


# worker-option values that MR!EffWorkers maps to the same configured count (the cfg's W is one of them): a schedule
# generated for W is a schedule for every member of its class, and the class of 1 is everything below 2
W_CLASS = {1: [1, 0, -1, 1, -5, 0, -(1 << 30)]}


def _wrap(beh, apis, workers, ctx, hook=False, wrot=True):
    """TLC histories -> driver schedules. apis: function index -> list of entry points.
    workers: the W of the generating cfg (the int passed to WithWorkers); wrot: rotate through the option values of
    the same class (0 and negative counts mean one worker)."""
    out = []
    n = 0
    for i, steps in enumerate(beh):
        genpanic = any(s.get("op") == "gen" and s.get("a") == "panic" for s in steps)
        for api in apis(i):
            if api == "chan" and genpanic:
                api = "mr"      # the source of MapReduceChan is the harness's goroutine: it cannot panic inside the library
            cls = W_CLASS.get(1 if workers < 1 else workers, [workers]) if wrot else [workers]
            out.append({"api": api, "wset": True, "workers": cls[n % len(cls)], "ctx": ctx, "hook": hook, "steps": steps})
            n += 1
    return out


def _replay(run, scheds, label):
    if not scheds:
        return
    tr = run.go_driver(PKG, DRV, "TestVerifMRReplay$", inp=scheds, timeout=1200)
    info = {}
    for ln in open(tr):
        if '"e":"info"' in ln and '"ran"' in ln:
            info = json.loads(ln)
    if info.get("hookSkipped"):
        run.notes.append("%s: %d schedules need the gate points mr.main.select / mr.write.guarded, which this tree does not "
                         "have (proposed/C10-hook.diff); skipped" % (label, info["hookSkipped"]))
        vlog("  note: %d hook schedules skipped in %s (gate points absent)" % (info["hookSkipped"], label))
    ran = int(info.get("ran", 0))
    if ran < len(scheds) - int(info.get("hookSkipped", 0)):
        vlog("  note: %s stopped after %d of %d schedules (too many calls ended stuck)" % (label, ran, len(scheds)))
    run.evaluations += ran
    for s in scheds[:ran]:
        run.distinct.add((s["api"], s["workers"], s["hook"], json.dumps(s["steps"], sort_keys=True)))
        run.extra.setdefault("worker_options_replayed", {})
        k = str(s["workers"])
        run.extra["worker_options_replayed"][k] = run.extra["worker_options_replayed"].get(k, 0) + 1
    run.validate(FAM, TRACE[0], TRACE[1], tr, label=label, split=1500)


def check(run):
    thorough = run.tier == "thorough"
    rnd = random.Random(run.seed)
    run.assumptions += [
        "events are ordered by the harness emitter (one mutex): send/write/cancel/ctx '...Start' events are logged before the "
        "library is entered, '...End'/receive/return events after it came back, user-function entry/exit inside the function",
        "items, written values and panic values are unique sentinels; an error passed to cancel is identified by the harness "
        "as a Go value (compared with ==, by type and content where == is undefined, never unwrapped); the library's own "
        "sentinels (ErrCancelWithNil, ErrReduceNoOutput) are not passed to cancel; a reducer writes at most one output "
        "(more is outside the property)",
        "worker counts: any int up to 8 through WithWorkers (counts so large that the collector's buffer cannot be allocated "
        "are outside the check), the package default when the option is absent (read from the package: defaultWorkers)",
        "the context is ended by the harness through context.WithCancel at scripted points (event counts / quiescence), "
        "never by a timer; a context error may be DeadlineExceeded or Canceled",
        "goroutine accounting: with every gate open, only goroutines created by library functions for this call that are "
        "blocked (chan send/receive, select, semacquire, sync.Once) with identical stacks in three consecutive consistent "
        "runtime.Stack snapshots count as leaked; a call counts as not returned only if, in those same snapshots, nothing "
        "of it can move. A 90 s bound on reaching either outcome is infrastructure (exit 2), never a verdict",
        "steering (quiescence detection, gate points mr.main.select / mr.write.guarded) only selects schedules; "
        "no verdict depends on it",
        "a fault concurrent with the call's decision may or may not be reported; it must be reported once cancel() / the "
        "context's cancel function has returned, resp. the pipe was closed after a user panic, before the reducer produced "
        "its result",
    ]
    w = 8 if thorough else 4
    # ---- design level: the code as it is (documented counterexamples), then the repaired design
    _mc(run, "MRImplBugLeak.cfg", 2, "code as it is (panicChan unbuffered): a state with blocked goroutines and no successor "
                                     "(panic after the caller stopped listening: leak / caller stuck in its deferred drain)", "violation")
    if thorough:
        _mc(run, "MRImplBugFE.cfg", 2, "ForEach as it is: context ends, then a panic: goroutines stuck", "violation")
        _mc(run, "MRImplBugSwallow.cfg", 2, "panicChan buffered only: caller arriving late at its select may return a clean "
                                            "result although a user function panicked", "violation")
        _mc(run, "MRImplBugCtx.cfg", 2, "ended context and closed output both ready: ErrReduceNoOutput returned", "violation")
        _mc(run, "MRImplBugKF.cfg", 4, "guard/send race in guardedWriter.Write: internal panic re-raised (known finding)", "violation")
        _mc(run, "MRImplBugW0.cfg", 2, "variant clamping negative worker counts only, WithWorkers(0): pool and collector of "
                                       "capacity 0, nothing is ever mapped, every goroutine and the caller stuck", "violation")
        _mc(run, "MRImplBugTNil.cfg", 2, "variant whose AtomicError.Set ignores typed-nil errors: cancel(typed nil) cancels the "
                                         "work but the call returns ErrReduceNoOutput / nil", "violation")
    _mc(run, "MRImplMC2.cfg", w, "repaired design, 2 items 1 worker, cancel+panic: all guards, no stuck state")
    _mc(run, "MRImplMCw0.cfg", w, "WithWorkers(0), 2 items: one worker (exactly-once, completeness, cap, no stuck state)")
    _mc(run, "MRImplMCerrQ.cfg", w, "1 item, one cancel with an error out of {nil, ordinary, typed nil, wrapper, "
                                    "context.DeadlineExceeded passed by user code}: the call returns that identity")
    _mc(run, "MRImplMCfe.cfg", w, "repaired design, ForEach 2 items, 2 panics, context end")
    if thorough:
        _mc(run, "MRImplMCwneg.cfg", w, "WithWorkers(-3), 2 items, cancel+panic: one worker, all guards, no stuck state")
        _mc(run, "MRImplMCfeW0.cfg", w, "ForEach WithWorkers(0), 2 items, 2 panics, context end")
        _mc(run, "MRImplMCerr.cfg", w, "1 item, two cancels (mapper and reducer, possibly the same error value twice) over "
                                       "the error domain")
        _mc(run, "MRImplMCerrC.cfg", w, "1 item, one cancel over the error domain (context.DeadlineExceeded passed by user code "
                                        "included), the call's own context ends at any point")
        _mc(run, "MRImplMC7.cfg", w, "repaired design, 1 item, cancel+panic+context end")
        _mc(run, "MRImplMC1.cfg", w, "repaired design, 1 item, cancel+panic+context+early-writing reducer: guards hold except KF_WriteAfterFinish")
        _mc(run, "MRImplMC3.cfg", w, "no faults, 3 items 2 workers: exactly-once, complete reduction, cap")
        _mc(run, "MRImplMC4.cfg", w, "2 items, fan-out 2, cancel")
        _mc(run, "MRImplMC6.cfg", w, "2 items 2 workers, cancel+panic")
        _mc(run, "MRImplMCfe3.cfg", w, "ForEach 3 items")
        _mc(run, "MRImplMC5.cfg", w, "1 item, 2 cancels, 2 panics, context, early reducer", timeout=2400)
        _mc(run, "MRImplLiveFE.cfg", w, "ForEach, fair: the call returns and every goroutine ends")
        _mc(run, "MRImplLive.cfg", w, "repaired design, fair: the call returns and every goroutine ends", timeout=2400)

    three = lambda i: ["mr", "void", "chan"]
    rot = lambda i: [["mr", "void", "chan"][i % 3]]
    fe = lambda i: ["foreach"]
    # ---- spec -> code: design-level counterexamples (schedules ending stuck on the code as it is)
    if _on("stuck"):
        stuck = run.generate(FAM, "MRImpl", "MRImplGenStuck.cfg" if thorough else "MRImplGenStuckQ.cfg")
        k = 60 if thorough else 12
        stuck = rnd.sample(stuck, min(len(stuck), k))
        _replay(run, _wrap(stuck, rot, 2, True), "replay-stuck")
    # ---- spec -> code: one schedule per distinct final state
    gens = [("MRImplGenQ.cfg", rot, 1, True, 1000)]
    if thorough:
        gens = [("MRImplGenA.cfg", rot, 2, True, None), ("MRImplGenB.cfg", rot, 2, False, 6000),
                ("MRImplGenC.cfg", three, 1, False, None), ("MRImplGenD.cfg", three, 2, True, 3000),
                ("MRImplGenQ.cfg", three, 1, True, None)]
    gens.append(("MRImplGenFE.cfg", fe, 2, True, None if thorough else 600))
    # the error domain of cancel: every schedule carries the identity of the error each cancel passes
    if thorough:
        gens.append(("MRImplGenEQ.cfg", rot, 1, False, None))       # 2 items, one cancel
        gens.append(("MRImplGenE.cfg", rot, 1, True, None))         # 1 item, two cancels, context end
        gens.append(("MRImplGenW.cfg", three, 0, False, None))      # WithWorkers(0), more items than workers
        gens.append(("MRImplGenFEw.cfg", fe, 0, True, None))        # ForEach, WithWorkers(0 / -1 / ...)
    else:
        gens.append(("MRImplGenEQ.cfg", rot, 1, False, 400))
    small, names = [], []
    for cfg, apis, workers, ctx, cap in (gens if _on("gen") else []):
        beh = run.generate(FAM, "MRImpl", cfg, timeout=1200)
        if cap and len(beh) > cap:
            beh = rnd.sample(beh, cap)
        sch = _wrap(beh, apis, workers, ctx)
        if len(sch) <= 700 and not thorough:      # quick: small families share one driver run and one validation
            small += sch
            names.append(cfg[9:-4])
            continue
        _replay(run, sch, "replay-" + cfg[6:-4])
    _replay(run, small, "replay-Gen" + "+".join(names))
    # ---- gate-steered schedules (need the proposed gate points; skipped on a tree without them)
    if _on("hook"):
        bad = run.generate(FAM, "MRImpl", "MRImplGenH.cfg")
        if not thorough:
            bad = rnd.sample(bad, min(len(bad), 40))
        _replay(run, _wrap(bad, lambda i: ["mr"], 1, True, hook=True), "replay-hook-bad")
        if thorough:
            hf = run.generate(FAM, "MRImpl", "MRImplGenHF.cfg")
            _replay(run, _wrap(hf, lambda i: ["mr"], 1, True, hook=True), "replay-hook")
    # ---- code -> spec: free-running calls
    nruns = 4000 if thorough else 700
    if _on("stress"):
        # many tiny calls whose caller sometimes reaches its select late (no gate needed)
        tr = run.go_driver(PKG, DRV, "TestVerifMRLateCaller$", cpu=8, timeout=1200,
                           env={"VERIF_MR_RUNS": 30000 if thorough else 6000})
        n0 = run.traces
        run.validate(FAM, TRACE[0], TRACE[1], tr, label="late-caller", split=10000)
        run.evaluations += run.traces - n0
        run.distinct.add(("late-caller", run.seed))
    for cpu in (([4] if not thorough else [1, 2, 4, 16]) if _on("stress") else []):
        tr = run.go_driver(PKG, DRV, "TestVerifMRStress$", cpu=cpu, timeout=1200, env={"VERIF_MR_RUNS": nruns})
        n0 = run.traces
        run.validate(FAM, TRACE[0], TRACE[1], tr, label="stress-cpu%d" % cpu, split=1500)
        run.evaluations += run.traces - n0
        for i in range(run.traces - n0):
            run.distinct.add(("stress", cpu, run.seed, i))


LEVEL_TEXT = ("Exhaustive TLC model checking of an implementation-shaped model of the MapReduce channel plumbing against the "
              "property-level spec (all interleavings, all fault positions for small bounds; no-stuck-state = deadlock- and "
              "leak-freedom; liveness under fairness), with documented counterexamples for the code as it is; conformance by "
              "replaying TLC-generated schedules on the real entry points and validating every recorded trace (replay and "
              "free-running) including the goroutine accounting with TLC against MR.tla.")
LEVEL_NOTE = ("Bounded at design level: <= 3 items, worker option in {-3, 0, 1, 2}, fan-out <= 2, <= 2 cancels (error identities "
              "nil / ordinary / typed nil / wrapper / user-passed context error), <= 2 panics, one context end. Real "
              "code: schedules TLC generated (run-to-quiescence between user-function operations) plus random free-running "
              "calls; interleavings inside the library that neither produces are reached only through the two proposed gate "
              "points. Trusted: TLC/SANY, Go toolchain, runtime.Stack goroutine states, harness emit order (DESIGN.md A.5).")
TECHNIQUE = "TLA+ Layer-I/Layer-P specs (MRImpl/MR), TLC refinement + deadlock + liveness check, TLC-generated schedule replay + TLC trace validation"
DESIGN_REF = "DESIGN.md Part B C10"


def replay(run, path):
    run.replay(FAM, TRACE[0], TRACE[1], path)
