"""C10 — MapReduce: exactly-once mapping, complete reduction, clean termination."""
import json
import os
import random

LEVEL = "model_checking"
RULE = ("TLC model-checks MRImpl.tla (the channel plumbing of core/mr/mapreduce.go: source/collector/output/done channels, "
        "panicChan CAS+send, the two sync.Once, worker pool, wait group, guarded writers, parked-select semantics; user "
        "functions as nondeterministic scripts that send/write/receive/cancel/panic/return at any point; the context ends at "
        "any point) against the Layer-P guards of MR.tla in every interleaving (refinement, no stuck state = no deadlock and "
        "no leak, liveness under fairness), with documented counterexamples for the code as it is. In steering mode TLC prints "
        "one environment schedule (operations of the generator / each mapper / the reducer, the context's end, hook-gate "
        "releases) per distinct final state, and every schedule ending stuck or with a failed guard; each is replayed on the "
        "real MapReduce / MapReduceVoid / MapReduceChan / ForEach (gated user functions, quiescence from goroutine states). "
        "Seeded free-running calls (all six entry points; random sizes, workers, fan-out, reducer shapes, one or two faults at "
        "random positions, stalls, context end before / during / after) and tens of thousands of tiny calls in which "
        "everything the caller selects on becomes ready at once (so that the caller sometimes arrives late) are added. Every recorded trace, including the "
        "goroutine accounting at its end, is validated by TLC against MR.tla. distinct = distinct (entry point, workers, "
        "schedule) triples replayed + free-running calls.")

FAM = "mr"
PKG = "core/mr"
DRV = ["zz_verif_mr_c10_test.go", "zz_verif_mr_c10run_test.go"]
TRACE = ("MRTrace", "MRTrace.cfg")


def vlog(*a):
    print(*a, flush=True)


def _on(phase):
    """development aid: VERIF_C10_ONLY=mc,stuck,gen,hook,stress restricts the phases that run (default: all)"""
    only = os.environ.get("VERIF_C10_ONLY", "")
    return not only or phase in only.split(",")


def _mc(run, cfg, workers, note, expect="ok", timeout=1500):
    if not _on("mc"):
        return None
    return run.model_check(FAM, "MRImpl", cfg, workers=workers, note=note, expect=expect, timeout=timeout)


def _wrap(beh, apis, workers, ctx, hook=False):
    """TLC histories -> driver schedules. apis: function index -> list of entry points."""
    out = []
    for i, steps in enumerate(beh):
        genpanic = any(s.get("op") == "gen" and s.get("a") == "panic" for s in steps)
        for api in apis(i):
            if api == "chan" and genpanic:
                api = "mr"      # the source of MapReduceChan is the harness's goroutine: it cannot panic inside the library
            out.append({"api": api, "workers": workers, "ctx": ctx, "hook": hook, "steps": steps})
    return out


def _replay(run, scheds, label):
    if not scheds:
        return
    tr = run.go_driver(PKG, DRV, "TestVerifMRReplay$", inp=scheds, timeout=1200)
    info = {}
    for ln in open(tr):
        if '"e":"info"' in ln and '"ran"' in ln:
            info = json.loads(ln)
    if info.get("hookSkipped"):
        run.notes.append("%s: %d schedules need the gate points mr.main.select / mr.write.guarded, which this tree does not "
                         "have (proposed/C10-hook.diff); skipped" % (label, info["hookSkipped"]))
        vlog("  note: %d hook schedules skipped in %s (gate points absent)" % (info["hookSkipped"], label))
    ran = int(info.get("ran", 0))
    if ran < len(scheds) - int(info.get("hookSkipped", 0)):
        vlog("  note: %s stopped after %d of %d schedules (too many calls ended stuck)" % (label, ran, len(scheds)))
    run.evaluations += ran
    for s in scheds[:ran]:
        run.distinct.add((s["api"], s["workers"], s["hook"], json.dumps(s["steps"], sort_keys=True)))
    run.validate(FAM, TRACE[0], TRACE[1], tr, label=label, split=1500)


def check(run):
    thorough = run.tier == "thorough"
    rnd = random.Random(run.seed)
    run.assumptions += [
        "events are ordered by the harness emitter (one mutex): send/write/cancel/ctx '...Start' events are logged before the "
        "library is entered, '...End'/receive/return events after it came back, user-function entry/exit inside the function",
        "items, written values, cancel errors and panic values are unique sentinels; a reducer writes at most one output "
        "(more is outside the property)",
        "the context is ended by the harness through context.WithCancel at scripted points (event counts / quiescence), "
        "never by a timer; a context error may be DeadlineExceeded or Canceled",
        "goroutine accounting: with every gate open, only goroutines created by library functions for this call that are "
        "blocked (chan send/receive, select, semacquire, sync.Once) with identical stacks in three consecutive consistent "
        "runtime.Stack snapshots count as leaked; a call counts as not returned only if, in those same snapshots, nothing "
        "of it can move. A 90 s bound on reaching either outcome is infrastructure (exit 2), never a verdict",
        "steering (quiescence detection, gate points mr.main.select / mr.write.guarded) only selects schedules; "
        "no verdict depends on it",
        "a fault concurrent with the call's decision may or may not be reported; it must be reported once cancel() / the "
        "context's cancel function has returned, resp. the pipe was closed after a user panic, before the reducer produced "
        "its result",
    ]
    w = 8 if thorough else 4
    # ---- design level: the code as it is (documented counterexamples), then the repaired design
    _mc(run, "MRImplBugLeak.cfg", 2, "code as it is (panicChan unbuffered): a state with blocked goroutines and no successor "
                                     "(panic after the caller stopped listening: leak / caller stuck in its deferred drain)", "violation")
    if thorough:
        _mc(run, "MRImplBugFE.cfg", 2, "ForEach as it is: context ends, then a panic: goroutines stuck", "violation")
        _mc(run, "MRImplBugSwallow.cfg", 2, "panicChan buffered only: caller arriving late at its select may return a clean "
                                            "result although a user function panicked", "violation")
        _mc(run, "MRImplBugCtx.cfg", 2, "ended context and closed output both ready: ErrReduceNoOutput returned", "violation")
        _mc(run, "MRImplBugKF.cfg", 4, "guard/send race in guardedWriter.Write: internal panic re-raised (known finding)", "violation")
    _mc(run, "MRImplMC2.cfg", w, "repaired design, 2 items 1 worker, cancel+panic: all guards, no stuck state")
    _mc(run, "MRImplMCfe.cfg", w, "repaired design, ForEach 2 items, 2 panics, context end")
    if thorough:
        _mc(run, "MRImplMC7.cfg", w, "repaired design, 1 item, cancel+panic+context end")
        _mc(run, "MRImplMC1.cfg", w, "repaired design, 1 item, cancel+panic+context+early-writing reducer: guards hold except KF_WriteAfterFinish")
        _mc(run, "MRImplMC3.cfg", w, "no faults, 3 items 2 workers: exactly-once, complete reduction, cap")
        _mc(run, "MRImplMC4.cfg", w, "2 items, fan-out 2, cancel")
        _mc(run, "MRImplMC6.cfg", w, "2 items 2 workers, cancel+panic")
        _mc(run, "MRImplMCfe3.cfg", w, "ForEach 3 items")
        _mc(run, "MRImplMC5.cfg", w, "1 item, 2 cancels, 2 panics, context, early reducer", timeout=2400)
        _mc(run, "MRImplLiveFE.cfg", w, "ForEach, fair: the call returns and every goroutine ends")
        _mc(run, "MRImplLive.cfg", w, "repaired design, fair: the call returns and every goroutine ends", timeout=2400)

    three = lambda i: ["mr", "void", "chan"]
    rot = lambda i: [["mr", "void", "chan"][i % 3]]
    fe = lambda i: ["foreach"]
    # ---- spec -> code: design-level counterexamples (schedules ending stuck on the code as it is)
    if _on("stuck"):
        stuck = run.generate(FAM, "MRImpl", "MRImplGenStuck.cfg" if thorough else "MRImplGenStuckQ.cfg")
        k = 60 if thorough else 12
        stuck = rnd.sample(stuck, min(len(stuck), k))
        _replay(run, _wrap(stuck, rot, 2, True), "replay-stuck")
    # ---- spec -> code: one schedule per distinct final state
    gens = [("MRImplGenQ.cfg", rot, 1, True, 1000)]
    if thorough:
        gens = [("MRImplGenA.cfg", rot, 2, True, None), ("MRImplGenB.cfg", rot, 2, False, 6000),
                ("MRImplGenC.cfg", three, 1, False, None), ("MRImplGenD.cfg", three, 2, True, 3000),
                ("MRImplGenQ.cfg", three, 1, True, None)]
    gens.append(("MRImplGenFE.cfg", fe, 2, True, None if thorough else 600))
    for cfg, apis, workers, ctx, cap in (gens if _on("gen") else []):
        beh = run.generate(FAM, "MRImpl", cfg, timeout=1200)
        if cap and len(beh) > cap:
            beh = rnd.sample(beh, cap)
        _replay(run, _wrap(beh, apis, workers, ctx), "replay-" + cfg[6:-4])
    # ---- gate-steered schedules (need the proposed gate points; skipped on a tree without them)
    if _on("hook"):
        bad = run.generate(FAM, "MRImpl", "MRImplGenH.cfg")
        if not thorough:
            bad = rnd.sample(bad, min(len(bad), 40))
        _replay(run, _wrap(bad, lambda i: ["mr"], 1, True, hook=True), "replay-hook-bad")
        if thorough:
            hf = run.generate(FAM, "MRImpl", "MRImplGenHF.cfg")
            _replay(run, _wrap(hf, lambda i: ["mr"], 1, True, hook=True), "replay-hook")
    # ---- code -> spec: free-running calls
    nruns = 4000 if thorough else 700
    if _on("stress"):
        # many tiny calls whose caller sometimes reaches its select late (no gate needed)
        tr = run.go_driver(PKG, DRV, "TestVerifMRLateCaller$", cpu=8, timeout=1200,
                           env={"VERIF_MR_RUNS": 30000 if thorough else 6000})
        n0 = run.traces
        run.validate(FAM, TRACE[0], TRACE[1], tr, label="late-caller", split=10000)
        run.evaluations += run.traces - n0
        run.distinct.add(("late-caller", run.seed))
    for cpu in (([4] if not thorough else [1, 2, 4, 16]) if _on("stress") else []):
        tr = run.go_driver(PKG, DRV, "TestVerifMRStress$", cpu=cpu, timeout=1200, env={"VERIF_MR_RUNS": nruns})
        n0 = run.traces
        run.validate(FAM, TRACE[0], TRACE[1], tr, label="stress-cpu%d" % cpu, split=1500)
        run.evaluations += run.traces - n0
        for i in range(run.traces - n0):
            run.distinct.add(("stress", cpu, run.seed, i))


LEVEL_TEXT = ("Exhaustive TLC model checking of an implementation-shaped model of the MapReduce channel plumbing against the "
              "property-level spec (all interleavings, all fault positions for small bounds; no-stuck-state = deadlock- and "
              "leak-freedom; liveness under fairness), with documented counterexamples for the code as it is; conformance by "
              "replaying TLC-generated schedules on the real entry points and validating every recorded trace (replay and "
              "free-running) including the goroutine accounting with TLC against MR.tla.")
LEVEL_NOTE = ("Bounded at design level: <= 3 items, 1-2 workers, fan-out <= 2, <= 2 cancels, <= 2 panics, one context end. Real "
              "code: schedules TLC generated (run-to-quiescence between user-function operations) plus random free-running "
              "calls; interleavings inside the library that neither produces are reached only through the two proposed gate "
              "points. Trusted: TLC/SANY, Go toolchain, runtime.Stack goroutine states, harness emit order (DESIGN.md A.5).")
TECHNIQUE = "TLA+ Layer-I/Layer-P specs (MRImpl/MR), TLC refinement + deadlock + liveness check, TLC-generated schedule replay + TLC trace validation"
DESIGN_REF = "DESIGN.md Part B C10"


def replay(run, path):
    run.replay(FAM, TRACE[0], TRACE[1], path)
