"""C01 — circuit breaker: admission law, exact accounting, guaranteed probing."""
LEVEL = "model_checking"
RULE = ("TLC explores BreakerImpl (bucket ring with lazy expiry + weighted-k accept() of googlebreaker.go) in "
        "lock-step with the law Breaker.tla and prints one operation history per distinct reachable state "
        "(Gen1: window/ring/lastPass situations with overlapping calls; Gen2: every entry point x context x "
        "outcome x coin from every window-count situation); each is replayed on the real breaker under the "
        "virtual clock (1 model call = 5 real calls, so Protection 1 = 5) with the coin loaded as the model "
        "chose. Added: seeded long sequential histories (gaps clustered on bucket edges, the 1 s probe interval "
        "and the 10 s window length; coin loaded to drop whenever possible / never / fair), sustained-failure "
        "runs with the untouched random source (counting clause), concurrent rounds on gated goroutines, parallel "
        "ungated bursts, and (thorough) histories through the REST / zRPC / sqlx wrappers. Every third random / "
        "concurrent history goes through the by-name entry points (breaker.Do*(name, ...), GetBreaker(name)). "
        "By-name rounds: 1-3 names nobody used before, 2-8 goroutines leaving a spin barrier together, the first "
        "call of goroutine g on name g mod K (first uses race inside the registry), then the identities "
        "GetBreaker hands out and the window of the registered breaker; validated once per (round, name) "
        "against BreakerNamesTrace.tla (thorough: also through the zRPC client / server interceptors). "
        "Outcomes of a request include the look-alikes of the breaker's own results (returns ErrServiceUnavailable "
        "itself / an error wrapping it / a context error on a live context, panics with ErrServiceUnavailable): "
        "Gen2 crosses 'wrapUnavail' (thorough, Gen3: all of them) with every entry point, the random, concurrent and "
        "burst drivers draw them among the failures. Contexts already done occur on every entry point (method, "
        "by-name, wrapper) in every driver incl. the parallel bursts; the law makes the short-circuit mandatory. Every "
        "recorded trace is validated by TLC against Breaker.tla; distinct = distinct operation histories executed.")

import os

import vlib

FAM = "breaker"
PKG = "core/breaker"
DRV = ["zz_verif_c01_test.go", "zz_verif_c01_names_test.go", "zz_verif_c01_wb_test.go", "zz_verif_c01_nowb_test.go"]
TR = ("BreakerTrace", "BreakerTrace.cfg")
TRN = ("BreakerNamesTrace", "BreakerNamesTrace.cfg")


def _val(run, tr, label, kind, spec=TR):
    n0 = run.traces
    run.validate(FAM, spec[0], spec[1], tr, label=label)
    n = run.traces - n0
    run.evaluations += n
    for i in range(n):
        run.distinct.add((kind, label, run.seed, i))


def check(run):
    thorough = run.tier == "thorough"
    run.assumptions += [
        "hook H1: timex.VerifNow replaces the clock of the rolling window and of lastPass; the driver moves it "
        "only while every call in flight is parked inside its request or holds an unresolved promise",
        "white-box: window sums are read through googleBreaker.stat.Reduce; the coin of mathx.Proba is loaded "
        "through its private *rand.Rand (reflect/unsafe) -- the verdict never depends on which way it falls",
        "counting clause: math/rand behaves like independent uniform draws; of >= 200 decisions taken with "
        "accepts = 0, total >= 100 and no probe due (drop probability >= 95/101 each) at least half are rejects; "
        "false-alarm probability <= exp(-200*KL(1/2 || 95/101)) < 1e-64 per run",
        "concurrent driver: successful requests are released only in rounds that start no call (a reject "
        "decided on a window read before a concurrent success is recorded has no single linearisation point)",
        "harness emit order is one total order; callStart before / callEnd after the library call",
        "by-name rounds: breaker identity = Go interface equality of the values GetBreaker returns, numbered in "
        "log order; no hook inside GetBreaker, so the racing first uses are produced by a spin barrier (not by a "
        "TLC-chosen schedule): every interleaving is covered at design level (BreakerReg.tla), the real code by "
        "hundreds of rounds per run",
    ]
    w = 8 if thorough else 4
    # design level: the algorithm obeys the law; two documented counterexamples
    run.model_check(FAM, "BreakerImpl", "BreakerImplMC.cfg", workers=w,
                    note="ring+accept() obeys Breaker.tla; NB=3, 2 concurrent calls, any interleaving, 5 ops")
    run.model_check(FAM, "BreakerImpl", "BreakerImplBugNoskip.cfg", workers=w, expect="violation",
                    note="Reduce ignoring span (no lazy expiry) violates SumsAgree")
    run.model_check(FAM, "BreakerRace", "BreakerRace.cfg", workers=w,
                    note="non-atomic accept(): every reject has a linearisation point while only failures are recorded")
    run.model_check(FAM, "BreakerRace", "BreakerRaceBug.cfg", workers=w, expect="violation",
                    note="design-level: due probe + in-flight successes landing between the window read and the "
                         "lastPass read: a reject without linearisation point (not reproduced on the code; the "
                         "concurrent driver avoids the schedule)")
    # the by-name registry (breakers.go) under every interleaving of GetBreaker / Do*(name) / NoBreakerFor
    run.model_check(FAM, "BreakerReg", "BreakerRegMC.cfg", workers=w,
                    note="registry obeys BreakerNames.tla (one breaker per name) and accounts every by-name call "
                         "in the registered breaker; 3 goroutines x 2 calls, 2 names")
    run.model_check(FAM, "BreakerReg", "BreakerRegBug.cfg", workers=w, expect="violation",
                    note="breaker built outside the write lock and stored without re-check: concurrent first users "
                         "get different breakers, calls recorded in the losers are orphaned (Accounted)")
    run.model_check(FAM, "BreakerReg", "BreakerRegCtx.cfg", workers=w,
                    note="by-name calls carry the caller's context: done-context calls leave no record, live ones "
                         "exactly one, in the registered breaker; 3 goroutines x 2 calls, contexts {live, done}")
    if thorough:
        run.model_check(FAM, "BreakerReg", "BreakerRegBugCtx.cfg", workers=w, expect="violation",
                        note="a by-name Ctx function that does not hand the context on: a done-context call is "
                             "recorded (Accounted)")
        run.model_check(FAM, "BreakerReg", "BreakerRegCtxNop.cfg", workers=w, note="contexts {live, done}, 2 names, 3 goroutines x 1 operation, NoBreakerFor racing")
        run.model_check(FAM, "BreakerImpl", "BreakerImplMCo.cfg", workers=w,
                        note="every entry point x context x outcome incl. the look-alikes of the breaker's own results "
                             "(request returns / wraps / panics with ErrServiceUnavailable, context error), 3 ops")
        run.model_check(FAM, "BreakerImpl", "BreakerImplBugCtx.cfg", workers=w, expect="violation",
                        note="an entry point ignoring the caller's done context: the call is admitted (Allowed)")
        run.model_check(FAM, "BreakerImpl", "BreakerImplBugOuterFb.cfg", workers=w, expect="violation",
                        note="fallback run by an outer layer on errors.Is(err, ErrServiceUnavailable): an admitted call "
                             "whose request returned a wrapper of it runs the fallback (Allowed)")
    if thorough:
        run.model_check(FAM, "BreakerReg", "BreakerRegNop.cfg", workers=w, note="same with NoBreakerFor racing")
        run.model_check(FAM, "BreakerReg", "BreakerRegMCt.cfg", workers=w, note="4 goroutines x 1 operation, one may NoBreakerFor")
        run.model_check(FAM, "BreakerReg", "BreakerRegMCt3.cfg", workers=w, note="3 goroutines x 3 calls")
        run.model_check(FAM, "BreakerReg", "BreakerRegBugLaw.cfg", workers=w, expect="violation",
                        note="write-locked section without re-check violates GetOK (two breakers for one name)")
        run.model_check(FAM, "BreakerReg", "BreakerRegBugNop.cfg", workers=w, expect="violation",
                        note="unconditional store overwrites NoBreakerFor")
    if thorough:
        run.model_check(FAM, "BreakerImpl", "BreakerImplBugIndex.cfg", workers=w, expect="violation",
                        note="updateOffset clearing from the current bucket violates SumsAgree")
        run.model_check(FAM, "BreakerImpl", "BreakerImplMCt.cfg", workers=w, timeout=1500, note="same, 8 ops")
        run.model_check(FAM, "BreakerRace", "BreakerRaceNone.cfg", workers=w,
                        note="successes in flight but no probe due: linearisable")
    # spec -> code: one history per distinct reachable model state, replayed with the coin loaded
    beh = []
    gens = [("BreakerImplGen1t.cfg" if thorough else "BreakerImplGen1.cfg", "gen1"),
            ("BreakerImplGen2t.cfg" if thorough else "BreakerImplGen2.cfg", "gen2")]
    if thorough:
        # every look-alike outcome x entry point x context x coin from every window-count situation
        # (quick: Gen2 carries "wrapUnavail"); histories ending in a plain ok / err call repeat gen2's
        gens.append(("BreakerImplGen3t.cfg", "gen3"))
    for cfg, label in gens:
        g = run.generate(FAM, "BreakerImpl", cfg, workers=1)
        if label == "gen3":
            g = [x for x in g if [o for o in x if o.get("op") == "start"][-1].get("out") not in ("ok", "err")]
        for x in g:
            run.distinct.add((label, str(x)))
        beh += g
    run.evaluations += len(beh)
    tr = run.go_driver(PKG, DRV, "TestVerifC01Replay$", inp=beh, env={"VERIF_C01_UNIT": 125, "VERIF_C01_MULT": 5})
    run.validate(FAM, TR[0], TR[1], tr, label="replay")
    # code -> spec: random sequential, sustained failure (own coin), concurrent rounds, parallel bursts
    env = {"VERIF_C01_HIST": 150, "VERIF_C01_LEN": 800, "VERIF_C01_MAJ": 6, "VERIF_C01_CHIST": 120,
           "VERIF_C01_ROUNDS": 60, "VERIF_C01_G": 5, "VERIF_C01_SRUNS": 120} if thorough else \
          {"VERIF_C01_HIST": 30, "VERIF_C01_LEN": 300, "VERIF_C01_MAJ": 2, "VERIF_C01_CHIST": 12,
           "VERIF_C01_ROUNDS": 40, "VERIF_C01_G": 4, "VERIF_C01_SRUNS": 32}
    tr = run.go_driver(PKG, DRV, "TestVerifC01(Random|Majority|Conc|Stress)$", env=env)
    _val(run, tr, "random+majority+conc+stress", "history")
    # by-name entry points, first uses of every name racing in the registry: one validation per (round, name)
    env = {"VERIF_C01_NROUNDS": 2500, "VERIF_C01_NG": 8} if thorough else {"VERIF_C01_NROUNDS": 250, "VERIF_C01_NG": 8}
    tr = run.go_driver(PKG, DRV, "TestVerifC01Names$", env=env)
    _val(run, tr, "names", "by-name", spec=TRN)
    if thorough:
        # the wrappers named in the anchors: same events, same specification
        exp = {os.path.join(vlib.REPO, "core/breaker/zz_verif_c01_export.go"):
               os.path.join(vlib.OVERLAY, "core/breaker/zz_verif_c01export_test.go"),
               os.path.join(vlib.REPO, "core/breaker/zz_verif_c01_export_nowb.go"):
               os.path.join(vlib.OVERLAY, "core/breaker/zz_verif_c01export_nowb_test.go")}
        env = {"VERIF_C01_WHIST": 40, "VERIF_C01_WLEN": 300}
        for pkg, f, test, label in [
                ("zrpc/internal/clientinterceptors", "zz_verif_c01_client_test.go", "TestVerifC01ClientInterceptor$", "zrpc-client"),
                ("zrpc/internal/serverinterceptors", "zz_verif_c01_server_test.go", "TestVerifC01ServerInterceptors$", "zrpc-server"),
                ("rest/handler", "zz_verif_c01_rest_test.go", "TestVerifC01BreakerHandler$", "rest-handler"),
                ("core/stores/sqlx", "zz_verif_c01_sqlx_test.go", "TestVerifC01SqlConn$", "sqlx-conn")]:
            tr = run.go_driver(pkg, [f], test, env=env, extra_overlay=exp)
            _val(run, tr, label, "wrapper")
        # the zRPC interceptors reach their breakers by name: concurrent first use through them
        env = {"VERIF_C01_NROUNDS": 600, "VERIF_C01_NG": 8}
        for pkg, fs, test, label in [
                ("zrpc/internal/clientinterceptors", ["zz_verif_c01_client_test.go", "zz_verif_c01_names_client_test.go"],
                 "TestVerifC01ClientNames$", "zrpc-client-names"),
                ("zrpc/internal/serverinterceptors", ["zz_verif_c01_server_test.go", "zz_verif_c01_names_server_test.go"],
                 "TestVerifC01ServerNames$", "zrpc-server-names")]:
            tr = run.go_driver(pkg, fs, test, env=env, extra_overlay=exp)
            _val(run, tr, label, "wrapper-by-name", spec=TRN)


LEVEL_TEXT = ("Exhaustive TLC model checking that the bucket ring with lazy expiry and the weighted-k accept() "
              "(BreakerImpl, NB=3, two concurrent calls, every interleaving, up to 5/8 operations) never takes a "
              "decision the law Breaker.tla forbids and keeps exactly the records the law counts; a model of the "
              "non-atomic accept() (BreakerRace) for linearisability of rejects; plus conformance: TLC-generated "
              "state-cover histories replayed on the real breaker and long random, sustained-failure, concurrent "
              "and parallel-burst histories validated by TLC against Breaker.tla (thorough: also through the REST, "
              "zRPC and sqlx wrappers). A done context must short-circuit (neither admitted nor rejected) and the clauses "
              "on admitted calls hold for every error value of the request, incl. (wrappers of) ErrServiceUnavailable. "
              "By-name entry points: the registry law BreakerNames.tla (one breaker per "
              "name, distinct names distinct breakers, every by-name call accounted in the breaker of its name with the "
              "context its caller supplied), "
              "model-checked on the implementation-shaped BreakerReg.tla (RWMutex + map, every interleaving of "
              "3-4 goroutines incl. NoBreakerFor) and validated by TLC on racing first uses recorded from the "
              "real registry (BreakerNamesTrace.tla).")
LEVEL_NOTE = ("Trusted: TLC/SANY, the Go toolchain, hook H1 (virtual clock), the harness emit order, math/rand for "
              "the counting clause. The window's lower edge may lie anywhere within one bucket (250 ms) of now-10 s. "
              "Design level bounded to NB=3 buckets / Protection=1; the real constants (40 x 250 ms, 5, 1 s) are "
              "exercised through the real code only. The redis breaker hook and the sqlx query/transaction paths are not driven (sqlx: ExecCtx only).")
TECHNIQUE = ("TLA+ law (Breaker, BreakerNames) + implementation models (BreakerImpl in lock-step, BreakerRace, BreakerReg), TLC "
             "exhaustive checks, TLC-generated replay with a loaded coin, TLC trace validation with inferred "
             "decision/record points")
DESIGN_REF = "DESIGN.md Part B C01"


def replay(run, path):
    import json
    with open(path) as fh:
        first = fh.readline()
    try:
        names = "BreakerNamesTrace" in json.loads(first).get("spec", "")
    except ValueError:
        names = False
    spec = TRN if names else TR
    run.replay(FAM, spec[0], spec[1], path)
