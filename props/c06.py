"""C06 — cache-aside store: coherent reads, load suppression, failure containment."""
import os
import sys

import vlib

LEVEL = "model_checking"
RULE = ("TLC explores the abstract cache-aside store (CacheAside.tla) over all sequences of cached reads (Take, "
        "QueryRowIndex), Get, explicit Set, database writes with invalidation (row insert/update/delete, index "
        "link/unlink), Del, cleaner retries, clock advances around the expiry of the entries, cache-store outages "
        "(also toggled inside a query) and database errors, and prints one shortest history per distinct (state, "
        "last operation and answer) up to a length bound; each is replayed on the real cache.Cache (cacheNode on "
        "miniredis, harness database), on sqlc.CachedConn (harness sqlx.SqlConn) and, thorough, on monc.Model "
        "(harness mon.Collection); seeded random histories (1-3 rows, 0-2 index keys, 7 expiry configurations incl. "
        "the defaults, retries of failed invalidations driven through the real cleaner on a fake ticker, store closed "
        "for good, node-type and cluster-type redis clients, row ids of three magnitudes incl. beyond 2^53) and phases "
        "of 2-6 concurrent readers behind a gated query function are added, plus flows of 3-7 concurrent callers that "
        "make 2-4 calls each over several keys - Take, QueryRow and QueryRowIndex through the shared barrier - on 1, 2 "
        "and all processors; outages are placed between operations, inside query functions and - by a fault injector "
        "counting store commands - at every command boundary inside reads, explicit sets and invalidations (generated histories end "
        "with such operations; a sweep places the cut at commands 1-4 of every kind of operation on both client "
        "types); every event carries "
        "the content and TTLs of the store and every trace is validated by TLC against CacheAside.tla. distinct = "
        "distinct operation histories executed (generated ones by content, random/concurrent ones by seed and index).")

FAM = "cache"
PKG = "core/stores/cache"
WORLD = "zz_verif_cache_world_test.go"
WORLD_WB = ["zz_verif_cache_wb_test.go", "zz_verif_cache_nowb_test.go"]   # white-box part / black-box stand-in (tags)
DRV = [WORLD] + WORLD_WB + ["zz_verif_cache_node_test.go"]
SQLC = "core/stores/sqlc"
SQLC_DRV = ["zz_verif_cache_sqlc_test.go"]
MONC = "core/stores/monc"
MONC_DRV = ["zz_verif_cache_monc_test.go"]
TR = ("CacheAsideTrace", "CacheAsideTrace.cfg")


def _world_overlay():
    """the world helper compiled into core/stores/cache as a non-test file (drivers of other packages use it)"""
    ov = {os.path.join(vlib.REPO, PKG, "zz_verif_cache_world.go"): os.path.join(vlib.OVERLAY, PKG, WORLD)}
    for f in WORLD_WB:
        ov[os.path.join(vlib.REPO, PKG, f.replace("_test.go", ".go"))] = os.path.join(vlib.OVERLAY, PKG, f)
    return ov


def _validate(run, tr, label):
    """Histories that may show the known finding (reset carries kf) are validated one by one, the rest in bulk."""
    plain, kf, cur = [], [], None
    body = [ln for ln in open(tr) if ln.strip()]
    if body and all('"e":"info"' in ln and '"skipped"' in ln for ln in body):
        # the driver skipped itself: the white-box part of the world helper does not compile against this tree
        vlib.log("  NOTE %s: driver skipped itself (the cleaner of core/stores/cache cannot be driven on this tree); "
                 "not validated" % label)
        run.extra.setdefault("skipped_drivers", []).append({"label": label, "why": "white-box world helper unavailable"})
        return 0
    for ln in body:
        if '"e":"reset"' in ln:
            cur = kf if '"kf":1' in ln else plain
        if cur is None:
            raise vlib.Infra("trace %s does not start with a reset event" % tr)
        cur.append(ln)
    n0 = run.traces
    for lines, lab, split in ((plain, label, None), (kf, label + "-kf", 1)):
        if not lines:
            continue
        f = run.tmp("part.ndjson")
        with open(f, "w") as fh:
            fh.writelines(lines)
        run.validate(FAM, TR[0], TR[1], f, label=lab, heap="3g", split=split, max_violations=5)
    return run.traces - n0


def _count(run, n, label):
    run.evaluations += n
    for i in range(n):
        run.distinct.add((label, run.seed, i))


def check(run):
    thorough = run.tier == "thorough"
    run.assumptions += [
        "miniredis is a faithful Redis for GET / SET EX / SET NX EX / DEL (and SETNX / EXPIRE), also behind a go-redis "
        "cluster client (single node owning every slot); its keys expire only through FastForward (ttl <= 0 removes the "
        "key); the harness's fault injector is a miniredis pre-hook (the mechanism of miniredis.SetError): while down "
        "every data command is answered with an error and the data is left alone, armed with n it lets n-1 data "
        "commands through and goes down at the n-th (connection-level commands are always served)",
        "a cached read fetches the entry first: an outage that begins at the first store command of a read is an "
        "outage that lasted for the whole read (FailFast applies); one that begins at a later command may leave the "
        "write-back undone or done, but never half-done (no entry without a TTL, no entry that is not the truth)",
        "row ids are drawn from three magnitudes (0.., 2^53+1.., MaxInt64-64..); events carry key numbers, the drivers "
        "map ids to key numbers (an id that is not a row's id maps to no key)",
        "the premise of the property is kept by the drivers: every database change is followed by an invalidation of "
        "the keys whose database content changes (Exec / Del), operations do not overlap except in the reader phases; "
        "an explicit Set of something the database does not hold marks the key as written behind the store's back "
        "(reads of it are then only required to be served from the cache)",
        "the store content in every event is read directly from miniredis (white-box); the cleaner's retry tasks are "
        "observed through a wrapper around the task closure; the cleaner wheel runs on a harness ticker; the retry "
        "schedule itself (1 s, 5 s, 1 min, 5 min, 1 h) is not part of the verdict",
        "the redis circuit breaker is kept out of the way by moving the virtual clock (hook H1) 30 s forward whenever "
        "the store comes back, so that 'store up' means commands succeed; a store closed for good is never reopened "
        "within a history",
        "requested expiries are positive (SetWithExpire with a non-positive duration writes a persistent key: outside "
        "the premise 'requested expiry')",
        "except in the histories marked kf, the drivers let the cleaner make good a failed invalidation before the key "
        "is read again (they know which keys they invalidated during an outage); the kf histories show the known "
        "finding and are classified one by one",
    ]
    design = _Design(run)
    if not os.environ.get("VERIF_C06_DEV_NOMC"):   # (development aid for mutation screening: conformance part only)
        design.start(thorough)
    try:
        _conformance(run, thorough)
    finally:
        design.join()


class _Design:
    """The design-level model checking (it does not depend on the tree under verification) runs on a thread of
    its own, next to the conformance part (Go drivers + single-worker trace validations), within the worker budget
    of the tier.  A failure is raised in the main thread when the conformance part is over."""

    def __init__(self, run):
        self.run, self.th, self.err = run, None, None

    def start(self, thorough):
        import threading
        run = self.run
        run._spec_copy(FAM)                      # one scratch copy of the specs, made before anything runs in parallel
        lock, tmp0 = threading.Lock(), run.tmp

        def tmp(name):
            with lock:
                return tmp0(name)
        run.tmp = tmp
        self.th = threading.Thread(target=self._work, args=(thorough,), daemon=True)
        self.th.start()

    def _work(self, thorough):
        try:
            _design(self.run, thorough)
        except BaseException as ex:              # noqa - re-raised by join()
            self.err = ex

    def join(self):
        if self.th is not None:
            self.th.join()
            self.th = None
            if self.err is not None and sys.exc_info()[0] is None:
                raise self.err


def _design(run, thorough):
    w = 6 if thorough else 3
    # ---- design level: the abstract store satisfies the clauses of C06 over all histories
    if thorough:
        run.model_check(FAM, "CacheAsideMC", "CacheAsideMCa.cfg", workers=w,
                        note="1 primary + 1 index key, rows {1,2}, taint, flips, SetWithExpire, outages beginning inside "
                             "reads and invalidations; any length (state relative to the clock)")
        run.model_check(FAM, "CacheAsideMC", "CacheAsideMCb.cfg", workers=w,
                        note="2 primary keys, rows {1,2}, taint, flips, SetWithExpire, cuts; any length")
        run.model_check(FAM, "CacheAsideMC", "CacheAsideMCt.cfg", workers=w, timeout=2400, heap="6g",
                        note="2 primary + 1 index key, row {1}, outages beginning at the 2nd / 3rd store access of an "
                             "operation (partial invalidations of 2-3 keys); any length")
    else:
        run.model_check(FAM, "CacheAsideMC", "CacheAsideMCqa.cfg", workers=w,
                        note="1 primary + 1 index key, rows {1,2}, taint, flips, outages beginning inside reads and "
                             "invalidations (cuts); any length (state relative to the clock)")
        run.model_check(FAM, "CacheAsideMC", "CacheAsideMCqb.cfg", workers=w,
                        note="2 primary keys, rows {1,2}, flips, cuts; any length")
    # ---- the concurrent-reader clauses of the abstract store (primary and index keys side by side): satisfiable,
    #      and they imply coherent reads for a phase without writes
    if thorough:
        run.model_check(FAM, "CacheAsideConc", "CacheAsideConcMC.cfg", workers=w,
                        note="1 primary + 1 index key, 3 calls, 3 queries, 1 database error: any reader population")
        run.model_check(FAM, "CacheAsideConc", "CacheAsideConcMC2.cfg", workers=w,
                        note="2 primary + 1 index key, 2 calls, 3 queries, 1 database error")
    else:
        run.model_check(FAM, "CacheAsideConc", "CacheAsideConcMCq.cfg", workers=w,
                        note="1 primary + 1 index key, 2 calls, 3 queries, 1 database error: any reader population")
    # ---- Layer I: doTake / SingleFlight / Exec / cleaner, every interleaving, against the clauses
    run.model_check(FAM, "CacheImpl", "CacheImplMC.cfg" if thorough else "CacheImplMCq.cfg", workers=w, timeout=1500,
                    note="2 readers x 2 calls, 2 writes, 2 faults, expiry" if thorough else
                         "3 readers x 1 call, 1 write, 1 fault")
    # the barrier shared by all keys, callers reading several keys one after the other; DelCtx + retry tasks + cleaner
    run.model_check(FAM, "CacheFlight", "CacheFlightMC.cfg" if thorough else "CacheFlightMCq.cfg", workers=w,
                    note="3 callers x <= 2 calls (%d altogether) x 2 keys, a new call object per load (flightGroup); "
                         "callers symmetric" % (6 if thorough else 4))
    run.model_check(FAM, "CacheDel", "CacheDelMC.cfg", workers=2,
                    note="DelCtx of 1-3 keys on node / cluster type, 3 outage toggles between any two commands, cleaner")
    bugs = [("CacheImpl", "CacheImplOverlap.cfg", "without the premise: a write overlapping a read leaves a stale entry (CoherentAlways)"),
            ("CacheImpl", "CacheImplNoBarrier.cfg", "no SingleFlight: two queries at a time"),
            ("CacheFlight", "CacheFlightLeader.cfg", "call objects recycled as soon as the leader has read its result: a "
             "caller that shared the load reads a later load's result (SharedResult)"),
            ("CacheDel", "CacheDelLoopVar.cfg", "per-key retry closures sharing the loop variable: a failed key is not the "
             "target of any retry task (Covered)"),
            ("CacheImpl", "CacheImplTwoStep.cfg", "placeholder written by SETNX + EXPIRE: an outage between the two leaves a "
             "persistent key (FiniteTTL)")]
    if thorough:
        bugs += [("CacheImpl", "CacheImplDbErr.cfg", "placeholder written on a database error"),
                 ("CacheImpl", "CacheImplQueryOnErr.cfg", "query although the GET failed")]
        run.model_check(FAM, "CacheFlight", "CacheFlightLast.cfg", workers=w,
                        note="call objects recycled when the last caller holding them has read them")
    for mod, cfg, what in bugs:
        run.model_check(FAM, mod, cfg, workers=2, expect="violation", note="documented counterexample: " + what)


def _conformance(run, thorough):
    # ---- cache.NewNode
    beh = run.generate(FAM, "CacheAsideMC", "CacheAsideGenNode5.cfg" if thorough else "CacheAsideGenNode.cfg", workers=1)
    for b in beh:
        run.distinct.add(("node", str(b)))
    run.evaluations += len(beh)
    tr = run.go_driver(PKG, DRV, "TestVerifCacheNodeReplay$", inp=beh)
    _validate(run, tr, "node-replay")
    env = {"VERIF_CACHE_HIST": 200, "VERIF_CACHE_LEN": 100, "VERIF_CACHE_ROUNDS": 150, "VERIF_CACHE_KFHIST": 3,
           "VERIF_CACHE_KFSCEN": 4, "VERIF_CACHE_FLOWS": 60} if thorough else \
          {"VERIF_CACHE_HIST": 30, "VERIF_CACHE_LEN": 60, "VERIF_CACHE_ROUNDS": 25, "VERIF_CACHE_KFHIST": 0,
           "VERIF_CACHE_KFSCEN": 0, "VERIF_CACHE_FLOWS": 12}
    tr = run.go_driver(PKG, DRV, "TestVerifCacheNode(Random|Conc|KF|Cuts|Flow)$", env=env)
    _count(run, _validate(run, tr, "node-random+conc"), "node-random")
    if thorough:
        tr = run.go_driver(PKG, DRV, "TestVerifCacheNodeConc$", env=env, cpu="2,16")
        _count(run, _validate(run, tr, "node-conc-cpu"), "node-conc-cpu")

    # ---- sqlc.CachedConn
    ov = _world_overlay()
    beh2 = run.generate(FAM, "CacheAsideMC", "CacheAsideGenSqlc5.cfg" if thorough else "CacheAsideGenSqlc.cfg", workers=1)
    for b in beh2:
        run.distinct.add(("sqlc", str(b)))
    run.evaluations += len(beh2)
    tr = run.go_driver(SQLC, SQLC_DRV, "TestVerifCacheSqlcReplay$", inp=beh2, extra_overlay=ov)
    _validate(run, tr, "sqlc-replay")
    env = {"VERIF_CACHE_HIST": 200, "VERIF_CACHE_LEN": 100, "VERIF_CACHE_ROUNDS": 80, "VERIF_CACHE_KFHIST": 3,
           "VERIF_CACHE_FLOWS": 60} if thorough \
        else {"VERIF_CACHE_HIST": 30, "VERIF_CACHE_LEN": 60, "VERIF_CACHE_ROUNDS": 12, "VERIF_CACHE_KFHIST": 0,
              "VERIF_CACHE_FLOWS": 12}
    tr = run.go_driver(SQLC, SQLC_DRV, "TestVerifCacheSqlc(Random|Conc|KF|Flow)$", extra_overlay=ov, env=env)
    _count(run, _validate(run, tr, "sqlc-random+conc"), "sqlc-random")

    # ---- monc.Model (harness mon.Collection; no MongoDB server)
    if thorough:
        tr = run.go_driver(MONC, MONC_DRV, "TestVerifCacheMoncReplay$", inp=beh[:15000], extra_overlay=ov)
        _validate(run, tr, "monc-replay")
        tr = run.go_driver(MONC, MONC_DRV, "TestVerifCacheMoncRandom$", extra_overlay=ov,
                           env={"VERIF_CACHE_HIST": 100, "VERIF_CACHE_LEN": 80})
        _count(run, _validate(run, tr, "monc-random"), "monc-random")


LEVEL_TEXT = ("Exhaustive TLC model checking of the abstract cache-aside store (all operation sequences of any length "
              "over 2-3 keys incl. a unique-index key, state taken relative to the clock; coherent reads, served from "
              "cache, errors not cached, fail fast, finite TTLs, cleaner restores coherence as invariants / action "
              "properties) and of an implementation-shaped model of doTake + SingleFlight + Exec + cleaner under every "
              "interleaving (one query at a time, shared result, coherence under the non-overlap premise; documented "
              "counterexamples without the premise / without the barrier / placeholder written in two commands), of the "
              "barrier shared by several keys with callers making successive calls (CacheFlight: shared result per key, "
              "no lost wake-up; counterexample: call objects recycled by the leader) and of DelCtx + retry tasks + cleaner "
              "on node / cluster type with outages between any two commands (CacheDel: whatever a failed invalidation "
              "leaves behind is the target of a pending retry; counterexample: closures sharing the loop variable); the "
              "abstract store includes outages that begin inside a read or an invalidation (partial invalidation, "
              "write-back undone or done, never half-done); plus conformance: TLC-generated transition-"
              "cover histories replayed on the real cacheNode, sqlc.CachedConn and monc.Model over miniredis, long "
              "random histories with fault placement and concurrent reader phases, every trace - with the store's "
              "content and TTLs after every call - validated by TLC against CacheAside.tla.")
LEVEL_NOTE = ("Trusted: TLC/SANY, the Go toolchain, miniredis (command semantics, ttl by FastForward, SetError), hooks "
              "H1 (virtual clock, only to reset the redis breaker) and H2 (wheel.fire, only to wait for the cleaner), "
              "the emitter's ordering. Design level bounded to 3 keys / 2 row versions / 3 readers. Redis cluster type is "
              "exercised through a go-redis cluster client on one miniredis node (per-key DEL and retry tasks); a store "
              "closed for good is only tried on node-type clients; cacheCluster dispatch by consistent hash (C15), "
              "real MongoDB / SQL servers, overlapping "
              "read/write histories (outside the property's premise; modelled in CacheImpl only) and the cleaner's "
              "retry schedule are not part of the verdict. Known finding KF_StaleAfterFailedInvalidation is reported, "
              "not judged.")
TECHNIQUE = ("TLA+ specs (CacheAside Layer P, CacheImpl Layer I), TLC exhaustive checks incl. documented counterexamples, "
             "TLC-generated transition-cover replay + TLC trace validation with full store snapshots; gated query "
             "function for concurrent readers and multi-key caller flows; command-counting fault injector (miniredis "
             "pre-hook); node- and cluster-type clients; id magnitudes")
DESIGN_REF = "DESIGN.md Part B C06"


def replay(run, path):
    run.replay(FAM, TR[0], TR[1], path)
