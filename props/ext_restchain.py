"""Extension restchain (advisory; host C09): rest/chain (alice-style middleware chains) and the per-route
chain rest/engine.go builds -- behaviour beyond the listed property.  specs/restchain/*."""
import json
import os
import random

HOST = "C09"
WHAT = ("rest/chain: New/Append/Prepend/Then/ThenFunc -- chains are immutable values (later Append/Prepend and "
        "writes through slices the caller passed in never change a chain), constructors are called only by "
        "Then/ThenFunc, once each, innermost first, nil = http.DefaultServeMux; a request passes m1..mn then the "
        "handler, each once, and unwinds in reverse, a middleware that answers itself cuts the walk short; "
        "rest/engine.go + server.go: every bound route gets base (enabled built-ins in fixed order, or the WithChain "
        "chain) ++ auth ++ signature ++ Use middlewares ++ WithMiddlewares list ++ handler; a strict signature "
        "setting without keys stops the start; constructors run once per route")
QUICK = False
FAM = "restchain"
COV = ["-coverage", "1"]
PKG_CHAIN = "rest/chain"
DRV = ["zz_verif_ext_restchain_test.go"]


def _chain(run):
    _chain_mc(run)
    _chain_conf(run)


def _chain_mc(run):
    if os.environ.get("VERIF_EXT_RESTCHAIN_SKIPMC"):
        return
    run.model_check(FAM, "ChainImpl", "ChainImplMC.cfg", workers=4,
                    note="chain.go on Go slices (array/len/cap, caller-held argument slices) refines Chain.tla: "
                         "Refines + Immutable, every history of <= 4 operations, argument lists <= 2")
    run.model_check(FAM, "ChainImpl", "ChainImplMCdeep.cfg", workers=4,
                    note="same, single-middleware arguments, 5 operations, 5 chains (slices with spare capacity)")
    run.model_check(FAM, "ChainImpl", "ChainImplMCreq.cfg", workers=4, args=COV,
                    note="two requests in flight on the handlers Then built: WalkOK, WalksOwnHandler; -coverage: no dead action")
    run.model_check(FAM, "ChainImpl", "ChainImplBug_alias.cfg", workers=2, expect="violation",
                    note="wrong variant: Append/Prepend with a bare append(a, b...) -- two Appends share a tail")
    run.model_check(FAM, "ChainImpl", "ChainImplBug_share.cfg", workers=2, expect="violation",
                    note="wrong variant: New keeps the caller's slice")
    run.model_check(FAM, "ChainImpl", "ChainImplBug_forward.cfg", workers=2, expect="violation",
                    note="wrong variant: Then applies the constructors first-to-last")


def _chain_conf(run):
    # spec -> code: one history per distinct state of ChainImpl (<= 3 operations), plus a seeded sample of
    # longer ones from simulation
    beh = run.generate(FAM, "ChainImpl", "ChainImplGen.cfg", workers=1)
    sim = run.generate(FAM, "ChainImpl", "ChainImplGenSim.cfg", workers=1,
                       args=["-simulate", "num=40", "-depth", "8", "-seed", str(run.seed)])
    rnd = random.Random(run.seed * 7919 + 9)
    uniq = sorted({json.dumps(b, sort_keys=True) for b in sim})
    beh += [json.loads(s) for s in rnd.sample(uniq, min(len(uniq), 300))]
    # ... and every history (<= 4 operations) on which the wrong variant "alias" (bare append) goes wrong: the
    # real code must get them right
    beh += run.generate(FAM, "ChainImpl", "ChainImplGenBad_alias.cfg", workers=2)
    for b in beh:
        run.distinct.add(("restchain-chain", json.dumps(b, sort_keys=True)))
    run.evaluations += len(beh)
    tr = run.go_driver(PKG_CHAIN, DRV, "TestVerifExtrestchainReplay$", inp=beh)
    run.validate(FAM, "ChainTrace", "ChainTrace.cfg", tr, label="ext-restchain-chain-replay")
    # code -> spec
    tr = run.go_driver(PKG_CHAIN, DRV, "TestVerifExtrestchainRandom$")
    n0 = run.traces
    run.validate(FAM, "ChainTrace", "ChainTrace.cfg", tr, label="ext-restchain-chain-random")
    run.evaluations += run.traces - n0


PKG_REST = "rest"


def _split(run, path):
    """One driver run records the replayed and the random servers; the reset event says which (field src)."""
    out, cur = {}, None
    for ln in open(path):
        if not ln.strip():
            continue
        if '"e":"reset"' in ln:
            cur = json.loads(ln).get("src", "?")
        out.setdefault(cur, []).append(ln if ln.endswith("\n") else ln + "\n")
    files = {}
    for k, lines in out.items():
        p = run.tmp("ext-restchain-%s.ndjson" % k)
        with open(p, "w") as fh:
            fh.writelines(lines)
        files[k] = p
    return files


def _engine(run):
    _engine_mc(run)
    _engine_conf(run)


def _engine_mc(run):
    if os.environ.get("VERIF_EXT_RESTCHAIN_SKIPMC"):
        return
    run.model_check(FAM, "RouteMC", "RouteImplMC.cfg", workers=4,
                    note="engine.go bindRoutes/bindRoute/buildChainWithNativeMiddlewares + server.go WithMiddlewares "
                         "over the chain library (Chain.tla) refine the pipeline law of Route.tla: 11 server "
                         "configurations x <= 2 Use x one group (jwt, 5 signature settings, <= 2 route middlewares, "
                         "<= 2 routes); Refines, TableLaw, WrapsLaw, Chain!Immutable, Frozen")
    run.model_check(FAM, "RouteMC", "RouteImplMC2.cfg", workers=4,
                    note="two groups: a rejected signature setting stops the start after the groups before it")
    run.model_check(FAM, "RouteMC", "RouteImplMCreq.cfg", workers=4, args=COV,
                    note="two requests in flight on bound routes: WalkOK, ServesOwnRoute; -coverage: no dead action")
    for v, what in (("usefirst", "Use middlewares appended before the auth / signature handlers"),
                    ("skipauth", "a WithChain chain does not get the auth / signature handlers"),
                    ("mwforward", "WithMiddlewares applies the list first-to-last"),
                    ("bindmore", "a rejected signature setting skips the group instead of stopping the start")):
        run.model_check(FAM, "RouteMC", "RouteImplBug_%s.cfg" % v, workers=2, expect="violation",
                        note="wrong variant: " + what)


def _engine_conf(run):
    # spec -> code: one (set-up, start, request) history per distinct pipeline x answering layers x panic
    beh = run.generate(FAM, "RouteMC", "RouteImplGen.cfg", workers=1)
    beh += run.generate(FAM, "RouteMC", "RouteImplGenOrder.cfg", workers=1)
    beh += run.generate(FAM, "RouteMC", "RouteImplGen2.cfg", workers=1)     # two groups, rejected signature settings
    for b in beh:
        run.distinct.add(("restchain-engine", json.dumps(b, sort_keys=True)))
    run.evaluations += len(beh)
    # one compilation of package rest: the replay and the random servers (code -> spec) in one run
    tr = run.go_driver(PKG_REST, DRV, "TestVerifExtrestchainEngine(Replay|Random)$", inp=beh)
    for src, f in sorted(_split(run, tr).items(), reverse=True):
        n0 = run.traces
        run.validate(FAM, "RouteTrace", "RouteTrace.cfg", f, label="ext-restchain-engine-%s" % src)
        if src != "replay":
            run.evaluations += run.traces - n0


def check(run):
    run.assumptions += [
        "ext restchain: the built-in handlers and the auth / signature gates are observed through their effects "
        "(who answers which request, status code, trace span / log collector / deadline visible to the harness "
        "layers inside them) and on the call stack of the harness layers (function names of rest/handler, back to "
        "the goroutine the timeout handler starts), not through entered/left events; the harness runs with "
        "CpuThreshold 0, so the shedding handler is the identity and never seen",
        "ext restchain: requests go straight to the handler the engine passed to router.Handle (no dispatch)",
        "ext restchain: constructor call counts at start are demanded exactly (every harness middleware of the "
        "route's chain once per bound route, routes in AddRoutes order)",
    ]
    only = os.environ.get("VERIF_EXT_RESTCHAIN_ONLY", "")
    if only in ("", "chain"):
        _chain(run)
    if only in ("", "engine"):
        _engine(run)
