"""C11 — periodical / bulk / chunk executors run every added task exactly once; Wait covers; panic isolation."""
import json
import random
import threading
from concurrent.futures import ThreadPoolExecutor

LEVEL = "model_checking"
RULE = ("TLC model-checks PEImpl.tla (the producer/flusher hand-off protocol of periodicalexecutor.go: lock sections, "
        "1-slot commander, shared confirmChan, inflight, guarded, wgBarrier+waitGroup, fake ticker, idle quit/restart) "
        "against the Layer-P guards of PE.tla in every interleaving, then in steering mode (environment moves only when "
        "the library is quiescent) prints one environment schedule (calls, callback-gate releases, ticks, clock advances, "
        "hook-gate releases) per distinct final state plus every schedule that ends in an uncovered Wait; each schedule is "
        "replayed on real PeriodicalExecutor/BulkExecutor/ChunkExecutor objects (gated callbacks, harness ticker, virtual "
        "clock, quiescence detected from goroutine states), free-running stress runs are added, and every recorded trace "
        "is validated by TLC against PE.tla. Tasks carry sizes (Sizes; ChunkExecutor.Add(task, size), 0 and negative "
        "included) and the threshold is on the accumulated size. Besides one schedule per final state, TLC prints the "
        "schedules that pass through named protocol situations (PEImpl.tla Sit: quitRefused, addWhileOut, enterBlocked, "
        "tickSkipped, quitFlush, waitSpin, zeroOnly; 3 producers where needed), which are replayed on the three executors "
        "and, scaled to maxBulkRows, on sqlx.BulkInserter. "
        "distinct = distinct (kind, threshold, schedule) triples executed + stress runs.")

FAM = "executors"
PKG = "core/executors"
# white-box accessors (harness ticker, container wrapper, executor behind Bulk/Chunk/BulkInserter, row threshold)
# live in *_wb_test.go and degrade one by one; *_nowb_test.go (tag verifnowb, VERIF_NOWB=1) has none of them
DRV = ["zz_verif_pe_test.go", "zz_verif_c11_wb_test.go", "zz_verif_c11_nowb_test.go"]
SQLX = "core/stores/sqlx"
SQLX_DRV = ["zz_verif_bulkinserter_test.go", "zz_verif_c11_bisteer_test.go", "zz_verif_c11_wb_test.go",
            "zz_verif_c11_nowb_test.go"]
TRACE = ("PETrace", "PETrace.cfg")
KINDS = ["pe", "bulk", "chunk"]


def _mc(run, cfg, workers, note, expect="ok", module="PEImpl", timeout=1200):
    # documented counterexamples: no trace-explorer spec (two of them run side by side in one directory)
    args = ("-noGenerateSpecTE",) if expect == "violation" else ()
    # cap the heap: the default (a quarter of the machine per JVM) invites the kernel's OOM killer when many checks run
    return run.model_check(FAM, module, cfg, workers=workers, note=note, expect=expect, timeout=timeout, args=args,
                           heap="4g")


def _par(jobs, width):
    """Run independent TLC jobs side by side (each job = a callable); an Infra raised by one is re-raised."""
    with ThreadPoolExecutor(max_workers=width) as ex:
        futs = [ex.submit(j) for j in jobs]
        return [f.result() for f in futs]


def _threadsafe(run):
    """vlib.Run.tmp() numbers scratch names with an unprotected counter: serialise it for _par."""
    lock = threading.Lock()
    orig = run.tmp

    def tmp(name):
        with lock:
            return orig(name)
    run.tmp = tmp
    run._spec_copy(FAM)


def _steps(b):
    """a generated behaviour is either the list of environment steps or {hits, steps}"""
    return b["steps"] if isinstance(b, dict) else b


def _sched(beh, thr, hook, kinds, fam):
    out = []
    for i, b in enumerate(beh):
        for k in kinds(i):
            out.append({"kind": k, "thr": thr, "hook": hook, "steps": _steps(b), "fam": fam})
    return out


def _info(run, tr, label):
    """what the driver says this tree / build offered (info events; no verdict depends on them): noted when degraded"""
    info = {}
    for ln in open(tr):
        if '"e":"info"' in ln:
            info = json.loads(ln)
    msgs = []
    if info.get("noticker"):
        msgs.append("no harness ticker for %s (real ticker; tick steps of schedules do nothing)" % ",".join(info["noticker"]))
    if info.get("notakes"):
        msgs.append("no `take` events for %s" % ",".join(info["notakes"]))
    if info.get("bi"):
        if not info.get("rowsKnown"):
            msgs.append("row threshold of BulkInserter not determined: %d schedules skipped" % info.get("skipped", 0))
        elif not info.get("wb"):
            msgs.append("row threshold of BulkInserter measured: %d" % info.get("rows", 0))
        if info.get("rowsKnown") and not info.get("wait"):
            msgs.append("no Wait on a BulkInserter (Wait steps left out, quiescence by Flush + statements seen)")
    if msgs:
        note = "%s: white-box handles unavailable (%s): %s" % (
            label, "forced black box" if info.get("wb") is False else "this tree", "; ".join(msgs))
        if note not in run.notes:
            run.notes.append(note)
        vlog("  note: " + note)
    return info


def _replay(run, scheds, label):
    if not scheds:
        return None
    tr = run.go_driver(PKG, DRV, "TestVerifPEReplay$", inp=scheds, timeout=900)
    info = _info(run, tr, label)
    if info.get("skipped"):
        run.notes.append("%s: %d schedules need the gate point pe.add.sent, which this tree does not have "
                         "(proposed/C11-hook.diff); skipped" % (label, info["skipped"]))
        vlog("  note: %d hook schedules skipped in %s (gate point pe.add.sent absent)" % (info["skipped"], label))
    done = len(scheds) - int(info.get("skipped", 0))
    run.evaluations += done
    for s in scheds:
        run.distinct.add((s["kind"], s["thr"], s["hook"], json.dumps(s["steps"], sort_keys=True)))
    return tr


def _bisteer(run, beh, thr, n, rnd):
    """tick-free schedules on a real sqlx.BulkInserter (threshold is the package constant: scaled Adds)"""
    ok = [b for b in beh if not any(s["op"] in ("tick", "adv", "hook") for s in _steps(b))]
    ok = rnd.sample(ok, min(n, len(ok)))
    if not ok:
        return None
    scheds = [{"thr": thr, "steps": _steps(b)} for b in ok]
    tr = run.go_driver(SQLX, SQLX_DRV, "TestVerifBISteer$", inp=scheds, timeout=600)
    info = _info(run, tr, "bulkinserter")
    if not info.get("rowsKnown", True):
        return tr
    run.evaluations += len(scheds)
    for s in scheds:
        run.distinct.add(("bulkinserter", thr, False, json.dumps(s["steps"], sort_keys=True)))
    return tr


def _bulkinserter(run):
    tr = run.go_driver(SQLX, SQLX_DRV, "TestVerifBulkInserter$", timeout=600)
    n0 = run.traces
    run.validate(FAM, TRACE[0], TRACE[1], tr, label="bulkinserter")
    run.evaluations += run.traces - n0
    for i in range(run.traces - n0):
        run.distinct.add(("bulkinserter", run.seed, i))


def vlog(*a):
    print(*a, flush=True)


def check(run):
    thorough = run.tier == "thorough"
    rnd = random.Random(run.seed)
    run.assumptions += [
        "events are ordered by the harness emitter (one mutex): callStart is logged before the library is entered, "
        "callEnd after it returned, callback events inside the callback, `take` while pe.lock is held",
        "tasks are unique ints; a panicking callback counts as a callback that has returned",
        "steering (quiescence detection from goroutine states, fake ticker, virtual clock H1, gate point pe.add.sent) only "
        "selects schedules; no verdict depends on it. The only time bound is a 20 s watchdog on calls that never return "
        "with every gate open, which the spec classifies (end.pending must be empty)",
        "the `take` events (container wrapper) feed only the guard of known finding KF_WaitMissesHandover",
        "white-box handles (harness ticker, container wrapper and executor of Bulk/Chunk, row threshold and executor of "
        "BulkInserter) are optional: reached by reflection / kept in *_wb_test.go, each degrades to the public API "
        "(real ticker with a long interval in replay and a short one in stress, no take events, measured row threshold, "
        "no Wait on an inserter); VERIF_NOWB=1 forces the variant without any of them",
        "the size a task is added with (ChunkExecutor.Add(task, size), logged as z) is not read by the property-level "
        "spec: the obligations towards a task do not depend on it",
        "sqlx.BulkInserter: Wait is PeriodicalExecutor.Wait on the inserter's executor; its flush timer is real "
        "(not steered), which can only make a run deviate from the schedule",
    ]
    _threadsafe(run)
    w = 8 if thorough else 4
    kf_open = any(f.get("status") == "open" for f in run.findings)
    # ---- design level -------------------------------------------------------------------
    _par([lambda: _mc(run, "PEImplBug1.cfg", 2, "code as it was, confirmations routed: WaitCovers violated (hand-over not entered)", "violation"),
          lambda: _mc(run, "PEImplBug2.cfg", 2, "code as it was, threshold 1: WaitCovers violated (shared confirmChan)", "violation")], 2)
    _mc(run, "PEImplMCkf.cfg", w, "code as it was: every WaitCovers violation is in the situation of KF_WaitMissesHandover; "
                                  "all other guards/invariants hold")
    _mc(run, "PEImplMCsz.cfg", w, "repair (enter before inflight--, Wait waits for inflight=0), task sizes {0,1} against an "
                                  "accumulated-size threshold 2 (includes the count-threshold behaviours): all guards hold")
    _mc(run, "PEImplLive.cfg", w, "repair, fair: every call returns (Wait terminates)")
    if thorough:
        _mc(run, "PEImplMCfix.cfg", w, "repair, count threshold: all guards hold")
        _mc(run, "PEImplMCfix2.cfg", w, "repair, threshold 1, 3 producers")
        _mc(run, "PEImplMCfixL.cfg", w, "repair, 2 producers, 3 tasks, Flush+2 Waits, 2 ticks, quit/restart", timeout=2400)
        _mc(run, "PEImplMCszN.cfg", w, "repair, sizes {-1,0,1,2} (sizes that cancel out)")
        _mc(run, "PEImplLiveKf.cfg", w, "code as it was, fair: every call returns")
        _mc(run, "PEImplMCkf2.cfg", w, "code as it was, threshold 1 (shared confirmChan): violations only in the KF situation")
    # ---- spec -> code: schedule generation (independent single-worker TLC runs, side by side)
    #   cfg, threshold, hook gate, kinds the schedules are meaningful for
    allK, sized = KINDS, ["pe", "chunk"]
    gens = [("PEImplGenBad1.cfg", 2, False, allK), ("PEImplGenBad2.cfg", 1, True, allK),
            ("PEImplGenR.cfg", 2, False, sized), ("PEImplGenO.cfg", 1, False, allK)]
    if thorough:
        gens += [("PEImplGenZL.cfg", 2, False, sized), ("PEImplGenP.cfg", 2, False, allK), ("PEImplGenA.cfg", 2, False, allK),
                 ("PEImplGenB.cfg", 1, False, allK), ("PEImplGenH.cfg", 1, True, allK)]
    else:
        gens += [("PEImplGenZ.cfg", 2, False, sized), ("PEImplGenQ.cfg", 2, False, allK), ("PEImplGenH.cfg", 1, True, allK)]
    behs = _par([(lambda c=cfg: run.generate(FAM, "PEImpl", c)) for cfg, _, _, _ in gens], 8 if thorough else 4)
    beh = {g[0]: b for g, b in zip(gens, behs)}
    # design-level counterexamples must be reproduced (or not) on the real code
    bad1, bad2 = beh["PEImplGenBad1.cfg"], beh["PEImplGenBad2.cfg"]
    if kf_open:
        # every trace explained by an open known finding costs several TLC starts: keep a handful
        k = 6 if thorough else 2
        beh["PEImplGenBad1.cfg"], beh["PEImplGenBad2.cfg"] = rnd.sample(bad1, min(len(bad1), k)), rnd.sample(bad2, min(len(bad2), k))
    scheds = []
    for cfg, thr, hook, kinds in gens:
        b = beh[cfg]
        if len(b) > 1200 and cfg in ("PEImplGenZL.cfg",):
            b = rnd.sample(b, 1200)   # one per final state and situation is plenty: a seeded sample per run
        small = len(b) * len(kinds) <= (1500 if thorough else 60)
        if cfg.startswith("PEImplGenBad"):
            small = thorough and not kf_open
        every = (lambda i, kinds=kinds: kinds)
        one = (lambda i, kinds=kinds: [kinds[i % len(kinds)]])
        scheds += _sched(b, thr, hook, every if small else one, cfg[6:-4])
    traces = [_replay(run, scheds, "replay")]
    # the same situation on the row buffer of sqlx.BulkInserter
    traces.append(_bisteer(run, beh["PEImplGenO.cfg"], 1, 6 if thorough else 2, rnd))
    merged = run.tmp("replay-all.ndjson")
    with open(merged, "w") as fh:
        for tr in traces:
            if tr:
                fh.write(open(tr).read())
    run.validate(FAM, TRACE[0], TRACE[1], merged, label="replay", split=400 if thorough else 2000)
    # ---- code -> spec: unsteered stress
    nruns = (320 if thorough else 90) if not kf_open else (30 if thorough else 10)
    for cpu in ([4] if not thorough else [1, 2, 4, 16]):
        tr = run.go_driver(PKG, DRV, "TestVerifPEStress$", cpu=cpu, timeout=900, env={"VERIF_PE_RUNS": nruns})
        _info(run, tr, "stress")
        n0 = run.traces
        run.validate(FAM, TRACE[0], TRACE[1], tr, label="stress-cpu%d" % cpu, split=200)
        run.evaluations += run.traces - n0 - 1        # the last trace is the driver's info record
        for i in range(run.traces - n0 - 1):
            run.distinct.add(("stress", cpu, run.seed, i))
    if thorough:
        _bulkinserter(run)


LEVEL_TEXT = ("Exhaustive TLC model checking of an implementation-shaped model of the executor hand-off protocol against "
              "the property-level spec (safety in all interleavings, liveness under fairness), with documented "
              "counterexamples for the code as it is; conformance by replaying TLC-generated environment schedules on the "
              "real executors and validating every recorded trace (replay and stress) with TLC against PE.tla.")
LEVEL_NOTE = ("Bounded at design level: 2-3 producers, <= 3 tasks, thresholds 1-2, sizes -1..2, <= 2 ticks, 2 flusher generations. Real "
              "code: schedules TLC generated plus random stress; interleavings inside the library that neither produces are "
              "not forced. Trusted: TLC/SANY, Go toolchain, harness emit order (DESIGN.md A.5).")
TECHNIQUE = "TLA+ Layer-I/Layer-P specs (PEImpl/PE), TLC refinement + liveness check, TLC-generated schedule replay + TLC trace validation"
DESIGN_REF = "DESIGN.md Part B C11"


def replay(run, path):
    run.replay(FAM, TRACE[0], TRACE[1], path)
