"""C11 — periodical / bulk / chunk executors run every added task exactly once; Wait covers; panic isolation."""
import json
import random

LEVEL = "model_checking"
RULE = ("TLC model-checks PEImpl.tla (the producer/flusher hand-off protocol of periodicalexecutor.go: lock sections, "
        "1-slot commander, shared confirmChan, inflight, guarded, wgBarrier+waitGroup, fake ticker, idle quit/restart) "
        "against the Layer-P guards of PE.tla in every interleaving, then in steering mode (environment moves only when "
        "the library is quiescent) prints one environment schedule (calls, callback-gate releases, ticks, clock advances, "
        "hook-gate releases) per distinct final state plus every schedule that ends in an uncovered Wait; each schedule is "
        "replayed on real PeriodicalExecutor/BulkExecutor/ChunkExecutor objects (gated callbacks, harness ticker, virtual "
        "clock, quiescence detected from goroutine states), free-running stress runs are added, and every recorded trace "
        "is validated by TLC against PE.tla. distinct = distinct (kind, threshold, schedule) triples executed + stress runs.")

FAM = "executors"
PKG = "core/executors"
DRV = ["zz_verif_pe_test.go"]
TRACE = ("PETrace", "PETrace.cfg")
KINDS = ["pe", "bulk", "chunk"]


def _mc(run, cfg, workers, note, expect="ok", module="PEImpl", timeout=1200):
    return run.model_check(FAM, module, cfg, workers=workers, note=note, expect=expect, timeout=timeout)


def _sched(beh, thr, hook, kinds):
    out = []
    for i, steps in enumerate(beh):
        for k in kinds(i):
            out.append({"kind": k, "thr": thr, "hook": hook, "steps": steps})
    return out


def _replay(run, scheds, label):
    if not scheds:
        return
    tr = run.go_driver(PKG, DRV, "TestVerifPEReplay$", inp=scheds, timeout=900)
    info = {}
    for ln in open(tr):
        if '"e":"info"' in ln:
            info = json.loads(ln)
    if info.get("skipped"):
        run.notes.append("%s: %d schedules need the gate point pe.add.sent, which this tree does not have "
                         "(proposed/C11-hook.diff); skipped" % (label, info["skipped"]))
        vlog("  note: %d hook schedules skipped in %s (gate point pe.add.sent absent)" % (info["skipped"], label))
    done = len(scheds) - int(info.get("skipped", 0))
    run.evaluations += done
    for s in scheds:
        run.distinct.add((s["kind"], s["thr"], s["hook"], json.dumps(s["steps"], sort_keys=True)))
    run.validate(FAM, TRACE[0], TRACE[1], tr, label=label, split=400)


def _bulkinserter(run):
    tr = run.go_driver("core/stores/sqlx", ["zz_verif_bulkinserter_test.go"], "TestVerifBulkInserter$", timeout=600)
    n0 = run.traces
    run.validate(FAM, TRACE[0], TRACE[1], tr, label="bulkinserter")
    run.evaluations += run.traces - n0
    for i in range(run.traces - n0):
        run.distinct.add(("bulkinserter", run.seed, i))


def vlog(*a):
    print(*a, flush=True)


def check(run):
    thorough = run.tier == "thorough"
    rnd = random.Random(run.seed)
    run.assumptions += [
        "events are ordered by the harness emitter (one mutex): callStart is logged before the library is entered, "
        "callEnd after it returned, callback events inside the callback, `take` while pe.lock is held",
        "tasks are unique ints; a panicking callback counts as a callback that has returned",
        "steering (quiescence detection from goroutine states, fake ticker, virtual clock H1, gate point pe.add.sent) only "
        "selects schedules; no verdict depends on it. The only time bound is a 20 s watchdog on calls that never return "
        "with every gate open, which the spec classifies (end.pending must be empty)",
        "the `take` events (container wrapper) feed only the guard of known finding KF_WaitMissesHandover",
    ]
    w = 8 if thorough else 4
    # ---- design level -------------------------------------------------------------------
    _mc(run, "PEImplBug1.cfg", 2, "code as it is, confirmations routed: WaitCovers violated (hand-over not entered)", "violation")
    _mc(run, "PEImplBug2.cfg", 2, "code as it is, threshold 1: WaitCovers violated (shared confirmChan)", "violation")
    _mc(run, "PEImplMCkf.cfg", w, "code as it is: every WaitCovers violation is in the situation of KF_WaitMissesHandover; "
                                  "all other guards/invariants hold")
    _mc(run, "PEImplMCfix.cfg", w, "repair (enter before inflight--, Wait waits for inflight=0): all guards hold")
    _mc(run, "PEImplLive.cfg", w, "repair, fair: every call returns (Wait terminates)")
    if thorough:
        _mc(run, "PEImplMCfix2.cfg", w, "repair, threshold 1, 3 producers")
        _mc(run, "PEImplMCfixL.cfg", w, "repair, 2 producers, 3 tasks, Flush+2 Waits, 2 ticks, quit/restart", timeout=2400)
        _mc(run, "PEImplLiveKf.cfg", w, "code as it is, fair: every call returns")
        _mc(run, "PEImplMCkf2.cfg", w, "code as it is, threshold 1 (shared confirmChan): violations only in the KF situation")
    # ---- spec -> code: design-level counterexamples must be reproduced (or not) on the real code
    bad1 = run.generate(FAM, "PEImpl", "PEImplGenBad1.cfg")
    bad2 = run.generate(FAM, "PEImpl", "PEImplGenBad2.cfg")
    allk = lambda i: KINDS
    onek = lambda i: [KINDS[i % 3]]
    kf_open = any(f.get("status") == "open" for f in run.findings)
    if kf_open:
        # every trace explained by an open known finding costs several TLC starts: keep a handful
        k = 6 if thorough else 2
        bad1, bad2 = rnd.sample(bad1, min(len(bad1), k)), rnd.sample(bad2, min(len(bad2), k))
        allk = onek
    _replay(run, _sched(bad1, 2, False, allk if thorough else onek) + _sched(bad2, 1, True, allk if thorough else onek),
            "replay-counterexamples")
    # ---- spec -> code: one schedule per distinct final state
    gens = [("PEImplGenQ.cfg", 2, False), ("PEImplGenH.cfg", 1, True)]
    if thorough:
        gens = [("PEImplGenA.cfg", 2, False), ("PEImplGenB.cfg", 1, False), ("PEImplGenH.cfg", 1, True)]
    for cfg, thr, hook in gens:
        beh = run.generate(FAM, "PEImpl", cfg)
        _replay(run, _sched(beh, thr, hook, allk if (thorough and len(beh) < 500) else onek), "replay-" + cfg[6:-4])
    # ---- code -> spec: unsteered stress
    nruns = (320 if thorough else 90) if not kf_open else (30 if thorough else 10)
    for cpu in ([4] if not thorough else [1, 2, 4, 16]):
        tr = run.go_driver(PKG, DRV, "TestVerifPEStress$", cpu=cpu, timeout=900, env={"VERIF_PE_RUNS": nruns})
        n0 = run.traces
        run.validate(FAM, TRACE[0], TRACE[1], tr, label="stress-cpu%d" % cpu, split=200)
        run.evaluations += run.traces - n0
        for i in range(run.traces - n0):
            run.distinct.add(("stress", cpu, run.seed, i))
    if thorough:
        _bulkinserter(run)


LEVEL_TEXT = ("Exhaustive TLC model checking of an implementation-shaped model of the executor hand-off protocol against "
              "the property-level spec (safety in all interleavings, liveness under fairness), with documented "
              "counterexamples for the code as it is; conformance by replaying TLC-generated environment schedules on the "
              "real executors and validating every recorded trace (replay and stress) with TLC against PE.tla.")
LEVEL_NOTE = ("Bounded at design level: 2-3 producers, <= 3 tasks, thresholds 1-2, <= 2 ticks, 2 flusher generations. Real "
              "code: schedules TLC generated plus random stress; interleavings inside the library that neither produces are "
              "not forced. Trusted: TLC/SANY, Go toolchain, harness emit order (DESIGN.md A.5).")
TECHNIQUE = "TLA+ Layer-I/Layer-P specs (PEImpl/PE), TLC refinement + liveness check, TLC-generated schedule replay + TLC trace validation"
DESIGN_REF = "DESIGN.md Part B C11"


def replay(run, path):
    run.replay(FAM, TRACE[0], TRACE[1], path)
