"""C14 — SQL transactions end exactly once: commit iff the body succeeded."""
import json
import os

import vlib

LEVEL = "model_checking"
RULE = ("TLC enumerates every environment behaviour of TxImpl.tla (the transactOnConn algorithm + database/sql "
        "begin retry + body of <= N statements of 4 kinds + commit/rollback outcome): every placement and "
        "combination of faults (begin fails / bad connection / no connection, k-th statement fails, body "
        "returns nil/error/panics after k statements -- also nil after a failed statement --, commit fails, "
        "rollback fails); in two further enumerations every fault point answers with every error VALUE of a "
        "list (ordinary error, driver.ErrBadConn, sql.ErrTxDone, sql.ErrNoRows, context.Canceled, ...), and the "
        "caller's context of TransactCtx is cancelled / expires before the call or after k statements of the "
        "body (k = all: just before the deferred commit/rollback). A fourth enumeration ranges over the VALUE the "
        "body panics with (24 kinds: errors of several identities incl. breaker-acceptable sentinels, a wrapped one, a "
        "nil pointer of an error type, panic(nil); strings incl. the empty one, a fmt.Stringer; and values that are "
        "neither: int, 0, a named int, false, float, struct, pointer, typed nil pointer, slice, map, func, chan) and "
        "over unusual shapes of the error it returns (caller's struct type, typed nil pointer, %w-wrapped, "
        "errors.Join), after every body of <= 2 statements, with commit/rollback succeeding or failing. Each script is replayed on the real sqlx.SqlConn / sqlc.CachedConn Transact[Ctx] over "
        "a harness database/sql driver that injects exactly these faults and logs what the database saw; "
        "seeded multi-call sequences (shared breaker/pool, breaker storms) and concurrent transactions are "
        "added; every recorded trace is validated by TLC against TxOnce.tla. "
        "distinct = distinct (fault script, api, constructor) triples executed + random traces.")

FAM = "tx"
PKGX = "core/stores/sqlx"
PKGC = "core/stores/sqlc"
COMMON = "zz_verif_txdrv_test.go"
BIND = "zz_verif_tx_test.go"

APIS = ["sqlx.Transact", "sqlx.TransactCtx", "sqlc.Transact", "sqlc.TransactCtx"]
CTORS = ["fromdb", "named"]
BUGS = ["panicSwallowed", "commitErrDropped", "ctxDoneNoEnd", "panicValueLost",      # quick: the first four
        "retryOnBadConn", "panicRethrown",
        "commitOnAcceptable", "rollbackIfStmtFailed", "panicNotRecovered", "rollbackErrDropped",
        "commitOnErr", "noEndOnErr", "bodyWithoutBegin", "ctxDoneRollback"]
CTX_APIS = ["sqlx.TransactCtx", "sqlc.TransactCtx"]      # only these take a caller context


def _files(run, pkg):
    """driver files for a package; the shared harness file is compiled into sqlc as a
    copy with the package clause rewritten"""
    common = os.path.join(vlib.OVERLAY, PKGX, COMMON)
    if pkg == PKGX:
        return [COMMON, BIND]
    dst = run.tmp(COMMON)
    with open(common) as fh:
        txt = fh.read()
    if "\npackage sqlx\n" not in txt:
        raise vlib.Infra("package clause not found in " + common)
    with open(dst, "w") as fh:
        fh.write(txt.replace("\npackage sqlx\n", "\npackage sqlc\n", 1))
    return [dst, BIND]


def _norm(b):
    """a generated behaviour: the fault script plus the Layer-P history TxImpl predicts for it"""
    script = b["script"]
    for k in ("begin", "stmts"):
        if not isinstance(script.get(k), list):      # ToJson renders an empty sequence ambiguously
            script[k] = []
    script.setdefault("fk", "none")
    script.setdefault("cx", {"at": "none", "k": 0, "how": "none"})
    pred = [(x["e"], x["a"], sorted(x["rep"]) if isinstance(x.get("rep"), list) else [])
            for x in (b["log"] if isinstance(b["log"], list) else [])]
    return {"script": script, "pred": pred}


def _observed(events):
    """Layer-P view of one recorded single-call trace (same mapping as TxOnceTrace.tla)"""
    out = []
    okf = lambda e: "ok" if e["ok"] else "fail"
    for e in events:
        k = e["e"]
        if k == "begin":
            out.append((k, "fail" if not e["ok"] else "okb" if e.get("b") else "ok", []))
        elif k == "ctxDone":
            out.append((k, "", []))
        elif k in ("commit", "rollback"):
            out.append((k, okf(e), []))
        elif k == "body":
            out.append((k, "", []))
        elif k == "stmt":
            if e["kind"] != "pexec":                 # the model has one event per prepared statement
                out.append((k, okf(e) if e["x"] == e["t"] else "foreign", []))
        elif k == "nest":
            out.append((k, "refused" if not e["ran"] and not e["nil"] else "accepted", []))
        elif k == "bodyEnd":
            out.append((k, e["how"], []))
        elif k == "ret":
            out.append((k, "panic" if e["p"] else "nil" if e["nil"] else "err",
                        sorted(set(e["rep"]) & {"commit", "rollback"})))
    return out


def _has_ctx(sc):
    return sc["script"]["cx"]["at"] != "none"


OLD_PANICS = ("str", "err", "rt")
OLD_ERRS = ("plain", "norows", "notfound", "canceled", "txdone", "bad", "deadline")


def _has_val(sc):
    """does the body panic, or return an error of one of the unusual shapes?"""
    s = sc["script"]
    return s.get("end") == "panic" or (s.get("end") == "err" and s.get("ek") not in OLD_ERRS)


def _has_ids(sc):
    """does the script use an error value other than the harness' ordinary error anywhere?"""
    s = sc["script"]
    return (any(x.get("ek", "none") not in ("none", "plain") for x in s["stmts"])
            or s.get("fk", "none") not in ("none", "plain")
            or s.get("ek") in ("bad", "deadline")
            or any(str(b).startswith("f:") for b in s["begin"]))


def _compare(run, trace_file, mine):
    """information only: did the real code do what Layer I (TxImpl) predicted for the script?"""
    st = run.extra.setdefault("layer_I_predictions", {"replays": 0, "matched": 0, "mismatch_samples": []})
    traces, cur = [], None
    with open(trace_file) as fh:
        for ln in fh:
            e = json.loads(ln)
            if e["e"] == "reset":
                if e["mode"] != "replay":
                    break
                cur = []
                traces.append(cur)
            elif cur is not None:
                cur.append(e)
    for c, evs in zip(mine, traces):
        obs, pred = _observed(evs), [tuple(x) for x in c["pred"]]
        same = len(obs) == len(pred) and all(
            o[0] == p[0] and o[1] == p[1] and set(p[2]) <= set(o[2]) for o, p in zip(obs, pred))
        st["replays"] += 1
        if same:
            st["matched"] += 1
        elif len(st["mismatch_samples"]) < 3:
            st["mismatch_samples"].append({"case": {k: c[k] for k in ("api", "ctor", "script")},
                                           "predicted": pred, "observed": obs})


def _stats(run, trace_file):
    """what the recorded traces exercised (evidence only, no verdict)"""
    st = run.extra.setdefault("exercised", {"traces_by_api_ctor_mode": {}, "breaker_rejections": 0,
                                            "returns_nil": 0, "returns_err": 0, "commit_failures": 0,
                                            "rollback_failures": 0, "failed_begin_attempts": 0})
    with open(trace_file) as fh:
        for ln in fh:
            e = json.loads(ln)
            k = e.get("e")
            if k == "reset":
                key = "%s/%s/%s" % (e["api"], e["ctor"], e["mode"])
                st["traces_by_api_ctor_mode"][key] = st["traces_by_api_ctor_mode"].get(key, 0) + 1
            elif k == "ret":
                st["returns_nil" if e["nil"] else "returns_err"] += 1
                if "breaker" in e["rep"]:
                    st["breaker_rejections"] += 1
            elif k in ("commit", "rollback") and not e["ok"]:
                st[k + "_failures"] += 1
            elif k == "begin" and not e["ok"]:
                st["failed_begin_attempts"] += 1


def _drive(run, cases):
    """one go test per package: replays its share of the cases, then the seeded sequence /
    storm / concurrent traces; one TLC validation per package"""
    for pkg, prefix in ((PKGX, "sqlx."), (PKGC, "sqlc.")):
        mine = [c for c in cases if c["api"].startswith(prefix)]
        tr = run.go_driver(pkg, _files(run, pkg), "TestVerifTx(Replay|Sequences|Concurrent)$", inp=mine)
        n0 = run.traces
        _stats(run, tr)
        _compare(run, tr, mine)
        run.validate(FAM, "TxOnceTrace", "TxOnceTrace.cfg", tr, label=prefix[:-1], split=6000)
        for c in mine:
            run.distinct.add(vlib.distinct_key({k: c[k] for k in ("api", "ctor", "script")}))
        for i in range(max(0, run.traces - n0 - len(mine))):
            run.distinct.add(("random", prefix, run.seed, i))
        run.evaluations += run.traces - n0


def check(run):
    thorough = run.tier == "thorough"
    run.assumptions += [
        "the harness database/sql driver is the database: a transaction is begun/committed/rolled back when the "
        "driver's Begin/Commit/Rollback is called (database/sql absorbs a second Commit/Rollback on a finished "
        "sql.Tx, so a redundant deferred Rollback after a Commit is invisible and harmless by design)",
        "a commit/rollback failure counts as reported if the returned error wraps the injected error, "
        "contains its text, or says 'commit'/'rollback' in words",
        "neighbouring behaviour also demanded: a nested Transact on a transaction session is refused "
        "(errCantNestTx) and statements reach the open transaction of their own call",
        "faults are those of the property's quantifier, each with several error values (driver.ErrBadConn, "
        "sql.ErrTxDone, sql.ErrNoRows, context.Canceled/DeadlineExceeded, io.EOF, sql.ErrConnDone, an ordinary error)",
        "the caller's context: not in the property's fault list, but the statement does not except it either -- a "
        "context that ends before the call or between statements of the body (cancel, or a deadline context of the "
        "harness: no timers) excuses nothing, EXCEPT for a transaction the driver sees begun on a context that can "
        "end (sql.DB.BeginTx(ctx); go-zero uses sql.DB.Begin(), so never here): database/sql itself then rolls it "
        "back asynchronously and its Commit returns the context error, which TxOnce.tla accepts (Excused) and "
        "TxImplMCbound.cfg checks against a model of that behaviour; the context never ends while a driver call "
        "is in flight",
        "Go's database/sql (begin retry on driver.ErrBadConn, connection pool, refusing statements on a context "
        "that is done) is trusted",
    ]
    inv = "H_* clauses + consequences as invariants"
    # ---- design level
    run.model_check(FAM, "TxOnceMC", "TxOnceMC.cfg", workers=4, note="guarded machine, 1 call, <=3 stmts, <=3 failed begins: " + inv)
    if thorough:    # (quick: TxOnceFreeCtx + TxOnceMCU below cover the context at design level)
        run.model_check(FAM, "TxOnceMC", "TxOnceMCctx3.cfg", workers=8,
                        note="the same with the caller's context ending at any moment and context-bound transactions: "
                             + inv + ", CtxExcusesNothing")
    run.model_check(FAM, "TxOnceMC", "TxOnceFree.cfg", workers=4,
                    note="every event at every moment (depth 7): guards violated <=> a declarative clause violated")
    run.model_check(FAM, "TxOnceMC", "TxOnceFreeCtx7.cfg" if thorough else "TxOnceFreeCtx.cfg", workers=4,
                    note="the same incl. ctxDone and context-bound begins (depth %d)" % (7 if thorough else 5))
    run.model_check(FAM, "TxImpl", "TxImplMC.cfg" if thorough else "TxImplMCq.cfg", workers=4,
                    note="transactOnConn algorithm, all fault placements, <=3 stmts x 4 kinds, breaker may reject"
                         + ("" if thorough else " (2 error kinds)"))
    run.model_check(FAM, "TxImpl", "TxImplMCctx.cfg" if thorough else "TxImplMCctxq.cfg", workers=4,
                    note="the algorithm with the caller's context ending before the call / after k statements and "
                         "error identities at every fault point" + ("" if thorough else " (<=2 stmts of 2 kinds)")
                         + ": NoDeviation, CtxBlind")
    if thorough:    # (the allowance never applies to /repo: sql.DB.Begin() binds nothing)
        run.model_check(FAM, "TxImpl", "TxImplMCbound.cfg", workers=4,
                        note="a context-bound algorithm (BeginTx(ctx)) + database/sql's asynchronous rollback satisfies "
                             "TxOnce: the allowance Excused() admits what database/sql does on its own")
    run.model_check(FAM, "TxOnceMC", "TxOnceMCU.cfg", workers=2,
                    note="two calls, ANY number of statements / failed begins (history hidden by VIEW): StateInv")
    run.model_check(FAM, "TxImpl", "TxImplMCU.cfg", workers=2,
                    note="algorithm with bodies of ANY length (statements+history hidden by VIEW), ending in every way: "
                         "every error kind / every panic VALUE kind (24): NoDeviation, StateInv, PanicValueBlind")
    if thorough:
        run.model_check(FAM, "TxImpl", "TxImplMCpanic.cfg", workers=4,
                        note="the algorithm with the body panicking with a value of EVERY kind (24: errors, texts, and "
                             "values that are neither) / returning errors of unusual shapes, <=2 stmts x 4 kinds, error "
                             "identities at statements and commit/rollback: all invariants + PanicValueBlind")
        run.model_check(FAM, "TxImpl", "TxImplOldDomain_panicValueLost.cfg", workers=1,
                        note="why the domain matters: the seeded defect 'panicValueLost' satisfies NoDeviation when bodies "
                             "panic only with a string, an error or a runtime error")
    for b in (BUGS if thorough else BUGS[:4]):
        run.model_check(FAM, "TxImpl", "TxImplBug_%s.cfg" % b, workers=1, expect="violation",
                        note="seeded defect '%s' violates NoDeviation" % b)
    if thorough:
        run.model_check(FAM, "TxOnceMC", "TxOnceMC2.cfg", workers=8, note="two interleaved calls")
        run.model_check(FAM, "TxImpl", "TxImplMC5.cfg", workers=8, note="bodies of <=5 statements (one error kind)")
    # ---- spec -> code: every fault script on the real code
    cases = []
    if thorough:
        beh = [_norm(b) for b in run.generate(FAM, "TxImpl", "TxImplGen3.cfg")]
        for i, sc in enumerate(beh):
            k = i + run.seed
            if len(sc["script"]["stmts"]) < 3:            # every api
                apis = APIS
            else:                               # one sqlx and one sqlc api, rotating
                apis = [APIS[k % 2], APIS[2 + (k // 2) % 2]]
            for j, api in enumerate(apis):
                cases.append({"api": api, "ctor": CTORS[(k // 4 + j) % 2], "script": sc["script"], "pred": sc["pred"]})
    else:
        beh2 = [_norm(b) for b in run.generate(FAM, "TxImpl", "TxImplGen2.cfg")]
        for i, sc in enumerate(beh2):
            k = i + run.seed
            if len(sc["script"]["stmts"]) < 2:            # bodies of <= 1 statement: every api
                for j, api in enumerate(APIS):
                    cases.append({"api": api, "ctor": CTORS[(k + j) % 2], "script": sc["script"], "pred": sc["pred"]})
            else:                               # bodies of 2 statements: one sqlx and one sqlc api, rotating
                for j, api in enumerate([APIS[k % 2], APIS[2 + (k // 2) % 2]]):
                    cases.append({"api": api, "ctor": CTORS[(k // 4 + j) % 2], "script": sc["script"], "pred": sc["pred"]})
    # ---- the two further dimensions: error identity at every fault point; the caller's context
    gens = ["TxImplGenErrX.cfg", "TxImplGenErr3.cfg"] if thorough else ["TxImplGenErr2.cfg"]
    errs = [sc for g in gens for sc in (_norm(b) for b in run.generate(FAM, "TxImpl", g)) if _has_ids(sc)]
    for i, sc in enumerate(errs):               # one api each, rotating over all four
        k = i + run.seed
        cases.append({"api": APIS[k % 4], "ctor": CTORS[(k // 4) % 2], "script": sc["script"], "pred": sc["pred"]})
    ctxs = [sc for sc in (_norm(b) for b in run.generate(FAM, "TxImpl", "TxImplGenCtx3.cfg" if thorough else "TxImplGenCtx2.cfg"))
            if _has_ctx(sc)]
    for i, sc in enumerate(ctxs):
        k = i + run.seed
        apis = CTX_APIS if (not thorough or len(sc["script"]["stmts"]) < 3) else [CTX_APIS[k % 2]]
        for j, api in enumerate(apis):
            cases.append({"api": api, "ctor": CTORS[(k // 2 + j) % 2], "script": sc["script"], "pred": sc["pred"]})
    # ---- the value the body panics with (any Go value) / the shape of the error it returns
    vals = [sc for sc in (_norm(b) for b in run.generate(FAM, "TxImpl", "TxImplGenPanicX.cfg" if thorough else "TxImplGenPanic2.cfg"))
            if _has_val(sc)]
    seen = {}
    for sc in vals:                             # one api each, rotating over all four WITHIN each kind of value
        key = (sc["script"]["end"], sc["script"]["ek"])
        k = seen[key] = seen.get(key, -1) + 1
        k += run.seed
        cases.append({"api": APIS[k % 4], "ctor": CTORS[(k // 4) % 2], "script": sc["script"], "pred": sc["pred"]})
    run.extra["scripts"] = {"fault_placement": len(beh if thorough else beh2),
                            "error_identity": len(errs), "caller_context": len(ctxs), "panic_value_error_shape": len(vals)}
    run.extra["panic_value_kinds"] = sorted({sc["script"]["ek"] for sc in vals if sc["script"]["end"] == "panic"})
    # ---- the real code: every script replayed + (code -> spec) multi-call sequences on one
    # connection object, breaker storms and concurrent transactions; TLC validates every trace
    _drive(run, cases)
    li = run.extra.get("layer_I_predictions", {})
    if li.get("replays") != li.get("matched"):
        vlib.log("  NOTE %d of %d replays differ from the Layer-I prediction (not a verdict; see evidence)"
                 % (li["replays"] - li["matched"], li["replays"]))


LEVEL_TEXT = ("Exhaustive TLC model checking of the transaction algorithm against the property for every fault placement "
              "(bodies <= 3 statements of 4 kinds with full histories; <= 5 in the thorough tier; bodies of any length "
              "for the state-level form of the property, history hidden by a VIEW), a TLC cross-check that the operational "
              "guards and the declarative clauses of the property agree on every event sequence up to depth 7, and "
              "conformance: every TLC-enumerated fault script (quick: 3085 scripts with bodies <= 2 statements, thorough: 21607 scripts with bodies <= 3; each on 2-4 of the 4 APIs, both constructors; plus the scripts of the "
              "error-identity enumeration (quick 2096: 4 error values x every fault point, bodies <= 2; thorough ~25000: 8 error values) "
              "on one API each and of the caller-context enumeration (quick 930, thorough ~6500: context cancelled / deadline-expired "
              "before the call and after each k statements) on both TransactCtx APIs, and of the panic-value / error-shape "
              "enumeration (quick 1736: 24 kinds of panic value + 4 error shapes after every body of <= 2 statements of 3 kinds, "
              "commit/rollback ok or failing; thorough 4788: 4 statement kinds, 2 error values of a failing rollback) on one API "
              "each; measured counts in coverage.scripts) is executed on the real "
              "Transact/TransactCtx of sqlx.SqlConn and sqlc.CachedConn over a fault-injecting database/sql driver "
              "and the recorded events are validated by TLC against TxOnce.tla.")
LEVEL_NOTE = ("Trusted: TLC/SANY, Go toolchain and database/sql, the harness driver's event order. Bodies longer than the "
              "bound are sampled (random sequences, <= 6 statements, random error values, random panic values of the 24 kinds, "
              "context ending in one call of five). Panic values are representatives of their kind (one int, one struct ...); "
              "not tried: values whose formatting does not terminate (cyclic structures), runtime.Goexit in the body "
              "(neither a return nor a panic). Not injected: panics inside the driver, a context ending while a driver call is in flight.")
TECHNIQUE = "TLA+ spec (TxOnce/TxImpl), TLC exhaustive fault enumeration, replay on real code, TLC trace validation"
DESIGN_REF = "DESIGN.md Part B C14"


def replay(run, path):
    run.replay(FAM, "TxOnceTrace", "TxOnceTrace.cfg", path)
