"""C07 — SingleFlight / LockedCalls / ResourceManager: de-duplication without staleness, per-key exclusion."""
import os

import vlib

LEVEL = "model_checking"
RULE = ("TLC model-checks implementation-shaped models of flightGroup, ResourceManager and lockedGroup (up to 3 "
        "callers, 2 keys, 1-2 objects, 2-3 sequential calls each) against the Layer-P spec Flight.tla; FlightGen enumerates every "
        "feasible API-level schedule of driver moves (call(ob,k), release(ob,k,outcome), del/inject, optionally hook stops) "
        "up to D moves, over one object and over two objects handed the same key strings; each schedule is replayed on "
        "the real objects with the supplied function as a gate and rest "
        "detected from one atomic goroutine snapshot; free-running stress rounds (2-32 goroutines, 1-30 keys, 1-3 objects, "
        "GOMAXPROCS 1-16) are added; every recorded event trace is validated by TLC against Flight.tla. "
        "distinct = distinct schedules executed + stress rounds.")

FAM = "flight"
PKG = "core/syncx"
SCHED = "zz_verif_flight_sched_test.go"
DRV = ["zz_verif_flight_test.go", SCHED]
TRACE = ("FlightTrace", "FlightTrace.cfg")


def _sched_for(run, pkg, pkgname):
    """the schedule machinery lives once (core/syncx overlay); compile it into another package too"""
    src = os.path.join(vlib.OVERLAY, PKG, SCHED)
    txt = open(src).read().replace("package syncx", "package " + pkgname, 1)
    p = run.tmp("flight_sched_test.go")
    with open(p, "w") as fh:
        fh.write(txt)
    return {os.path.join(vlib.REPO, pkg, SCHED): p}


def _has_hooks():
    """optional H2 gate points of /verif/proposed/C07-hook.diff present in the tree under test?"""
    try:
        return ('verifhook.At("flight.beforeDone"' in open(os.path.join(vlib.REPO, PKG, "singleflight.go")).read()
                and 'verifhook.At("locked.beforeDone"' in open(os.path.join(vlib.REPO, PKG, "lockedcalls.go")).read())
    except OSError:
        return False


def _replay(run, gen_cfg, pkg, files, test, label, extra=None, hooks=0):
    beh = []
    for cfg in ([gen_cfg] if isinstance(gen_cfg, str) else gen_cfg):
        beh += run.generate(FAM, "FlightGen", cfg, workers=1)
    for b in beh:
        run.distinct.add((label, vlib.distinct_key(b)))
    run.evaluations += len(beh)
    tr = run.go_driver(pkg, files, test, inp=beh, extra_overlay=extra, timeout=900, env={"VERIF_FLIGHT_HOOKS": hooks})
    run.validate(FAM, *TRACE, tr, label=label)


def _stress(run, pkg, files, test, label, rounds, extra=None, cpu=None, sweep=0):
    tr = run.go_driver(pkg, files, test, env={"VERIF_FLIGHT_ROUNDS": rounds, "VERIF_FLIGHT_STYLE": ""},
                       extra_overlay=extra, cpu=cpu)
    if sweep:
        tr2 = run.go_driver(pkg, files, test, env={"VERIF_FLIGHT_ROUNDS": sweep, "VERIF_FLIGHT_STYLE": "sweep"},
                            extra_overlay=extra, cpu=cpu)
        with open(tr, "a") as fh:
            fh.write(open(tr2).read())
    n0 = run.traces
    run.validate(FAM, *TRACE, tr, label=label)
    run.evaluations += run.traces - n0
    for i in range(run.traces - n0):
        run.distinct.add((label, run.seed, i))


def check(run):
    thorough = run.tier == "thorough"
    run.assumptions += [
        "an execution is identified with the call that runs it; a call runs its function at most once",
        "events are ordered by the harness emitter's mutex: callStart before the library is entered, callEnd after "
        "it returned, fnStart/fnEnd inside the supplied function (logged intervals contain the real ones)",
        "'at rest' is decided from one runtime.Stack(all) snapshot (stop-the-world): every live call goroutine is "
        "parked in its gate or in a package-sync primitive; no time limit takes part in any verdict",
        "what the joiner of a panicking execution receives is not constrained (the statement speaks of value and error)",
        "cache consumers: Del only while no Take on that key is open; expiry out of reach (1 h)",
        "every clause is a promise of one object (SingleFlight, LockedCalls, ResourceManager instance) about the keys "
        "handed to it: the key of a call is the pair (object, key string); objects given the same key string are "
        "unrelated (no waiting on each other, no results or resources of one handed out by another)",
    ]
    w = 8 if thorough else 4
    # ---- design level: the algorithms satisfy Layer P; documented counterexamples for broken variants
    run.model_check(FAM, "SingleFlightImpl", "SFImplMCq.cfg", workers=w, note="flightGroup, 3 callers x 2 keys x 1 call")
    run.model_check(FAM, "LockedCallsImpl", "LCImplMCq.cfg", workers=w, note="lockedGroup, 3 callers x 2 keys x 1 call")
    run.model_check(FAM, "SingleFlightImpl", "RMImplMCq.cfg", workers=w, note="ResourceManager, 2 callers x 2 keys x 2 calls")
    run.model_check(FAM, "SingleFlightImpl", "RMImplMC3q.cfg", workers=w,
                    note="2 ResourceManagers given the same key string, 3 callers x 1 call")
    run.model_check(FAM, "SingleFlightImpl", "SFImplBugKeep.cfg", workers=1, expect="violation",
                    note="entry kept when fn failed: a later call is handed the retained error (CallEndOK)")
    run.model_check(FAM, "SingleFlightImpl", "SFImplBugRacy.cfg", workers=1, expect="violation",
                    note="lookup and registration in two critical sections: two executions of one key overlap")
    run.model_check(FAM, "LockedCallsImpl", "LCImplBugNoGoto.cfg", workers=1, expect="violation",
                    note="no re-check after wg.Wait: two waiters of one runner execute together")
    run.model_check(FAM, "SingleFlightImpl", "RMImplBugOuter.cfg", workers=1, expect="violation",
                    note="map consulted before entering the flight (check-then-act): second successful create")
    run.model_check(FAM, "SingleFlightImpl", "RMImplBugShared.cfg", workers=1, expect="violation",
                    note="one flight group behind every manager: a caller of manager B is handed an instance of manager A")
    if thorough:
        run.model_check(FAM, "SingleFlightImpl", "SFImplBugShared.cfg", workers=1, expect="violation",
                        note="one calls map behind every SingleFlight: a call on group B waits for group A's execution")
        run.model_check(FAM, "LockedCallsImpl", "LCImplBugShared.cfg", workers=1, expect="violation",
                        note="one map behind every LockedCalls: a call on object B waits for object A's execution")
        run.model_check(FAM, "SingleFlightImpl", "RMImplMC22.cfg", workers=8, note="2 ResourceManagers x 2 keys, 2 callers x 2 calls each")
        run.model_check(FAM, "SingleFlightImpl", "SFImplMC22.cfg", workers=8, note="2 flightGroups x 2 keys, 2 callers x 2 calls each")
        run.model_check(FAM, "LockedCallsImpl", "LCImplMC22.cfg", workers=8, note="2 lockedGroups x 2 keys, 2 callers x 2 calls each")
        run.model_check(FAM, "SingleFlightImpl", "RMImplBugNoCheck.cfg", workers=1, expect="violation",
                        note="create without consulting the map: a key is created successfully twice")
        run.model_check(FAM, "LockedCallsImpl", "LCImplSwap.cfg", workers=w,
                        note="wg.Done before delete: waiters spin, property still holds")
        run.model_check(FAM, "SingleFlightImpl", "SFImplMC3.cfg", workers=8, note="flightGroup, 3 callers x 1 key x 2 calls each")
        run.model_check(FAM, "SingleFlightImpl", "SFImplMC2.cfg", workers=8, note="flightGroup, 2 callers x 2 keys x 3 calls each")
        if os.environ.get("VERIF_C07_FULL"):   # 18.6 M states, ~3-4 min on an idle 16-core box
            run.model_check(FAM, "SingleFlightImpl", "SFImplMC.cfg", workers=8, timeout=3000,
                            note="flightGroup, 3 callers x 2 keys x 2 calls each")
        run.model_check(FAM, "LockedCallsImpl", "LCImplMC.cfg", workers=8, note="lockedGroup, 3 callers x 2 keys x 2 calls each")
        run.model_check(FAM, "SingleFlightImpl", "RMImplMC.cfg", workers=8, note="ResourceManager, 3 callers x 1 key x 2 calls each")
        run.model_check(FAM, "SingleFlightImpl", "SFImplSwap.cfg", workers=8,
                        note="wg.Done before delete: a late joiner still overlaps the leading call, property holds")
    # ---- spec -> code -> spec: every feasible gate schedule, replayed and validated
    sfx = "t" if thorough else "q"
    _replay(run, "GenSF%s.cfg" % sfx, PKG, DRV, "TestVerifFlightReplaySF$", "replay-SF")
    _replay(run, "GenLC%s.cfg" % sfx, PKG, DRV, "TestVerifFlightReplayLC$", "replay-LC")
    _replay(run, "GenRM%s.cfg" % sfx, PKG, DRV, "TestVerifFlightReplayRM$", "replay-RM")
    # several objects (2 SingleFlights / LockedCalls / ResourceManagers) handed the same key strings
    _replay(run, ["GenObjt.cfg", "GenObj2t.cfg"] if thorough else "GenObjq.cfg", PKG, DRV,
            "TestVerifFlightReplayObjs$", "replay-objects")
    if _has_hooks():
        # schedules that park a leader between fn's return and delete / between delete and wg.Done
        _replay(run, "GenHookSF%s.cfg" % sfx, PKG, DRV, "TestVerifFlightReplaySF$", "hooked-SF", hooks=1)
        _replay(run, "GenHookLC%s.cfg" % sfx, PKG, DRV, "TestVerifFlightReplayLC$", "hooked-LC", hooks=1)
    else:
        run.notes.append("optional hook points flight.beforeDelete/beforeDone not in the tree: hooked schedules skipped")
    ov = _sched_for(run, "core/collection", "collection")
    _replay(run, ["GenTake%s.cfg" % sfx, "GenTakeObj%s.cfg" % sfx], "core/collection", ["zz_verif_flight_cache_test.go"],
            "TestVerifFlightCacheReplay$", "replay-CacheTake", extra=ov)
    # ---- code -> spec: free-running stress
    _stress(run, PKG, DRV, "TestVerifFlightStress$", "stress", 400 if thorough else 60,
            sweep=1500 if thorough else 350)
    if thorough:
        _stress(run, "core/collection", ["zz_verif_flight_cache_test.go"], "TestVerifFlightCacheStress$",
                "stress-CacheTake", 150, extra=ov)
        ovn = _sched_for(run, "core/stores/cache", "cache")
        _replay(run, "GenTakeq.cfg", "core/stores/cache", ["zz_verif_flight_node_test.go"],
                "TestVerifFlightNodeReplay$", "replay-cacheNode", extra=ovn)


LEVEL_TEXT = ("Exhaustive TLC model checking of implementation-shaped models of flightGroup, lockedGroup and "
              "ResourceManager against the property-level spec (up to 3 callers x 2 keys x 2 calls), plus conformance: "
              "every feasible gate schedule up to D driver moves is replayed on the real objects (also through "
              "collection.Cache.Take and cacheNode.Take) and seeded free-running stress traces are validated by TLC.")
LEVEL_NOTE = ("Trusted: TLC/SANY, the Go toolchain, runtime.Stack's atomic snapshot, the emitter ordering. Interleavings "
              "between two statements of library code (e.g. a caller arriving between fn's return and the deletion of "
              "the entry) are covered exhaustively in the model and only statistically (stress) on the real code.")
TECHNIQUE = ("TLA+ Layer-P spec (Flight) with interval-overlap oracle, Layer-I TLA+ models checked against it, "
             "TLC-enumerated gate schedules replayed on the real code, TLC trace validation")
DESIGN_REF = "DESIGN.md Part B C07"


def replay(run, path):
    run.replay(FAM, *TRACE, path)
