"""Extension specification "syncxobjs" (host C05, ADVISORY): the small objects of core/syncx as linearizable
objects, Cond and ImmutableResource on the virtual clock.  specs/threadx/{Atomics,Cond,Immutable,ManagedImpl}*."""
import json
import os
import random

import vlib  # lib/ is on sys.path (set up by ./check)

HOST = "C05"
WHAT = ("core/syncx SpinLock, OnceGuard, AtomicBool, AtomicDuration, AtomicFloat64, DoneChan, Barrier, RefResource, "
        "ManagedResource as linearizable objects (mutual exclusion, one winner, clean runs once at count zero, one "
        "generation per breakage, Add loses no update); Cond (a Signal wakes at most one waiter and is not remembered, "
        "a parked waiter is woken, remaining time on the virtual clock); ImmutableResource (loaded once and never "
        "replaced, errors cached for the refresh interval on the virtual clock)")
QUICK = False
FAM = "threadx"
PKG = "core/syncx"
DRV = ["zz_verif_ext_syncxobjs_test.go"]
COV = ["-coverage", "1"]

TRACE = {
    "atom": ("AtomicsTrace", "AtomicsTrace.cfg"),
    "cond": ("CondTrace", "CondTrace.cfg"),
    "imm": ("ImmutableTrace", "ImmutableTrace.cfg"),
}

# Known findings of this extension (not in known_findings.json: that file belongs to the listed properties).  The
# deviations are enabled for the traces of ONE driver (TestVerifExtsyncxobjsImmKnown), and only after TLC rejected them.
KF_SKIP = {
    "property": HOST, "status": "open", "deviation": "KF_ImmSkipDuringFetch",
    "what": ("[extension syncxobjs, advisory] syncx.ImmutableResource.Get called while another Get is fetching neither "
             "waits for that fetch nor fetches: it answers (nil, nil) when no earlier fetch has failed - e.g. every Get "
             "that races with the very first one (core/syncx/immutableresource.go: maybeRefresh skips execute because "
             "lastTime was just set, then Get returns the still empty fields); fix: proposed/ext-syncxobjs-fix.diff"),
}
KF_OVERLAP = {
    "property": HOST, "status": "open", "deviation": "KF_ImmOverlappingFetch",
    "what": ("[extension syncxobjs, advisory] syncx.ImmutableResource: when the clock passes the refresh interval while "
             "a slow fetch is in flight (or two Gets read lastTime before either writes it) a second fetch runs "
             "concurrently and the later store wins: a resource already handed out is REPLACED by another one, or an "
             "error is stored next to the loaded resource and Get returns both (core/syncx/immutableresource.go Get: "
             "the store does not look at ir.resource); fix: proposed/ext-syncxobjs-fix.diff"),
}


def _split(run, path):
    """One driver run records traces for several trace modules; the reset event names the module (field m)."""
    out = {}
    cur = None
    for ln in open(path):
        if not ln.strip():
            continue
        ev = json.loads(ln)
        if ev.get("e") == "reset":
            cur = ev.get("m", "?")
        out.setdefault(cur, []).append(ln if ln.endswith("\n") else ln + "\n")
    files = {}
    for m, lines in out.items():
        p = run.tmp("ext-%s.ndjson" % m)
        with open(p, "w") as fh:
            fh.writelines(lines)
        files[m] = p
    return files


def _validate(run, path, label, split=None):
    ok = True
    for m, f in sorted(_split(run, path).items()):
        if m not in TRACE:
            raise vlib.Infra("driver wrote a trace for an unknown module %r" % m)
        mod, cfg = TRACE[m]
        n0 = run.traces
        ok = run.validate(FAM, mod, cfg, f, label="ext-syncxobjs-%s-%s" % (label, m), split=split) and ok
        run.evaluations += run.traces - n0
        for i in range(run.traces - n0):
            run.distinct.add(("ext-syncxobjs", label, m, run.seed, i))
    return ok


def _design(run):
    only = os.environ.get("VERIF_EXT_SO_ONLY", "")
    if only not in ("", "mc"):
        return
    # ---- the linearizable objects ------------------------------------------------------------------------
    run.model_check(FAM, "AtomicsMC", "AtomicsMC.cfg", workers=4, args=COV,
                    note="Layer P, all 9 kinds, 2 processes x 4 calls: MutualExclusion OneWinner CleanOnce RefCount "
                         "OnePerBreakage NoLostAdd DoneSticks, no dead action")
    run.model_check(FAM, "AtomicsMC", "AtomicsMC3.cfg", workers=4,
                    note="3 processes x 4 calls (spin done barrier ref managed)")
    run.model_check(FAM, "AtomicsImpl", "AtomicsImplFloatMC.cfg", workers=4,
                    note="atomicfloat64.go: Add's load / compare-and-swap loop against Atomics.tla, 3 processes x 4 calls "
                         "(the SpinLock actions are dead in this config)")
    run.model_check(FAM, "AtomicsImpl", "AtomicsImplSpinMC.cfg", workers=4,
                    note="spinlock.go: Lock's TryLock / Gosched loop, 3 processes x 9 calls (the AtomicFloat64 actions are dead)")
    run.model_check(FAM, "AtomicsImpl", "AtomicsImplBugAdd.cfg", workers=2, expect="violation",
                    note="wrong variant: Add stores old+v without comparing -> a racing update is lost (Agree)")
    run.model_check(FAM, "AtomicsImpl", "AtomicsImplBugTas.cfg", workers=2, expect="violation",
                    note="wrong variant: TryLock tests, then sets -> two holders (Refines)")
    run.model_check(FAM, "ManagedImpl", "ManagedImplMC.cfg", workers=4, args=COV,
                    note="managedresource.go (double-checked locking on an RWMutex) against Atomics.tla, 3 processes x 5 calls")
    run.model_check(FAM, "ManagedImpl", "ManagedImplBug.cfg", workers=2, expect="violation",
                    note="wrong variant: the slow path generates without looking again -> two generations for one breakage")
    # ---- Cond ------------------------------------------------------------------------------------------
    run.model_check(FAM, "CondMC", "CondMC.cfg", workers=4, args=COV,
                    note="Layer P on its own: 3 waiters, 2 signals, moving clock; NoSpuriousWake, no dead action")
    run.model_check(FAM, "CondImpl", "CondImplMC.cfg", workers=4,
                    note="cond.go (unbuffered channel, select/default, timer) against Cond.tla: 3 waiters, 2 signals")
    run.model_check(FAM, "CondImpl", "CondImplBugBuf.cfg", workers=2, expect="violation",
                    note="wrong variant: buffered channel -> a Signal nobody waits for wakes a later waiter (Lossy)")
    run.model_check(FAM, "CondImpl", "CondImplBugBroadcast.cfg", workers=2, expect="violation",
                    note="wrong variant: a Signal wakes every parked waiter (OneWake)")
    # ---- ImmutableResource -------------------------------------------------------------------------------
    run.model_check(FAM, "ImmutableMC", "ImmutableMC.cfg", workers=4, args=COV,
                    note="Layer P on its own: 2 processes x 4 Gets, intervals 0 and 2, fetch succeeds or fails: Immutable, "
                         "PairOK OneFetch Answer NoStuckGet, no dead action")
    run.model_check(FAM, "ImmutableImpl", "ImmutableImplFixMC.cfg", workers=4, args=COV,
                    note="proposed repair (mutex around the slow path) against Immutable.tla with NO deviation: 3 processes x 4 Gets")
    run.model_check(FAM, "ImmutableImpl", "ImmutableImplKfMC.cfg", workers=4,
                    note="immutableresource.go as written with both known-finding deviations enabled: everything it can do is covered")
    run.model_check(FAM, "ImmutableImpl", "ImmutableImplBugAsIs.cfg", workers=2, expect="violation",
                    note="immutableresource.go as written, NO deviation: a Get racing with the first fetch answers (nil, nil)")
    run.model_check(FAM, "ImmutableImpl", "ImmutableImplBugOverlap.cfg", workers=2, expect="violation",
                    note="as written with only KF_ImmSkipDuringFetch enabled: overlapping fetches, the loaded resource is replaced")
    run.model_check(FAM, "ImmutableImpl", "ImmutableImplBugNoRecheck.cfg", workers=2, expect="violation",
                    note="wrong variant of the repair: no second look under the mutex -> fetches again although loaded")


def check(run):
    only = os.environ.get("VERIF_EXT_SO_ONLY", "")
    run.assumptions += [
        "ext syncxobjs: the objects are used as their doc comments say: a SpinLock is unlocked by its holder, "
        "RefResource.Clean is called by a holder of a reference (or after the resource was seen cleaned), the fetch function "
        "of an ImmutableResource returns a resource or an error",
        "ext syncxobjs: values of AtomicDuration / AtomicFloat64 are small integers (no floats in the traces)",
        "ext syncxobjs: ImmutableResource under concurrency is validated without deviations only where a cached error "
        "covers the overlap; the three schedules of TestVerifExtsyncxobjsImmKnown are classified by two extension-local "
        "known findings (proposed/ext-syncxobjs-fix.diff removes both)",
    ]
    _design(run)
    # ---- spec -> code: sequential histories / environment scripts ------------------------------------------
    if only in ("", "replay"):
        beh = []
        for b in run.generate(FAM, "AtomicsMC", "AtomicsGen.cfg"):
            b["m"] = "atom"
            beh.append(b)
        rnd = random.Random(run.seed * 7919 + 5)
        cond = run.generate(FAM, "CondGen", "CondGen.cfg")
        for ops in rnd.sample(cond, min(len(cond), 700)):
            beh.append({"m": "cond", "ops": ops})
        for b in run.generate(FAM, "ImmutableMC", "ImmutableGen.cfg"):
            b["m"] = "imm"
            beh.append(b)
        for b in beh:
            run.distinct.add(("ext-syncxobjs-replay", json.dumps(b, sort_keys=True)))
        tr = run.go_driver(PKG, DRV, "TestVerifExtsyncxobjsReplay$", inp=beh)
        _validate(run, tr, "replay", split=1500)
    # ---- code -> spec: racing goroutines, seeded random histories ---------------------------------------------
    if only in ("", "random"):
        tr = run.go_driver(PKG, DRV, "TestVerifExtsyncxobjs(AtomConc|CondRandom|ImmRandom|ImmConc)$",
                           env={"VERIF_EXT_SO_ATOM_RUNS": 8, "VERIF_EXT_SO_COND_RUNS": 30,
                                "VERIF_EXT_SO_IMM_RUNS": 40, "VERIF_EXT_SO_IMMC_RUNS": 30})
        _validate(run, tr, "random", split=400)
    # ---- the two known findings of ImmutableResource, on the three schedules of the Layer-I counterexamples ----
    if only in ("", "known"):
        # (the third schedule -- a resource AND an error answered -- is classified by the same deviation as the second;
        # VERIF_EXT_SO_KNOWN=3 includes it: each classified trace costs four more TLC starts)
        tr = run.go_driver(PKG, DRV, "TestVerifExtsyncxobjsImmKnown$",
                           env={"VERIF_EXT_SO_KNOWN": os.environ.get("VERIF_EXT_SO_KNOWN", "2")})
        saved_f, saved_k = run.findings, list(run.known)
        run.findings = [KF_SKIP, KF_OVERLAP]
        try:
            _validate(run, tr, "known")
        finally:
            new = [k for k in run.known if k not in saved_k]
            run.findings, run.known = saved_f, saved_k
            if new:
                run.extra.setdefault("extension_findings", []).extend(new)
