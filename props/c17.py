"""C17 — configuration loading is format-independent and agrees with encoding/json."""
import concurrent.futures
import json
import threading

import vlib

LEVEL = "exploration"
RULE = ("TLC enumerates, from the grammar in specs/conf/ConfDocMC.tla, every configuration type up to a node "
        "bound (structs of <=2 resp. <=3 fields over int/float/string/bool, slices, maps, pointers, nested and "
        "embedded structs; three naming schemes: untagged, lower-case tags, mixed-case tags) and for each type "
        "three covering documents that fit it plus every document with exactly one fault (wrong kind / out of "
        "range / numeric string at a leaf, scalar for container, missing, unknown or doubly spelled key), each "
        "also respelled in lower and upper case and with ${VAR} written out. The Go driver renders each document "
        "as JSON (encoding/json), YAML (yaml.v2) and TOML (go-toml/v2), loads it through "
        "conf.LoadFrom{Json,Yaml,Toml}Bytes, conf.Load on files with and without conf.UseEnv(), "
        "mapping.UnmarshalJsonBytes and encoding/json, and logs verdicts and canonical value trees; TLC "
        "(ConfDocTrace) accepts a trace only if all answers to the same normalised effective document agree, "
        "equal the reference Decode where the document fits the type, and mapping/encoding-json values are "
        "equal when both accept. Two further enumerated families ride along: 64-bit boundary numbers (minint64, "
        "maxint64, maxint64+1, maxuint64, as decimal strings) into uint64/int64/uint32 leaves - a document TOML "
        "cannot express is loaded as JSON and YAML only, and TLC checks that exactly the expressible formats were "
        "loaded - and documents whose user-chosen map keys spell field keys of the element / enclosing struct "
        "(KeyMode field: aB, AB, cD). Seeded random deeper cases from the same grammar are added. "
        "distinct = distinct (type, document) pairs loaded.")

FAM = "conf"
PKG = "core/conf"
DRV = ["zz_verif_conf_test.go"]
ALL_KF = ["KF_CaseDupKeys", "KF_PtrContainer", "KF_NestedContainerCase", "KF_PlainKeyCase", "KF_PlainMissingMap",
          "KF_DeepMapFieldKey"]
LOAD_KF = {"KF_CaseDupKeys", "KF_PtrContainer", "KF_NestedContainerCase", "KF_DeepMapFieldKey"}  # explain 'loads' events
# Findings of the strengthened check on the unchanged tree that known_findings.json may not list yet (repair
# proposed in /verif/proposed/C17-fix-deepmapkey.diff).  Until the file has an entry naming the deviation
# (status "open": reported as KNOWN-FINDING through its witnesses; status "fixed": nothing is kept out any more)
# the shape is kept out of the bulk like an open finding and its witnesses are not run.
PROPOSED_KF = {"KF_DeepMapFieldKey"}
PLAIN_KF = {"KF_PlainKeyCase", "KF_PlainMissingMap"}  # explain 'plain' events


def _locked_tmp(run):
    """run.tmp is not thread-safe; the TLC jobs run on a small thread pool."""
    lock = threading.Lock()
    orig = run.tmp

    def tmp(name):
        with lock:
            return orig(name)
    run.tmp = tmp


def _bulk(cases, open_ids):
    """TLC labels every generated document with the known-finding shapes it has.  Shapes of
    OPEN findings are kept out of the bulk (which must validate cleanly): such a document is
    not loaded at all (findings about the loaders) or is not put through the
    mapping / encoding-json comparison (findings about that comparison).  With no open
    finding nothing is left out."""
    bulk = []
    for c in cases:
        docs = []
        for d in c["docs"]:
            s = set(d["s"]) & open_ids
            if s & LOAD_KF:
                continue
            docs.append({"d": d["d"], "p": not (s & PLAIN_KF)})
        if docs:
            bulk.append({"ty": c["ty"], "env": c["env"], "docs": docs})
    return bulk


def check(run):
    thorough = run.tier == "thorough"
    run.assumptions += [
        "documents are rendered by encoding/json, gopkg.in/yaml.v2 and pelletier/go-toml/v2 Marshal; only values "
        "all three can express (top-level table, no null), except integers above maxint64, which TOML cannot "
        "express: such a document is rendered and loaded as JSON and YAML only; lexical variety of YAML/TOML is not "
        "explored",
        "keys, numbers and strings come from the finite pools tabulated in ConfDoc.tla (TLC has no string case "
        "functions, and 32-bit integers: numbers are decimal strings, the 64-bit boundary classes included); value trees are canonicalised by the driver (map entries sorted, ints/floats as decimal strings)",
        "reference meaning only where the statement fixes it: a document that supplies exactly one value of the "
        "declared kind for every field (keys compared without case) must load with those values; nil vs empty "
        "slice/map/pointer-to-nothing is not distinguished by the reference, but is by the cross-format comparison",
        "a panic is not an error-or-success verdict",
    ]
    open_ids = {f["deviation"] for f in run.findings if f.get("status") == "open" and f.get("deviation")}
    open_ids &= set(ALL_KF)
    settled = {f.get("deviation") for f in run.findings if f.get("status") == "fixed"}
    unregistered = PROPOSED_KF - open_ids - settled
    for k in sorted(unregistered):
        vlib.log("  NOTE %s: proposed finding not listed in known_findings.json; its shape is kept out of the bulk" % k)
    avoid_ids = open_ids | unregistered      # shapes kept out of the bulk / the random generator

    # design level: the bounded family, lemmas about the reference meaning, a loader can always answer.
    # The TLC jobs of this check (model checking, generation) are independent: they run on a small thread
    # pool next to the driver runs and validations (quick: 4 jobs x 1 worker; thorough: 3 jobs, <= 8 workers).
    _locked_tmp(run)
    run._spec_copy(FAM)
    jobs = [lambda: run.model_check(
        FAM, "ConfDocMC", "ConfDocMC.cfg", workers=1,
        note="every struct type of <=3 nodes, mixed-case tags, every answer sequence: Loadable, MemoFunctional, "
             "Respell/Norm/Expand/Rekey/Formats/Logged lemmas, GoodFits/BadMisfits")]
    if thorough:
        jobs += [
            lambda: run.model_check(
                FAM, "ConfDocMC", "ConfDocMC3.cfg", workers=4, timeout=1500,
                note="<=3 nodes + chains of 3, all naming schemes, every answer sequence: same invariants"),
            lambda: run.model_check(
                FAM, "ConfDocMC", "ConfDocMC4.cfg", workers=3, timeout=1500,
                note="<=4 nodes (<=3 fields), mixed-case tags: the lemmas on every (type, document), no answers")]

    # families (ConfDocMC.tla): n3 = every top-level struct type of <=3 nodes, all naming schemes;
    # chain4/5 = single-field structs whose field type is a constructor chain of <=4/5 nodes over int/string;
    # n3w = n3 + chains of 3 with int32/uint8 leaves; n4 = every type of <=4 nodes (<=3 fields), two schemes.
    # Riding along with a family (same driver run, same validation; their generation configs also check the
    # lemmas on them):
    #   num  = 64-bit boundary numbers (minint64, maxint64, maxint64+1, maxuint64) into uint64/int64/uint32
    #          (thorough: + float64) leaves, alone and in slices/maps/pointers (thorough: <=3 nodes, 2 fields);
    #          a document TOML cannot express is loaded as JSON and YAML only
    #   key  = KeyMode "field": the documents of <=3-node types and chains of <=4 nodes (int leaves, untagged and
    #          mixed-case tags) whose user-chosen map keys are renamed to spellings of field keys (aB, AB, cD);
    #          thorough also chains of <=5 nodes (key5)
    gens = [("ConfDocGen.cfg", "n3", []),
            ("ConfDocGenChain.cfg", "chain4", [("ConfDocGenNum.cfg", "num"), ("ConfDocGenKey.cfg", "key")])]
    if thorough:
        gens = [("ConfDocGen3.cfg", "n3w", [("ConfDocGenNum3.cfg", "num3"), ("ConfDocGenKey.cfg", "key")]),
                ("ConfDocGenChain5.cfg", "chain5", [("ConfDocGenKey5.cfg", "key5")]),
                ("ConfDocGen4.cfg", "n4", [])]
    ex = concurrent.futures.ThreadPoolExecutor(max_workers=3 if thorough else 4)
    try:
        genf = {}
        for cfg, _, riders in gens:
            for c in [cfg] + [r[0] for r in riders]:
                genf[c] = ex.submit(run.generate, FAM, "ConfDocMC", c, workers=1, timeout=900)
        if open_ids:
            genf["ConfDocWit.cfg"] = ex.submit(run.generate, FAM, "ConfDocMC", "ConfDocWit.cfg", workers=1)
        mcf = [ex.submit(j) for j in jobs]      # after the generation jobs: the drivers wait for those
        _check_body(run, thorough, gens, genf, open_ids, avoid_ids)
        for f in mcf:
            f.result()          # re-raises vlib.Infra
    finally:
        ex.shutdown(wait=True, cancel_futures=True)
    run.extra["open_findings_kept_out_of_bulk"] = sorted(avoid_ids)
    if unregistered:
        run.extra["proposed_findings_not_registered"] = sorted(unregistered)


def _check_body(run, thorough, gens, genf, open_ids, avoid_ids):
    """Driver runs and trace validation; genf[cfg].result() = the cases generated from cfg (re-raises vlib.Infra)."""
    for cfg, tag, riders in gens:
        cases = genf[cfg].result()
        for rcfg, rtag in riders:
            extra = genf[rcfg].result()
            if not extra:
                raise vlib.Infra("generation config %s produced no cases" % rcfg)
            run.extra.setdefault("rider_families", {})[rtag] = len(extra)
            cases = cases + extra
        bulk = _bulk(cases, avoid_ids)
        ndocs = 0
        for c in bulk:
            tj = json.dumps(c["ty"], sort_keys=True)
            for d in c["docs"]:
                run.distinct.add((tj, json.dumps(d["d"], sort_keys=True)))
                ndocs += 1
        run.evaluations += ndocs
        tr = run.go_driver(PKG, DRV, "TestVerifConfReplay$", inp=bulk, timeout=900)
        run.validate(FAM, "ConfDocTrace", "ConfDocTrace.cfg", tr, label="replay-" + tag, split=4000,
                     timeout=900, heap="6g")

    # open known findings: concrete witnesses (ConfDocMC!WitnessSet), validated on their own so that each
    # finding is reported at bounded cost; every open finding is witnessed in both tiers (quick: one witness each)
    if open_ids:
        wit = genf["ConfDocWit.cfg"].result()
        ids = sorted(open_ids)
        for k in ids:
            ws = [{"ty": w["ty"], "env": w["env"],
                   "docs": [{"d": d["d"], "p": k in PLAIN_KF, "nl": k in PLAIN_KF} for d in w["docs"]]}
                  for w in wit if w["kf"] == k]
            if not thorough:
                ws = ws[:1]
            if not ws:
                continue
            tr = run.go_driver(PKG, DRV, "TestVerifConfReplay$", inp=ws)
            run.validate(FAM, "ConfDocTrace", "ConfDocTrace.cfg", tr, label="witness-" + k)
            run.evaluations += len(ws)

    # code -> spec: seeded random cases, deeper and wider than the enumerated family
    n = 1500 if thorough else 150
    tr = run.go_driver(PKG, DRV, "TestVerifConfRandom$", timeout=900,
                       env={"VERIF_CONF_CASES": n, "VERIF_CONF_DEPTH": 4 if thorough else 3,
                            "VERIF_CONF_AVOID": ",".join(sorted(avoid_ids))})
    run.validate(FAM, "ConfDocTrace", "ConfDocTrace.cfg", tr, label="random", split=1000, timeout=900, heap="6g")
    run.evaluations += n * 10
    for i in range(n):
        run.distinct.add(("random", run.seed, i))


LEVEL_TEXT = ("Exploration: TLC enumerates a bounded family of (configuration type, document) pairs exhaustively "
              "(all struct types up to 3 nodes and single-field chains up to 4 nodes in the quick tier; up to 4 nodes and "
              "chains up to 5 in the thorough tier; for each type every single-fault document; plus the 64-bit "
              "boundary-number family and the family whose map keys spell field keys), "
              "checks the reference meaning for consistency on that family, and validates what the real loaders "
              "answered for every pair in the three formats against the relational specification; seeded random "
              "deeper cases are validated the same way.")
LEVEL_NOTE = ("Weak fit (DESIGN.md Part C): the specification is an enumerator plus a reference meaning for a bounded "
              "family; nothing is claimed for types/documents outside it or for the lexical variety of YAML/TOML "
              "(number spellings, quoting, anchors, dates). Known-finding shapes of OPEN findings are kept out of the "
              "bulk family and validated as a few separate witnesses (likewise the shape of a finding proposed by this "
              "check that known_findings.json does not list yet: kept out, reported in the evidence as "
              "proposed_findings_not_registered). Trusted: TLC/SANY, Go toolchain, the three "
              "Marshal functions used for rendering, the driver's canonicalisation.")
TECHNIQUE = ("TLA+ spec (ConfDoc: abstract types/documents, Norm/Expand/Fits/Decode, memo state machine), TLC as "
             "exhaustive bounded generator and as evaluator of recorded answers (trace validation)")
DESIGN_REF = "DESIGN.md Part B C17, Part C"


def replay(run, path):
    run.replay(FAM, "ConfDocTrace", "ConfDocTrace.cfg", path)
