"""C08 — declarative validation: accepted input always satisfies the field constraints."""
import concurrent.futures
import json
import random
import threading

LEVEL = "exploration"
RULE = ("TLC enumerates the case analysis of FieldRules.tla as a state space (FieldRulesGen.tla): one state per vector = "
        "source (JSON/YAML/TOML bytes, typed map, form, path, header, JSON body, conf loaders) x wrapper (flat, nested, "
        "*nested, slice element, map element) x type (1-2 fields: kind x optional/optional=dep/optional=!dep x default "
        "in/out of range x range with open/closed/unbounded/fractional ends x options x string x pointer) x input class "
        "per field (absent, null, below/at/inside/at/above the range ends, in/out of options, numeric string, wrong type, "
        "overflow, empty) x extra keys. Each vector is built with reflect.StructOf (tags included), rendered for its source "
        "and executed on the real unmarshaller twice per trace in different orders (plus a globally shuffled process); "
        "TLC validates every outcome (accepted?, panicked?, resulting values) against Judge and against the first outcome "
        "of the same vector. distinct = distinct vectors executed (quick ~28k: families core and dep complete, sources 50% and wrappers 34% sampled by seed; thorough ~354k: five families complete).")

FAM = "mapping"
PKG = "rest/httpx"
DRV = ["zz_verif_rules_test.go"]
TRACE = ("FieldRulesTrace", "FieldRulesTrace.cfg")
KF_HEADER = "KF_HeaderNotDepCanonical"

# (cfg, label, fraction of the enumerated vectors executed)
QUICK = [("FieldRulesGenCoreQ.cfg", "core", 1.0), ("FieldRulesGenDepQ.cfg", "dep", 1.0),
         ("FieldRulesGenSrcQ.cfg", "sources", 0.5), ("FieldRulesGenWrapQ.cfg", "wrappers", 0.34)]
THOROUGH = [("FieldRulesGenCoreT.cfg", "core", 1.0), ("FieldRulesGenDepT.cfg", "dep", 1.0),
            ("FieldRulesGenSrcT.cfg", "sources", 1.0), ("FieldRulesGenSrc2T.cfg", "sources2", 1.0),
            ("FieldRulesGenWrapT.cfg", "wrappers", 1.0)]


def _key(v):
    return hash(json.dumps(v, sort_keys=True))


def _locked_tmp(run):
    """run.tmp is not thread-safe; TLC jobs below run on a small thread pool."""
    lock = threading.Lock()
    orig = run.tmp

    def tmp(name):
        with lock:
            return orig(name)
    run.tmp = tmp


def check(run):
    thorough = run.tier == "thorough"
    run.assumptions += [
        "numbers are carried in halves (n = 2*value): every probe value, range end, option and default is a multiple of 0.5",
        "the driver renders each input class canonically per source (JSON/YAML block/TOML text, typed Go values for "
        "UnmarshalKey, strings for form/path/header); field names are a, b (+ wrapper keys in, l, m.k)",
        "null, an empty form value, wrongly typed values and a supplied field made superfluous by optional=dep / "
        "optional=!dep are outside the statement: acceptance and rejection are both allowed, clauses (a)-(c) still bind "
        "the resulting values",
        "reflect.StructOf types; the tag option order alternates with the vector id (the tag grammar is order-free)",
    ]
    _locked_tmp(run)
    run._spec_copy(FAM)
    fams = THOROUGH if thorough else QUICK
    w = 2 if thorough else 1            # TLC workers per job; at most 4 jobs at a time
    jobs = [
        # design level: two-vector behaviours; ideal unmarshaller satisfies every clause; classes disjoint;
        # verdict independent of the tags seen before
        lambda: run.model_check(FAM, "FieldRulesGen", "FieldRulesMC.cfg", workers=w,
                                note="all behaviours of two vectors: spec implementable (ideal unmarshaller satisfies every "
                                     "clause), MustAccept/MustReject disjoint, verdict independent of the history"),
        lambda: run.model_check(FAM, "FieldRulesImpl", "FieldRulesImplMCT.cfg" if thorough else "FieldRulesImplMC.cfg",
                                workers=w, note="Layer I: decision procedure of unmarshaler.go/fieldoptions.go "
                                                "(both repairs in) satisfies every clause on every vector"),
        lambda: run.model_check(FAM, "FieldRulesImpl", "FieldRulesImplBug.cfg", workers=1, expect="violation",
                                note="toOptionsWithContext rebuilding the options without Range (pre-fix) violates InvSoundness"),
    ]
    if thorough:
        jobs.append(lambda: run.model_check(FAM, "FieldRulesImpl", "FieldRulesImplBug2.cfg", workers=1, expect="violation",
                                            note="'!dep' canonicalised with its prefix (header source) violates InvCompleteness"))
    gens = {}

    def gen(cfg, label):
        gens[label] = run.generate(FAM, "FieldRulesGen", cfg, workers=w)
    for cfg, label, _ in fams:
        jobs.append(lambda cfg=cfg, label=label: gen(cfg, label))
    with concurrent.futures.ThreadPoolExecutor(max_workers=4) as ex:
        for f in [ex.submit(j) for j in jobs]:
            f.result()          # re-raises vlib.Infra

    rnd = random.Random(run.seed)
    classes = {}
    sources = {}
    pool = []
    batches = []
    for cfg, label, frac in fams:
        beh = gens[label]
        if frac < 1.0:
            beh = rnd.sample(beh, max(1, int(len(beh) * frac)))
        for v in beh:
            run.distinct.add(_key(v))
            classes[v["cls"]] = classes.get(v["cls"], 0) + 1
            sources[v["src"]] = sources.get(v["src"], 0) + 1
        pool += rnd.sample(beh, max(1, len(beh) // (6 if thorough else 4)))
        batches.append((label, beh))
    if not thorough:                    # one driver process for all families
        batches = [("+".join(b[0] for b in batches), [v for b in batches for v in b[1]])]
    if any(f.get("status") == "open" and f.get("deviation") == KF_HEADER for f in run.findings):
        # every rejected trace costs several TLC runs: keep the vectors that can need the deviation
        # (header source, a field with optional=!dep) in one trace of their own
        def special(v):
            return v["src"] == "header" and any(f["opt"] == "notdep" for f in v["f"])
        sp = [v for _, beh in batches for v in beh if special(v)]
        batches = [(lb, [v for v in beh if not special(v)]) for lb, beh in batches]
        pool = [v for v in pool if not special(v)]
        if sp:
            batches.append(("header-notdep", sp))
    idbase = 0
    for label, beh in batches:
        tr = run.go_driver(PKG, DRV, "TestVerifRulesReplay$", inp=beh, timeout=900,
                           env={"VERIF_RULES_MODE": "order", "VERIF_RULES_IDBASE": idbase,
                                "VERIF_RULES_CHUNK": len(beh) if label == "header-notdep" else 40})
        idbase += len(beh)
        run.evaluations += 2 * len(beh)
        run.validate(FAM, TRACE[0], TRACE[1], tr, label=label, split=700)
    # one more process: vectors of all families mixed and globally shuffled (cold caches, different first sightings)
    tr = run.go_driver(PKG, DRV, "TestVerifRulesReplay$", inp=pool, timeout=900,
                       env={"VERIF_RULES_MODE": "shuffle", "VERIF_RULES_IDBASE": idbase})
    run.evaluations += 2 * len(pool)
    run.validate(FAM, TRACE[0], TRACE[1], tr, label="shuffled", split=700)
    run.extra["vector_classes"] = classes
    run.extra["vectors_by_source"] = sources


LEVEL_TEXT = ("Exploration: the constraint semantics of the statement are a TLA+ specification (FieldRules.tla); TLC enumerates "
              "the case analysis exhaustively within the declared families (quick ~28k, thorough ~354k vectors), every vector is "
              "executed on the real unmarshallers through every public entry point and TLC judges every recorded outcome. "
              "Design level: TLC checks that the specification is implementable and non-contradictory, that a model of the "
              "implementation's decision procedure satisfies it, and that the pre-fix option rebuilding does not.")
LEVEL_NOTE = ("Not a proof over all struct types: types have 1-2 scalar fields (plus one wrapper level), values are multiples of "
              "0.5 around one range/option family, tag grammar corners (escapes, spaces, env=, inherit, custom validators, "
              "embedded structs, time.Duration, arrays of scalars with options) are not enumerated. Trusted: TLC/SANY, the Go "
              "toolchain, the driver's rendering of inputs and read-back of results.")
TECHNIQUE = ("TLA+ specification of the statement (FieldRules), TLC-enumerated vectors replayed on the real code, TLC trace "
             "validation of every outcome incl. history independence; Layer-I decision-procedure model checked against it")
DESIGN_REF = "DESIGN.md Part B C08"


def replay(run, path):
    run.replay(FAM, TRACE[0], TRACE[1], path)
