"""C08 — declarative validation: accepted input always satisfies the field constraints."""
import concurrent.futures
import json
import random
import threading

LEVEL = "exploration"
RULE = ("TLC enumerates the case analysis of FieldRules.tla as a state space (FieldRulesGen.tla): one state per vector = "
        "source (JSON/YAML/TOML bytes, typed map, form, path, header, JSON body, conf loaders) x wrapper (flat, nested, "
        "*nested, slice element, map element) x type (1-2 fields: kind - every integer width, floats, string, bool, []string, "
        "[]int - x optional/optional=dep/optional=!dep x default in/out of range x range with open/closed/unbounded/fractional "
        "ends x options x string x pointer) x input class per field (absent, null, below/at/inside/at/above the range ends, "
        "below/at/above the ends of the kind's width, in/out of options, numeric string, wrong type, overflow, empty, lists; "
        "decimal families: float32/float64 fields x ranges and options with ends 0.1/0.3/0.7 x numbers in twentieths below/at/"
        "above those ends; multimap families (form, header): a key - of a field, of a dependency, bound by no field - with no "
        "value at all / with two values, list fields filled from repeated parameters) "
        "x extra keys x spelling of the document keys (conf: capitalised) x map keys (spelled like a field of the element / "
        "the map field). Each vector is built with reflect.StructOf (tags included), rendered for its source and executed on "
        "the real unmarshaller twice per trace in different orders (plus a globally shuffled process); after every accepted "
        "call the driver overwrites everything reachable from its target in place. TLC validates every outcome (accepted?, "
        "panicked?, resulting values, resulting map keys) against Judge and against the first outcome of the same vector. "
        "Sequences of calls: TLC generates scripts (unmarshal and keep / write into a held target / forget) from the memory "
        "model FieldRulesAlias.tla, one per reachable memory state; they are replayed on groups of vectors of one struct type "
        "and every held target is re-read after every step (TargetsAreIsolated). distinct = distinct vectors executed "
        "(quick ~36k: families core, dep, widths complete, the others sampled by seed; thorough ~530k: ten families complete).")

FAM = "mapping"
PKG = "rest/httpx"
DRV = ["zz_verif_rules_test.go", "zz_verif_c08_alias_test.go"]
TRACE = ("FieldRulesTrace", "FieldRulesTrace.cfg")
KF_HEADER = "KF_HeaderNotDepCanonical"

# (cfg, label, fraction of the enumerated vectors executed)
QUICK = [("FieldRulesGenCoreQ.cfg", "core", 1.0), ("FieldRulesGenDepQ.cfg", "dep", 1.0),
         ("FieldRulesGenSrcQ.cfg", "sources", 0.4), ("FieldRulesGenWrapQ.cfg", "wrappers", 0.25),
         ("FieldRulesGenWidthQ.cfg", "widths", 1.0), ("FieldRulesGenKeysQ.cfg", "keys", 0.4),
         ("FieldRulesGenRefQ.cfg", "refs", 0.35),
         ("FieldRulesGenDecQ.cfg", "decimals", 0.4), ("FieldRulesGenMultiQ.cfg", "multimaps", 0.35)]
THOROUGH = [("FieldRulesGenCoreT.cfg", "core", 1.0), ("FieldRulesGenDepT.cfg", "dep", 1.0),
            ("FieldRulesGenSrcT.cfg", "sources", 1.0), ("FieldRulesGenSrc2T.cfg", "sources2", 1.0),
            ("FieldRulesGenWrapT.cfg", "wrappers", 1.0),
            ("FieldRulesGenWidthT.cfg", "widths", 1.0), ("FieldRulesGenKeysT.cfg", "keys", 1.0),
            ("FieldRulesGenRefT.cfg", "refs", 1.0),
            ("FieldRulesGenDecT.cfg", "decimals", 1.0), ("FieldRulesGenMultiT.cfg", "multimaps", 1.0)]
# sequences of calls (FieldRulesAlias.tla): family whose vectors are grouped by struct type, scripts per group,
# fraction of the groups executed
ALIAS_FAMILY = "refs"
ALIAS = {"quick": ("FieldRulesAliasGenQ.cfg", 2, 0.5), "thorough": ("FieldRulesAliasGenT.cfg", 4, 0.3)}


def _key(v):
    return hash(json.dumps(v, sort_keys=True))


def _locked_tmp(run):
    """run.tmp is not thread-safe; TLC jobs below run on a small thread pool."""
    lock = threading.Lock()
    orig = run.tmp

    def tmp(name):
        with lock:
            return orig(name)
    run.tmp = tmp


def check(run):
    thorough = run.tier == "thorough"
    run.assumptions += [
        "numbers are carried as integers in the unit of their field (f.u): halves in most families (every probe value, range "
        "end, option and default a multiple of 0.5), twentieths in the decimal families (0.05 ... 2, with range ends and "
        "options 0.1, 0.3, 0.7 that no binary float holds exactly); the clauses compare the numbers as supplied (exact), and "
        "a float field holds a supplied number when it holds the value of its kind nearest to it (read back with strconv)",
        "the form and header sources are multimaps: a key may carry no value at all (r.Header[k] = r.Header[k][:0], a key "
        "put into r.Form with an empty list) or two values; whether a key without values is supplied, and which of two "
        "values a scalar field takes, is left open (either verdict; no panic; whatever is accepted satisfies (a)-(d) with one "
        "of the supplied values); typed Go values (UnmarshalKey) are not part of the decimal families (a float32 Go value "
        "is its rounded number); a []T header field supplied with exactly one value is not enumerated (see LEVEL_NOTE)",
        "the driver renders each input class canonically per source (JSON/YAML block/TOML text, typed Go values for "
        "UnmarshalKey, strings for form/path/header); field names are a, b (+ wrapper keys in, l, m.k)",
        "null, an empty form value, wrongly typed values and a supplied field made superfluous by optional=dep / "
        "optional=!dep are outside the statement: acceptance and rejection are both allowed, clauses (a)-(c) still bind "
        "the resulting values",
        "reflect.StructOf types; the tag option order alternates with the vector id (the tag grammar is order-free)",
        "a number supplied for a numeric field and accepted must be held exactly (no wrap-around, no rounding): numbers "
        "outside the width of an 8/16-bit kind can only be rejected; the ends of the 32/64-bit kinds are not reachable "
        "(TLC integers and trace integers are 32 bits wide, numbers travel doubled)",
        "lists ([]string, []int) travel as count + texts joined by ','; nil and empty slices are both the empty list; "
        "whether a required list may be absent is left open (the statement speaks of scalar fields)",
        "capitalised document keys are legal input for the conf loaders only (case-insensitive matching); extra keys and "
        "map keys are data and never respelled; the resulting map must hold exactly the supplied keys",
        "a target belongs to its caller: the driver writes into targets in place; nothing a caller does with its target "
        "may change what another call delivers or what another held target contains",
    ]
    _locked_tmp(run)
    run._spec_copy(FAM)
    fams = THOROUGH if thorough else QUICK
    w = 2 if thorough else 1            # TLC workers per job; at most 4 jobs at a time
    jobs = [
        # design level: two-vector behaviours; ideal unmarshaller satisfies every clause; classes disjoint;
        # verdict independent of the tags seen before
        lambda: run.model_check(FAM, "FieldRulesGen", "FieldRulesMC.cfg", workers=w,
                                note="all behaviours of two vectors: spec implementable (ideal unmarshaller satisfies every "
                                     "clause), MustAccept/MustReject disjoint, verdict independent of the history"),
        lambda: run.model_check(FAM, "FieldRulesImpl", "FieldRulesImplMCT.cfg" if thorough else "FieldRulesImplMC.cfg",
                                workers=w, note="Layer I: decision procedure of unmarshaler.go/fieldoptions.go "
                                                "(both repairs in) satisfies every clause on every vector"),
        lambda: run.model_check(FAM, "FieldRulesImpl", "FieldRulesImplBug.cfg", workers=1, expect="violation",
                                note="toOptionsWithContext rebuilding the options without Range (pre-fix) violates InvSoundness"),
    ]
    # memory model of list filling (FieldRulesAlias): quick checks it at the bound of the script generation
    # (FieldRulesAliasGenQ.cfg carries every invariant), thorough at a larger bound plus the counterexample
    if thorough:
        jobs += [
            lambda: run.model_check(FAM, "FieldRulesAlias", "FieldRulesAliasMC.cfg", workers=w,
                                    note="memory model of list filling: a new array per call keeps targets isolated "
                                         "(exact values, history independence, held targets change only by their holder)"),
            lambda: run.model_check(FAM, "FieldRulesAlias", "FieldRulesAliasBug.cfg", workers=1, expect="violation",
                                    note="handing out the cached parsed default itself violates InvIsolated / InvValues"),
            lambda: run.model_check(FAM, "FieldRulesImpl", "FieldRulesImplMC2.cfg", workers=w,
                                    note="Layer I on integer widths, list fields, key spellings (conf) and map keys"),
            lambda: run.model_check(FAM, "FieldRulesImpl", "FieldRulesImplBug2.cfg", workers=1, expect="violation",
                                    note="'!dep' canonicalised with its prefix (header source) violates InvCompleteness"),
            lambda: run.model_check(FAM, "FieldRulesImpl", "FieldRulesImplBug3.cfg", workers=1, expect="violation",
                                    note="8/16-bit kinds parsed with bitSize 32 and truncated violate InvValues"),
            lambda: run.model_check(FAM, "FieldRulesImpl", "FieldRulesImplBug4.cfg", workers=1, expect="violation",
                                    note="conf describing map[string]Struct by the element's field table violates "
                                         "InvCompleteness / InvValues (MapKeysVerbatim)"),
            lambda: run.model_check(FAM, "FieldRulesImpl", "FieldRulesImplMC3.cfg", workers=w,
                                    note="Layer I on the decimal families (numbers in twentieths, float32/float64/int, "
                                         "JSON-number path, string path, string option): range checked on the number as supplied"),
            lambda: run.model_check(FAM, "FieldRulesImpl", "FieldRulesImplMC4.cfg", workers=w,
                                    note="Layer I on the parameter multimaps (form, header): keys without a value, keys with "
                                         "two values, list fields, dependencies and unbound keys without a value"),
            lambda: run.model_check(FAM, "FieldRulesImpl", "FieldRulesImplBug5.cfg", workers=1, expect="violation",
                                    note="range-checking a float32 field after rounding to float32 violates InvSoundness "
                                         "(0.1 passes (0.1:1]) / InvCompleteness (0.1 fails [0:0.1])"),
            lambda: run.model_check(FAM, "FieldRulesImpl", "FieldRulesImplBug6.cfg", workers=1, expect="violation",
                                    note="ParseHeaders indexing the first value of a header without values violates InvNoPanic"),
        ]
    gens = {}
    scripts = []

    def gen_scripts():
        scripts.extend(run.generate(FAM, "FieldRulesAlias", ALIAS[run.tier][0], workers=1))
    jobs.append(gen_scripts)

    def gen(cfg, label):
        gens[label] = run.generate(FAM, "FieldRulesGen", cfg, workers=w)
    for cfg, label, _ in fams:
        jobs.append(lambda cfg=cfg, label=label: gen(cfg, label))
    with concurrent.futures.ThreadPoolExecutor(max_workers=4) as ex:
        for f in [ex.submit(j) for j in jobs]:
            f.result()          # re-raises vlib.Infra

    rnd = random.Random(run.seed)
    classes = {}
    sources = {}
    pool = []
    batches = []
    alias_beh = []
    for cfg, label, frac in fams:
        beh = gens[label]
        if frac < 1.0:
            beh = rnd.sample(beh, max(1, int(len(beh) * frac)))
        for v in beh:
            run.distinct.add(_key(v))
            classes[v["cls"]] = classes.get(v["cls"], 0) + 1
            sources[v["src"]] = sources.get(v["src"], 0) + 1
        pool += rnd.sample(beh, max(1, len(beh) // (6 if thorough else 4)))
        batches.append((label, beh))
        if label == ALIAS_FAMILY:
            alias_beh = beh
    if not thorough:                    # one driver process for all families
        batches = [("+".join(b[0] for b in batches), [v for b in batches for v in b[1]])]
    if any(f.get("status") == "open" and f.get("deviation") == KF_HEADER for f in run.findings):
        # every rejected trace costs several TLC runs: keep the vectors that can need the deviation
        # (header source, a field with optional=!dep) in one trace of their own
        def special(v):
            return v["src"] == "header" and any(f["opt"] == "notdep" for f in v["f"])
        sp = [v for _, beh in batches for v in beh if special(v)]
        batches = [(lb, [v for v in beh if not special(v)]) for lb, beh in batches]
        pool = [v for v in pool if not special(v)]
        if sp:
            batches.append(("header-notdep", sp))
    idbase = 0
    for label, beh in batches:
        tr = run.go_driver(PKG, DRV, "TestVerifRulesReplay$", inp=beh, timeout=900,
                           env={"VERIF_RULES_MODE": "order", "VERIF_RULES_IDBASE": idbase,
                                "VERIF_RULES_CHUNK": len(beh) if label == "header-notdep" else 40})
        idbase += len(beh)
        run.evaluations += 2 * len(beh)
        run.validate(FAM, TRACE[0], TRACE[1], tr, label=label, split=700)
    # one more process: vectors of all families mixed and globally shuffled (cold caches, different first sightings)
    tr = run.go_driver(PKG, DRV, "TestVerifRulesReplay$", inp=pool, timeout=900,
                       env={"VERIF_RULES_MODE": "shuffle", "VERIF_RULES_IDBASE": idbase})
    run.evaluations += 2 * len(pool)
    run.validate(FAM, TRACE[0], TRACE[1], tr, label="shuffled", split=700)
    idbase += len(pool)
    # sequences of calls: TLC-generated scripts (keep / write in place / forget) on groups of vectors of one type
    _, per_group, gfrac = ALIAS[run.tier]
    ops = [s["ops"] for s in scripts]
    # a script that is a proper prefix of another one adds nothing
    ops = [o for o in ops if not any(len(p) > len(o) and p[:len(o)] == o for p in ops)]
    groups = {}
    for v in alias_beh:
        k = json.dumps([v["src"], v["wrap"], v["f"], v["xk"], v["ksp"], v["mk"]], sort_keys=True)
        groups.setdefault(k, []).append(v)
    keys = sorted(groups)
    if gfrac < 1.0:
        keys = rnd.sample(keys, max(1, int(len(keys) * gfrac)))
    inp = [{"kind": "script", "ops": o} for o in ops]
    nvec = 0
    for k in keys:
        g = groups[k]
        # member 1 = the input with most absent fields (defaults get filled), member 2 = the one with most supplied
        g.sort(key=lambda v: (-sum(1 for x in v["in"] if x["t"] == "absent"), json.dumps(v["in"], sort_keys=True)))
        g = [g[0], g[-1]] + g[1:-1] if len(g) > 2 else g
        chosen = rnd.sample(range(len(ops)), min(per_group, len(ops)))
        inp.append({"kind": "group", "vecs": g, "scripts": chosen})
        nvec += len(g)
        run.evaluations += sum(sum(1 for o in ops[c] if o[0] == "u") for c in chosen)
    tr = run.go_driver(PKG, DRV, "TestVerifRulesAlias$", inp=inp, timeout=900, env={"VERIF_RULES_IDBASE": idbase})
    run.validate(FAM, TRACE[0], TRACE[1], tr, label="sequences", split=700)
    run.extra["alias_scripts"] = len(ops)
    run.extra["alias_groups"] = len(keys)
    run.extra["vector_classes"] = classes
    run.extra["vectors_by_source"] = sources


LEVEL_TEXT = ("Exploration: the constraint semantics of the statement are a TLA+ specification (FieldRules.tla); TLC enumerates "
              "the case analysis exhaustively within the declared families (quick ~36k, thorough ~530k vectors), every vector is "
              "executed on the real unmarshallers through every public entry point and TLC judges every recorded outcome; "
              "sequences of calls with callers writing into their targets follow TLC-generated scripts. "
              "Design level: TLC checks that the specification is implementable and non-contradictory, that a model of the "
              "implementation's decision procedure satisfies it, that a memory model of list filling keeps targets isolated, "
              "and that the pre-fix option rebuilding and five seeded defect classes (shared cached default, wide parse of "
              "narrow integers, map field described as struct in conf, float32 range check after rounding, indexing the "
              "first value of a header without values) do not.")
LEVEL_NOTE = ("Not a proof over all struct types: types have 1-2 scalar fields (plus one wrapper level), values are multiples of "
              "0.5 around one range/option family (plus the ends of the 8/16-bit widths; plus twentieths around the decimal ends 0.1/0.3/0.7 "
              "for float fields), the ends of 32/64-bit kinds are out of reach, parameter lists have 0, 1 or 2 values; a []T header "
              "field supplied with exactly ONE value is not enumerated: ParseHeaders hands a single value on as a plain text and the "
              "unmarshaller then wants JSON array text (`X-Tag: a` for `[]string header:\"X-Tag\"` is refused) - a candidate finding "
              "outside the enumerated families; tag grammar corners (escapes, spaces, env=, inherit, custom validators, "
              "embedded structs, time.Duration, arrays of scalars with options) are not enumerated. Trusted: TLC/SANY, the Go "
              "toolchain, the driver's rendering of inputs and read-back of results.")
TECHNIQUE = ("TLA+ specification of the statement (FieldRules), TLC-enumerated vectors replayed on the real code, TLC trace "
             "validation of every outcome incl. history independence; Layer-I decision-procedure model checked against it")
DESIGN_REF = "DESIGN.md Part B C08"


def replay(run, path):
    run.replay(FAM, TRACE[0], TRACE[1], path)
