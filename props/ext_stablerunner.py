"""Extension specification "stablerunner" (host C05, ADVISORY): core/threading StableRunner, RoutineGroup /
WorkerGroup / GoSafe / RunSafe, and the small core/syncx primitives.  specs/threadx/*."""
import json
import os

import vlib  # lib/ is on sys.path (set up by ./check)

HOST = "C05"
WHAT = ("core/threading.StableRunner (results in push order, exactly-once handling, closed semantics, Wait covers, "
        "bounded ring), RoutineGroup/WorkerGroup/GoSafe/RunSafe (Wait covers, panic containment) and core/syncx "
        "SpinLock, OnceGuard, AtomicBool, DoneChan, Barrier, RefResource, ManagedResource (linearizability), Cond, "
        "ImmutableResource (virtual clock)")
QUICK = False
FAM = "threadx"
PKG_T = "core/threading"
PKG_S = "core/syncx"
DRV = ["zz_verif_ext_stablerunner_test.go"]


def _split(run, path):
    """One driver run records traces for several trace modules; the reset event names the module (field m)."""
    out = {}
    cur = None
    for ln in open(path):
        if not ln.strip():
            continue
        ev = json.loads(ln)
        if ev.get("e") == "reset":
            cur = ev.get("m", "?")
        out.setdefault(cur, []).append(ln if ln.endswith("\n") else ln + "\n")
    files = {}
    for m, lines in out.items():
        p = run.tmp("ext-%s.ndjson" % m)
        with open(p, "w") as fh:
            fh.writelines(lines)
        files[m] = p
    return files


TRACE = {
    "sr": ("StableRunnerTrace", "StableRunnerTrace.cfg", True),
    "grp": ("GroupTrace", "GroupTrace.cfg", False),
}


def _validate(run, path, label):
    ok = True
    for m, f in sorted(_split(run, path).items()):
        if m not in TRACE:
            raise vlib.Infra("driver wrote a trace for an unknown module %r" % m)
        mod, cfg, dfs = TRACE[m]
        n0 = run.traces
        ok = run.validate(FAM, mod, cfg, f, label="ext-stablerunner-%s-%s" % (label, m), split=400) and ok
        run.evaluations += run.traces - n0
        for i in range(run.traces - n0):
            run.distinct.add(("ext-stablerunner", label, m, run.seed, i))
    return ok


def check(run):
    cov = ["-coverage", "1"]
    run.assumptions += [
        "ext stablerunner: one producer goroutine (Push.. then Wait), one consumer goroutine (Get), distinct values, "
        "handlers do not panic (the usage the doc comments and stablerunner_test.go describe)",
        "ext stablerunner: ring size / handler concurrency are set white-box (package variable bufSize, field runner) so "
        "that TLC-sized rings can be replayed; the default-sized runner is exercised by the stress driver",
        "ext stablerunner: panics are only injected into functions spawned through a recovering entry point",
    ]
    # ---- design level ----------------------------------------------------------------------------------
    run.model_check(FAM, "StableRunnerMC", "StableRunnerMC.cfg", workers=2, args=cov,
                    note="Layer P on its own: environment x most liberal runner, sanity invariants, no dead action")
    run.model_check(FAM, "StableRunnerImpl", "StableRunnerImplMC.cfg", workers=4, args=cov,
                    note="stablerunner.go step by step against the Layer-P guards, ring 1, 2 handlers, 4 pushes")
    run.model_check(FAM, "StableRunnerImpl", "StableRunnerImplMC2.cfg", workers=4, note="ring 2, 2 handlers, 5 pushes")
    run.model_check(FAM, "StableRunnerImpl", "StableRunnerImplMC3.cfg", workers=4, note="ring 2, 3 handlers, 6 pushes")
    run.model_check(FAM, "StableRunnerImpl", "StableRunnerImplBugLock.cfg", workers=2, expect="violation",
                    note="wrong variant: Push does not take the cell lock -> a later result overtakes (Order)")
    run.model_check(FAM, "StableRunnerImpl", "StableRunnerImplBugGet.cfg", workers=2, expect="violation",
                    note="wrong variant: Get answers Closed without comparing the indices -> results lost (Closed)")
    run.model_check(FAM, "StableRunnerImpl", "StableRunnerImplBugWait.cfg", workers=2, expect="violation",
                    note="wrong variant: Wait does not wait for the consumer (WaitCovers)")
    run.model_check(FAM, "GroupImpl", "GroupImplMC.cfg", workers=4, args=cov,
                    note="routinegroup.go / workergroup.go against Group.tla (LFnAdd only exists in the wrong variant)")
    run.model_check(FAM, "GroupImpl", "GroupImplBugAdd.cfg", workers=2, expect="violation",
                    note="wrong variant: wg.Add inside the goroutine -> Wait returns early (WaitCovers)")
    run.model_check(FAM, "GroupImpl", "GroupImplBugDone.cfg", workers=2, expect="violation",
                    note="wrong variant: wg.Done not deferred -> Wait never returns after a contained panic")
    # ---- spec -> code: one history per distinct quiescent state of the Layer-I models ------------------------
    beh = []
    for cfg, n, c in (("StableRunnerImplGen1.cfg", 1, 2), ("StableRunnerImplGen2.cfg", 2, 2),
                      ("StableRunnerImplGen3.cfg", 1, 1)):
        for ops in run.generate(FAM, "StableRunnerImpl", cfg):
            beh.append({"kind": "sr", "n": n, "c": c, "ops": ops})
    for ops in run.generate(FAM, "GroupImpl", "GroupImplGen.cfg"):
        beh.append({"kind": "grp", "ops": ops})
    for b in beh:
        run.distinct.add(("ext-stablerunner-replay", json.dumps(b, sort_keys=True)))
    tr = run.go_driver(PKG_T, DRV, "TestVerifExtstablerunnerReplay$", inp=beh)
    _validate(run, tr, "replay")
    # ---- code -> spec: free-running goroutines, seeded perturbation ---------------------------------------
    tr = run.go_driver(PKG_T, DRV, "TestVerifExtstablerunner(Stress|GroupRandom)$",
                       env={"VERIF_EXT_SR_RUNS": 48, "VERIF_EXT_GRP_RUNS": 80})
    _validate(run, tr, "stress")
