"""Extension specification "svcgroup" (host C10, ADVISORY): core/service.ServiceGroup together with the shutdown /
wrap-up listeners of core/proc and threading.RoutineGroup as they use it.  specs/svcgroup/*."""
import json

import vlib  # lib/ is on sys.path (set up by ./check)

HOST = "C10"
WHAT = ("core/service.ServiceGroup + core/proc shutdown / wrap-up listeners: Start calls every added service's Start "
        "exactly once and returns only when all have returned; the Stop of every service is called exactly once over "
        "the life of the group (Stop called twice, Stop and Shutdown racing, SIGTERM), only inside a Stop call or a "
        "shutdown notification, and every Stop call and the notification that did the stopping return only when all "
        "service Stops have returned; from the first service Start on the group is hooked to shutdown; WithStart / "
        "WithStarter wrappers are started like services and have nothing to stop; a listener is called at most once, only "
        "inside a notification of its kind; Shutdown / WrapUp return only when every listener registered before the call "
        "has been called and has returned (by return or panic); a second notification calls nobody; the func returned by "
        "AddShutdownListener / AddWrapUpListener returns only after its listener returned; on SIGTERM Done() is closed "
        "before any listener runs and both kinds are notified; at rest nothing that is owed is outstanding")
QUICK = False
FAM = "svcgroup"
PKG = "core/service"
DRV = ["zz_verif_ext_svcgroup_test.go"]
TRACE = ("SvcGroupTrace", "SvcGroupTrace.cfg")


def _validate(run, tr, label):
    n0 = run.traces
    ok = run.validate(FAM, TRACE[0], TRACE[1], tr, label="ext-svcgroup-" + label)
    run.evaluations += run.traces - n0
    for i in range(run.traces - n0):
        run.distinct.add(("ext-svcgroup", label, run.seed, i))
    return ok


def _maximal(behs):
    """TLC prints one command list per quiescent state of the model; a list that is a proper prefix of another one is
    replayed (with all its 'quiet' observations) as part of the longer one."""
    keys = sorted(json.dumps(b, sort_keys=True)[:-1] for b in behs)      # drop the closing bracket: prefix order
    out = []
    for i, k in enumerate(keys):
        if i + 1 < len(keys) and keys[i + 1].startswith(k + ","):
            continue
        out.append(json.loads(k + "]"))
    return out


def _traces(path):
    cur, out = [], []
    for ln in open(path):
        if not ln.strip():
            continue
        if json.loads(ln).get("e") == "reset" and cur:
            out.append(cur)
            cur = []
        cur.append(ln.strip())
    if cur:
        out.append(cur)
    return out


def _vacuity(run, path):
    """The binding is not vacuous: recorded traces with one event dropped / one field falsified must be rejected."""
    trs = _traces(path)

    def pick(pred):
        for t in trs:
            evs = [json.loads(x) for x in t]
            for i, e in enumerate(evs):
                if pred(e, evs, i):
                    return t, i
        raise vlib.Infra("ext-svcgroup: no recorded trace offers the event needed for the non-vacuity probe")

    def rejected(lines, what):
        ok, _, _ = run._validate_lines(FAM, TRACE[0], TRACE[1], lines, 300, False)
        if ok:
            raise vlib.Infra("ext-svcgroup: a trace with %s was accepted (binding vacuous)" % what)

    # a service Stop that never ended, although the Stop call returned
    t, i = pick(lambda e, evs, i: e["e"] == "tEnd")
    rejected(t[:i] + t[i + 1:], "a tEnd event removed")
    # a listener called twice
    t, i = pick(lambda e, evs, i: e["e"] == "lEnd")
    ev = json.loads(t[i])
    rejected(t[:i + 1] + [json.dumps({"e": "lBegin", "l": ev["l"], "dn": False}), t[i]] + t[i + 1:],
             "a listener called a second time")
    # a wait func that returned before its listener was called: move a waitRet in front of everything its call saw
    t, i = pick(lambda e, evs, i: e["e"] == "waitRet" and
                any(x["e"] == "lBegin" for x in evs[next(j for j, y in enumerate(evs)
                                                         if y["e"] == "waitCall" and y["c"] == e["c"]):i]))
    evs = [json.loads(x) for x in t]
    j = next(j for j, y in enumerate(evs) if y["e"] == "waitCall" and y["c"] == evs[i]["c"])
    rejected(t[:j + 1] + [t[i]] + t[j + 1:i] + t[i + 1:], "a waitRet moved before its listener's call")
    # a service that was never started although Start returned
    t, i = pick(lambda e, evs, i: e["e"] == "sBegin")
    s = json.loads(t[i])["s"]
    rejected([x for x in t if not (json.loads(x)["e"] in ("sBegin", "sEnd") and json.loads(x).get("s") == s)],
             "the start of one service removed")
    run.notes.append("ext svcgroup: non-vacuity: recorded traces with a tEnd removed, a listener called twice, a waitRet "
                     "moved before its listener's call, one service's start removed are all rejected by SvcGroupTrace")
    vlib.log("  ext-svcgroup: corrupted traces rejected (tEnd dropped, listener twice, early waitRet, service not started)")


def check(run):
    cov = ["-coverage", "1"]
    run.assumptions += [
        "ext svcgroup: services and listeners are harness callbacks (first / last statement recorded, a gate in between); "
        "Add only before the first Start / Stop call, Start at most once, no registration from inside a listener, no "
        "panics in service Start / Stop (RoutineGroup.Run does not recover: the process would die)",
        "ext svcgroup: 'quiet' observations are goroutine dumps (runtime.Stack) in which every goroutine of the test "
        "process other than the driver's is parked (channel, mutex, wait group, the signal loop): a logical condition, "
        "no delay; the free-running and the signal driver join calls under a 60 s watchdog whose expiry is recorded as "
        "an event the specification rejects",
        "ext svcgroup: the free-running driver never lets a registration (AddShutdownListener, also the one inside "
        "ServiceGroup.Start) race with the wake-up of a waiter of the same manager: listenerManager shares one "
        "sync.WaitGroup between registrations and waiters, and sync.WaitGroup panics on an Add that overlaps a Wait being "
        "released ('WaitGroup is reused before previous Wait has returned'); the steered drivers issue commands only at rest",
        "ext svcgroup: the documentation's 'wait for fn getting called' is read as: never returns earlier; it may return "
        "later (shutdown.go waits for every listener of the kind registered so far, the group's own hook included - "
        "SvcGroupImplStrictWait.cfg); the signal path is exercised once per process with WrapUpTime 5 ms, WaitTime 1 h "
        "(the forced kill after WaitTime is not exercised)",
    ]
    # ---- design level ------------------------------------------------------------------------------------------
    run.model_check(FAM, "SvcGroupMC", "SvcGroupMC.cfg", workers=4, args=cov,
                    note="Layer P on its own: most liberal library x most liberal harness (1 service, 2 listeners, 4 calls); "
                         "state invariants and the action properties OnceEach QuietAfterReturn StopCovers NotifyCoversP "
                         "WaitCoversP HookForward; no dead action (MSignal is covered by SvcGroupMCSig.cfg)")
    run.model_check(FAM, "SvcGroupMC", "SvcGroupMCSig.cfg", workers=4,
                    note="Layer P on its own with a signal")
    run.model_check(FAM, "SvcGroupImpl", "SvcGroupImplMC.cfg", workers=4, args=cov,
                    note="servicegroup.go + shutdown.go step by step against the Layer-P guards, every interleaving: 2 services "
                         "(Service or wrapper), Start, 1 Stop, 1 shutdown listener, 1 Shutdown, 1 wait; Progress at every "
                         "quiescent state; dead ends complete; every action of the model is taken")
    run.model_check(FAM, "SvcGroupImpl", "SvcGroupImplMCGroup.cfg", workers=4,
                    note="group side: 2 services, Start, 2 Stop calls, 2 Shutdown calls racing")
    run.model_check(FAM, "SvcGroupImpl", "SvcGroupImplMCListen.cfg", workers=4,
                    note="listener side: Start (hook, no service), 2 shutdown listeners, 2 Shutdown calls, 1 wait")
    run.model_check(FAM, "SvcGroupImpl", "SvcGroupImplMCKinds.cfg", workers=4,
                    note="both managers: 2 listeners of either kind, 2 notifications of either kind, 1 wait")
    run.model_check(FAM, "SvcGroupImpl", "SvcGroupImplStrictWait.cfg", workers=2, expect="violation",
                    note="documented imprecision of shutdown.go: one wait group per kind, so the func returned for a listener "
                         "that has long been called keeps blocking while a sibling runs (Progress with StrictWait = TRUE fails)")
    run.model_check(FAM, "SvcGroupImpl", "SvcGroupImplOwnWait.cfg", workers=4,
                    note="a wait group per registration satisfies the per-listener reading (StrictWait = TRUE)")
    for cfg, what in (("SvcGroupImplBugNoWaitStop.cfg", "doStop does not wait for the service Stop calls -> Stop returns early"),
                      ("SvcGroupImplBugNoOnce.cfg", "Stop without the Once -> a service is stopped twice"),
                      ("SvcGroupImplBugHookLate.cfg", "Start registers the shutdown hook after starting the services -> a "
                                                      "Shutdown returns with a running, unstopped service"),
                      ("SvcGroupImplBugNoClear.cfg", "notifyListeners keeps its list -> a second WrapUp calls the listener again"),
                      ("SvcGroupImplBugNoWaitNotify.cfg", "notifyListeners does not wait -> WrapUp returns while a listener runs")):
        run.model_check(FAM, "SvcGroupImpl", cfg, workers=2, expect="violation", note="wrong variant: " + what)
    # ---- spec -> code: one environment schedule per distinct quiescent state of the implementation model ----------
    beh = []
    for cfg in ("SvcGroupImplGen1.cfg", "SvcGroupImplGen2.cfg", "SvcGroupImplGen3.cfg"):
        beh += _maximal(run.generate(FAM, "SvcGroupImpl", cfg))
    for b in beh:
        run.distinct.add(("ext-svcgroup-replay", json.dumps(b, sort_keys=True)))
    vlib.log("  ext-svcgroup: %d maximal environment schedules" % len(beh))
    tr = run.go_driver(PKG, DRV, "TestVerifExtsvcgroupReplay$", inp=beh)
    _validate(run, tr, "replay")
    _vacuity(run, tr)
    # ---- code -> spec ----------------------------------------------------------------------------------------------
    tr = run.go_driver(PKG, DRV, "TestVerifExtsvcgroupRandom$", env={"VERIF_EXT_SG_RUNS": 250})
    _validate(run, tr, "random")
    tr = run.go_driver(PKG, DRV, "TestVerifExtsvcgroupStress$", env={"VERIF_EXT_SG_STRESS": 400})
    _validate(run, tr, "stress")
    tr = run.go_driver(PKG, DRV, "TestVerifExtsvcgroupS(tress|ignal)$", cpu=2,
                       env={"VERIF_EXT_SG_STRESS": 200, "VERIF_EXT_SG_SALT": 1})
    _validate(run, tr, "stress-2cpu+signal")
