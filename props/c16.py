"""C16 — in-memory collections behave as their sequential reference models."""
import json
import os
import re

LEVEL = "model_checking"
RULE = ("Six reference models (Window, LruCache, SafeMap, Queue, Ring, Set) are model-checked exhaustively for small "
        "constants; the implementation-shaped models WindowImpl (ring of buckets/offset/lastTime), SafeMapImpl (two "
        "generations, thresholds 3/2 and 4/3), QueueImpl (circular buffer with growth), RingImpl and SetImpl (map "
        "of typed values + the managed set's recorded type) are checked to "
        "refine them. TLC prints one operation history per distinct reachable (implementation) state -- in the "
        "thorough tier per distinct transition -- and each is replayed on the real go-zero object; seeded random "
        "histories are added (window advances on/before/after bucket edges and of size-1/size/size+1 buckets, LRU "
        "with driver-ticked expiry, queue growth/wrap phases, ring sizes 1..150, managed and unmanaged Sets holding "
        "one to six element types) plus SafeMap "
        "histories of >40 000 operations built to cross both real migrations. Every recorded call result is "
        "validated by TLC against the reference model. distinct = distinct operation histories executed.")

FAM = "collections"
PKG = "core/collection"
DRV = ["zz_verif_c16_test.go", "zz_verif_c16wb_test.go"]
TRACE = ("CollTrace", "CollTrace.cfg")


def _tag(beh, obj):
    for b in beh:
        b["obj"] = obj
    return beh


def _set_universe(beh, cfg):
    """Set histories: tell the driver the universe (Types x Vals) of the generating configuration, so that it
    asks Contains about every element of it when observing."""
    txt = open(os.path.join(os.path.dirname(os.path.dirname(os.path.abspath(__file__))), "specs", FAM, cfg)).read()
    types = re.findall(r'"(\w+)"', re.search(r"^\s*Types\s*=\s*\{([^}]*)\}", txt, re.M).group(1))
    vals = [int(v) for v in re.findall(r"\d+", re.search(r"^\s*Vals\s*=\s*\{([^}]*)\}", txt, re.M).group(1))]
    for b in beh:
        b["types"] = types
        b["vals"] = vals
    return beh


def check(run):
    thorough = run.tier == "thorough"
    W = 8 if thorough else 4
    run.assumptions += [
        "virtual clock (hook H1) is the only clock RollingWindow reads; time never runs backwards",
        "values used within one history are pairwise distinct (set + length comparison = bag comparison)",
        "Cache expiry: the cache's own callback runs on a TimingWheel driven by a driver-owned ticker (white-box "
        "swap of cache.timingWheel, same interval/slots); hook wheel.fire only tells the driver how many callbacks "
        "to wait for; expiry values are chosen so that 0.95e and 1.05e are not whole seconds",
        "the timing wheel itself is property C12",
        "single-threaded histories (the property is about sequential behaviour); concurrent use is not covered",
        "Set elements are typed values (type tag, small number): int, int64, uint, uint64, string and int32 (a type "
        "a managed Set does not know); what a managed Set writes to the log is not observed",
        "SafeMap migration counts in the evidence are read white-box and are informational only",
    ]

    # ---- design level -------------------------------------------------------------------
    run.model_check(FAM, "WindowImpl", "WindowImplMC.cfg", workers=W,
                    note="rollingwindow.go algorithm refines Window, sizes 1..4, interval 2, advances 1..11, 7 ops")
    run.model_check(FAM, "LruCacheMC", "LruCacheMC.cfg", workers=W,
                    note="cache model: bound, LRU eviction order, latest value, loader only on miss; "
                         "3 keys, limits 0..2, 6 ops")
    run.model_check(FAM, "SafeMapImpl", "SafeMapImplMC.cfg", workers=W,
                    note="two-generation SafeMap refines the plain map; thresholds 3/2, 3 keys, 24 ops")
    run.model_check(FAM, "QueueImpl", "QueueImplMC.cfg", workers=W,
                    note="circular buffer with growth refines the FIFO; initial sizes 1..3, capacity <= 9, 14 ops")
    run.model_check(FAM, "SetImpl", "SetImplMC.cfg", workers=W,
                    note="set.go (map of typed values + recorded type tp) refines the mathematical set and its "
                         "observers agree (Coherent): managed/unmanaged, 6 element types x 1 value, every mixture "
                         "of types under every recorded type, variadic mixed adds, 9 ops")
    # (RingImpl is model-checked by its generation run below)
    if thorough:
        run.model_check(FAM, "WindowImpl", "WindowImplMC2.cfg", workers=W,
                        note="sizes 1..4, interval 3, advances 1..16, 9 ops")
        run.model_check(FAM, "LruCacheMC", "LruCacheMC2.cfg", workers=W, note="limits 0..3, 7 ops")
        run.model_check(FAM, "SafeMapImpl", "SafeMapImplMC2.cfg", workers=W, note="thresholds 4/3, 4 keys, 34 ops")
        run.model_check(FAM, "QueueImpl", "QueueImplMC2.cfg", workers=W,
                        note="initial sizes 1..4, capacity <= 12, 18 ops")
        # documented counterexamples: the refinement invariants are not vacuous
        run.model_check(FAM, "WindowImpl", "WindowImplBug.cfg", workers=2, expect="violation",
                        note="lastTime not aligned to the interval boundary violates Refines")
        run.model_check(FAM, "SafeMapImpl", "SafeMapImplBug.cfg", workers=2, expect="violation",
                        note="Set into the new generation without unlinking from the old one violates Refines")
        run.model_check(FAM, "SafeMapImpl", "SafeMapImplReach.cfg", workers=2, expect="violation",
                        note="vacuity guard: both migrations are reachable within the bounds")
        run.model_check(FAM, "QueueImpl", "QueueImplBug.cfg", workers=2, expect="violation",
                        note="growth that forgets the wrapped part violates Refines")
        run.model_check(FAM, "RingImpl", "RingImplBug.cfg", workers=1, expect="violation",
                        note="index folded back to 0 violates Refines")
        run.model_check(FAM, "SetImpl", "SetImplMC2.cfg", workers=W,
                        note="4 element types x 2 values, 10 ops")
        run.model_check(FAM, "SetImpl", "SetImplBug_denyctn.cfg", workers=1, expect="violation",
                        note="Contains denying a stored value of another type than the recorded one violates Coherent")
        run.model_check(FAM, "SetImpl", "SetImplBug_dropadd.cfg", workers=1, expect="violation",
                        note="add dropping a value of another type than the recorded one violates Refines")
        run.model_check(FAM, "SetImpl", "SetImplReach.cfg", workers=1, expect="violation",
                        note="vacuity guard: a managed set holding two managed kinds other than the recorded one "
                             "is reachable within the bounds")

    # ---- spec -> code: one history per distinct reachable state (thorough: per transition) ----
    beh = []
    beh += _tag(run.generate(FAM, "WindowImpl", "WindowImplGenT.cfg" if thorough else "WindowImplGen.cfg"), "window")
    beh += _tag(run.generate(FAM, "LruCacheMC", "LruCacheGenT.cfg" if thorough else "LruCacheGen.cfg"), "cache")
    beh += _tag(run.generate(FAM, "QueueImpl", "QueueImplGenT.cfg"), "queue")
    # RingImplMC is model checking and generation in one run
    beh += _tag(run.generate(FAM, "RingImpl", "RingImplMC.cfg"), "ring")
    # Set (SetImpl state = recorded type tp + content, managed or unmanaged):
    #   6 element types x 1 value: one history per distinct TRANSITION (every state, every state-changing add /
    #   remove of every type under every recorded type; quick: one-argument adds, thorough: also variadic mixed adds)
    #   3 element types x 2 values, variadic mixed adds: per distinct state (quick) / transition (thorough)
    # obs: the driver observes (Count, Keys, the five typed Keys, Contains of every element of the universe) after
    # every operation, or -- quick transition cover, where every prefix is another history's business -- after the
    # last one only.
    for cfg, obs in ((("SetImplGenT.cfg", "all"), ("SetImplGen2T.cfg", "all")) if thorough else
                     (("SetImplGenQ.cfg", "last"), ("SetImplGen2.cfg", "all"))):
        sb = _tag(_set_universe(run.generate(FAM, "SetImpl", cfg), cfg), "set")
        for b in sb:
            b["obs"] = obs
        beh += sb
    for b in beh:
        run.distinct.add(json.dumps(b, sort_keys=True))
    run.evaluations += len(beh)
    tr = run.go_driver(PKG, DRV, "TestVerifC16Replay$", inp=beh)
    run.validate(FAM, TRACE[0], TRACE[1], tr, label="replay", timeout=1500)

    # ---- code -> spec: seeded random histories, long SafeMap histories ------------------
    n0 = run.traces
    tr = run.go_driver(PKG, DRV, "TestVerifC16Random$")
    run.validate(FAM, TRACE[0], TRACE[1], tr, label="random", timeout=1500)
    tr = run.go_driver(PKG, DRV, "TestVerifC16MapLong$", env={"VERIF_C16_LONG": 12 if thorough else 1}, timeout=900)
    info = {"histories": 0, "ops": 0, "first_migrations": 0, "second_migrations": 0}
    for ln in open(tr):
        if '"m.info"' in ln:
            ev = json.loads(ln)
            info["histories"] += 1
            info["ops"] += ev["ops"]
            info["first_migrations"] += ev["mig1"]
            info["second_migrations"] += ev["mig2"]
    run.extra["safemap_long"] = info
    if info["first_migrations"] == 0 or info["second_migrations"] == 0:
        run.notes.append("SafeMap long histories did not cross both migrations (thresholds changed?)")
        print("  note: SafeMap long histories did not cross both migrations: %s" % info, flush=True)
    run.validate(FAM, TRACE[0], TRACE[1], tr, label="safemap-long", timeout=1500, heap="6g")
    for i in range(run.traces - n0):
        run.distinct.add(("random", run.seed, i))
    run.evaluations += run.traces - n0


LEVEL_TEXT = ("Exhaustive TLC model checking of six reference models and of five implementation-shaped models "
              "(window ring, two-generation map, growing circular queue, ring index folding, typed-value map with "
              "the managed set's recorded type) refined to them, plus "
              "conformance: every TLC-reachable state replayed on the real objects, random histories and >40 000-"
              "operation SafeMap histories across both real migrations validated by TLC against the reference models.")
LEVEL_NOTE = ("Trusted: TLC/SANY, the Go toolchain, hook H1 (virtual clock), the harness emit order. Sequential "
              "histories only. Cache expiry runs on a driver-ticked wheel (white-box swap); the +-5% expiry spread "
              "is modelled as an admissible band. Bounded: small constants exhaustively at design level; the real "
              "code is sampled beyond them.")
TECHNIQUE = ("TLA+ reference models + implementation-shaped refinements checked by TLC; TLC-generated state-cover "
             "replay; TLC trace validation of recorded call results")
DESIGN_REF = "DESIGN.md Part B C16"


def replay(run, path):
    run.replay(FAM, TRACE[0], TRACE[1], path)
