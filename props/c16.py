"""C16 — in-memory collections behave as their sequential reference models."""
import json

LEVEL = "model_checking"
RULE = ("Six reference models (Window, LruCache, SafeMap, Queue, Ring, Set) are model-checked exhaustively for small "
        "constants; the implementation-shaped models WindowImpl (ring of buckets/offset/lastTime), SafeMapImpl (two "
        "generations, thresholds 3/2 and 4/3), QueueImpl (circular buffer with growth) and RingImpl are checked to "
        "refine them. TLC prints one operation history per distinct reachable (implementation) state -- in the "
        "thorough tier per distinct transition -- and each is replayed on the real go-zero object; seeded random "
        "histories are added (window advances on/before/after bucket edges and of size-1/size/size+1 buckets, LRU "
        "with driver-ticked expiry, queue growth/wrap phases, ring sizes 1..150, six Set element types) plus SafeMap "
        "histories of >40 000 operations built to cross both real migrations. Every recorded call result is "
        "validated by TLC against the reference model. distinct = distinct operation histories executed.")

FAM = "collections"
PKG = "core/collection"
DRV = ["zz_verif_c16_test.go", "zz_verif_c16wb_test.go"]
TRACE = ("CollTrace", "CollTrace.cfg")


def _tag(beh, obj):
    for b in beh:
        b["obj"] = obj
    return beh


def check(run):
    thorough = run.tier == "thorough"
    W = 8 if thorough else 4
    run.assumptions += [
        "virtual clock (hook H1) is the only clock RollingWindow reads; time never runs backwards",
        "values used within one history are pairwise distinct (set + length comparison = bag comparison)",
        "Cache expiry: the cache's own callback runs on a TimingWheel driven by a driver-owned ticker (white-box "
        "swap of cache.timingWheel, same interval/slots); hook wheel.fire only tells the driver how many callbacks "
        "to wait for; expiry values are chosen so that 0.95e and 1.05e are not whole seconds",
        "the timing wheel itself is property C12",
        "single-threaded histories (the property is about sequential behaviour); concurrent use is not covered",
        "SafeMap migration counts in the evidence are read white-box and are informational only",
    ]

    # ---- design level -------------------------------------------------------------------
    run.model_check(FAM, "WindowImpl", "WindowImplMC.cfg", workers=W,
                    note="rollingwindow.go algorithm refines Window, sizes 1..4, interval 2, advances 1..11, 7 ops")
    run.model_check(FAM, "LruCacheMC", "LruCacheMC.cfg", workers=W,
                    note="cache model: bound, LRU eviction order, latest value, loader only on miss; "
                         "3 keys, limits 0..2, 6 ops")
    run.model_check(FAM, "SafeMapImpl", "SafeMapImplMC.cfg", workers=W,
                    note="two-generation SafeMap refines the plain map; thresholds 3/2, 3 keys, 24 ops")
    run.model_check(FAM, "QueueImpl", "QueueImplMC.cfg", workers=W,
                    note="circular buffer with growth refines the FIFO; initial sizes 1..3, capacity <= 9, 14 ops")
    # (RingImpl and Set are model-checked by their generation runs below)
    if thorough:
        run.model_check(FAM, "WindowImpl", "WindowImplMC2.cfg", workers=W,
                        note="sizes 1..4, interval 3, advances 1..16, 9 ops")
        run.model_check(FAM, "LruCacheMC", "LruCacheMC2.cfg", workers=W, note="limits 0..3, 7 ops")
        run.model_check(FAM, "SafeMapImpl", "SafeMapImplMC2.cfg", workers=W, note="thresholds 4/3, 4 keys, 34 ops")
        run.model_check(FAM, "QueueImpl", "QueueImplMC2.cfg", workers=W,
                        note="initial sizes 1..4, capacity <= 12, 18 ops")
        # documented counterexamples: the refinement invariants are not vacuous
        run.model_check(FAM, "WindowImpl", "WindowImplBug.cfg", workers=2, expect="violation",
                        note="lastTime not aligned to the interval boundary violates Refines")
        run.model_check(FAM, "SafeMapImpl", "SafeMapImplBug.cfg", workers=2, expect="violation",
                        note="Set into the new generation without unlinking from the old one violates Refines")
        run.model_check(FAM, "SafeMapImpl", "SafeMapImplReach.cfg", workers=2, expect="violation",
                        note="vacuity guard: both migrations are reachable within the bounds")
        run.model_check(FAM, "QueueImpl", "QueueImplBug.cfg", workers=2, expect="violation",
                        note="growth that forgets the wrapped part violates Refines")
        run.model_check(FAM, "RingImpl", "RingImplBug.cfg", workers=1, expect="violation",
                        note="index folded back to 0 violates Refines")

    # ---- spec -> code: one history per distinct reachable state (thorough: per transition) ----
    beh = []
    beh += _tag(run.generate(FAM, "WindowImpl", "WindowImplGenT.cfg" if thorough else "WindowImplGen.cfg"), "window")
    beh += _tag(run.generate(FAM, "LruCacheMC", "LruCacheGenT.cfg" if thorough else "LruCacheGen.cfg"), "cache")
    beh += _tag(run.generate(FAM, "QueueImpl", "QueueImplGenT.cfg"), "queue")
    # RingImplMC / SetMC are model checking and generation in one run
    beh += _tag(run.generate(FAM, "RingImpl", "RingImplMC.cfg"), "ring")
    beh += _tag(run.generate(FAM, "SetMC", "SetMC4.cfg" if thorough else "SetMC3.cfg"), "set")
    for b in beh:
        run.distinct.add(json.dumps(b, sort_keys=True))
    run.evaluations += len(beh)
    tr = run.go_driver(PKG, DRV, "TestVerifC16Replay$", inp=beh)
    run.validate(FAM, TRACE[0], TRACE[1], tr, label="replay", timeout=1500)

    # ---- code -> spec: seeded random histories, long SafeMap histories ------------------
    n0 = run.traces
    tr = run.go_driver(PKG, DRV, "TestVerifC16Random$")
    run.validate(FAM, TRACE[0], TRACE[1], tr, label="random", timeout=1500)
    tr = run.go_driver(PKG, DRV, "TestVerifC16MapLong$", env={"VERIF_C16_LONG": 12 if thorough else 1}, timeout=900)
    info = {"histories": 0, "ops": 0, "first_migrations": 0, "second_migrations": 0}
    for ln in open(tr):
        if '"m.info"' in ln:
            ev = json.loads(ln)
            info["histories"] += 1
            info["ops"] += ev["ops"]
            info["first_migrations"] += ev["mig1"]
            info["second_migrations"] += ev["mig2"]
    run.extra["safemap_long"] = info
    if info["first_migrations"] == 0 or info["second_migrations"] == 0:
        run.notes.append("SafeMap long histories did not cross both migrations (thresholds changed?)")
        print("  note: SafeMap long histories did not cross both migrations: %s" % info, flush=True)
    run.validate(FAM, TRACE[0], TRACE[1], tr, label="safemap-long", timeout=1500, heap="6g")
    for i in range(run.traces - n0):
        run.distinct.add(("random", run.seed, i))
    run.evaluations += run.traces - n0


LEVEL_TEXT = ("Exhaustive TLC model checking of six reference models and of four implementation-shaped models "
              "(window ring, two-generation map, growing circular queue, ring index folding) refined to them, plus "
              "conformance: every TLC-reachable state replayed on the real objects, random histories and >40 000-"
              "operation SafeMap histories across both real migrations validated by TLC against the reference models.")
LEVEL_NOTE = ("Trusted: TLC/SANY, the Go toolchain, hook H1 (virtual clock), the harness emit order. Sequential "
              "histories only. Cache expiry runs on a driver-ticked wheel (white-box swap); the +-5% expiry spread "
              "is modelled as an admissible band. Bounded: small constants exhaustively at design level; the real "
              "code is sampled beyond them.")
TECHNIQUE = ("TLA+ reference models + implementation-shaped refinements checked by TLC; TLC-generated state-cover "
             "replay; TLC trace validation of recorded call results")
DESIGN_REF = "DESIGN.md Part B C16"


def replay(run, path):
    run.replay(FAM, TRACE[0], TRACE[1], path)
