"""Extension specification "mqueue" (host C11, ADVISORY): life cycle of core/queue.Queue.  specs/mqueue/*."""
import json

import vlib  # lib/ is on sys.path (set up by ./check)

HOST = "C11"
WHAT = ("core/queue.Queue life cycle: Start creates exactly the configured producers and consumers from the factories "
        "(a failing factory is retried) and returns only after Stop, when no callback runs and every message a Produce "
        "call returned has been consumed (by return, error or panic); nothing runs after Start returned; after Stop a "
        "producer makes at most one more Produce call; Produce / Consume / OnEvent calls of one object never overlap; a "
        "message is consumed at most once; a panic in Produce or Consume ends nothing; the active-producer counter moves "
        "by one inside each OnProducerPause / OnProducerResume and exactly the call that takes it to <= 0 / to 1 tells "
        "every listener in AddListener order; all consumers see the broadcasts once each, in one common order")
QUICK = False
FAM = "mqueue"
PKG = "core/queue"
DRV = ["zz_verif_ext_mqueue_test.go"]
TRACE = ("MQueueTrace", "MQueueTrace.cfg")


def _validate(run, tr, label):
    n0 = run.traces
    ok = run.validate(FAM, TRACE[0], TRACE[1], tr, label="ext-mqueue-" + label)
    run.evaluations += run.traces - n0
    for i in range(run.traces - n0):
        run.distinct.add(("ext-mqueue", label, run.seed, i))
    return ok


def check(run):
    cov = ["-coverage", "1"]
    run.assumptions += [
        "ext mqueue: factories, producers, consumers and listeners are harness callbacks; Start and Stop are called once; "
        "Broadcast is only called while the queue runs, every consumer exists and Stop has not been called, and Stop only "
        "once every broadcast has reached every consumer (a Broadcast racing with the shutdown may block for ever: the "
        "queue promises nothing there); the pause / resume calls of one producer alternate",
        "ext mqueue: two library steps are not observable and inferred by TLC: the instant a new producer is counted as "
        "active (between the factory's return and AddListener) and the atomic add inside OnProducerPause/Resume",
        "ext mqueue: between commands the replay driver lets the library settle by watching its own event counter; this "
        "only chooses the schedule, the verdict does not depend on it; waits for what the queue owes (deliveries of a "
        "broadcast, the return of Start) run under a 30 s watchdog whose expiry is recorded as an event the spec rejects",
    ]
    # ---- design level ------------------------------------------------------------------------------------------
    run.model_check(FAM, "MQueueMC", "MQueueMC.cfg", workers=4, args=cov,
                    note="Layer P on its own: most liberal queue x most liberal harness; state invariants and the action "
                         "properties MsgForward QuietAfterReturn OrderGrows CounterByOne ReturnCovers; no dead action")
    run.model_check(FAM, "MQueueMC", "MQueueMC2.cfg", workers=4,
                    note="Layer P on its own, the pause/resume side: 2 producers, 2 listeners, concurrent calls")
    run.model_check(FAM, "MQueueImpl", "MQueueImplMCAll.cfg", workers=4, args=cov,
                    note="queue.go step by step against the Layer-P guards: 1 producer, 1 consumer, 1 listener, 2 Produce "
                         "calls, 1 broadcast, 2 pause/resume calls, 1 factory error (every action of the model is taken)")
    run.model_check(FAM, "MQueueImpl", "MQueueImplMC.cfg", workers=4,
                    note="data path: 2 producers, 2 consumers, 3 Produce calls, Stop anywhere")
    run.model_check(FAM, "MQueueImpl", "MQueueImplMCBcast.cfg", workers=4,
                    note="2 broadcasts racing towards 2 consumers that also consume")
    run.model_check(FAM, "MQueueImpl", "MQueueImplMCPause.cfg", workers=4,
                    note="3 concurrent pause/resume calls of 2 producers (also while the producers are being created), "
                         "2 listeners, Stop anywhere")
    run.model_check(FAM, "MQueueImpl", "MQueueImplSeq.cfg", workers=2,
                    note="pause/resume calls one at a time and only once every producer exists: then all listeners agree "
                         "and are paused iff no producer is active (ListenersAgree, PausedIffNoneActive)")
    run.model_check(FAM, "MQueueImpl", "MQueueImplRace.cfg", workers=2, expect="violation",
                    note="documented design race of queue.go: without that discipline the listeners' view goes wrong (a "
                         "producer pausing before its sibling is counted leaves every listener paused with one producer "
                         "active; two racing calls deliver OnPause/OnResume out of order)")
    run.model_check(FAM, "MQueueImpl", "MQueueImplBugNoDrain.cfg", workers=2, expect="violation",
                    note="wrong variant: Start does not wait for the consumers -> returns with a message in Consume")
    run.model_check(FAM, "MQueueImpl", "MQueueImplBugNoWaitP.cfg", workers=2, expect="violation",
                    note="wrong variant: Start closes the channel without waiting for the producers")
    run.model_check(FAM, "MQueueImpl", "MQueueImplBugNoLock.cfg", workers=2, expect="violation",
                    note="wrong variant: Broadcast without the event lock -> two consumers see two broadcasts in "
                         "different orders (SameOrder)")
    run.model_check(FAM, "MQueueImpl", "MQueueImplBugResumeCmp.cfg", workers=2, expect="violation",
                    note="wrong variant: resume tells the listeners whenever the counter is >= 1 (Active)")
    # ---- spec -> code: one environment schedule per distinct quiescent state of the implementation model -------------
    beh = []
    for cfg, p, c, l in (("MQueueImplGen1.cfg", 1, 2, 2), ("MQueueImplGen2.cfg", 2, 1, 1),
                         ("MQueueImplGen3.cfg", 2, 2, 0)):
        for ops in run.generate(FAM, "MQueueImpl", cfg):
            beh.append({"P": p, "C": c, "L": l, "ops": ops})
    for b in beh:
        run.distinct.add(("ext-mqueue-replay", json.dumps(b, sort_keys=True)))
    tr = run.go_driver(PKG, DRV, "TestVerifExtmqueueReplay$", inp=beh)
    _validate(run, tr, "replay")
    # ---- code -> spec: seeded random command sequences, and free-running concurrent histories ----------------------
    tr = run.go_driver(PKG, DRV, "TestVerifExtmqueueRandom$", env={"VERIF_EXT_MQ_RUNS": 240})
    _validate(run, tr, "random")
    tr = run.go_driver(PKG, DRV, "TestVerifExtmqueueStress$", env={"VERIF_EXT_MQ_STRESS": 160})
    _validate(run, tr, "stress")
