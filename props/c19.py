"""C19 — Redis lock: one holder at a time, only the holder can release."""
import os
import random
import subprocess
import time

import vlib

LEVEL = "model_checking"
RULE = ("TLC explores the abstract lease lock (RedisLock.tla) over all sequences of Acquire / Release / SetExpire / "
        "clock advance (lease-1, lease, lease+1, 500 ms) / store outage and the implementation-shaped model "
        "(LockImpl.tla: key value + ttl, the two Lua scripts, the client steps of several goroutines) which must "
        "refine it; it prints one shortest operation history per distinct TRANSITION (state, operation, answer) of the "
        "abstract lock (complete transition cover in the thorough tier); each is replayed on real RedisLock instances over miniredis (FastForward clock, SetError/Close outages); "
        "seeded long random histories, rounds of simultaneous Acquire/Release from 2..8 goroutines (callStart/"
        "callEnd, TLC finds the linearisation) and rounds whose store commands are released one at a time by a seeded "
        "command-level scheduler (miniredis pre-command hook) with clock jumps and command failures in between are added; every recorded trace is validated by TLC against "
        "RedisLock.tla. The whole legal range of SetExpire (0 .. 2^32-1 seconds, leases to 4.3e12 ms, beyond TLC's 32-bit "
        "integers) is covered through RedisLockWide.tla = RedisLock.tla with times and seconds as two-limb numbers "
        "(model-checked to have exactly the behaviours of RedisLock.tla, both directions, at bases where carries happen "
        "constantly): TLC generates the transition cover for SetExpire values at the width boundaries of the lease "
        "arithmetic (2^24/2^31/2^32 ms, 2^15/2^16/2^31/2^32 s; a seed-rotated subset in the quick tier), replayed on the "
        "real code, and the random / concurrent / scheduler histories draw one SetExpire in six from that range; those "
        "traces are validated against RedisLockWide.tla (Base 10^6). 'Every number of lock instances': LockIdent.tla "
        "makes the identity an instance presents to the store explicit (instances created one after the other, an ident "
        "map, a store that compares identities; model-checked to refine RedisLock.tla exactly while identities are "
        "distinct, counterexamples for a wrapping sequence number), LockPop.tla carries it into trace validation: one "
        "process creates 2^18 (thorough: 2^24) RedisLock instances, logs per batch how many instances and how many new "
        "identities (census; guard: each instance has its own), keeps the instances at creation distances 1, 2, 2^8-1, "
        "2^8, 2^8+1 ... 2^16-1, 2^16, 2^16+1 ... 2^24+1 and seeded ones, and every pair of them contends for one key "
        "(hold/ask/release, lease boundary, late release). distinct = distinct operation histories executed "
        "(generated histories by content; random and concurrent ones by seed and index).")

FAM = "lock"
PKG = "core/stores/redis"
DRV = ["zz_verif_lock_test.go", "zz_verif_c19_wide_test.go", "zz_verif_c19_pop_test.go",
       "zz_verif_c19_wb_test.go", "zz_verif_c19_nowb_test.go"]

# SetExpire values (seconds) at the width boundaries of seconds*1000+500: the lease crosses 2^24 ms (float32
# mantissa), 2^31 ms, 2^32 ms; the seconds cross 2^15, 2^16, 2^31 - and, as k standing for 2^31 + k, 2^31 and 2^32-1
# (the field is a uint32: 2^32-1 is the largest legal value).
WIDE_LOW = [4294968, 2147484, 4294967, 65536, 2147483647, 16778, 4294966, 32768, 2147483, 65535, 16777, 32767]
WIDE_HIGH = [2147483647, 0, 2147483646, 1]


def wide_gen(run, tag, inst, low, high, maxops):
    """Generation config for RedisLockWideMC at Base 10^6 with the given SetExpire values (written into the
    scratch copy of the spec family; RedisLockWideGen.cfg in specs/lock is the same thing with fixed values)."""
    d = run._spec_copy(FAM)
    tmpl = open(os.path.join(d, "RedisLockWideGen.cfg")).read()
    out = []
    for ln in tmpl.splitlines():
        k = ln.split("=")[0].strip()
        if k == "Inst":
            ln = "  Inst = {%s}" % ", ".join(str(i) for i in range(inst))
        elif k == "SecsLow":
            ln = "  SecsLow = {%s}" % ", ".join(str(v) for v in sorted(low))
        elif k == "SecsHigh":
            ln = "  SecsHigh = {%s}" % ", ".join(str(v) for v in sorted(high))
        elif k == "MaxOps":
            ln = "  MaxOps = %d" % maxops
        out.append(ln)
    name = "RedisLockWideGen-%s.cfg" % tag
    with open(os.path.join(d, name), "w") as fh:
        fh.write("\n".join(out) + "\n")
    beh = run.generate(FAM, "RedisLockWideMC", name, workers=1)
    run.notes.append("wide generation %s: %d instances, SetExpire in %s + 2^31+%s, <= %d operations: %d histories"
                     % (tag, inst, sorted(low), sorted(high), maxops, len(beh)))
    for b in beh:
        run.distinct.add(("wide", inst, str(b)))
    run.evaluations += len(beh)
    return beh


def check(run):
    thorough = run.tier == "thorough"
    run.assumptions += [
        "miniredis is a faithful Redis for GET/SET NX PX/DEL inside EVAL/EVALSHA (scripts run atomically under the "
        "store lock) and its keys expire only through FastForward (ttl <= 0 removes the key)",
        "an error answer is legal at any time (outage, breaker, dead pooled connection) and is never a grant; "
        "whether the script ran before the error is left open",
        "SetExpire is not called concurrently with Acquire on the same instance (the lease then uses either value); "
        "the store is closed/restarted only between calls",
        "obs events read the key and its ttl directly from miniredis (white-box: value == RedisLock.id); a value "
        "that is no instance's id is only compared for existence and ttl",
        "two draws of the identity generator of the unchanged tree (16 random alphanumeric characters) never coincide "
        "within one run (probability < 10^-14 for 2^24 instances); census events read RedisLock.id (white-box; "
        "without it the census only counts instances and the contention of far-apart pairs decides)",
        "the legal arguments of SetExpire(int) are 0 .. 2^32-1 (the field is a uint32; anything else is truncated by "
        "the conversion and not a 'configured number of seconds'); int is 64 bits on the platform the check runs on",
    ]
    # ---- design level
    run.model_check(FAM, "RedisLockMC", "RedisLockMC.cfg", workers=4,
                    note="abstract lock, 3 instances, secs 0..2, any length (state relative to the clock); "
                         "AtMostOneHolder, BeliefSound, OwnerOnlyRelease, LateReleaseHarmless, NoSteal, LeaseLength")
    run.model_check(FAM, "LockImpl", "LockImplMC.cfg", workers=4,
                    note="key/ttl + Lua scripts + client steps, 3 goroutines on 2 instances: refines RedisLock")
    run.model_check(FAM, "RedisLockWideMC", "RedisLockWideMC.cfg", workers=4,
                    note="RedisLock in two-limb numbers (base 3, 2 instances, secs 0 and 4 = <<1,1>>), state relative to the "
                         "clock + its low limb: every step is a step of RedisLock.tla (Refines), limb arithmetic lemmas")
    if not thorough:  # (the thorough tier checks the same with up to 4 instances, below)
        run.model_check(FAM, "LockIdent", "LockIdentMC.cfg", workers=4,
                        note="identities explicit: instances created one after the other (up to 3), fresh identity each, "
                             "the store compares identities: refines RedisLock.tla (creation stutters) and LockPop.tla "
                             "(every creation is a Census step with k = n); IdentDistinctMap, CensusLemma, OwnerIsIdent")
    bugs = [("LockImplBugDel.cfg", "release script without the id comparison"),
            ("LockImplBugNoNX.cfg", "lock script sets the key without NX")]
    if thorough:
        bugs += [("LockImplBugErr.cfg", "client treats an error reply as a grant"),
                 ("LockImplBugNoRefresh.cfg", "re-acquire by the holder answers OK without refreshing the lease")]
    for cfg, what in bugs:
        run.model_check(FAM, "LockImpl", cfg, workers=2, expect="violation",
                        note="documented counterexample: " + what)
    if thorough:
        run.model_check(FAM, "RedisLockMC", "RedisLockMC4.cfg", workers=8,
                        note="abstract lock, 4 instances, secs 0..3")
        run.model_check(FAM, "LockImpl", "LockImplMC3b.cfg", workers=8,
                        note="3 goroutines on 3 instances, refinement")
        run.model_check(FAM, "LockIdent", "LockIdentMC4.cfg", workers=8,
                        note="identities explicit: instances created one after the other (up to 4), fresh identity each, "
                             "the store compares identities: refines RedisLock.tla (creation stutters) and LockPop.tla "
                             "(every creation is a Census step with k = n); IdentDistinctMap, CensusLemma, OwnerIsIdent")
        run.model_check(FAM, "LockIdent", "LockIdentLemma.cfg", workers=4,
                        note="CensusLemma over ALL ident maps (any identity at each creation, 4 instances, 3 identities): "
                             "injective <=> number of identities = number of instances")
        for cfg, what in (("LockIdentBugWrap.cfg", "identity = sequence number modulo Width: the (Width+1)-th instance acquires "
                                                   "the key the first one holds (AtMostOneHolder)"),
                          ("LockIdentBugWrapRel.cfg", "the late-comer's Acquire/Release is no step of RedisLock.tla (Refines)"),
                          ("LockIdentBugWrapPop.cfg", "the creation that repeats an identity is no Census step (PopRefines)")):
            run.model_check(FAM, "LockIdent", cfg, workers=2, expect="violation",
                            note="documented counterexample, wrapping sequence number: " + what)
        run.model_check(FAM, "RedisLockWideMC", "RedisLockWideMC7.cfg", workers=8,
                        note="limbs, base 7, 3 instances, secs 0..2: refines RedisLock.tla")
        run.model_check(FAM, "RedisLockWideMC", "RedisLockWideMC7b.cfg", workers=8,
                        note="limbs, base 7, 2 instances, secs 0 and 8 = <<1,1>>: refines RedisLock.tla")
        run.model_check(FAM, "RedisLockWideMC", "RedisLockWideMC16.cfg", workers=8,
                        note="limbs, base 16, 2 instances, secs 0..1: refines RedisLock.tla")
        run.model_check(FAM, "RedisLockWideMC", "RedisLockWideMC1000.cfg", workers=8,
                        note="limbs, base 1000 (= ms per second: low limb = the milliseconds), 1 instance, secs 0..1: "
                             "refines RedisLock.tla")
        # (the converse direction is a statement about the two specifications alone - independent of the tree under
        # test and of the seed - so it is checked in this tier only)
        run.model_check(FAM, "RedisLockWideConv", "RedisLockWideConv.cfg", workers=4,
                        note="converse: every step of RedisLock.tla is a step of RedisLockWide.tla (base 3, secs 0 and 4)")
        run.model_check(FAM, "RedisLockWideConv", "RedisLockWideConv7.cfg", workers=8,
                        note="converse, base 7, 2 instances, secs 0..2")
        apalache(run)
    # ---- spec -> code: one history per distinct transition (state, operation, answer) of the abstract lock
    gens = [("RedisLockGen.cfg", 3)]
    if thorough:
        gens = [("RedisLockGen2.cfg", 3), ("RedisLockGen4.cfg", 4)]
    for cfg, n in gens:
        beh = run.generate(FAM, "RedisLockMC", cfg, workers=1)
        for b in beh:
            run.distinct.add((n, str(b)))
        run.evaluations += len(beh)
        tr = run.go_driver(PKG, DRV, "TestVerifLockReplay$", inp=beh,
                           env={"VERIF_LOCK_N": n, "VERIF_LOCK_CLOSED_EVERY": 40 if not thorough else 60,
                                "VERIF_LOCK_PROBE": 1 if thorough else 0})
        run.validate(FAM, "RedisLockTrace", "RedisLockTrace.cfg", tr, label="replay-n%d" % n, heap="2g")
    # ---- spec -> code over the whole range of SetExpire: transition cover of the limb specification with
    # SetExpire values at the width boundaries of the lease arithmetic (every run has one value >= 2^31 seconds and
    # one below; the quick tier rotates through the boundaries with the seed, the thorough tier takes them all)
    k = run.seed - 1
    if not thorough:
        wide = [("q", 2, [WIDE_LOW[k % len(WIDE_LOW)]], [WIDE_HIGH[k % len(WIDE_HIGH)]], 5)]
    else:
        rnd = random.Random(run.seed * 7919 + 19)
        wide = [("t%d" % g, 2, [WIDE_LOW[(k + 2 * g) % 12], WIDE_LOW[(k + 2 * g + 1) % 12]], [WIDE_HIGH[(k + g) % 4]], 6)
                for g in range(6)]
        wide.append(("t3i", 3, [WIDE_LOW[k % 12]], [WIDE_HIGH[(k + 1) % 4]], 6))
        wide.append(("trnd", 2, [rnd.randrange(1 << 31), rnd.randrange(4294967, 1 << 31)], [rnd.randrange(1 << 31)], 6))
    wide_beh = {}
    for tag, inst, low, high, maxops in wide:
        wide_beh[tag] = (inst, wide_gen(run, tag, inst, low, high, maxops))
    if thorough:
        for tag, (inst, beh) in wide_beh.items():
            tr = run.go_driver(PKG, DRV, "TestVerifLockWideReplay$", inp=beh,
                               env={"VERIF_LOCK_WIDE_N": inst, "VERIF_LOCK_PROBE": 1})
            run.validate(FAM, "RedisLockWideTrace", "RedisLockWideTrace.cfg", tr, label="wide-replay-" + tag, heap="2g")
    # ---- code -> spec: long random histories, free-running concurrent rounds, command-level scheduler
    # (SetExpire drawn from the whole range: limb format, validated against RedisLockWide.tla)
    drivers = [("TestVerifLockPop$", "population", None, None),
               ("TestVerifLockRandom$", "random", None, None),
               ("TestVerifLockConcurrent$", "concurrent", "2,8", None),
               ("TestVerifLockSched$", "sched", None, None)]
    if not thorough:  # one compile, one JVM start (the wide replay rides along)
        drivers = [("TestVerifLock(Pop|WideReplay|Random|Concurrent|Sched)$", "population+wide-replay+random+concurrent+sched", "4",
                    wide_beh["q"][1])]
    for test, label, cpu, inp in drivers:
        tr = run.go_driver(PKG, DRV, test, cpu=cpu, inp=inp, env={"VERIF_LOCK_WIDE_N": 2, "VERIF_LOCK_PROBE": 1},
                           timeout=900 if thorough else 600)
        n0 = run.traces
        run.validate(FAM, "RedisLockWideTrace", "RedisLockWideTrace.cfg", tr, label=label, heap="2g")
        extra = run.traces - n0 - (len(inp) if inp else 0)
        run.evaluations += max(extra, 0)
        for i in range(max(extra, 0)):
            run.distinct.add((label, run.seed, i))


def apalache(run):
    """Bonus (thorough): Apalache proves the invariant inductive for ALL lease lengths and clock values
    (3 instances). Never part of the verdict: any trouble is only noted."""
    d = run._spec_copy(FAM)
    t = time.time()
    results = []
    try:
        for init, inv, length in (("IndInit", "IndInv", "0"), ("IndInv", "IndInv", "1"),
                                  ("IndInv", "AtMostOneHolder", "0")):
            p = subprocess.run(["timeout", "-k", "5", "180", "apalache-mc", "check", "--init=" + init, "--inv=" + inv,
                                "--next=IndNext", "--length=" + length,
                                "--out-dir=" + run.tmp("apalache"), "RedisLockInd.tla"],
                               cwd=d, stdout=subprocess.PIPE, stderr=subprocess.STDOUT, text=True, errors="replace")
            ok = p.returncode == 0 and "The outcome is: NoError" in p.stdout
            results.append("%s=>%s:%s" % (init, inv, "ok" if ok else "rc=%d" % p.returncode))
            if not ok:
                break
    except Exception as ex:  # noqa
        results.append("not run: %s" % ex)
    note = "apalache inductive check (bonus, not the verdict): " + ", ".join(results)
    run.notes.append(note)
    run.extra["apalache"] = {"result": results, "wall_s": round(time.time() - t, 1)}
    vlib.log("  APALACHE %s  %.1fs" % (", ".join(results), time.time() - t))


LEVEL_TEXT = ("Exhaustive TLC model checking of the abstract lease lock (all operation sequences of any length over 3-4 "
              "instances, state taken relative to the clock) and of the implementation-shaped model of key/ttl + Lua "
              "scripts + client steps refining it, plus conformance: every TLC-reachable (state, operation) of the "
              "abstract lock replayed on the real RedisLock over miniredis, long random histories and concurrent "
              "rounds, each trace validated by TLC against RedisLock.tla; the whole range of SetExpire (to 2^32-1 seconds) "
              "through RedisLockWide.tla, the same specification in two-limb numbers, model-checked equivalent to it.")
LEVEL_NOTE = ("Trusted: TLC/SANY, the Go toolchain, miniredis (script atomicity, ttl by FastForward), the emitter's "
              "ordering. Real Redis, cluster mode, clock skew between clients and real network partitions (reply lost "
              "after the script ran) are modelled in the spec (error-with-effect) but not produced on the real code.")
TECHNIQUE = ("TLA+ spec (RedisLock / LockImpl / RedisLockWide), TLC refinement checks, TLC-generated transition-cover replay "
             "+ TLC trace validation with inferred linearisation points")
DESIGN_REF = "DESIGN.md Part B C19"


def replay(run, path):
    """A replay file names the trace module it was rejected by in its header."""
    mod = "RedisLockTrace"
    try:
        import json
        with open(path) as fh:
            hdr = json.loads(fh.readline())
        if hdr.get("e") == "header" and "RedisLockWideTrace" in hdr.get("spec", ""):
            mod = "RedisLockWideTrace"
    except Exception:  # noqa
        pass
    run.replay(FAM, mod, mod + ".cfg", path)
