"""C19 — Redis lock: one holder at a time, only the holder can release."""
import subprocess
import time

import vlib

LEVEL = "model_checking"
RULE = ("TLC explores the abstract lease lock (RedisLock.tla) over all sequences of Acquire / Release / SetExpire / "
        "clock advance (lease-1, lease, lease+1, 500 ms) / store outage and the implementation-shaped model "
        "(LockImpl.tla: key value + ttl, the two Lua scripts, the client steps of several goroutines) which must "
        "refine it; it prints one shortest operation history per distinct TRANSITION (state, operation, answer) of the "
        "abstract lock (complete transition cover in the thorough tier); each is replayed on real RedisLock instances over miniredis (FastForward clock, SetError/Close outages); "
        "seeded long random histories, rounds of simultaneous Acquire/Release from 2..8 goroutines (callStart/"
        "callEnd, TLC finds the linearisation) and rounds whose store commands are released one at a time by a seeded "
        "command-level scheduler (miniredis pre-command hook) with clock jumps and command failures in between are added; every recorded trace is validated by TLC against "
        "RedisLock.tla. distinct = distinct operation histories executed (generated histories by content; random "
        "and concurrent ones by seed and index).")

FAM = "lock"
PKG = "core/stores/redis"
DRV = ["zz_verif_lock_test.go"]


def check(run):
    thorough = run.tier == "thorough"
    run.assumptions += [
        "miniredis is a faithful Redis for GET/SET NX PX/DEL inside EVAL/EVALSHA (scripts run atomically under the "
        "store lock) and its keys expire only through FastForward (ttl <= 0 removes the key)",
        "an error answer is legal at any time (outage, breaker, dead pooled connection) and is never a grant; "
        "whether the script ran before the error is left open",
        "SetExpire is not called concurrently with Acquire on the same instance (the lease then uses either value); "
        "the store is closed/restarted only between calls",
        "obs events read the key and its ttl directly from miniredis (white-box: value == RedisLock.id); a value "
        "that is no instance's id is only compared for existence and ttl",
    ]
    # ---- design level
    run.model_check(FAM, "RedisLockMC", "RedisLockMC.cfg", workers=4,
                    note="abstract lock, 3 instances, secs 0..2, any length (state relative to the clock); "
                         "AtMostOneHolder, BeliefSound, OwnerOnlyRelease, LateReleaseHarmless, NoSteal, LeaseLength")
    run.model_check(FAM, "LockImpl", "LockImplMC.cfg", workers=4,
                    note="key/ttl + Lua scripts + client steps, 3 goroutines on 2 instances: refines RedisLock")
    bugs = [("LockImplBugDel.cfg", "release script without the id comparison"),
            ("LockImplBugNoNX.cfg", "lock script sets the key without NX")]
    if thorough:
        bugs += [("LockImplBugErr.cfg", "client treats an error reply as a grant"),
                 ("LockImplBugNoRefresh.cfg", "re-acquire by the holder answers OK without refreshing the lease")]
    for cfg, what in bugs:
        run.model_check(FAM, "LockImpl", cfg, workers=2, expect="violation",
                        note="documented counterexample: " + what)
    if thorough:
        run.model_check(FAM, "RedisLockMC", "RedisLockMC4.cfg", workers=8,
                        note="abstract lock, 4 instances, secs 0..3")
        run.model_check(FAM, "LockImpl", "LockImplMC3b.cfg", workers=8,
                        note="3 goroutines on 3 instances, refinement")
        apalache(run)
    # ---- spec -> code: one history per distinct transition (state, operation, answer) of the abstract lock
    gens = [("RedisLockGen.cfg", 3)]
    if thorough:
        gens = [("RedisLockGen2.cfg", 3), ("RedisLockGen4.cfg", 4)]
    for cfg, n in gens:
        beh = run.generate(FAM, "RedisLockMC", cfg, workers=1)
        for b in beh:
            run.distinct.add((n, str(b)))
        run.evaluations += len(beh)
        tr = run.go_driver(PKG, DRV, "TestVerifLockReplay$", inp=beh,
                           env={"VERIF_LOCK_N": n, "VERIF_LOCK_CLOSED_EVERY": 40 if not thorough else 60,
                                "VERIF_LOCK_PROBE": 1 if thorough else 0})
        run.validate(FAM, "RedisLockTrace", "RedisLockTrace.cfg", tr, label="replay-n%d" % n, heap="2g")
    # ---- code -> spec: long random histories, free-running concurrent rounds, command-level scheduler
    drivers = [("TestVerifLockRandom$", "random", None),
               ("TestVerifLockConcurrent$", "concurrent", "2,8"),
               ("TestVerifLockSched$", "sched", None)]
    if not thorough:  # one compile, one JVM start
        drivers = [("TestVerifLock(Random|Concurrent|Sched)$", "random+concurrent+sched", "4")]
    for test, label, cpu in drivers:
        tr = run.go_driver(PKG, DRV, test, cpu=cpu)
        n0 = run.traces
        run.validate(FAM, "RedisLockTrace", "RedisLockTrace.cfg", tr, label=label, heap="2g")
        run.evaluations += run.traces - n0
        for i in range(run.traces - n0):
            run.distinct.add((label, run.seed, i))


def apalache(run):
    """Bonus (thorough): Apalache proves the invariant inductive for ALL lease lengths and clock values
    (3 instances). Never part of the verdict: any trouble is only noted."""
    d = run._spec_copy(FAM)
    t = time.time()
    results = []
    try:
        for init, inv, length in (("IndInit", "IndInv", "0"), ("IndInv", "IndInv", "1"),
                                  ("IndInv", "AtMostOneHolder", "0")):
            p = subprocess.run(["timeout", "-k", "5", "180", "apalache-mc", "check", "--init=" + init, "--inv=" + inv,
                                "--next=IndNext", "--length=" + length,
                                "--out-dir=" + run.tmp("apalache"), "RedisLockInd.tla"],
                               cwd=d, stdout=subprocess.PIPE, stderr=subprocess.STDOUT, text=True, errors="replace")
            ok = p.returncode == 0 and "The outcome is: NoError" in p.stdout
            results.append("%s=>%s:%s" % (init, inv, "ok" if ok else "rc=%d" % p.returncode))
            if not ok:
                break
    except Exception as ex:  # noqa
        results.append("not run: %s" % ex)
    note = "apalache inductive check (bonus, not the verdict): " + ", ".join(results)
    run.notes.append(note)
    run.extra["apalache"] = {"result": results, "wall_s": round(time.time() - t, 1)}
    vlib.log("  APALACHE %s  %.1fs" % (", ".join(results), time.time() - t))


LEVEL_TEXT = ("Exhaustive TLC model checking of the abstract lease lock (all operation sequences of any length over 3-4 "
              "instances, state taken relative to the clock) and of the implementation-shaped model of key/ttl + Lua "
              "scripts + client steps refining it, plus conformance: every TLC-reachable (state, operation) of the "
              "abstract lock replayed on the real RedisLock over miniredis, long random histories and concurrent "
              "rounds, each trace validated by TLC against RedisLock.tla.")
LEVEL_NOTE = ("Trusted: TLC/SANY, the Go toolchain, miniredis (script atomicity, ttl by FastForward), the emitter's "
              "ordering. Real Redis, cluster mode, clock skew between clients and real network partitions (reply lost "
              "after the script ran) are modelled in the spec (error-with-effect) but not produced on the real code.")
TECHNIQUE = ("TLA+ spec (RedisLock / LockImpl), TLC refinement check, TLC-generated transition-cover replay + TLC trace "
             "validation with inferred linearisation points")
DESIGN_REF = "DESIGN.md Part B C19"


def replay(run, path):
    run.replay(FAM, "RedisLockTrace", "RedisLockTrace.cfg", path)
