"""Extension specification "stringx" (host C09, ADVISORY): core/stringx text matching -- Trie (NewTrie / WithMask /
Filter / FindKeywords), Replacer (NewReplacer / Replace) and node.find (Aho-Corasick trie with fail links).

Layer P  specs/stringx/StringxRef.tla   reference semantics as functions on sequences of runes: all occurrences,
                                        masking, keyword set, the leftmost-longest pass (operational scan AND declarative
                                        parse), Replace = two passes
         specs/stringx/Stringx.tla      the API as a state machine over immutable objects + the laws (invariants)
         specs/stringx/StringxMC.tla    finite universes: exhaustive check of the laws, generation of (object, call) pairs
Layer I  specs/stringx/StringxImpl.tla  node.add / build (fail links, breadth first, map iteration in any order) / find
                                        (per rune, per fail hop, per node of the output chain) / doReplace (sort + greedy) /
                                        Replace (2 passes), checked against the reference; five wrong variants
Trace    specs/stringx/StringxTrace.tla what the real objects answered (runes as code points)
"""
import json
import os

HOST = "C09"
WHAT = ("core/stringx text matching: node.find returns every occurrence of every keyword exactly once (Aho-Corasick trie, "
        "fail links = longest proper suffix that is a trie node, built breadth first in any map order); Trie.Filter masks "
        "exactly the runes covered by some occurrence (default '*', WithMask), reports exactly the distinct keywords that "
        "occur, found iff any, FindKeywords the same set, the empty keyword / repeated words / word order change nothing; "
        "Replacer.Replace = two passes, each rewriting the unique leftmost-longest non-overlapping parse and copying the "
        "rest (no keyword is left when replacements cannot take part in a match); objects are immutable values: every "
        "answer is a function of (object, text), also under concurrent use")
QUICK = False
FAM = "stringx"
PKG = "core/stringx"
DRV = ["zz_verif_ext_stringx_test.go", "zz_verif_ext_stringx_wb_test.go", "zz_verif_ext_stringx_nowb_test.go"]
TR = ("StringxTrace", "StringxTrace.cfg")
COV = ["-coverage", "1"]
CALLS_PER_TRACE = 48          # a rejected trace stays small enough to read


def _groups(beh):
    """TLC prints one behaviour <<constructor, call>> per distinct (object, call, text); put the calls of one
    constructor together (the object is built once and asked many times)."""
    by = {}
    order = []
    for b in beh:
        k = json.dumps(b[0], sort_keys=True)
        if k not in by:
            by[k] = (b[0], [])
            order.append(k)
        by[k][1].extend(b[1:])
    out = []
    for k in order:
        new, calls = by[k]
        calls.sort(key=lambda c: (len(c["text"]), c["text"], c["op"]))
        for i in range(0, len(calls), CALLS_PER_TRACE):
            out.append({"new": new, "calls": calls[i:i + CALLS_PER_TRACE]})
    return out


def _validate(run, tr, label):
    n0 = run.traces
    ok = run.validate(FAM, TR[0], TR[1], tr, label="ext-stringx-" + label)
    run.evaluations += run.traces - n0
    return ok


def check(run):
    only = set(x for x in os.environ.get("VERIF_EXT_STRINGX_ONLY", "").split(",") if x)   # development: parts to run

    def on(part):
        return not only or part in only

    run.assumptions += [
        "ext stringx: texts, keywords and replacements are valid UTF-8 (sequences of runes; the package converts with "
        "[]rune(text), so invalid bytes would come back as U+FFFD); WithMask(0) is not driven (0 means 'no mask given' "
        "inside the package); the mapping handed to NewReplacer is not modified afterwards (the Replacer keeps the map)",
        "ext stringx: replaceTimes = 2 is taken from replacer.go ('only try 2 times'); the order of the keyword list "
        "returned by Filter / FindKeywords and of the scopes returned by node.find is free (the package's tests use "
        "ElementsMatch), duplicates are not",
    ]
    if on("mc"):
        # ---- design level: Layer P laws over finite universes
        run.model_check(FAM, "StringxMC", "StringxMCTrie.cfg", workers=4, args=COV,
                        note="Layer P, Trie: every dictionary of <= 2 keywords of length <= 3 over 2 runes (+ the empty "
                             "keyword), masks default / a letter / foreign, every text of length <= 4: LawFilter, "
                             "LawFindKeywords, LawFind; objects never change (PImmutable, PNewLocal)")
        run.model_check(FAM, "StringxMC", "StringxMCRepl.cfg", workers=4, args=COV,
                        note="Layer P, Replacer: every mapping of <= 2 keywords of length <= 2 into 4 replacement values "
                             "(empty, a letter, two letters, foreign), every text of length <= 5: each pass rewrites a "
                             "leftmost-longest parse, that parse is unique (all subsets of the occurrences tried), length "
                             "accounting, no keyword left when the replacements are foreign and non-empty")
        run.model_check(FAM, "StringxMC", "StringxMCRepl3.cfg", workers=4,
                        note="Layer P, Replacer: keywords of length <= 3, texts <= 4, 2 replacement values; + LawFind")
        run.model_check(FAM, "StringxMC", "StringxMC2.cfg", workers=4, args=COV,
                        note="Layer P: two objects of any kind, two calls: a call changes no object, a constructor only "
                             "makes its own")
        # ---- design level: the algorithm against the reference
        run.model_check(FAM, "StringxImpl", "StringxImplMC.cfg", workers=4,
                        note="node.add/build/find + Filter/FindKeywords for every dictionary of <= 3 keywords of length "
                             "<= 3 over 2 runes, keywords added in any order, map ranges in any order, every text of "
                             "length <= 4: TrieOK FailOK QueueOK NoNilDeref FindInv FindOK ResultOK")
        run.model_check(FAM, "StringxImpl", "StringxImplRepl.cfg", workers=4, args=COV,
                        note="+ doReplace / Replace (two passes): <= 2 keywords of length <= 2, 3 replacement values, "
                             "texts <= 4: GreedyOK, ResultOK (= Layer P Replaced)")
        run.model_check(FAM, "StringxImpl", "StringxImplAll.cfg", workers=4, args=COV,
                        note="everything at once incl. the empty keyword, small universe (every action of the model is "
                             "taken)")
        for cfg, what in (("StringxImplBug_failshort.cfg", "build looks at the parent's fail node only: a fail link is not "
                                                           "the longest suffix (FailOK), find misses occurrences"),
                          ("StringxImplBug_nochain.cfg", "find does not walk the fail chain of the node it stands on: "
                                                         "keywords that are suffixes of others are missed (FindInv)"),
                          ("StringxImplBug_restart.cfg", "find restarts at the root on a mismatch: overlapping starts are "
                                                         "missed (FindInv)"),
                          ("StringxImplBug_shortest.cfg", "doReplace prefers the shortest keyword at a start (GreedyOK)"),
                          ("StringxImplBug_lifo.cfg", "build depth first: a fail link is read before it is set (QueueOK), "
                                                      "{2112, 11, 12} on 2112 then misses 12")):
            run.model_check(FAM, "StringxImpl", cfg, workers=2, expect="violation",
                            note="documented counterexample: " + what)
    if on("replay"):
        # ---- spec -> code: every (object, call, text) of the small universes, runes from a seeded table per object
        beh = []
        for cfg in ("StringxGenTrie.cfg", "StringxGenTrieMask.cfg", "StringxGenRepl.cfg", "StringxGenRepl3.cfg",
                    "StringxGenReplE.cfg"):
            beh += run.generate(FAM, "StringxMC", cfg, workers=1)
        for b in beh:
            run.distinct.add(("ext-stringx-replay", json.dumps(b, sort_keys=True)))
        groups = _groups(beh)
        tr = run.go_driver(PKG, DRV, "TestVerifExtstringxReplay$", inp=groups)
        _validate(run, tr, "replay")
    if on("examples"):
        tr = run.go_driver(PKG, DRV, "TestVerifExtstringxExamples$")
        _validate(run, tr, "examples")
    if on("random"):
        # ---- code -> spec: seeded random dictionaries sharing substrings, longer texts, all rune widths
        tr = run.go_driver(PKG, DRV, "TestVerifExtstringxRandom$")
        _validate(run, tr, "random")
    if on("conc"):
        tr = run.go_driver(PKG, DRV, "TestVerifExtstringxConcurrent$", cpu=4)
        _validate(run, tr, "concurrent")
