"""Extension resthandlers (advisory; host C04): request/response laws of the REST middlewares beyond the listed
properties -- rest/handler MaxBytesHandler / GunzipHandler / RecoverHandler, rest/internal/cors (through
WithCors / WithCorsHeaders / WithCustomCors) and the rest/httpx response helpers.  specs/resthandlers/*."""
import json
import os

HOST = "C04"
WHAT = ("REST middlewares as request/response laws on a real rest.Server: CORS (origins exact / case-insensitive / "
        "sub-domain / '*', Allow-*/Expose/Max-Age/Vary headers, credentials never with '*', every OPTIONS answered 204 "
        "before routing, not-allowed handler and custom functions), MaxBytesHandler (declared length > limit: 413 and "
        "handler not run, limit <= 0 disabled, WithMaxBytes overrides), GunzipHandler (gzip body read as plaintext, "
        "non-gzip: 400, broken stream: prefix + error), RecoverHandler (panic -> 500 unless already committed, server "
        "keeps serving), httpx Ok/WriteJson/OkJson/Error[Ctx] with SetErrorHandler[Ctx]/SetOkHandler/per-call functions "
        "(status, content type, body; first commit wins; a call uses one handler that was current during the call)")
QUICK = False
FAM = "resthandlers"
PKG = "rest"
DRV = ["zz_verif_ext_resthandlers_test.go"]
COV = ["-coverage", "1"]


def _mc(run):
    if os.environ.get("VERIF_EXT_RESTHANDLERS_SKIPMC"):
        return
    run.model_check(FAM, "RestHMC", "RestHMCbody.cfg", workers=4,
                    note="code path Recover -> MaxBytes -> Gunzip -> handler (RestHImpl) refines the law (RestH): 40 "
                         "server configurations x declared/chunked bodies at and around the limit x plain/gzip/"
                         "truncated/bad-CRC/empty bodies x Content-Encoding values x handler scripts (read, panic, "
                         "commit-then-panic); Refines + 9 named laws")
    run.model_check(FAM, "RestHMC", "RestHMCcors.cfg", workers=4,
                    note="corsRouter + cors.Middleware / NotAllowedHandler / isOriginAllowed / setHeader: 58 "
                         "configurations (WithCors / WithCustomCors with and without functions / WithCorsHeaders / none) "
                         "x methods x found / unknown path / other method x 8 origins")
    run.model_check(FAM, "RestHMC", "RestHMChttpx.cfg", workers=4,
                    note="httpx helpers: every registered error handler x ok handler (up to 2 registrations) x 61 "
                         "handler scripts (all 17 gRPC codes, per-call functions, unmarshalable values, helpers "
                         "after a commit)")
    run.model_check(FAM, "RestHMC", "RestHMCrace.cfg", workers=4, args=COV,
                    note="two exchanges in flight, registrations between the registry read and the call: a call uses "
                         "a handler that was current during it; -coverage: no dead action")
    for v, what in (("credstar", "setHeader sends Allow-Credentials with '*'"),
                    ("suffix", "isOriginAllowed compares the suffix without the dot (xa.b passes for a.b)"),
                    ("corsinside", "CORS applied per route instead of around the router (OPTIONS to an unknown path: 404)"),
                    ("mbge", "MaxBytesHandler rejects ContentLength >= n"),
                    ("gzpass", "GunzipHandler passes a non-gzip body on to the handler"),
                    ("norecover", "RecoverHandler recovers without writing a status"),
                    ("fnsalways", "doHandleError runs the per-call functions although a handler is registered"),
                    ("reread", "Error reads the registered handler again when calling it (nil call after a reset)")):
        run.model_check(FAM, "RestHMC", "RestHBug_%s.cfg" % v, workers=2, expect="violation",
                        note="wrong variant: " + what)


def _plans(beh):
    """TLC prints one (configuration, registrations, request) case per line; cases of one configuration become
    one plan = one real server."""
    by, order = {}, []
    for b in beh:
        k = json.dumps(b["cfg"], sort_keys=True)
        if k not in by:
            by[k] = {"cfg": b["cfg"], "ops": []}
            order.append(k)
        ops = by[k]["ops"]
        sets = [o for o in b["ops"] if o["op"] != "req"]
        ops.extend(sets)
        ops.extend(o for o in b["ops"] if o["op"] == "req")
        for o in sets:                       # leave the registry as a fresh server has it
            ops.append({"op": o["op"], "h": "none"})
    return [by[k] for k in order]


def _conf(run):
    beh = []
    for cfg in ("RestHGenBody.cfg", "RestHGenCors.cfg", "RestHGenHttpx.cfg"):
        beh += run.generate(FAM, "RestHMC", cfg, workers=1)
    for b in beh:
        run.distinct.add(("resthandlers", json.dumps(b, sort_keys=True)))
    run.evaluations += len(beh)
    plans = _plans(beh)
    # spec -> code and code -> spec in one compilation of package rest
    tr = run.go_driver(PKG, DRV, "TestVerifExtresthandlers(Replay|Random|Race|Direct)$", inp=plans, timeout=900)
    for src, f in sorted(_split(run, tr).items(), reverse=True):
        n0 = run.traces
        run.validate(FAM, "RestHTrace", "RestHTrace.cfg", f, label="ext-resthandlers-%s" % src)
        if src != "replay":
            run.evaluations += run.traces - n0


def _split(run, path):
    """One driver run records the replayed, the random and the racing servers; the reset event says which (src)."""
    out, cur = {}, None
    for ln in open(path):
        if not ln.strip():
            continue
        if '"e":"reset"' in ln:
            cur = json.loads(ln).get("src", "?")
        out.setdefault(cur, []).append(ln if ln.endswith("\n") else ln + "\n")
    files = {}
    for k, lines in out.items():
        p = run.tmp("ext-resthandlers-%s.ndjson" % k)
        with open(p, "w") as fh:
            fh.writelines(lines)
        files[k] = p
    return files


def check(run):
    run.assumptions += [
        "ext resthandlers: net/http (server, client, ResponseWriter: first commit wins, Content-Type sniffing when none "
        "was set) and compress/gzip are trusted; a response is observed by a real client over loopback, an exchange the "
        "server aborts is seen as a client error (st 0)",
        "ext resthandlers: the built-ins other than Recover / MaxBytes / Gunzip are switched off in the harness servers",
        "ext resthandlers: freedoms the documentation leaves open are nondeterministic in the law: chunked bodies over the "
        "limit, Content-Encoding values that only mention gzip, an empty body declared gzip, panic(http.ErrAbortHandler), "
        "a missing Origin header when the allowed list contains '*'",
    ]
    only = os.environ.get("VERIF_EXT_RESTHANDLERS_ONLY", "")
    if only in ("", "mc"):
        _mc(run)
    if only in ("", "conf"):
        _conf(run)
