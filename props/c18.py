"""C18 — authentication gates: protected handlers run only for valid credentials."""
import json

LEVEL = "exploration"
RULE = ("TLC enumerates symbolic credentials from specs/auth/GatesMC.tla: every valid JWT / signed request of the "
        "base sets, every single-field mutation of each (algorithm, secret, exp/nbf/iat class, transport/structure "
        "shape incl. bit-flipped / truncated / swapped parts, claim set incl. every class of private claim names "
        "relative to the registered ones: ordinary, case variants, affixed, odd, header vocabulary; fingerprint, RSA key "
        "the secret is encrypted to, secret attributes, timestamp class, method, path, query, body, body length "
        "announced or not (chunked), signature form, and each component of the signed tuple), two-field mutations and algorithm x key x shape / time-class products in the thorough tier, "
        "every request x response payload length in {0,1,15,16,17,4096} for the encryption round trip, "
        "consistently signed requests whose timestamp lies s*m*2^k + j*(tolerance-120) seconds from the server clock for "
        "every k in 0..63, both signs, j in -1..1 and m in {1,3} (thorough {0,1,3,5}) -- the integer line at every binary "
        "order of magnitude, incl. values that do not fit 64 bits --, every response write program of the protected "
        "handler over a buffer it reuses (fill / write / scribble / private write / empty write / flush) up to 3 "
        "(thorough 4) steps, generated from the writer machine of Gates.tla Part 3b, for plain and encrypted requests, "
        "every server wiring of Gates.tla Part 4 (native chain with all / some / no middlewares, user supplied chain "
        "via WithChain, empty user chain; 0..2 Use middlewares; with and without route options) x gate declaration "
        "(jwt, signature, both on one route) x a core set of valid and invalid credentials (token x signed request "
        "for routes behind both gates), and every "
        "request sequence of the parser machine (tokens under 4 secrets, expired, tampered, clock steps across the "
        "history reset) up to the tier's length. At engine level every case set is driven under each of the 30 wirings "
        "in turn (one wiring per trace). Each case is concretised with real crypto (seeded secrets, run-time "
        "RSA/ECDSA keys, random binary payloads), sent through the real middleware under both configurations "
        "(previous secret configured or not), and the recorded outcome is validated by TLC against Gates.tla. "
        "evaluations = requests executed; distinct_nontrivial = distinct (configuration, symbolic case) pairs and "
        "distinct sequences and wiring cases, counted from the generated inputs; all are non-trivial in that each differs from every "
        "other in at least one symbolic field.")

import os

import vlib

FAM = "auth"
PKG = "rest/handler"
DRV = ["zz_verif_gates_test.go", "zz_verif_gates_bind_test.go"]
EPKG = "rest"                  # the same driver compiled into package rest: gates as wired by rest/engine.go
TRACE = ("GatesTrace", "GatesTrace.cfg")


def _engine_files(run):
    """The shared driver file with its package clause rewritten for package rest."""
    src = os.path.join(vlib.OVERLAY, PKG, DRV[0])
    dst = os.path.join(run.scratch, "zz_verif_gates_test.go")
    if not os.path.exists(dst):
        txt = open(src).read()
        if "\npackage handler\n" not in txt:
            raise vlib.Infra("cannot rewrite the package clause of " + src)
        with open(dst, "w") as fh:
            fh.write(txt.replace("\npackage handler\n", "\npackage rest\n", 1))
    return [dst, "zz_verif_gates_bind_test.go", "zz_verif_c18_wire_test.go"]


def _key(obj):
    return json.dumps(obj, sort_keys=True)


def _wire_cases(run):
    """Every server wiring (Gates.tla Part 4) x gate declaration x core credentials, enumerated by TLC; the same
    run checks that the chain model of bindRoute contains every declared gate under every wiring."""
    if not hasattr(run, "_c18_wire_cases"):
        run._c18_wire_cases = _gen(run, "GatesGenWire.cfg")
    return run._c18_wire_cases


def _wirings(run):
    """The wirings of that enumeration: every engine-level drive builds its gates under each of them in turn."""
    seen = {}
    for c in _wire_cases(run):
        w = {k: v for k, v in c["wire"].items() if k != "decl"}
        seen.setdefault(_key(w), w)
    return json.dumps([seen[k] for k in sorted(seen)], separators=(",", ":"))


def _drive(run, level, test, inp, env=None):
    if level == "engine":
        env = dict(env or {})
        env["VERIF_C18_WIRES"] = _wirings(run)
        return run.go_driver(EPKG, _engine_files(run), test, inp=inp, env=env)
    return run.go_driver(PKG, DRV, test, inp=inp, env=env)


def _cat(run, files, name):
    out = run.tmp(name)
    with open(out, "w") as fh:
        for f in files:
            fh.write(open(f).read())
    return out


VERIFIED_METHODS = ("GET", "POST", "PUT", "DELETE")


def _gen(run, cfg):
    return run.generate(FAM, "GatesMC", cfg, workers=2)


def _jwt_batch(run, cases, seqs, levels, label):
    files = []
    for c in cases:
        run.distinct.add(("jwt", False, _key(c)))
        run.distinct.add(("jwt", True, _key(c)))
    for s in seqs:
        run.distinct.add(("seq", _key(s)))
    for lv in levels:
        if cases:
            files.append(_drive(run, lv, "TestVerifGatesJwtCases$", cases))
            run.evaluations += 2 * len(cases)
        if seqs:
            files.append(_drive(run, lv, "TestVerifGatesJwtSeq$", seqs))
            run.evaluations += sum(1 for s in seqs for op in s["ops"] if op["op"] == "jwt")
    run.validate(FAM, TRACE[0], TRACE[1], _cat(run, files, "jwt.ndjson"), label=label, split=4000)


def _cs_batch(run, cases, levels, label, unverified_levels=("handler",), more=()):
    for c in cases:
        run.distinct.add(("cs", _key(c)))
    # Requests on methods the handler does not verify at all are an input class of their own (open known
    # finding KF_CsUnverifiedMethod): they are recorded as one trace so that the runner's per-trace
    # known-finding classification costs a constant number of TLC runs.
    main = [c for c in cases if c["method"] in VERIFIED_METHODS]
    rest = [c for c in cases if c["method"] not in VERIFIED_METHODS]
    files = list(more)          # further traces of the same specification, validated in the same TLC runs
    for lv in levels:
        files.append(_drive(run, lv, "TestVerifGatesCs$", main, env={"VERIF_C18_CHUNK": 1}))
        run.evaluations += len(main)
    run.validate(FAM, TRACE[0], TRACE[1], _cat(run, files, "cs.ndjson"), label=label, split=6000)
    for lv in unverified_levels if rest else ():
        tr = _drive(run, lv, "TestVerifGatesCs$", rest, env={"VERIF_C18_CHUNK": 1 << 30})
        run.evaluations += len(rest)
        run.validate(FAM, TRACE[0], TRACE[1], tr, label=label + "-unverified-methods-" + lv)


def _wire_batch(run, validate=True):
    """Every wiring x gate declaration x core credentials (for routes behind both gates: token x signed request),
    through servers built by the real AddRoutes / bindRoutes."""
    cases = _wire_cases(run)
    for c in cases:
        run.distinct.add(("wire", _key(c)))
    tr = _drive(run, "engine", "TestVerifGatesWire$", cases)
    run.evaluations += len(cases)
    if validate:
        run.validate(FAM, TRACE[0], TRACE[1], tr, label="wire", split=4000)
    return tr


KF_CC = "KF_CsChunkedCipher"


def _cc_batch(run, cfg, levels):
    """The requests finding KF_CsChunkedCipher is about (properly signed encrypted body sent without an
    announced length: Gates!ChunkedCipher; GatesMC leaves them out of every other case set).
    status open  -> driven as one trace per level, so that the runner's known-finding classification
                    costs a constant number of TLC runs (the trace is accepted only through the deviation
                    action, which admits exactly the described behaviour for exactly these requests);
    status fixed -> ordinary cases: RoundTrip is demanded of them like of any other request;
    not listed   -> not driven (the finding is reported in the evidence notes as proposed)."""
    status = None
    for f in run.findings:      # an open entry names the deviation; a fixed entry mentions it in its text
        if f.get("deviation") == KF_CC or KF_CC in f.get("what", ""):
            status = f.get("status")
    if status not in ("open", "fixed"):
        run.extra.setdefault("not_driven", []).append(
            "requests of the proposed finding %s (properly signed encrypted body of unannounced length reaches the "
            "handler undecrypted) are enumerated by %s but not driven: the finding is not listed in "
            "known_findings.json" % (KF_CC, cfg))
        return
    cases = _gen(run, cfg)
    if status == "fixed":
        _cs_batch(run, cases, levels, "cs-chunked-cipher")
        return
    for c in cases:
        run.distinct.add(("cs", _key(c)))
    for lv in levels:
        tr = _drive(run, lv, "TestVerifGatesCs$", cases, env={"VERIF_C18_CHUNK": 1 << 30})
        run.evaluations += len(cases)
        run.validate(FAM, TRACE[0], TRACE[1], tr, label="cs-chunked-cipher-" + lv)


def check(run):
    thorough = run.tier == "thorough"
    run.assumptions += [
        "cryptographic strength of HMAC-SHA2, RSA PKCS#1 v1.5, AES is assumed (symbolic model), not checked",
        "the Go standard crypto and golang-jwt signing methods used by the driver to construct credentials are trusted",
        "time classes are concretised away from boundaries by >= 120 s (content security, wall clock) or exactly "
        "(JWT, jwt.TimeFunc frozen at the start of the run); the parser's history reset uses the virtual relative clock",
        "X-Request-Uri override (signature covers the header's URI) is outside the single-field-mutation quantifier",
        "timestamps closer than 120 s to either edge of the tolerance window are classified 'either' by the spec "
        "(OffClass 'edge'): the clock skew between signing and verifying decides",
        "user middlewares of the wirings (WithChain, Use) let every request through; the status line of a response the "
        "handler flushed is not constrained (rest's TimeoutHandler lets it leave with 200)",
    ]
    w = 8 if thorough else 4
    # design level: the parser machine never lets its history decide
    run.model_check(FAM, "GatesMC", "GatesMCSeq.cfg", workers=w,
                    note="parser history machine, sequences <= 4: Refines, HistoryIrrelevant")
    run.model_check(FAM, "GatesMC", "GatesBug.cfg", workers=w, expect="violation",
                    note="documented counterexample: trying only the more successful secret rejects a valid token")
    both = ("handler", "engine")
    if not thorough:
        _jwt_batch(run, _gen(run, "GatesGenJwtMutQ.cfg"), _gen(run, "GatesGenSeq3.cfg"), both, "jwt")
        _cs_batch(run, _gen(run, "GatesGenCsMutQ.cfg") + _gen(run, "GatesGenCsRtOffQ.cfg") + _gen(run, "GatesGenCsWpQ.cfg"),
                  both, "cs", more=[_wire_batch(run, validate=False)])
        _cc_batch(run, "GatesGenCsCcQ.cfg", ("handler",))
        return
    run.model_check(FAM, "GatesMC", "GatesBugWp.cfg", workers=2, expect="violation",
                    note="documented counterexample: a response writer that adopts the caller's first slice does not "
                         "hold what was written once the handler reuses its buffer")
    run.model_check(FAM, "GatesMC", "GatesBugWire.cfg", workers=2, expect="violation",
                    note="documented counterexample: gates appended to the native chain only leave a route of a "
                         "server with a user supplied chain unprotected")
    run.model_check(FAM, "GatesMC", "GatesMCWp.cfg", workers=w,
                    note="response writer machine, programs <= 6 steps: WriterContract")
    run.model_check(FAM, "GatesMC", "GatesMCSeq5.cfg", workers=w,
                    note="parser history machine, sequences <= 5, all single-field mutations as tokens")
    _jwt_batch(run, _gen(run, "GatesGenJwtMutT.cfg"), _gen(run, "GatesGenSeq4.cfg"), both, "jwt-mut1-seq4")
    _jwt_batch(run, _gen(run, "GatesGenJwtMut2.cfg") + _gen(run, "GatesGenJwtProd.cfg"), [], both, "jwt-mut2-prod")
    _cs_batch(run, _gen(run, "GatesGenCsMutT.cfg"), both, "cs-mut1", unverified_levels=both)
    _cs_batch(run, _gen(run, "GatesGenCsRtT.cfg"), both, "cs-roundtrip")
    _cs_batch(run, _gen(run, "GatesGenCsMut2.cfg"), both, "cs-mut2")
    _cs_batch(run, _gen(run, "GatesGenCsOffT.cfg"), both, "cs-timestamp-line")
    _cs_batch(run, _gen(run, "GatesGenCsWpT.cfg"), both, "cs-write-programs")
    _wire_batch(run)
    _cc_batch(run, "GatesGenCsCcT.cfg", both)


LEVEL_TEXT = ("Systematic exploration driven by a TLA+ specification: TLC enumerates symbolic (Dolev-Yao style) JWTs and "
              "signed requests — all valid ones of the base sets, all single-field mutations (two-field and product sets "
              "in the thorough tier), all payload-length pairs, timestamps at every binary order of magnitude from the clock, "
              "all response write programs up to 3/4 steps, all server wirings x gate declarations x core credentials, "
              "all parser request sequences up to length 3/4 — the Go "
              "driver concretises each with real cryptography against the real middleware, and TLC validates every "
              "recorded outcome against Gates.tla. The parser's history machine, the buffering response writer machine "
              "and the chain model of bindRoute are model-checked exhaustively (each with a documented counterexample "
              "variant).")
LEVEL_NOTE = ("Exploration, not proof: the symbolic classes are exhaustively enumerated but each class is represented by "
              "one (seeded random) concrete credential; cryptographic strength is assumed. Chunked (unknown-length) "
              "bodies are built in process (ContentLength -1, TransferEncoding chunked), not sent over a socket. "
              "Not covered: the non-strict mode and custom callbacks of the content-security "
              "handler, X-Request-Uri, concurrency inside TokenParser, user middlewares that answer themselves, "
              "tolerances other than one hour.")
TECHNIQUE = "TLA+ spec (Gates/GatesMC), TLC case and sequence generation, real-crypto replay, TLC trace validation"
DESIGN_REF = "DESIGN.md Part B C18"


def replay(run, path):
    run.replay(FAM, TRACE[0], TRACE[1], path)
