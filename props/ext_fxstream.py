"""Extension fxstream (advisory; host C05): the operators of core/fx.Stream and their workers -- behaviour of
the subsystem beyond the listed properties.

Layer P  specs/fxstream/FxOps.tla + FxStream.tla   every operator as a prefix transducer / bag relation
                                                   (Possible, CanClose, Maximal) and once more as a relation on
                                                   complete sequences (FullRel); a pipeline as a state machine over
                                                   what passes the taps between its stages, incl. laziness (PQuiet)
                                                   and termination without leaked goroutines (PEnd)
         specs/fxstream/FxWalk.tla                 the workers of Walk/Map/Filter/Parallel: cap, work conservation
Layer I  specs/fxstream/FxHeadImpl.tla             Head's close-early-then-drain protocol on unbuffered channels
         specs/fxstream/FxWalkImpl.tla             walkLimited/walkUnlimited: pool semaphore, WaitGroup, close
Binding  FxTrace / FxWalkTrace                     TLC-generated pipelines and schedules replayed on the real
                                                   Stream + seeded random ones, recorded and validated by TLC."""
import json
import os
import random

HOST = "C05"
WHAT = ("fx.Stream operators (Buffer Concat Count Distinct Filter First Last ForAll ForEach Group Head Tail Skip Map "
        "Merge Reverse Sort Split Walk AllMatch AnyMatch NoneMatch Max Min Reduce Done Parallel) as functions / "
        "relations on sequences and bags, item by item through taps between the stages of arbitrary pipelines: "
        "order where promised, causality, early close of Head, laziness of First/AnyMatch/.../Head at a gated source, "
        "constructor panics, no goroutine left at the end; workers of Walk/Map/Filter/Parallel and fx.Parallel: never "
        "more than the cap in flight, exactly min(cap, remaining) in flight at rest, close/return only after all")
QUICK = False
FAM = "fxstream"
PKG = "core/fx"
DRV = ["zz_verif_ext_fxstream_test.go"]
COV = ["-coverage", "1"]


def _env(name, default):
    return int(os.environ.get(name, default))


def _genv(extra=None):
    """environment of a driver run (GOMAXPROCS can be pinned for experiments: the verdict may not depend on it)"""
    e = dict(extra or {})
    if os.environ.get("VERIF_EXTFX_GOMAXPROCS"):
        e["GOMAXPROCS"] = os.environ["VERIF_EXTFX_GOMAXPROCS"]
    return e


def _design(run):
    # Layer P alone: the two formulations of every operator agree, results are stable, the law never gets stuck
    run.model_check(FAM, "FxStreamMC", "FxStreamMCa.cfg", workers=4, args=COV,
                    note="pairs of operators (early close of Head against everything that waits for the end of its "
                         "input), 12 ops x 12 ops x 5 terminals x gate: Agree ResStable HeadBound Causal CloseOrder NoStuck")
    run.model_check(FAM, "FxStreamMC", "FxStreamMCb.cfg", workers=4, args=COV,
                    note="every operator and every terminal operator once, 3-item gated source")
    run.model_check(FAM, "FxStreamMC", "FxStreamMCc.cfg", workers=4, args=COV,
                    note="the operators that multiply items (Concat, Walk writing 2 items): every order of the bag")
    run.model_check(FAM, "FxWalk", "FxWalkMC.cfg", workers=4, args=COV,
                    note="worker law alone: up to 4 items x caps {unlimited,1,2,3,16} x 5 kinds; Progress, RestWaitsForHarness")
    # Layer I against Layer P (refinement as an action property + the at-rest demands in quiescent states)
    run.model_check(FAM, "FxHeadImpl", "FxHeadImplMC.cfg", workers=4, args=COV,
                    note="gated source -> Head(n) -> Count/First on rendezvous channels: Refines FxStream, AtRestIsQuiet, NoLeak")
    run.model_check(FAM, "FxHeadImpl", "FxHeadImplBugBreak.cfg", workers=2, expect="violation",
                    note="Head breaks out of its loop instead of draining: the source goroutine blocks for ever")
    run.model_check(FAM, "FxHeadImpl", "FxHeadImplBugLateClose.cfg", workers=2, expect="violation",
                    note="Head closes its output only at the end of its input: successor not let go ASAP")
    run.model_check(FAM, "FxWalkImpl", "FxWalkImplMC.cfg", workers=4, args=COV,
                    note="walkLimited/walkUnlimited (pool, WaitGroup, GoSafe goroutines, buffered pipe): Refines FxWalk, "
                         "NoCrash, AtRestIsQuiet; 3 items x workers {unlimited,1,2} x {walk,filter,parallel}")
    run.model_check(FAM, "FxWalkImpl", "FxWalkImplBugAddInWorker.cfg", workers=2, expect="violation",
                    note="wg.Add moved into the goroutine: pipe closed before a worker wrote")
    run.model_check(FAM, "FxWalkImpl", "FxWalkImplBugPoolOff.cfg", workers=2, expect="violation",
                    note="pool of workers-1 slots: fewer invocations in flight at rest than the cap")
    if os.environ.get("VERIF_EXT_FXSTREAM_ALLBUGS"):
        for cfg in ("FxHeadImplBugNoDrain.cfg",):
            run.model_check(FAM, "FxHeadImpl", cfg, workers=2, expect="violation", note="First without go drain")
        for cfg in ("FxWalkImplBugUnpoolEarly.cfg", "FxWalkImplBugNoWait.cfg"):
            run.model_check(FAM, "FxWalkImpl", cfg, workers=2, expect="violation", note="documented variant")


def _pipelines(run):
    rnd = random.Random(run.seed * 7919 + 5)
    # spec -> code: every pipeline of one operator (all operators x all terminals x boundary sources/gates) and a
    # seeded sample of the pipelines of two operators
    beh = run.generate(FAM, "FxStreamMC", "FxStreamGen1.cfg", workers=1)
    beh2 = run.generate(FAM, "FxStreamMC", "FxStreamGen2.cfg", workers=1)
    k1 = _env("VERIF_EXTFX_GEN1", 4000)
    k2 = _env("VERIF_EXTFX_GEN2", 2000)
    beh = sorted(beh, key=lambda b: json.dumps(b, sort_keys=True))
    beh2 = sorted(beh2, key=lambda b: json.dumps(b, sort_keys=True))
    cases = rnd.sample(beh, min(k1, len(beh))) + rnd.sample(beh2, min(k2, len(beh2)))
    for b in cases:
        run.distinct.add(("fxstream-case", json.dumps(b, sort_keys=True)))
    run.evaluations += len(cases)
    tr = run.go_driver(PKG, DRV, "TestVerifExtfxstreamReplay$", inp=cases, env=_genv())
    run.validate(FAM, "FxTrace", "FxTrace.cfg", tr, label="ext-fxstream-replay")
    # code -> spec: seeded random pipelines (up to 4 operators, sources up to 20 items, worker options)
    tr = run.go_driver(PKG, DRV, "TestVerifExtfxstreamRandom$", env=_genv({"VERIF_EXTFX_CASES": _env("VERIF_EXTFX_CASES", 1500)}))
    n0 = run.traces
    run.validate(FAM, "FxTrace", "FxTrace.cfg", tr, label="ext-fxstream-random")
    run.evaluations += run.traces - n0


def _workers(run):
    beh = run.generate(FAM, "FxWalkGen", "FxWalkGen.cfg", workers=1)
    seen, cases = set(), []
    for b in beh:
        k = json.dumps(b, sort_keys=True)
        if k not in seen:
            seen.add(k)
            cases.append(b)
            run.distinct.add(("fxwalk-case", k))
    run.evaluations += len(cases)
    tr = run.go_driver(PKG, DRV, "TestVerifExtfxstreamWorkersReplay$", inp=cases, env=_genv())
    run.validate(FAM, "FxWalkTrace", "FxWalkTrace.cfg", tr, label="ext-fxstream-workers-replay")
    tr = run.go_driver(PKG, DRV, "TestVerifExtfxstreamWorkersRandom$",
                       env=_genv({"VERIF_EXTFX_WCASES": _env("VERIF_EXTFX_WCASES", 300)}))
    n0 = run.traces
    run.validate(FAM, "FxWalkTrace", "FxWalkTrace.cfg", tr, label="ext-fxstream-workers-random")
    run.evaluations += run.traces - n0


def check(run):
    only = os.environ.get("VERIF_EXT_FXSTREAM_ONLY", "")
    run.assumptions += [
        "[ext fxstream] 'at rest' is observed from one stop-the-world goroutine snapshot (runtime.Stack(all)): every "
        "goroutine with a frame of core/fx or core/threading is blocked in a channel operation or WaitGroup.Wait; "
        "no sleeps or time limits decide anything (a pipeline that never comes to rest is an infrastructure failure)",
        "[ext fxstream] the taps between the stages are unbuffered forwarders (what Buffer(0) is); user functions are "
        "the fixed tables of FxOps.tla",
    ]
    if only in ("", "design"):
        _design(run)
    if only in ("", "pipelines", "binding"):
        _pipelines(run)
    if only in ("", "workers", "binding"):
        _workers(run)
