"""C04 — timeout wrappers: deadlines only shrink, outcomes are all-or-nothing."""
import os

LEVEL = "model_checking"
RULE = ("TLC enumerates every worker script of TimeoutGen (SetHeader/WriteHeader/Write chunk/Cancel/AwaitCtx, then "
        "Return|Panic|Ignore; <=3 operations quick, <=4 thorough; (resp,err)/panic/ignore scripts for rpc and fx). Each "
        "script is run as the wrapped work of the real TimeoutHandler, of rest.Server routes bound by the engine (global "
        "vs per-route vs SSE), of the zRPC server/client interceptors and of fx.DoWithTimeout, under own-timeout / "
        "caller-deadline / cancellation / already-expired / exempt configurations and three steering modes; every call is "
        "one trace validated by TLC against the Layer-P monitor Timeout.tla. distinct = distinct (driver, script) pairs.")

FAM = "timeout"
DRV = ["zz_verif_c04_timeout_test.go"]
TRACE = ("TimeoutTrace", "TimeoutTrace.cfg")


def _merge(run, files, name):
    out = run.tmp(name)
    with open(out, "w") as fh:
        for f in files:
            fh.write(open(f).read())
    return out


def check(run):
    thorough = run.tier == "thorough"
    only = os.environ.get("VERIF_C04_ONLY")   # debugging aid: "rest", "engine", "small" (skips the rest and the MC)
    if only:
        return _drivers(run, thorough, only)
    _design(run, thorough)
    _drivers(run, thorough, None)


def _design(run, thorough):
    run.assumptions += [
        "real timers (context.WithTimeout) are used, but no recorded fact depends on speed: expiry is read from ctx.Err() "
        "and from monotonic clock readings compared with <= / >= in the direction that load can only make safer",
        "a wrapper that has not returned 30 s after its deadline while only a context-ignoring worker is in its way is "
        "recorded as 'stuck' (ReturnsWithoutWorker); the driver releases such a worker only after the wrapper returned",
        "handlers that call Flush (streaming) are outside the quantifier; custom httpx error handlers are not installed",
        "the client side is a harness ResponseWriter that freezes headers at the first WriteHeader/Write like net/http",
    ]
    # ---- design level: timeoutWriter protocol + select (Layer I) satisfies the monitor (Layer P)
    run.model_check(FAM, "TimeoutHTTPImpl", "TimeoutHTTPImplMC.cfg" if thorough else "TimeoutHTTPImplMCq.cfg", workers=4,
                    note="Layer I (timeouthandler.go) |= Layer P, scripts <= 3 ops, all interleavings + liveness"
                         + ("" if thorough else " (1 chunk, 1 code, 1 header value)"))
    run.model_check(FAM, "TimeoutHTTPImpl", "TimeoutHTTPImplBugHdr.cfg", workers=2, expect="violation",
                    note="documented counterexample: handler headers copied on the timeout path (AllOrNothing)")
    if thorough:
        run.model_check(FAM, "TimeoutHTTPImpl", "TimeoutHTTPImplBugWait.cfg", workers=2, expect="violation",
                        note="documented counterexample: wrapper joins the handler after a timeout (ReturnsWithoutWorker)")
        run.model_check(FAM, "TimeoutHTTPImpl", "TimeoutHTTPImplBugPanic.cfg", workers=2, expect="violation",
                        note="documented counterexample: buffer flushed before re-panicking (AllOrNothing)")
        run.model_check(FAM, "TimeoutHTTPImpl", "TimeoutHTTPImplNoLock.cfg", workers=8,
                        note="timeout branch without tw.mu still satisfies Layer P (lock is not what protects the client)")
        run.model_check(FAM, "TimeoutHTTPImpl", "TimeoutHTTPImplMC4.cfg", workers=8, timeout=1500,
                        note="Layer I |= Layer P, scripts <= 4 ops")
        run.model_check(FAM, "TimeoutHTTPImpl", "TimeoutHTTPImplMC5.cfg", workers=8, timeout=2400,
                        note="Layer I |= Layer P, scripts <= 5 ops (2 chunks, 1 code, 1 header value)")


def _drivers(run, thorough, only):
    # ---- spec -> code: worker scripts
    http = run.generate(FAM, "TimeoutGen", "TimeoutGenHttp4.cfg" if thorough else "TimeoutGenHttp3.cfg")
    val = run.generate(FAM, "TimeoutGen", "TimeoutGenVal.cfg")
    env = {"VERIF_C04_CFGS": 3 if thorough else 2, "VERIF_C04_REPS": 8 if thorough else 2,
           "VERIF_C04_PAR": 32 if thorough else 24}
    tmo = 2400 if thorough else 600

    def note(label, beh):
        for b in beh:
            run.distinct.add((label, str(b)))

    if only in (None, "rest"):
        tr = run.go_driver("rest/handler", DRV, "TestVerifC04Rest$", inp=http, env=env, timeout=tmo)
        run.validate(FAM, *TRACE, tr, label="rest-handler", timeout=1800)
        note("rest", http)
    if only in (None, "engine"):
        eng = http if not thorough else http[run.seed % 3::3]
        tr = run.go_driver("rest", ["zz_verif_c04_engine_test.go"], "TestVerifC04Engine$", inp=eng, env=env, timeout=tmo)
        run.validate(FAM, *TRACE, tr, label="rest-engine", timeout=1800)
        note("engine", eng)
    if only not in (None, "small"):
        run.evaluations = run.traces
        return
    small = []
    for pkg, fn, label in [("zrpc/internal/serverinterceptors", "TestVerifC04RpcServer$", "rpcs"),
                           ("zrpc/internal/clientinterceptors", "TestVerifC04RpcClient$", "rpcc"),
                           ("core/fx", "TestVerifC04Fx$", "fx")]:
        small.append(run.go_driver(pkg, DRV, fn, inp=val, env=env, timeout=tmo))
        note(label, val)
    run.validate(FAM, *TRACE, _merge(run, small, "rpc-fx.ndjson"), label="rpc-server+client+fx")
    if thorough and not only:
        # other schedulers: one P (handler and wrapper never run simultaneously) and two
        tr1 = run.go_driver("rest/handler", DRV, "TestVerifC04Rest$", inp=http[(run.seed + 1) % 5::5], env=env, cpu=1, timeout=tmo)
        tr2 = run.go_driver("rest/handler", DRV, "TestVerifC04Rest$", inp=http[(run.seed + 2) % 5::5], env=env, cpu=2, timeout=tmo)
        tr3 = run.go_driver("zrpc/internal/serverinterceptors", DRV, "TestVerifC04RpcServer$", inp=val, env=env, cpu=1, timeout=tmo)
        tr4 = run.go_driver("core/fx", DRV, "TestVerifC04Fx$", inp=val, env=env, cpu=1, timeout=tmo)
        run.validate(FAM, *TRACE, _merge(run, [tr1, tr2, tr3, tr4], "cpu.ndjson"), label="GOMAXPROCS-1-2", timeout=1800)
    run.evaluations = run.traces


LEVEL_TEXT = ("Exhaustive TLC model checking that the timeoutWriter mutex/flag/buffer protocol and the select of "
              "timeouthandler.go (PlusCal, all interleavings with expiry, incl. liveness of returning) satisfy the Layer-P "
              "monitor, plus conformance: every TLC-enumerated worker script is executed against the five real wrappers "
              "(handler, engine routes, rpc server, rpc client, fx) and every call is validated by TLC.")
LEVEL_NOTE = ("Trusted: TLC/SANY/PlusCal translator, Go toolchain, the harness ResponseWriter and event ordering (A.5). Real "
              "code is sampled: the both-ready select race is rare without a hook and is covered exhaustively only at "
              "design level; Flush/Hijack/Push and streaming gRPC are not covered; 'stuck' relies on a 30 s watchdog.")
TECHNIQUE = "TLA+ monitor spec (Timeout) + PlusCal implementation model, TLC-generated scripts replayed, TLC trace validation"
DESIGN_REF = "DESIGN.md Part B C04"


def replay(run, path):
    run.replay(FAM, *TRACE, path)
