"""C04 — timeout wrappers: deadlines only shrink, outcomes are all-or-nothing."""
import os
import threading

LEVEL = "model_checking"
RULE = ("TLC enumerates every worker script of TimeoutGen (SetHeader/WriteHeader/Write chunk/Cancel/AwaitCtx, then "
        "Return|Panic|Ignore; <=3 operations quick, <=4 thorough; (resp,err)/panic/ignore scripts for rpc and fx). Each "
        "script is run as the wrapped work of the real TimeoutHandler, of rest.Server routes bound by the engine (global "
        "vs per-route vs SSE), of the zRPC server/client interceptors and of fx.DoWithTimeout, under own-timeout / "
        "caller-deadline (none / earlier / equal / later / far later than now+timeout, standard and user-defined context "
        "types) / cancellation / already-expired / exempt configurations and three steering modes; every call is one trace "
        "validated by TLC against the Layer-P monitor Timeout.tla. Sessions: TLC enumerates every schedule of TimeoutSessGen "
        "(2 calls quick, 2-3 thorough, through ONE TimeoutHandler value: start / operation before or after the call's "
        "return / end by cancel or expiry / finish by return or panic, in every order); quick: all schedules in which work "
        "acts after its call returned plus a seeded sample of the others (1600), thorough: a seeded sample of 22000 (4/5 "
        "with such stale work), executed step by step and validated against one monitor per call + Isolation "
        "(TimeoutSess.tla). Wiring: TLC enumerates every (settings, request) case of TimeoutWireImpl (engine / client / "
        "server-wide timeout x per-route / per-call / per-method value x middleware switch x caller deadline; requests "
        "offering <=2 (thorough <=3) Upgrade / Accept elements out of websocket, WebSocket, h2c, TLS/1.0, text/event-stream, "
        "Text/Event-Stream, application/json, */* as one value, a list or two header lines, with or without Connection: "
        "Upgrade); each case is run with 1-6 scripts (thorough 3-25) through rest.Server, TimeoutHandler, zrpc.NewClient + "
        "WithCallTimeout and the interceptor chain zrpc.NewServer builds; the reset event carries the settings and the "
        "request as they are, Layer P (TmoChoices / ExemptChoices) decides which timeout is owed and whether the request "
        "is exempt. distinct = distinct (driver, script or schedule or case) pairs.")

FAM = "timeout"
DRV = ["zz_verif_c04_timeout_test.go"]
SDRV = ["zz_verif_c04_timeout_test.go", "zz_verif_c04_sess_test.go"]
ZDRV = ["zz_verif_c04_wire_test.go", "zz_verif_c04_wire_wb_test.go", "zz_verif_c04_wire_nowb_test.go"]
TRACE = ("TimeoutTrace", "TimeoutTrace.cfg")
STRACE = ("TimeoutSessTrace", "TimeoutSessTrace.cfg")


def _merge(run, files, name):
    out = run.tmp(name)
    with open(out, "w") as fh:
        for f in files:
            fh.write(open(f).read())
    return out


def check(run):
    thorough = run.tier == "thorough"
    only = os.environ.get("VERIF_C04_ONLY")   # debugging aid: "rest", "engine", "sess", "small" (skips the rest and the MC)
    # the design-level model checking and the conformance drivers are independent: run them side by side
    # (scratch names are handed out under a lock; the spec copy is made before a second thread starts)
    lock, orig_tmp = threading.Lock(), run.tmp

    def tmp(name):
        with lock:
            return orig_tmp(name)
    run.tmp = tmp
    run._spec_copy(FAM)
    if only:
        return _drivers(run, thorough, only)
    err = []

    def design():
        try:
            if thorough:    # the long configurations of the model families side by side
                _par(lambda: _design(run, thorough), lambda: _design2(run, thorough), lambda: _design3(run, thorough))
            else:
                _par(lambda: (_design(run, thorough), _design2(run, thorough)), lambda: _design3(run, thorough))
        except BaseException as ex:  # noqa: re-raised in the main thread
            err.append(ex)
    th = threading.Thread(target=design)
    th.start()
    try:
        _drivers(run, thorough, None)
    finally:
        th.join()
    if err:
        raise err[0]


def _par(*fns):
    """run independent TLC jobs side by side; the first exception is re-raised"""
    out, err = [None] * len(fns), []

    def job(i, fn):
        try:
            out[i] = fn()
        except BaseException as ex:  # noqa: re-raised by the caller
            err.append(ex)
    ths = [threading.Thread(target=job, args=(i, fn)) for i, fn in enumerate(fns)]
    for th in ths:
        th.start()
    for th in ths:
        th.join()
    if err:
        raise err[0]
    return out


def _design(run, thorough):
    run.assumptions += [
        "wiring cases: websocket-upgrade / event-stream requests in their canonical form (Upgrade: websocket with "
        "Connection: Upgrade; Accept: text/event-stream) must be exempt, requests that carry websocket / event-stream "
        "spelled or combined otherwise may be, every other request (h2c or TLS upgrade offers, other media types) must "
        "not be; the most specific timeout setting given for a call is the one it is owed",
        "real timers (context.WithTimeout) are used, but no recorded fact depends on speed: expiry is read from ctx.Err() "
        "and from monotonic clock readings compared with <= / >= in the direction that load can only make safer",
        "a wrapper that has not returned 30 s after its deadline while only a context-ignoring worker is in its way is "
        "recorded as 'stuck' (ReturnsWithoutWorker); the driver releases such a worker only after the wrapper returned",
        "handlers that call Flush (streaming) are outside the quantifier; custom httpx error handlers are not installed",
        "the client side is a harness ResponseWriter that freezes headers at the first WriteHeader/Write like net/http",
        "sessions: the steps of a schedule are executed one at a time (each acknowledged before the next); the wrapper's "
        "own branch runs between the step that ends a call and the driver's observation of its return",
    ]
    # ---- design level: timeoutWriter protocol + select (Layer I) satisfies the monitor (Layer P)
    run.model_check(FAM, "TimeoutHTTPImpl", "TimeoutHTTPImplMC.cfg" if thorough else "TimeoutHTTPImplMCq.cfg", workers=4,
                    note="Layer I (timeouthandler.go) |= Layer P, scripts <= 3 ops, all interleavings + liveness"
                         + ("" if thorough else " (1 chunk, 1 code, 1 header value)"))
    run.model_check(FAM, "TimeoutHTTPImpl", "TimeoutHTTPImplBugHdr.cfg", workers=2, expect="violation",
                    note="documented counterexample: handler headers copied on the timeout path (AllOrNothing)")
    if thorough:
        run.model_check(FAM, "TimeoutHTTPImpl", "TimeoutHTTPImplBugWait.cfg", workers=2, expect="violation",
                        note="documented counterexample: wrapper joins the handler after a timeout (ReturnsWithoutWorker)")
        run.model_check(FAM, "TimeoutHTTPImpl", "TimeoutHTTPImplBugPanic.cfg", workers=2, expect="violation",
                        note="documented counterexample: buffer flushed before re-panicking (AllOrNothing)")
        run.model_check(FAM, "TimeoutHTTPImpl", "TimeoutHTTPImplNoLock.cfg", workers=8,
                        note="timeout branch without tw.mu still satisfies Layer P (lock is not what protects the client)")
        run.model_check(FAM, "TimeoutHTTPImpl", "TimeoutHTTPImplMC4.cfg", workers=8, timeout=1500,
                        note="Layer I |= Layer P, scripts <= 4 ops")
        run.model_check(FAM, "TimeoutHTTPImpl", "TimeoutHTTPImplMC5.cfg", workers=8, timeout=2400,
                        note="Layer I |= Layer P, scripts <= 5 ops (2 chunks, 1 code, 1 header value)")


def _design2(run, thorough):
    """design level, second part: sessions (several calls through one handler value, stale work) and the context
    derivation under a caller-supplied parent deadline"""
    run.model_check(FAM, "TimeoutSessImpl", "TimeoutSessImplMCq.cfg" if not thorough else "TimeoutSessImplMC.cfg",
                    workers=4,
                    note="Layer I sessions (a fresh timeoutWriter per call; stale handlers write at any later moment) |= "
                         "per-call Layer P + Isolation, 2 calls" + ("" if thorough else ", <=1 op before/after the return"))
    run.model_check(FAM, "TimeoutSessImpl", "TimeoutSessImplBugPool.cfg", workers=2, expect="violation",
                    note="documented counterexample: writers recycled through a pool also on the timeout path (Isolation)")
    run.model_check(FAM, "TimeoutDeadlineImpl", "TimeoutDeadlineImplMC.cfg", workers=2,
                    note="context derivation from (caller deadline none/earlier/equal/later/far, timeout), 4 wrappers |= "
                         "Layer P + PromptReturn")
    if thorough:
        run.model_check(FAM, "TimeoutSessImpl", "TimeoutSessImplMC3.cfg", workers=4, timeout=1500,
                        note="Layer I sessions, 3 calls, <=2 late ops per call")
        run.model_check(FAM, "TimeoutSessImpl", "TimeoutSessImplPoolSafe.cfg", workers=4,
                        note="recycling writers only when the handler goroutine has finished satisfies Layer P "
                             "(the specification forbids leaking, not pooling)")
        run.model_check(FAM, "TimeoutDeadlineImpl", "TimeoutDeadlineImplBugKeep.cfg", workers=2, expect="violation",
                        note="documented counterexample: fx keeps a parent context that already has a (later) deadline "
                             "(ReturnsWithoutWorker)")
        run.model_check(FAM, "TimeoutDeadlineImpl", "TimeoutDeadlineImplBugBackground.cfg", workers=2, expect="violation",
                        note="documented counterexample: context derived from Background (DeadlineShrinks)")
        run.model_check(FAM, "TimeoutDeadlineImpl", "TimeoutDeadlineImplBugInline.cfg", workers=2, expect="violation",
                        note="documented counterexample: work called inline under a tighter caller deadline "
                             "(ReturnsWithoutWorker)")


def _design3(run, thorough):
    """design level, third part: the wiring -- which wrapper with which timeout, from settings in layers and from
    what the request offers (small models; side by side with the other two parts)"""
    # quick: the generation run of the drivers (TimeoutWireGen.cfg: all settings; requests with <= 2 header elements
    # under one setting) checks Property and WireRefines on the very cases it prints
    if thorough:
        run.model_check(FAM, "TimeoutWireImpl", "TimeoutWireImplMC.cfg", workers=8, timeout=1500,
                        note="Layer I wiring (engine / zrpc client / zrpc server: global, per-route, per-call, per-method "
                             "timeouts, middleware switch; literal first-line test for websocket / event-stream) |= Layer P "
                             "TmoChoices / ExemptChoices + monitor, settings x requests with <= 3 header elements")
    run.model_check(FAM, "TimeoutWireImpl", "TimeoutWireImplBugSkipZero.cfg", workers=2, expect="violation",
                    note="documented counterexample: client interceptor only installed for a client-level timeout > 0, "
                         "per-call timeout never read (DeadlineShrinks)")
    if thorough:
        run.model_check(FAM, "TimeoutWireImpl", "TimeoutWireImplBugAnyUpgrade.cfg", workers=2, expect="violation",
                        note="documented counterexample: every request with an Upgrade header is exempt (DeadlineShrinks)")
        run.model_check(FAM, "TimeoutWireImpl", "TimeoutWireImplTokens.cfg", workers=4,
                        note="recognising websocket / event-stream in any spelling, list or line also satisfies Layer P "
                             "(the statement does not say how an exempt request is recognised)")
        run.model_check(FAM, "TimeoutWireImpl", "TimeoutWireImplBugMaxRoute.cfg", workers=2, expect="violation",
                        note="documented counterexample: a route group without its own timeout gets the largest one")


def _drivers(run, thorough, only):
    # ---- spec -> code: worker scripts
    http, val, sg, sg3, wire = _par(
        lambda: run.generate(FAM, "TimeoutGen", "TimeoutGenHttp4.cfg" if thorough else "TimeoutGenHttp3.cfg"),
        lambda: run.generate(FAM, "TimeoutGen", "TimeoutGenVal.cfg"),
        lambda: run.generate(FAM, "TimeoutSessGen", "TimeoutSessGenT.cfg" if thorough else "TimeoutSessGenQ.cfg")
        if only in (None, "sess") else [],
        lambda: run.generate(FAM, "TimeoutSessGen", "TimeoutSessGenT3.cfg") if thorough and only in (None, "sess") else [],
        lambda: run.generate(FAM, "TimeoutWireImpl", "TimeoutWireGenT.cfg" if thorough else "TimeoutWireGen.cfg")
        if only in (None, "wire") else [])
    for st in run.mc:
        if st["cfg"].startswith("TimeoutWireGen") and "WireRefines" not in st["note"]:
            st["note"] += ("; the same run checks INVARIANTS Property WireRefines (Layer I wiring |= Layer P) on the "
                           "cases it prints")
    env = {"VERIF_C04_CFGS": 3 if thorough else 2, "VERIF_C04_REPS": 8 if thorough else 2,
           "VERIF_C04_PAR": 32 if thorough else 24}
    tmo = 2400 if thorough else 600

    def note(label, beh):
        for b in beh:
            run.distinct.add((label, str(b)))

    wth, werr = None, []
    if only in (None, "wire"):
        # the wiring cases are independent of everything below: side by side with it
        def wiring():
            try:
                _wiring(run, thorough, env, tmo, note, wire, http, val)
            except BaseException as ex:  # noqa: re-raised in the main thread
                werr.append(ex)
        wth = threading.Thread(target=wiring)
        wth.start()
    try:
        _drivers2(run, thorough, only, env, tmo, note, http, val, sg, sg3)
    finally:
        if wth:
            wth.join()
    if werr:
        raise werr[0]
    run.evaluations = run.traces


def _drivers2(run, thorough, only, env, tmo, note, http, val, sg, sg3):
    if only in (None, "sess"):
        _sessions(run, thorough, env, tmo, note, sg, sg3)
    if only in (None, "rest"):
        tr = run.go_driver("rest/handler", DRV, "TestVerifC04Rest$", inp=http, env=env, timeout=tmo)
        run.validate(FAM, *TRACE, tr, label="rest-handler", timeout=1800)
        note("rest", http)
    if only in (None, "engine"):
        eng = http if not thorough else http[run.seed % 3::3]
        tr = run.go_driver("rest", ["zz_verif_c04_engine_test.go"], "TestVerifC04Engine$", inp=eng, env=env, timeout=tmo)
        run.validate(FAM, *TRACE, tr, label="rest-engine", timeout=1800)
        note("engine", eng)
    if only not in (None, "small"):
        run.evaluations = run.traces
        return
    small = []
    for pkg, fn, label in [("zrpc/internal/serverinterceptors", "TestVerifC04RpcServer$", "rpcs"),
                           ("zrpc/internal/clientinterceptors", "TestVerifC04RpcClient$", "rpcc"),
                           ("core/fx", "TestVerifC04Fx$", "fx")]:
        small.append(run.go_driver(pkg, DRV, fn, inp=val, env=env, timeout=tmo))
        note(label, val)
    run.validate(FAM, *TRACE, _merge(run, small, "rpc-fx.ndjson"), label="rpc-server+client+fx")
    if thorough and not only:
        # other schedulers: one P (handler and wrapper never run simultaneously) and two
        tr1 = run.go_driver("rest/handler", DRV, "TestVerifC04Rest$", inp=http[(run.seed + 1) % 5::5], env=env, cpu=1, timeout=tmo)
        tr2 = run.go_driver("rest/handler", DRV, "TestVerifC04Rest$", inp=http[(run.seed + 2) % 5::5], env=env, cpu=2, timeout=tmo)
        tr3 = run.go_driver("zrpc/internal/serverinterceptors", DRV, "TestVerifC04RpcServer$", inp=val, env=env, cpu=1, timeout=tmo)
        tr4 = run.go_driver("core/fx", DRV, "TestVerifC04Fx$", inp=val, env=env, cpu=1, timeout=tmo)
        run.validate(FAM, *TRACE, _merge(run, [tr1, tr2, tr3, tr4], "cpu.ndjson"), label="GOMAXPROCS-1-2", timeout=1800)
    run.evaluations = run.traces


def _wire_jobs(run, cases, scripts, per, salt):
    """pair every TLC-generated wiring case with `per` worker scripts (seeded).  The two hints in a case come
    from Layer P (TimeoutWireImpl.tla: MayWait / EndsSoon) and are used for steering only: a call that nothing
    is bound to end gets no script that blocks (it would cost a watchdog, whatever the verdict)."""
    import random
    rnd = random.Random(run.seed * 7919 + salt)
    free = [s for s in scripts if not any(op["op"] in ("await", "ignore") for op in s)]
    jobs = []
    for c in cases:
        pool = scripts if (c["inl"] or c["fin"]) else free
        for s in rnd.sample(pool, min(per, len(pool))):
            jobs.append({"case": c, "script": s, "steer": rnd.randrange(3)})
    rnd.shuffle(jobs)
    return jobs


def _wiring(run, thorough, env, tmo, note, wire, http, val):
    """settings in layers (engine / client / server wide, per route / per call / per method, middleware on or
    off) and requests offering any mix of Upgrade / Accept elements: every case TLC enumerates from
    TimeoutWireImpl.tla is run against the code that decides which wrapper a call gets; the reset events carry
    the settings and the request as they are and Layer P decides which timeout is owed / whether it is exempt"""
    rest = [c for c in wire if c["kind"] == "rest"]
    direct = [c for c in rest if c["mw"] and not c["ov"]]          # TimeoutHandler(d) has one layer only
    rpc = [c for c in wire if c["kind"] in ("rpcc", "rpcs")]
    j1 = _wire_jobs(run, direct, http, 3 if thorough else 1, 11)
    j2 = _wire_jobs(run, rest, http, 3 if thorough else 2, 12)
    j3 = _wire_jobs(run, rpc, val, len(val) if thorough else 6, 13)
    trs = [run.go_driver("rest/handler", DRV, "TestVerifC04RestWire$", inp=j1, env=env, timeout=tmo),
           run.go_driver("rest", ["zz_verif_c04_engine_test.go"], "TestVerifC04EngineWire$", inp=j2, env=env, timeout=tmo),
           run.go_driver("zrpc", ZDRV, "TestVerifC04ZrpcWire$", inp=j3, env=env, timeout=tmo)]
    run.validate(FAM, *TRACE, _merge(run, trs, "wire.ndjson"), label="wiring", timeout=1800)
    for label, jobs in (("wire-handler", j1), ("wire-engine", j2), ("wire-zrpc", j3)):
        note(label, jobs)


def _stale(sched):
    """a schedule in which some call's work acts after that call's wrapper returned"""
    gone = set()
    for st in sched:
        if st["op"] in ("end", "fin"):
            gone.add(st["q"])
        elif st["op"] in ("sh", "wh", "wr") and st["q"] in gone:
            return True
    return False


def _sample(run, beh, keep, salt):
    """all schedules with stale work + a seeded sample of the others, `keep` in total at most"""
    import random
    rnd = random.Random(run.seed * 7919 + salt)
    core = [b for b in beh if _stale(b)]
    rest = [b for b in beh if not _stale(b)]
    rnd.shuffle(core)
    rnd.shuffle(rest)
    core = core[:max(keep * 4 // 5, keep - len(rest))]
    out = core + rest[:max(0, keep - len(core))]
    out.sort(key=lambda b: (len(b), str(b)))
    return out


def _sessions(run, thorough, env, tmo, note, sg, sg3):
    """multi-call histories through one handler value (TimeoutSess): stale work of a timed-out call acting
    while later calls are served; executed step by step in schedule order"""
    if thorough:
        sched = _sample(run, sg, 16000, 1)
        sched3 = _sample(run, sg3, 6000, 2)
    else:
        sched = _sample(run, sg, 1600, 1)
        sched3 = []
    senv = dict(env)
    senv["VERIF_C04_SPAR"] = 16
    allsched = sched + sched3

    def has_timer(b):
        return any(st["op"] == "end" and st.get("how") == "expire" for st in b)
    timed = [b for b in allsched if has_timer(b)]
    untimed = [b for b in allsched if not has_timer(b)]
    # one P, one session at a time: a step is only started when the previous one was acknowledged, so a session
    # without a real timer is ONE deterministic sequential history (incl. what a per-P recycling allocator would
    # hand to the next call). Validated before anything else runs: a defect that lets calls share state may
    # crash later, concurrent drivers (Go's concurrent-map-write detector), which is infrastructure, not a verdict.
    tr1 = run.go_driver("rest/handler", SDRV, "TestVerifC04Sess$", inp=untimed, env=senv, cpu=1, timeout=tmo)
    try:
        tr2 = run.go_driver("rest/handler", SDRV, "TestVerifC04Sess$", inp=timed, env=senv, cpu=1, timeout=tmo)
    except Exception:
        run.validate(FAM, *STRACE, tr1, label="rest-sessions-seq", timeout=1800)
        raise
    run.validate(FAM, *STRACE, _merge(run, [tr1, tr2], "sessions.ndjson"), label="rest-sessions", timeout=1800)
    note("sess", allsched)
    if thorough:
        part = allsched[run.seed % 4::4]
        tr = run.go_driver("rest/handler", SDRV, "TestVerifC04Sess$", inp=part, env=senv, timeout=tmo)
        run.validate(FAM, *STRACE, tr, label="rest-sessions-multiP", timeout=1800)


LEVEL_TEXT = ("Exhaustive TLC model checking that the timeoutWriter mutex/flag/buffer protocol and the select of "
              "timeouthandler.go (PlusCal, all interleavings with expiry, incl. liveness of returning) satisfy the Layer-P "
              "monitor, that a session of calls through one handler value with stale handlers keeps every call's client "
              "isolated (TimeoutSessImpl), and that the context derivation under a caller-supplied parent deadline returns "
              "at min(caller, now+timeout) (TimeoutDeadlineImpl), and that the wiring (which wrapper with which timeout, from "
              "global / per-route / per-call / per-method settings and from the request's Upgrade / Accept headers) picks a "
              "timeout and an exemption the statement admits (TimeoutWireImpl), plus conformance: every TLC-enumerated worker script is "
              "executed against the five real wrappers (handler, engine routes, rpc server, rpc client, fx), TLC-enumerated "
              "multi-call schedules against one real TimeoutHandler value, every TLC-enumerated wiring case against rest.Server, "
              "zrpc.NewClient and the zrpc server's interceptor chain, and every call/session is validated by TLC.")
LEVEL_NOTE = ("Trusted: TLC/SANY/PlusCal translator, Go toolchain, the harness ResponseWriter and event ordering (A.5). Real "
              "code is sampled: the both-ready select race is rare without a hook and is covered exhaustively only at "
              "design level; Flush/Hijack/Push and streaming gRPC are not covered; 'stuck' relies on a 30 s watchdog (this is also "
              "how a later-than-timeout caller deadline that replaces the timeout shows for fx, whose fn sees no context: the "
              "far-later caller deadline makes it 'never'; a moderately later one is only covered at design level by "
              "PromptReturn). Multi-call sessions are bound to rest/handler.TimeoutHandler (the wrapper with per-request "
              "state); the rpc interceptors and fx keep no state between calls and are driven call by call. Wiring: the zrpc "
              "client is driven through the real *grpc.ClientConn but without a network (the last interceptor of the chain "
              "plays the remote side); the zrpc server's chain is taken from the unexported setupUnaryInterceptors "
              "(white-box; skipped when not accessible), all other middlewares switched off; a per-method timeout on a "
              "server whose own Timeout is 0 and everything with the timeout middleware switched off is left free by the "
              "specification; exempt requests are recognised from header elements the driver lower-cases and splits.")
TECHNIQUE = "TLA+ monitor spec (Timeout) + PlusCal implementation model, TLC-generated scripts replayed, TLC trace validation"
DESIGN_REF = "DESIGN.md Part B C04"


def replay(run, path):
    import json
    sess = False
    for ln in open(path):
        if not ln.strip():
            continue
        ev = json.loads(ln)
        if ev.get("e") == "header":
            sess = "TimeoutSessTrace" in ev.get("spec", "")
            continue
        sess = sess or bool(ev.get("sess"))
        break
    run.replay(FAM, *(STRACE if sess else TRACE), path)
