#!/bin/sh
# Offline setup: check the tools exist, parse every specification, warm the Go build cache
# for the packages the drivers are compiled into.
set -e
cd "$(dirname "$0")"
export GOFLAGS=-mod=mod GOPROXY=off GOSUMDB=off GOTOOLCHAIN=local
command -v tlc >/dev/null
command -v go >/dev/null
tmp=$(mktemp -d)
trap 'rm -rf "$tmp"' EXIT
# only the families of integrated (claimed) properties must parse; others are work in progress
fams=$(python3 - <<'EOF'
import json,re
for pid in json.load(open("tools/integrated.json")):
    m=re.search(r'^FAM\s*=\s*"([^"]+)"', open("props/%s.py"%pid.lower()).read(), re.M)
    if m: print(m.group(1))
EOF
)
for fam in $(echo "$fams" | sort -u); do
  d=specs/$fam
  mkdir -p "$tmp/$fam"
  cp "$d"/*.tla "$tmp/$fam/" 2>/dev/null || true
  cp specs/common/*.tla "$tmp/$fam/" 2>/dev/null || true
  for f in "$tmp/$fam"/*.tla; do
    (cd "$tmp/$fam" && timeout 120 tla-sany "$(basename "$f")" >"$tmp/sany.log" 2>&1) || { cat "$tmp/sany.log"; echo "SANY failed: $f"; exit 1; }
  done
done
(cd /repo && go build ./... >/dev/null 2>&1 && go test -tags verif -vet=off -count=1 -run '^$' ./core/... ./rest/... ./zrpc/... >/dev/null 2>&1) || true
echo "setup ok"
