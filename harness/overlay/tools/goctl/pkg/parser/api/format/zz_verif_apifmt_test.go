//go:build verif

package format

// C20 driver: every case is a .api source text produced by TLC from specs/apifmt/ApiDoc.tla
// (abstract document + layout, rendered by the spec). The driver calls the real parser and
// the real format.Source on it, projects the real ASTs to the abstract tree and records
// everything. No expectations here: equivalence, idempotence and "errors instead of
// crashes" are decided by TLC validating the recorded trace against ApiDocTrace.tla.

import (
	"bytes"
	"encoding/json"
	"fmt"
	"sync"
	"testing"

	"github.com/zeromicro/go-zero/tools/goctl/pkg/parser/api/ast"
	"github.com/zeromicro/go-zero/tools/goctl/pkg/parser/api/parser"
)

type apifmtCase struct {
	ID    int             `json:"id"`
	Valid bool            `json:"valid"`
	Doc   json.RawMessage `json:"doc"`
	Seps  json.RawMessage `json:"seps"`
	Mut   json.RawMessage `json:"mut"`
	Src   string          `json:"src"`
}

type obj = map[string]any

// ---- projection of the real AST onto the abstract tree (the only non-trivial trusted code)

func apifmtKVs(kvs []*ast.KVExpr) []any {
	out := []any{}
	for _, kv := range kvs {
		out = append(out, []any{kv.Key.Token.Text, kv.Value.Token.Text})
	}
	return out
}

func apifmtDT(dt ast.DataType) obj {
	switch v := dt.(type) {
	case *ast.AnyDataType:
		return obj{"t": "any"}
	case *ast.InterfaceDataType:
		return obj{"t": "iface"}
	case *ast.BaseDataType:
		return obj{"t": "base", "n": v.Base.Token.Text}
	case *ast.SliceDataType:
		return obj{"t": "slice", "e": apifmtDT(v.DataType)}
	case *ast.ArrayDataType:
		return obj{"t": "array", "len": v.Length.Token.Text, "e": apifmtDT(v.DataType)}
	case *ast.MapDataType:
		return obj{"t": "map", "key": apifmtDT(v.Key), "val": apifmtDT(v.Value)}
	case *ast.PointerDataType:
		return obj{"t": "ptr", "e": apifmtDT(v.DataType)}
	case *ast.StructDataType:
		fields := []any{}
		for _, e := range v.Elements {
			names := []any{}
			for _, n := range e.Name {
				names = append(names, n.Token.Text)
			}
			tag := ""
			if e.Tag != nil {
				tag = e.Tag.Token.Text
			}
			fields = append(fields, obj{"names": names, "dt": apifmtDT(e.DataType), "tag": tag})
		}
		return obj{"t": "struct", "fields": fields}
	default:
		panic(fmt.Sprintf("verif projection: unknown data type %T", dt))
	}
}

func apifmtTypeExpr(e *ast.TypeExpr) obj {
	return obj{"k": "type", "name": e.Name.Token.Text, "alias": e.Assign != nil, "dt": apifmtDT(e.DataType)}
}

func apifmtBody(b *ast.BodyStmt) obj {
	if b == nil || b.Body == nil {
		return obj{"t": "none"}
	}
	return obj{"t": "body", "arr": b.Body.LBrack != nil, "star": b.Body.Star != nil, "name": b.Body.Value.Token.Text}
}

func apifmtItem(it *ast.ServiceItemStmt) obj {
	doc := obj{"t": "none"}
	switch d := it.AtDoc.(type) {
	case *ast.AtDocLiteralStmt:
		doc = obj{"t": "lit", "v": d.Value.Token.Text}
	case *ast.AtDocGroupStmt:
		if len(d.Values) > 0 {
			doc = obj{"t": "group", "kv": apifmtKVs(d.Values)}
		}
	}
	handler, method, path := "", "", ""
	req, resp := obj{"t": "none"}, obj{"t": "none"}
	if it.AtHandler != nil {
		handler = it.AtHandler.Name.Token.Text
	}
	if it.Route != nil {
		method = it.Route.Method.Token.Text
		path = it.Route.Path.Value.Token.Text
		req = apifmtBody(it.Route.Request)
		resp = apifmtBody(it.Route.Response)
	}
	return obj{"doc": doc, "handler": handler, "method": method, "path": path, "req": req, "resp": resp}
}

// apifmtMeaning: statements in source order; grouped imports / type declarations are
// flattened, empty groups contribute nothing, comments and layout are dropped.
func apifmtMeaning(a *ast.AST) []any {
	out := []any{}
	for _, s := range a.Stmts {
		switch v := s.(type) {
		case *ast.CommentStmt:
		case *ast.SyntaxStmt:
			out = append(out, obj{"k": "syntax", "v": v.Value.Token.Text})
		case *ast.InfoStmt:
			if len(v.Values) > 0 {
				out = append(out, obj{"k": "info", "kv": apifmtKVs(v.Values)})
			}
		case *ast.ImportLiteralStmt:
			out = append(out, obj{"k": "import", "v": v.Value.Token.Text})
		case *ast.ImportGroupStmt:
			for _, x := range v.Values {
				out = append(out, obj{"k": "import", "v": x.Token.Text})
			}
		case *ast.TypeLiteralStmt:
			out = append(out, apifmtTypeExpr(v.Expr))
		case *ast.TypeGroupStmt:
			for _, e := range v.ExprList {
				out = append(out, apifmtTypeExpr(e))
			}
		case *ast.ServiceStmt:
			server := []any{}
			if v.AtServerStmt != nil {
				server = apifmtKVs(v.AtServerStmt.Values)
			}
			items := []any{}
			for _, it := range v.Routes {
				items = append(items, apifmtItem(it))
			}
			out = append(out, obj{"k": "service", "server": server, "name": v.Name.Name.Token.Text, "items": items})
		default:
			panic(fmt.Sprintf("verif projection: unknown statement %T", s))
		}
	}
	return out
}

// ---- guarded calls into the real code

// apifmtParse returns st = "ok" | "err" | "crash" and the projected meaning ([] unless ok).
func apifmtParse(src string) (st string, m []any, detail string) {
	m = []any{}
	if len(src) == 0 {
		return "empty", m, ""
	}
	defer func() {
		if r := recover(); r != nil {
			st, m, detail = "crash", []any{}, fmt.Sprint(r)
		}
	}()
	p := parser.New("", []byte(src))
	a := p.Parse()
	if err := p.CheckErrors(); err != nil {
		return "err", m, err.Error()
	}
	if a == nil {
		return "err", m, "nil ast without errors"
	}
	return "ok", apifmtMeaning(a), ""
}

func apifmtFormat(src string) (st string, out string, detail string) {
	if len(src) == 0 {
		return "empty", "", ""
	}
	defer func() {
		if r := recover(); r != nil {
			st, out, detail = "crash", "", fmt.Sprint(r)
		}
	}()
	var b bytes.Buffer
	if err := Source([]byte(src), &b); err != nil {
		return "err", "", err.Error()
	}
	return "ok", b.String(), ""
}

func clip(s string) string {
	if len(s) > 300 {
		return s[:300]
	}
	return s
}

// apifmtRun performs the real calls of one case (parse, format, parse and format of the
// formatted text, parse of the result of the second formatting run) and returns its events
// in order. A step is only left out when the text it would work on does not exist (the
// formatting call before it did not return one); ApiDocTrace knows these two exits.
func apifmtRun(c *apifmtCase) []verifEv {
	reset := verifEv{"e": "reset", "id": c.ID, "valid": c.Valid, "src": c.Src,
		"doc": c.Doc, "seps": c.Seps, "mut": c.Mut}
	evs := []verifEv{reset}
	st, m, d := apifmtParse(c.Src)
	evs = append(evs, verifEv{"e": "parse", "st": st, "m": m, "detail": clip(d)})
	st1, f1, d1 := apifmtFormat(c.Src)
	evs = append(evs, verifEv{"e": "format", "st": st1, "out": f1, "detail": clip(d1)})
	if st1 != "ok" {
		return evs
	}
	st2, m2, d2 := apifmtParse(f1)
	evs = append(evs, verifEv{"e": "reparse", "st": st2, "m": m2, "detail": clip(d2)})
	st3, f2, d3 := apifmtFormat(f1)
	evs = append(evs, verifEv{"e": "reformat", "st": st3, "out": f2, "detail": clip(d3)})
	if st3 != "ok" {
		return evs
	}
	st4, m4, d4 := apifmtParse(f2)
	evs = append(evs, verifEv{"e": "reparse2", "st": st4, "m": m4, "detail": clip(d4)})
	return evs
}

func TestVerifApiFmt(t *testing.T) {
	em := verifOpen(t)
	defer em.Close()
	raws := verifInput(t)
	if len(raws) == 0 {
		t.Fatal("no cases in VERIF_IN")
	}
	cases := make([]*apifmtCase, len(raws))
	for i, raw := range raws {
		c := &apifmtCase{}
		if err := json.Unmarshal(raw, c); err != nil {
			t.Fatalf("bad case: %v", err)
		}
		if c.Doc == nil || c.Seps == nil || c.Mut == nil {
			t.Fatalf("case %d lacks doc/seps/mut", i)
		}
		cases[i] = c
	}
	// the calls are independent: run them on a few workers, emit in case order
	results := make([][]verifEv, len(cases))
	workers := verifEnvInt("VERIF_APIFMT_WORKERS", 4)
	var wg sync.WaitGroup
	next := make(chan int, len(cases))
	for i := range cases {
		next <- i
	}
	close(next)
	for w := 0; w < workers; w++ {
		wg.Add(1)
		go func() {
			defer wg.Done()
			for i := range next {
				results[i] = apifmtRun(cases[i])
			}
		}()
	}
	wg.Wait()
	for _, evs := range results {
		for _, ev := range evs {
			em.Emit(ev)
		}
	}
}
