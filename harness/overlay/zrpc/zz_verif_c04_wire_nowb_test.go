//go:build verif && verifnowb

package zrpc

// Black-box stand-in for zz_verif_c04_wire_wb_test.go: the server's interceptor chain is not
// reachable through exported names; the server wiring cases are skipped.

import "google.golang.org/grpc"

func c04ServerChain(c RpcServerConf) ([]grpc.UnaryServerInterceptor, bool) {
	return nil, false
}
