//go:build verif && !verifnowb

package zrpc

// White-box part of the C04 zRPC wiring driver: the unary interceptor chain NewServer builds is only
// reachable through the unexported setupUnaryInterceptors (the built server keeps it in
// zrpc/internal). Kept apart so that a renaming degrades the driver (tag verifnowb) instead of
// breaking it.

import (
	"github.com/zeromicro/go-zero/core/stat"
	"github.com/zeromicro/go-zero/zrpc/internal"
	"google.golang.org/grpc"
)

type c04FakeServer struct {
	unary []grpc.UnaryServerInterceptor
}

func (s *c04FakeServer) AddOptions(...grpc.ServerOption)                        {}
func (s *c04FakeServer) AddStreamInterceptors(...grpc.StreamServerInterceptor) {}
func (s *c04FakeServer) AddUnaryInterceptors(ics ...grpc.UnaryServerInterceptor) {
	s.unary = append(s.unary, ics...)
}
func (s *c04FakeServer) SetName(string)                  {}
func (s *c04FakeServer) Start(internal.RegisterFn) error { return nil }

func c04ServerChain(c RpcServerConf) ([]grpc.UnaryServerInterceptor, bool) {
	f := &c04FakeServer{}
	setupUnaryInterceptors(f, c, stat.NewMetrics("c04"))
	return f.unary, true
}
