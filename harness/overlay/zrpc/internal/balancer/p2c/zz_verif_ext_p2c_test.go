//go:build verif

package p2c

// Drivers of the extension specification "p2c" (specs/p2c, host property C02; advisory).
// They drive the real p2cPicker under the virtual clock and record what it did; the verdict
// is TLC's (P2cTrace.tla for sequential recordings, P2cConcTrace.tla for concurrent ones).
//
//   TestVerifExtp2cReplay      TLC-generated operation histories (P2cImpl.tla) replayed
//   TestVerifExtp2cRandom      seeded random sequential histories, 0..8 connections
//   TestVerifExtp2cConcurrent  rounds of parallel Pick / done calls at a standing clock

import (
	"context"
	"encoding/json"
	"errors"
	"fmt"
	"math"
	"math/rand"
	"regexp"
	"runtime"
	"strconv"
	"sync"
	"sync/atomic"
	"testing"
	"time"

	"github.com/zeromicro/go-zero/core/logx"
	"github.com/zeromicro/go-zero/core/timex"
	"google.golang.org/grpc/balancer"
	"google.golang.org/grpc/balancer/base"
	"google.golang.org/grpc/codes"
	"google.golang.org/grpc/resolver"
	"google.golang.org/grpc/status"
)

// ---- a sub-connection stand-in ----

type verifExtp2cConn struct{ id string }

func (verifExtp2cConn) UpdateAddresses(_ []resolver.Address) {}
func (verifExtp2cConn) Connect()                            {}
func (verifExtp2cConn) Shutdown()                           {}
func (m verifExtp2cConn) GetOrBuildProducer(b balancer.ProducerBuilder) (balancer.Producer, func()) {
	return b.Build(m)
}

// ---- the random source of the picker: scripted, and it remembers what it handed out ----

type verifExtp2cSrc struct {
	script []int64
	out    []int64
	rnd    *rand.Rand
}

func (s *verifExtp2cSrc) Seed(int64) {}

// Int63 hands out v<<32, so that Int31() = v and, v being far below 2^31, Intn(k) = v mod k.
func (s *verifExtp2cSrc) Int63() int64 {
	var v int64
	if len(s.script) > 0 {
		v, s.script = s.script[0], s.script[1:]
	} else {
		v = int64(s.rnd.Intn(1 << 20))
	}
	s.out = append(s.out, v)
	return v << 32
}

func (s *verifExtp2cSrc) take() []int64 {
	o := s.out
	s.out = nil
	s.script = nil
	if o == nil {
		o = []int64{}
	}
	return o
}

// TLC integers are 32 bits: whatever does not fit is logged as the nearest bound
func verifExtp2cClamp(v int64) int64 {
	if v > math.MaxInt32 {
		return math.MaxInt32
	}
	if v < -math.MaxInt32 {
		return -math.MaxInt32
	}
	return v
}

// ---- statistics lines: logx writer ----

type verifExtp2cWriter struct {
	mu     sync.Mutex
	onStat func(line [][]int64)
}

var verifExtp2cStatRe = regexp.MustCompile(`load: (-?\d+), reqs: (-?\d+)`)

func (w *verifExtp2cWriter) Alert(any)                  {}
func (w *verifExtp2cWriter) Close() error               { return nil }
func (w *verifExtp2cWriter) Debug(any, ...logx.LogField) {}
func (w *verifExtp2cWriter) Error(any, ...logx.LogField) {}
func (w *verifExtp2cWriter) Info(any, ...logx.LogField)  {}
func (w *verifExtp2cWriter) Severe(any)                 {}
func (w *verifExtp2cWriter) Slow(any, ...logx.LogField)  {}
func (w *verifExtp2cWriter) Stack(any)                  {}
func (w *verifExtp2cWriter) Stat(v any, _ ...logx.LogField) {
	line := [][]int64{}
	for _, m := range verifExtp2cStatRe.FindAllStringSubmatch(fmt.Sprint(v), -1) {
		a, _ := strconv.ParseInt(m[1], 10, 64)
		b, _ := strconv.ParseInt(m[2], 10, 64)
		line = append(line, []int64{verifExtp2cClamp(a), verifExtp2cClamp(b)})
	}
	w.mu.Lock()
	f := w.onStat
	w.mu.Unlock()
	if f != nil {
		f(line)
	}
}

func (w *verifExtp2cWriter) set(f func(line [][]int64)) {
	w.mu.Lock()
	w.onStat = f
	w.mu.Unlock()
}

// ---- the world of one driver: virtual clock + log writer ----

type verifExtp2cWorld struct {
	clk int64 // ms
	w   *verifExtp2cWriter
}

func verifExtp2cSetup(t testing.TB) *verifExtp2cWorld {
	wd := &verifExtp2cWorld{w: &verifExtp2cWriter{}}
	timex.VerifNow = func() time.Duration {
		return time.Duration(atomic.LoadInt64(&wd.clk)) * time.Millisecond
	}
	// p2c_test.go disables logging in init(); statistics lines are part of the recorded behaviour
	logx.SetLevel(logx.InfoLevel)
	logx.SetWriter(wd.w)
	t.Cleanup(func() {
		timex.VerifNow = nil
		logx.Disable()
	})
	return wd
}

// ---- one picker under test ----

type verifExtp2cSut struct {
	picker balancer.Picker
	p      *p2cPicker // nil for n = 0
	idx    map[balancer.SubConn]int
	src    *verifExtp2cSrc
}

func verifExtp2cBuild(t testing.TB, n int, salt int64) *verifExtp2cSut {
	ready := make(map[balancer.SubConn]base.SubConnInfo)
	for i := 0; i < n; i++ {
		ready[verifExtp2cConn{id: "c" + strconv.Itoa(i)}] = base.SubConnInfo{
			Address: resolver.Address{Addr: "addr" + strconv.Itoa(i)},
		}
	}
	s := &verifExtp2cSut{idx: map[balancer.SubConn]int{}}
	s.picker = new(p2cPickerBuilder).Build(base.PickerBuildInfo{ReadySCs: ready})
	if n == 0 {
		return s
	}
	p, ok := s.picker.(*p2cPicker)
	if !ok {
		t.Fatalf("Build returned %T", s.picker)
	}
	s.p = p
	for i, c := range p.conns {
		s.idx[c.conn] = i + 1
	}
	s.src = &verifExtp2cSrc{rnd: verifRand(salt)}
	p.r = rand.New(s.src)
	return s
}

// state of every connection: [inflight, lag(us, rounded up), floor(sqrt(lag_ns+1)), success, last(ms), pick(ms), requests]
func (s *verifExtp2cSut) state() [][]int64 {
	st := [][]int64{}
	if s.p == nil {
		return st
	}
	for _, c := range s.p.conns {
		lag := atomic.LoadUint64(&c.lag)
		row := []int64{
			atomic.LoadInt64(&c.inflight),
			int64((lag + 999) / 1000),
			int64(math.Sqrt(float64(lag + 1))),
			int64(atomic.LoadUint64(&c.success)),
			atomic.LoadInt64(&c.last) / int64(time.Millisecond),
			atomic.LoadInt64(&c.pick) / int64(time.Millisecond),
			atomic.LoadInt64(&c.requests),
		}
		for k := range row {
			row[k] = verifExtp2cClamp(row[k])
		}
		st = append(st, row)
	}
	return st
}

func (s *verifExtp2cSut) stamp() int64 {
	if s.p == nil {
		return 0
	}
	return int64(s.p.stamp.Load() / time.Millisecond)
}

func (s *verifExtp2cSut) pick() (balancer.PickResult, error) {
	return s.picker.Pick(balancer.PickInfo{FullMethodName: "/", Ctx: context.Background()})
}

// outcomes of a request: name logged, error handed to the done-callback
var verifExtp2cGood = []string{"nil", "NotFound", "plain", "Canceled", "nil", "InvalidArgument"}
var verifExtp2cBad = []string{"DeadlineExceeded", "Unavailable", "Internal", "DeadlineExceeded", "DataLoss", "Unimplemented"}

func verifExtp2cErr(name string) error {
	switch name {
	case "nil":
		return nil
	case "plain":
		return errors.New("plain")
	case "NotFound":
		return status.Error(codes.NotFound, name)
	case "Canceled":
		return status.Error(codes.Canceled, name)
	case "InvalidArgument":
		return status.Error(codes.InvalidArgument, name)
	case "DeadlineExceeded":
		return status.Error(codes.DeadlineExceeded, name)
	case "Unavailable":
		return status.Error(codes.Unavailable, name)
	case "Internal":
		return status.Error(codes.Internal, name)
	case "DataLoss":
		return status.Error(codes.DataLoss, name)
	case "Unimplemented":
		return status.Error(codes.Unimplemented, name)
	}
	panic("unknown outcome " + name)
}

// ---- sequential recording ----

type verifExtp2cSeq struct {
	t    testing.TB
	em   *verifEmitter
	wd   *verifExtp2cWorld
	sut  *verifExtp2cSut
	n    int
	held map[int]func(balancer.DoneInfo)
	line [][]int64
}

func (q *verifExtp2cSeq) reset(n int, t0 int64, salt int64) {
	atomic.StoreInt64(&q.wd.clk, t0)
	q.n = n
	q.sut = verifExtp2cBuild(q.t, n, salt)
	q.held = map[int]func(balancer.DoneInfo){}
	q.wd.w.set(func(line [][]int64) { q.line = line })
	q.em.Emit(verifEv{"e": "reset", "n": n, "t": t0, "st": q.sut.state(), "stamp": q.sut.stamp()})
}

func (q *verifExtp2cSeq) adv(d int64) {
	atomic.AddInt64(&q.wd.clk, d)
	q.em.Emit(verifEv{"e": "adv", "d": d})
}

// script: values for the random source (nil: seeded random values)
func (q *verifExtp2cSeq) pick(tok int, script []int64) {
	if q.sut.src != nil {
		q.sut.src.take()
		q.sut.src.script = script
	}
	res, err := q.sut.pick()
	if q.n == 0 || err != nil {
		q.em.Emit(verifEv{"e": "none", "err": errors.Is(err, balancer.ErrNoSubConnAvailable), "n": q.n})
		return
	}
	q.held[tok] = res.Done
	q.em.Emit(verifEv{"e": "pick", "raw": q.sut.src.take(), "c": q.sut.idx[res.SubConn], "tok": tok,
		"st": q.sut.state(), "stamp": q.sut.stamp()})
}

func (q *verifExtp2cSeq) done(tok int, outcome string) {
	d := q.held[tok]
	if d == nil {
		return
	}
	delete(q.held, tok)
	q.line = [][]int64{}
	d(balancer.DoneInfo{Err: verifExtp2cErr(outcome)})
	q.em.Emit(verifEv{"e": "done", "tok": tok, "err": outcome, "st": q.sut.state(), "stamp": q.sut.stamp(),
		"line": q.line})
}

// the values the source must hand out for Pick to draw the pair (a, b) of 1-based positions
func verifExtp2cScript(draws [][]int) []int64 {
	var s []int64
	for _, d := range draws {
		a, b := int64(d[0]-1), int64(d[1]-1)
		if b > a {
			b--
		}
		s = append(s, a, b)
	}
	return s
}

type verifExtp2cPlan struct {
	N    int   `json:"n"`
	T0   int64 `json:"t0"`
	Unit int64 `json:"unit"`
	Ops  []struct {
		Op    string  `json:"op"`
		D     int64   `json:"d"`
		Tok   int     `json:"tok"`
		Ok    bool    `json:"ok"`
		Draws [][]int `json:"draws"`
	} `json:"ops"`
}

// TestVerifExtp2cReplay: operation histories generated by TLC from P2cImpl.tla.
func TestVerifExtp2cReplay(t *testing.T) {
	em := verifOpen(t)
	defer em.Close()
	wd := verifExtp2cSetup(t)
	q := &verifExtp2cSeq{t: t, em: em, wd: wd}
	for i, raw := range verifInput(t) {
		var pl verifExtp2cPlan
		if err := json.Unmarshal(raw, &pl); err != nil {
			t.Fatal(err)
		}
		q.reset(pl.N, pl.T0, int64(i))
		for j, op := range pl.Ops {
			switch op.Op {
			case "adv":
				q.adv(op.D * pl.Unit)
			case "pick":
				q.pick(op.Tok, verifExtp2cScript(op.Draws))
			case "done":
				if op.Ok {
					q.done(op.Tok, verifExtp2cGood[(i+j)%len(verifExtp2cGood)])
				} else {
					q.done(op.Tok, verifExtp2cBad[(i+j)%len(verifExtp2cBad)])
				}
			}
		}
	}
}

// clock steps (ms): around forcePick (1 s), fractions of decayTime (10 s), around logInterval (60 s)
var verifExtp2cSteps = []int64{0, 0, 1, 100, 100, 200, 300, 500, 900, 999, 1000, 1000, 1001, 1100, 2000, 2500,
	5000, 7000, 10000, 20000, 30000, 59000, 59999, 60000, 60001, 137, 150000}

// TestVerifExtp2cRandom: seeded random sequential histories.
func TestVerifExtp2cRandom(t *testing.T) {
	em := verifOpen(t)
	defer em.Close()
	wd := verifExtp2cSetup(t)
	q := &verifExtp2cSeq{t: t, em: em, wd: wd}
	r := verifRand(4202)
	traces := verifEnvInt("VERIF_EXT_P2C_TRACES", 150)
	sizes := []int{0, 1, 1, 2, 2, 2, 3, 3, 3, 4, 5, 8}
	starts := []int64{0, 1, 999, 1000, 1001, 5000, 59999, 60000, 100000, 1000000000}
	for i := 0; i < traces; i++ {
		n := sizes[r.Intn(len(sizes))]
		q.reset(n, starts[r.Intn(len(starts))], int64(1000+i))
		nops := 30 + r.Intn(60)
		pfail := []float64{0.05, 0.3, 0.6}[r.Intn(3)]
		maxHeld := 1 + r.Intn(6)
		var elapsed int64
		tok := 0
		for j := 0; j < nops; j++ {
			x := r.Intn(100)
			switch {
			case x < 30:
				d := verifExtp2cSteps[r.Intn(len(verifExtp2cSteps))]
				if elapsed+d > 1200000 {
					d = 100
				}
				elapsed += d
				q.adv(d)
			case x < 65 && len(q.held) < maxHeld || n == 0:
				tok++
				q.pick(tok, nil)
			default:
				if len(q.held) == 0 {
					continue
				}
				keys := make([]int, 0, len(q.held))
				for k := 1; k <= tok; k++ {
					if q.held[k] != nil {
						keys = append(keys, k)
					}
				}
				k := keys[r.Intn(len(keys))]
				if r.Float64() < pfail {
					q.done(k, verifExtp2cBad[r.Intn(len(verifExtp2cBad))])
				} else {
					q.done(k, verifExtp2cGood[r.Intn(len(verifExtp2cGood))])
				}
			}
		}
	}
}

// ---- concurrent recording ----

type verifExtp2cTok struct {
	id   int
	done func(balancer.DoneInfo)
}

// TestVerifExtp2cConcurrent: rounds of parallel Pick / done at a standing clock; between the rounds
// (everything has returned) the state is logged and the clock moves.  Round kinds: "mix" (every worker
// alternates Pick and done, logging around each call), "bpick" / "bdone" (every worker logs the starts
// of a batch of calls, waits at a gate until all workers are ready, performs the batch back to back and
// logs the ends: many calls truly in parallel), and a final drain.  Every third recording is a
// "statistics race": rounds of one Pick per worker, the clock moved past logInterval, then one
// done-callback per worker released together -- all of them see the interval expired.
func TestVerifExtp2cConcurrent(t *testing.T) {
	em := verifOpen(t)
	defer em.Close()
	wd := verifExtp2cSetup(t)
	r := verifRand(4203)
	traces := verifEnvInt("VERIF_EXT_P2C_CTRACES", 18)
	batch := verifEnvInt("VERIF_EXT_P2C_BATCH", 24)
	statRounds := verifEnvInt("VERIF_EXT_P2C_STATROUNDS", 100)
	sizes := []int{1, 1, 2, 2, 3, 5, 1, 2, 0}
	gaps := []int64{0, 100, 1000, 1001, 3000, 20000, 60000, 61000}
	for i := 0; i < traces; i++ {
		n := sizes[i%len(sizes)]
		t0 := []int64{0, 5000, 60000, 700000}[r.Intn(4)]
		atomic.StoreInt64(&wd.clk, t0)
		sut := verifExtp2cBuild(t, n, int64(2000+i))
		if sut.p != nil {
			sut.p.r = rand.New(rand.NewSource(verifSeed()*7919 + int64(i)))
		}
		wd.w.set(func(line [][]int64) { em.Emit(verifEv{"e": "stat", "line": line}) })
		em.Emit(verifEv{"e": "reset", "n": n, "t": t0})
		var (
			mu    sync.Mutex
			pool  []verifExtp2cTok
			nextT int64
			nextG int64 = 1000
		)
		take := func(rr *rand.Rand, k int) []verifExtp2cTok {
			mu.Lock()
			defer mu.Unlock()
			var out []verifExtp2cTok
			for ; k > 0 && len(pool) > 0; k-- {
				j := rr.Intn(len(pool))
				out = append(out, pool[j])
				pool[j] = pool[len(pool)-1]
				pool = pool[:len(pool)-1]
			}
			return out
		}
		outcome := func(rr *rand.Rand) string {
			if rr.Intn(100) < 25 {
				return verifExtp2cBad[rr.Intn(len(verifExtp2cBad))]
			}
			return verifExtp2cGood[rr.Intn(len(verifExtp2cGood))]
		}
		// one Pick, logged around the call; g identifies the call
		pickOne := func(g int) {
			res, err := sut.pick()
			if err != nil || n == 0 {
				em.Emit(verifEv{"e": "pnone", "g": g, "err": errors.Is(err, balancer.ErrNoSubConnAvailable)})
				return
			}
			id := int(atomic.AddInt64(&nextT, 1))
			em.Emit(verifEv{"e": "pe", "g": g, "c": sut.idx[res.SubConn], "tok": id})
			mu.Lock()
			pool = append(pool, verifExtp2cTok{id, res.Done})
			mu.Unlock()
		}
		workers := 3 + r.Intn(4)
		obsMax := 150
		type round struct {
			kind string
			k    int   // batch size per worker (0: random)
			gap  int64 // clock step after the round (-1: random)
		}
		plan := []round{{"mix", 0, -1}, {"bpick", 0, -1}, {"bdone", 0, -1}, {"mix", 0, -1}, {"bpick", 0, -1},
			{"bdone", 0, -1}, {"drain", 0, -1}}
		if n == 0 {
			plan = []round{{"mix", 0, -1}, {"bpick", 0, -1}, {"drain", 0, -1}}
		} else if i%3 == 2 {
			plan, obsMax = nil, 2
			for k := 0; k < statRounds; k++ {
				plan = append(plan, round{"bpick", 1, 60000 + int64(r.Intn(3))*500}, round{"bdone", 1, int64(r.Intn(2)) * 100})
			}
			plan = append(plan, round{"drain", 0, -1})
		}
		for rd, rnd := range plan {
			kind := rnd.kind
			var wg sync.WaitGroup
			var stop int32
			// the gate: workers announce they are ready and spin until it opens (a tight simultaneous start;
			// nothing depends on how long that takes)
			var ready sync.WaitGroup
			var gate int32
			wait := func() {
				for k := 1; atomic.LoadInt32(&gate) == 0; k++ {
					if k&4095 == 0 {
						runtime.Gosched()
					}
				}
			}
			ready.Add(workers)
			obsDone := make(chan struct{})
			go func() { // the observer
				defer close(obsDone)
				for k := 0; k < obsMax && atomic.LoadInt32(&stop) == 0; k++ {
					em.Emit(verifEv{"e": "os"})
					inf := []int64{}
					if sut.p != nil {
						for _, c := range sut.p.conns {
							inf = append(inf, atomic.LoadInt64(&c.inflight))
							runtime.Gosched()
						}
					}
					em.Emit(verifEv{"e": "oe", "inf": inf})
					runtime.Gosched()
				}
			}()
			for g := 1; g <= workers; g++ {
				wg.Add(1)
				seed := verifSeed()*104729 + int64(i*1000+rd*50+g)
				go func(g int, rr *rand.Rand) {
					defer wg.Done()
					switch kind {
					case "mix":
						ready.Done()
						ops := 4 + rr.Intn(8)
						for k := 0; k < ops; k++ {
							if rr.Intn(100) < 55 {
								em.Emit(verifEv{"e": "ps", "g": g})
								pickOne(g)
							} else if tks := take(rr, 1); len(tks) == 1 {
								out := outcome(rr)
								em.Emit(verifEv{"e": "ds", "tok": tks[0].id, "err": out})
								tks[0].done(balancer.DoneInfo{Err: verifExtp2cErr(out)})
								em.Emit(verifEv{"e": "de", "tok": tks[0].id})
							}
							if rr.Intn(3) == 0 {
								runtime.Gosched()
							}
						}
					case "bpick":
						k := batch/2 + rr.Intn(batch)
						if rnd.k > 0 {
							k = rnd.k
						}
						gs := make([]int, k)
						for j := range gs {
							gs[j] = int(atomic.AddInt64(&nextG, 1))
							em.Emit(verifEv{"e": "ps", "g": gs[j]})
						}
						ready.Done()
						wait()
						res := make([]balancer.PickResult, k)
						errs := make([]error, k)
						for j := range gs {
							res[j], errs[j] = sut.pick()
						}
						for j := range gs {
							if errs[j] != nil || n == 0 {
								em.Emit(verifEv{"e": "pnone", "g": gs[j], "err": errors.Is(errs[j], balancer.ErrNoSubConnAvailable)})
								continue
							}
							id := int(atomic.AddInt64(&nextT, 1))
							em.Emit(verifEv{"e": "pe", "g": gs[j], "c": sut.idx[res[j].SubConn], "tok": id})
							mu.Lock()
							pool = append(pool, verifExtp2cTok{id, res[j].Done})
							mu.Unlock()
						}
					case "bdone", "drain":
						k := batch/2 + rr.Intn(batch)
						if rnd.k > 0 {
							k = rnd.k
						}
						if kind == "drain" {
							k = 1 << 20
						}
						tks := take(rr, k)
						outs := make([]string, len(tks))
						for j, tk := range tks {
							outs[j] = outcome(rr)
							em.Emit(verifEv{"e": "ds", "tok": tk.id, "err": outs[j]})
						}
						ready.Done()
						wait()
						for j, tk := range tks {
							tk.done(balancer.DoneInfo{Err: verifExtp2cErr(outs[j])})
						}
						for _, tk := range tks {
							em.Emit(verifEv{"e": "de", "tok": tk.id})
						}
					}
				}(g, rand.New(rand.NewSource(seed)))
			}
			ready.Wait()
			atomic.StoreInt32(&gate, 1)
			wg.Wait()
			atomic.StoreInt32(&stop, 1)
			<-obsDone
			if kind == "drain" { // whatever the workers left (tokens are split unevenly)
				for _, tk := range take(r, 1<<20) {
					em.Emit(verifEv{"e": "ds", "tok": tk.id, "err": "nil"})
					tk.done(balancer.DoneInfo{})
					em.Emit(verifEv{"e": "de", "tok": tk.id})
				}
			}
			em.Emit(verifEv{"e": "quiet", "st": sut.state(), "stamp": sut.stamp()})
			d := rnd.gap
			if d < 0 {
				d = gaps[r.Intn(len(gaps))]
			}
			atomic.AddInt64(&wd.clk, d)
			em.Emit(verifEv{"e": "adv", "d": d})
		}
	}
}
