//go:build verif

package clientinterceptors

// C04 driver (zRPC client): the real TimeoutInterceptor with its default timeout and the
// per-call WithCallTimeout option; the invoker records the context it was given. Only the
// deadline clause of the property applies to this wrapper (it runs the invoker inline).
// The verdict comes from TLC (specs/timeout/Timeout.tla).

import (
	"context"
	"encoding/json"
	"errors"
	"sync"
	"testing"
	"time"

	"google.golang.org/grpc"
)

type c04Op struct {
	Op  string `json:"op"`
	Val int    `json:"val"`
	Err string `json:"err"`
}

type c04Cfg struct {
	def     time.Duration // interceptor default
	call    time.Duration // WithCallTimeout value
	hasCall bool
	pdl     time.Duration // caller deadline relative to the start; 0 none
}

const (
	c04Short = 40 * time.Millisecond
	c04Huge  = 1000 * time.Second
)

var errC04W7 = errors.New("c04-w7")

func c04Floor(d time.Duration) int { return int(d / time.Microsecond) }
func c04Ceil(d time.Duration) int  { return int((d + time.Microsecond - 1) / time.Microsecond) }

func (c c04Cfg) effective() time.Duration {
	t := c.def
	if c.hasCall {
		t = c.call
	}
	if t < 0 {
		t = 0
	}
	return t
}

func c04Call(t *testing.T, em *verifEmitter, cfg c04Cfg, script []c04Op) {
	var mu sync.Mutex
	var evs []verifEv
	emit := func(ev verifEv) { mu.Lock(); evs = append(evs, ev); mu.Unlock() }
	defer func() {
		em.mu.Lock()
		defer em.mu.Unlock()
		for _, ev := range evs {
			b, _ := json.Marshal(ev)
			em.w.Write(b)
			em.w.WriteByte('\n')
			em.n++
		}
	}()

	base := time.Now()
	parent := context.Background()
	pdl := -1
	if cfg.pdl > 0 {
		c, cf := context.WithDeadline(parent, base.Add(cfg.pdl))
		defer cf()
		parent, pdl = c, c04Floor(cfg.pdl)
	}
	parent, parentCancel := context.WithCancel(parent)
	defer parentCancel()

	invoker := func(ctx context.Context, method string, req, reply any, cc *grpc.ClientConn,
		opts ...grpc.CallOption) error {
		dl, has := ctx.Deadline()
		now := c04Ceil(time.Since(base))
		d := 0
		if has {
			d = c04Floor(dl.Sub(base))
		}
		emit(verifEv{"e": "ctx", "has": has, "dl": d, "now": now})
		for _, op := range script {
			switch op.Op {
			case "await": // inline wrapper: nothing to wait for without blocking the caller
				emit(verifEv{"e": "await"})
			case "cancel":
				emit(verifEv{"e": "cancel"})
				parentCancel()
			case "ret", "ignore":
				if op.Op == "ignore" {
					emit(verifEv{"e": "ignore"})
					op.Err = "nil"
				}
				var err error
				if op.Err == "w7" {
					err = errC04W7
				}
				emit(verifEv{"e": "ret", "val": -1, "err": op.Err})
				return err
			case "panic":
				emit(verifEv{"e": "panic"})
				panic("c04 worker panic")
			}
		}
		return nil
	}
	var opts []grpc.CallOption
	if cfg.hasCall {
		opts = append(opts, WithCallTimeout(cfg.call))
	}
	icpt := TimeoutInterceptor(cfg.def)
	// the settings as they are (interceptor default, per-call option); which timeout they amount to is
	// decided by Layer P (Timeout.tla, TmoChoices)
	ov := []int{}
	if cfg.hasCall {
		ov = append(ov, c04Floor(cfg.call))
	}
	emit(verifEv{"e": "reset", "kind": "rpcc", "glob": c04Floor(cfg.def), "ov": ov, "mw": true, "pdl": pdl,
		"exempt": false, "s0": c04Floor(time.Since(base))})
	pan := false
	var err error
	func() {
		defer func() {
			if p := recover(); p != nil {
				pan = true
			}
		}()
		err = icpt(parent, "/c04.Svc/Call", "req", "reply", nil, invoker, opts...)
	}()
	name := "other"
	switch {
	case err == nil:
		name = "nil"
	case errors.Is(err, errC04W7):
		name = "w7"
	case errors.Is(err, context.DeadlineExceeded):
		name = "deadline"
	case errors.Is(err, context.Canceled):
		name = "canceled"
	}
	none := []int{}
	emit(verifEv{"e": "returned", "pan": pan, "val": -1, "err": name, "ctxerr": "na",
		"s1": c04Floor(time.Since(base)), "code": 0, "hdr": none, "bt": none, "n": 0})
	emit(verifEv{"e": "final", "code": 0, "hdr": none, "bt": none, "n": 0})
}

var c04Cfgs = []c04Cfg{
	{def: c04Short},
	{def: c04Short, pdl: 10 * time.Second},
	{def: c04Huge, pdl: c04Short},
	{def: c04Short, pdl: c04Huge}, // the caller's deadline is far later than now+timeout
	{def: c04Huge, call: c04Short, hasCall: true},                  // per-call shorter than the default
	{def: c04Short, call: c04Huge, hasCall: true},                  // per-call longer than the default
	{def: c04Short, call: c04Huge, hasCall: true, pdl: c04Short},   // ... but the caller bounds it
	{def: 0},                                                       // no timeout configured
	{def: 0, pdl: c04Short},
	{def: c04Short, call: 0, hasCall: true},                        // per-call "no timeout"
	{def: c04Short, call: 0, hasCall: true, pdl: 10 * time.Second},
	{def: 0, call: 25 * time.Millisecond, hasCall: true},
	{def: -time.Second},
}

func TestVerifC04RpcClient(t *testing.T) {
	em := verifOpen(t)
	defer em.Close()
	var scripts [][]c04Op
	for _, raw := range verifInput(t) {
		var s []c04Op
		if err := json.Unmarshal(raw, &s); err != nil {
			t.Fatal(err)
		}
		scripts = append(scripts, s)
	}
	if len(scripts) == 0 {
		t.Fatal("c04: no scripts")
	}
	for _, cfg := range c04Cfgs {
		for _, s := range scripts {
			c04Call(t, em, cfg, s)
		}
	}
}
