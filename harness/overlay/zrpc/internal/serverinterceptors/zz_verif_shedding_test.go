//go:build verif

package serverinterceptors

// C02 driver (thorough tier): calls go through the real UnarySheddingInterceptor in front of a
// real adaptive shedder (cpu threshold 0: the real systemOverloadChecker always reports
// overload). A recording wrapper around the shedder logs every Allow / Pass / Fail the
// middleware performs; the next handler is gated by the driver, so many requests can be
// parked in flight while exactly one thing happens at a time. No expectations here.

import (
	"context"
	"errors"
	"fmt"
	"reflect"
	"sync"
	"sync/atomic"
	"testing"
	"time"

	"github.com/zeromicro/go-zero/core/load"
	"github.com/zeromicro/go-zero/core/logx"
	"github.com/zeromicro/go-zero/core/stat"
	"github.com/zeromicro/go-zero/core/timex"
	"google.golang.org/grpc"
	"google.golang.org/grpc/codes"
	"google.golang.org/grpc/status"
)

const c02Base = 1000 * time.Hour

var c02Rel int64 // microseconds since the shedder was created

// c02Rec wraps the real shedder and logs what the middleware does with it.
type c02Rec struct {
	t      *testing.T
	em     *verifEmitter
	inner  load.Shedder
	mu     sync.Mutex
	next   int
	lastID int // id of the promise handed out by the latest Allow, 0 if it was shed
}

type c02Promise struct {
	r  *c02Rec
	id int
	p  load.Promise
}

func (r *c02Rec) peek() (int64, int64) {
	v := reflect.ValueOf(r.inner)
	if v.Kind() != reflect.Ptr || v.Elem().Kind() != reflect.Struct {
		return -1, -1
	}
	f, a := v.Elem().FieldByName("flying"), v.Elem().FieldByName("avgFlying")
	if !f.IsValid() || !a.IsValid() {
		r.t.Fatalf("adaptiveShedder has no flying/avgFlying fields any more")
	}
	return f.Int(), int64(a.Float() * 1000)
}

func (r *c02Rec) Allow() (load.Promise, error) {
	p, err := r.inner.Allow()
	fly, avg := r.peek()
	r.mu.Lock()
	defer r.mu.Unlock()
	if err != nil {
		r.lastID = 0
		r.em.Emit(verifEv{"e": "allow", "ov": true, "shed": true, "id": 0, "fly": fly, "avg": avg})
		return nil, err
	}
	r.next++
	r.lastID = r.next
	r.em.Emit(verifEv{"e": "allow", "ov": true, "shed": false, "id": r.next, "fly": fly, "avg": avg})
	return &c02Promise{r: r, id: r.next, p: p}, nil
}

func (p *c02Promise) Pass() {
	p.p.Pass()
	fly, avg := p.r.peek()
	p.r.em.Emit(verifEv{"e": "pass", "id": p.id, "fly": fly, "avg": avg})
}

func (p *c02Promise) Fail() {
	p.p.Fail()
	fly, avg := p.r.peek()
	p.r.em.Emit(verifEv{"e": "fail", "id": p.id, "fly": fly, "avg": avg})
}

type c02Req struct {
	id      int         // promise id (0: shed)
	release chan string // what the parked handler should do
	done    chan [2]string
}

func TestVerifC02Interceptor(t *testing.T) {
	em := verifOpen(t)
	defer em.Close()
	logx.Disable()
	stat.SetReporter(nil)
	timex.VerifNow = func() time.Duration {
		return c02Base + time.Duration(atomic.LoadInt64(&c02Rel))*time.Microsecond
	}
	defer func() { timex.VerifNow = nil }()
	rnd := verifRand(6)
	metrics := stat.NewMetrics("c02")
	type geo struct {
		nb int
		bd int64
	}
	geos := []geo{{3, 500000}, {4, 1000000}, {10, 100000}, {5, 20000}}
	runs := 12
	if verifThorough() {
		runs = 60
	}
	errOther := errors.New("c02 other error")
	for run := 0; run < runs; run++ {
		g := geos[rnd.Intn(len(geos))]
		atomic.StoreInt64(&c02Rel, 0)
		inner := load.NewAdaptiveShedder(load.WithBuckets(g.nb),
			load.WithWindow(time.Duration(g.bd)*time.Microsecond*time.Duration(g.nb)), load.WithCpuThreshold(0))
		rec := &c02Rec{t: t, em: em, inner: inner}
		em.Emit(verifEv{"e": "reset", "kind": "adaptive", "nb": g.nb, "bd": g.bd, "strict": true, "thr": 0})
		entered := make(chan *c02Req, 1)
		var cur *c02Req
		handler := func(ctx context.Context, req any) (any, error) {
			q := cur
			entered <- q
			switch what := <-q.release; what {
			case "deadline":
				return nil, context.DeadlineExceeded
			case "wrapped":
				return nil, fmt.Errorf("c02 wrapped: %w", context.DeadlineExceeded)
			case "err":
				return nil, errOther
			case "status":
				return nil, status.Error(codes.Unavailable, "c02 unavailable")
			case "panic":
				panic("c02 handler panic")
			}
			return "ok", nil
		}
		ic := UnarySheddingInterceptor(rec, metrics)
		var parked []*c02Req
		start := func() {
			q := &c02Req{release: make(chan string, 1), done: make(chan [2]string, 1)}
			cur = q
			go func() {
				pan, res := "", ""
				func() {
					defer func() {
						if r := recover(); r != nil {
							pan = fmt.Sprint(r)
						}
					}()
					_, err := ic(context.Background(), nil, &grpc.UnaryServerInfo{FullMethod: "/c02"}, handler)
					if err != nil {
						res = status.Code(err).String() + ": " + err.Error()
					}
				}()
				q.done <- [2]string{res, pan}
			}()
			select {
			case <-entered:
				q.id = rec.lastID
				parked = append(parked, q)
			case d := <-q.done:
				em.Emit(verifEv{"e": "hend", "id": 0, "out": "shed", "code": d[0]})
			case <-time.After(20 * time.Second):
				t.Fatal("call neither reached the handler nor returned")
			}
		}
		finish := func(i int, what string) {
			q := parked[i]
			parked = append(parked[:i], parked[i+1:]...)
			q.release <- what
			select {
			case d := <-q.done:
				out := what
				if what == "wrapped" {
					out = "deadline"
				}
				if what == "status" {
					out = "err"
				}
				if what == "panic" && d[1] == "" {
					out = "nopanic"
				}
				em.Emit(verifEv{"e": "hend", "id": q.id, "out": out, "code": d[0]})
			case <-time.After(20 * time.Second):
				t.Fatal("released call did not return")
			}
		}
		outcomes := []string{"ok", "ok", "ok", "ok", "deadline", "wrapped", "err", "status", "panic"}
		target := 2 + rnd.Intn(6)
		for step := 0; step < 120+rnd.Intn(120); step++ {
			if rnd.Intn(25) == 0 {
				target = 1 + rnd.Intn(8)
			}
			switch x := rnd.Intn(10); {
			case x < 2:
				d := []int64{0, int64(rnd.Intn(1000)), int64(1000 * (1 + rnd.Intn(40))), g.bd - atomic.LoadInt64(&c02Rel)%g.bd,
					g.bd + int64(rnd.Intn(3)) - 1, g.bd * int64(g.nb), int64(1000 * (200 + rnd.Intn(1500)))}[rnd.Intn(7)]
				em.Emit(verifEv{"e": "adv", "t": atomic.AddInt64(&c02Rel, d)})
			case len(parked) <= target && x < 7:
				start()
			default:
				if len(parked) > 0 {
					finish(rnd.Intn(len(parked)), outcomes[rnd.Intn(len(outcomes))])
				}
			}
		}
		for len(parked) > 0 {
			finish(0, outcomes[rnd.Intn(len(outcomes))])
		}
	}
}
