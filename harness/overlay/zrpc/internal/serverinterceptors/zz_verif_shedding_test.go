//go:build verif

package serverinterceptors

// C02 driver (thorough tier): calls go through the real UnarySheddingInterceptor in front of a
// real adaptive shedder (CPU verdict injected, virtual clock). A recording wrapper around the
// shedder logs every Allow / Pass / Fail the middleware performs; the next handler is gated by
// the driver, so many requests can be parked in flight while exactly one thing happens at a
// time. No expectations here: TLC validates the trace against specs/shedder/Shedder.tla
// (events: reset adv allow pass fail hend -- hend{id}: the request that holds promise id has
// returned to its caller, id 0: it was shed).

import (
	"context"
	"errors"
	"fmt"
	"sync"
	"sync/atomic"
	"testing"
	"time"

	"github.com/zeromicro/go-zero/core/load"
	"github.com/zeromicro/go-zero/core/logx"
	"github.com/zeromicro/go-zero/core/stat"
	"github.com/zeromicro/go-zero/core/timex"
	"google.golang.org/grpc"
	"google.golang.org/grpc/codes"
	"google.golang.org/grpc/status"
)

const c02Base = 1000 * time.Hour

var (
	c02Rel atomic.Int64 // ms since the shedder was created
	c02Ov  atomic.Bool
)

// c02Rec wraps the real shedder and logs what the middleware does with it.
type c02Rec struct {
	em     *verifEmitter
	inner  load.Shedder
	mu     sync.Mutex
	next   int
	lastID int // id of the promise handed out by the latest Allow, 0 if it was shed
}

type c02Promise struct {
	r  *c02Rec
	id int
	p  load.Promise
}

func (r *c02Rec) Allow() (load.Promise, error) {
	ov := c02Ov.Load()
	p, err := r.inner.Allow()
	fly, avg, _ := load.VerifC02Peek(r.inner)
	r.mu.Lock()
	defer r.mu.Unlock()
	r.next++
	if err != nil {
		r.lastID = 0
		r.em.Emit(verifEv{"e": "allow", "id": r.next, "ov": ov, "shed": true, "fly": fly, "avg": avg})
		return nil, err
	}
	r.lastID = r.next
	r.em.Emit(verifEv{"e": "allow", "id": r.next, "ov": ov, "shed": false, "fly": fly, "avg": avg})
	return &c02Promise{r: r, id: r.next, p: p}, nil
}

func (p *c02Promise) Pass() {
	p.p.Pass()
	fly, avg, _ := load.VerifC02Peek(p.r.inner)
	p.r.em.Emit(verifEv{"e": "pass", "id": p.id, "fly": fly, "avg": avg})
}

func (p *c02Promise) Fail() {
	p.p.Fail()
	fly, avg, _ := load.VerifC02Peek(p.r.inner)
	p.r.em.Emit(verifEv{"e": "fail", "id": p.id, "fly": fly, "avg": avg})
}

type c02Req struct {
	id      int         // promise id (0: shed)
	release chan string // what the parked handler should do
	done    chan struct{}
}

func TestVerifC02Interceptor(t *testing.T) {
	em := verifOpen(t)
	defer em.Close()
	logx.Disable()
	stat.SetReporter(nil)
	timex.VerifNow = func() time.Duration {
		return c02Base + time.Duration(c02Rel.Load())*time.Millisecond
	}
	defer func() { timex.VerifNow = nil }()
	defer load.VerifC02SetOverload(func() bool { return c02Ov.Load() })()
	rnd := verifRand(6)
	metrics := stat.NewMetrics("c02")
	type geo struct {
		nb  int
		bd  int64
		thr int64
	}
	geos := []geo{{3, 500, -1000000000}, {4, 1000, 999}, {10, 100, -1000000000}, {5, 20, 500}}
	runs := verifEnvInt("VERIF_C02_WHIST", 40)
	errOther := errors.New("c02 other error")
	for run := 0; run < runs; run++ {
		g := geos[rnd.Intn(len(geos))]
		c02Rel.Store(0)
		inner := load.NewAdaptiveShedder(load.WithBuckets(g.nb),
			load.WithWindow(time.Duration(g.bd)*time.Millisecond*time.Duration(g.nb)), load.WithCpuThreshold(g.thr))
		rec := &c02Rec{em: em, inner: inner}
		em.Emit(verifEv{"e": "reset", "kind": "adaptive", "nb": g.nb, "bd": g.bd})
		entered := make(chan *c02Req, 1)
		var cur *c02Req
		handler := func(ctx context.Context, req any) (any, error) {
			q := cur
			entered <- q
			switch what := <-q.release; what {
			case "deadline":
				return nil, context.DeadlineExceeded
			case "wrapped":
				return nil, fmt.Errorf("c02 wrapped: %w", context.DeadlineExceeded)
			case "err":
				return nil, errOther
			case "status":
				return nil, status.Error(codes.Unavailable, "c02 unavailable")
			case "panic":
				panic("c02 handler panic")
			}
			return "ok", nil
		}
		ic := UnarySheddingInterceptor(rec, metrics)
		var parked []*c02Req
		start := func() {
			q := &c02Req{release: make(chan string, 1), done: make(chan struct{})}
			cur = q
			go func() {
				defer close(q.done)
				defer func() { recover() }()
				ic(context.Background(), nil, &grpc.UnaryServerInfo{FullMethod: "/c02"}, handler)
			}()
			select {
			case <-entered:
				q.id = rec.lastID
				parked = append(parked, q)
			case <-q.done:
				em.Emit(verifEv{"e": "hend", "id": 0})
			case <-time.After(60 * time.Second):
				t.Fatal("call neither reached the handler nor returned")
			}
		}
		finish := func(i int, what string) {
			q := parked[i]
			parked = append(parked[:i], parked[i+1:]...)
			q.release <- what
			select {
			case <-q.done:
				em.Emit(verifEv{"e": "hend", "id": q.id})
			case <-time.After(60 * time.Second):
				t.Fatal("released call did not return")
			}
		}
		outcomes := []string{"ok", "ok", "ok", "ok", "deadline", "wrapped", "err", "status", "panic"}
		target := 2 + rnd.Intn(6)
		pOv := rnd.Intn(3)
		lastOv := int64(-1)
		for step := 0; step < 150+rnd.Intn(150); step++ {
			if rnd.Intn(25) == 0 {
				target = 1 + rnd.Intn(12)
				pOv = rnd.Intn(3)
			}
			switch x := rnd.Intn(10); {
			case x < 2:
				now := c02Rel.Load()
				d := []int64{1, 1 + int64(rnd.Intn(40)), g.bd - now%g.bd, g.bd + int64(rnd.Intn(3)) - 1,
					g.bd * int64(g.nb), 200 + int64(rnd.Intn(1500)), lastOv + 999 + int64(rnd.Intn(3)) - now}[rnd.Intn(7)]
				if d < 1 {
					d = 1
				}
				c02Rel.Add(d)
				em.Emit(verifEv{"e": "adv", "d": d})
			case len(parked) <= target && x < 7:
				ov := pOv == 2 || pOv == 1 && rnd.Intn(2) == 0
				c02Ov.Store(ov)
				if ov {
					lastOv = c02Rel.Load()
				}
				start()
			default:
				if len(parked) > 0 {
					finish(rnd.Intn(len(parked)), outcomes[rnd.Intn(len(outcomes))])
				}
			}
		}
		for len(parked) > 0 {
			finish(0, outcomes[rnd.Intn(len(outcomes))])
		}
	}
}
