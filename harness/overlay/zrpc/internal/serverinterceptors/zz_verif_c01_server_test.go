//go:build verif

package serverinterceptors

// C01 thorough tier: the zRPC server breaker interceptors (unary: DoWithAcceptableCtx,
// stream: DoWithAcceptable, both with serverSideAcceptable) driven through histories under
// the virtual clock; same events and specification as the core breaker. The tables below
// instantiate this wrapper's acceptability predicate; a reject reaches the caller as a
// status error with code Unavailable carrying breaker.ErrServiceUnavailable's text.

import (
	"context"
	"errors"
	"fmt"
	"math/rand"
	"sync"
	"sync/atomic"
	"testing"
	"time"

	"github.com/zeromicro/go-zero/core/breaker"
	"github.com/zeromicro/go-zero/core/timex"
	"google.golang.org/grpc"
	"google.golang.org/grpc/codes"
	"google.golang.org/grpc/status"
)

// ---- shared C01 wrapper harness (same text in every wrapper driver) ----

var c01wClock atomic.Int64

type c01wSrc struct {
	mode atomic.Int32
	mu   sync.Mutex
	rnd  *rand.Rand
}

func (s *c01wSrc) Seed(int64) {}
func (s *c01wSrc) Int63() int64 {
	switch s.mode.Load() {
	case 0:
		return 0
	case 1:
		return (1<<63 - 1) &^ (1<<10 - 1)
	}
	s.mu.Lock()
	v := s.rnd.Int63()
	s.mu.Unlock()
	return v
}

type c01wH struct {
	t   *testing.T
	em  *verifEmitter
	b   breaker.Breaker
	src *c01wSrc
	t0  int64
	id  int
}

const c01wMs = int64(time.Millisecond)

func c01wInstall() func() {
	timex.VerifNow = func() time.Duration { return time.Duration(c01wClock.Load()) }
	return func() { timex.VerifNow = nil }
}

func c01wStart(t *testing.T, em *verifEmitter, rnd *rand.Rand) *c01wH {
	t0 := 3600000 + int64(rnd.Intn(100000))
	c01wClock.Store(t0 * c01wMs)
	return &c01wH{t: t, em: em, t0: t0}
}

// attach is called once the wrapper's breaker exists (created at the current virtual time)
func (h *c01wH) attach(b breaker.Breaker, seed int64) {
	h.b = b
	h.src = &c01wSrc{rnd: rand.New(rand.NewSource(seed))}
	h.src.mode.Store(2)
	fair := false
	if err := breaker.VerifC01Steer(b, h.src); err != nil {
		// the coin cannot be loaded on this tree (internals changed): the breaker's own source decides
		h.src, fair = nil, true
	}
	h.em.Emit(verifEv{"e": "reset", "t": h.t0, "fair": fair, "eager": false})
	h.obs()
}

func (h *c01wH) obs() {
	if w, err := breaker.VerifC01Sums(h.b); err == nil {
		h.em.Emit(verifEv{"e": "obs", "w": w})
	}
}

func (h *c01wH) adv(d int) {
	if d > 0 {
		c01wClock.Add(int64(d) * c01wMs)
		h.em.Emit(verifEv{"e": "adv", "d": d})
		h.obs()
	}
}

func (h *c01wH) gap(rnd *rand.Rand) int {
	switch x := rnd.Intn(100); {
	case x < 55:
		return 0
	case x < 70:
		return 1 + rnd.Intn(60)
	case x < 80:
		to := 250 - int((c01wClock.Load()/c01wMs-h.t0)%250)
		return to - 1 + rnd.Intn(3)
	case x < 90:
		return []int{999, 1000, 1001, 1250}[rnd.Intn(4)]
	case x < 97:
		return []int{9749, 9750, 9751, 9999, 10000, 10001, 10250}[rnd.Intn(7)]
	}
	return 10000 + rnd.Intn(20000)
}

// phases of outcomes: returns "ok" | "accErr" | "err" | "panic"
type c01wPhase struct{ pOK, pAcc, pPanic, left, pref int }

func (p *c01wPhase) next(rnd *rand.Rand) (string, int) {
	if p.left <= 0 {
		p.pOK = []int{0, 0, 10, 50, 90, 100}[rnd.Intn(6)]
		p.pAcc = []int{0, 10, 30}[rnd.Intn(3)]
		p.pref = []int{0, 0, 0, 1, 2}[rnd.Intn(5)]
		p.left = 5 + rnd.Intn(60)
	}
	p.left--
	x := rnd.Intn(100)
	switch {
	case x < p.pOK:
		return "ok", p.pref
	case x < p.pOK+p.pAcc:
		return "accErr", p.pref
	case x < p.pOK+p.pAcc+p.pPanic:
		return "panic", p.pref
	}
	return "err", p.pref
}

var c01wBad = []codes.Code{codes.DeadlineExceeded, codes.Internal, codes.Unavailable, codes.DataLoss,
	codes.Unimplemented, codes.ResourceExhausted}
var c01wFine = []codes.Code{codes.NotFound, codes.InvalidArgument, codes.AlreadyExists, codes.PermissionDenied,
	codes.Canceled, codes.Unknown, codes.Aborted, codes.Unauthenticated, codes.FailedPrecondition, codes.OutOfRange}

func TestVerifC01ServerInterceptors(t *testing.T) {
	em := verifOpen(t)
	defer em.Close()
	defer c01wInstall()()
	rnd := verifRand(43)
	histories, length := verifEnvInt("VERIF_C01_WHIST", 20), verifEnvInt("VERIF_C01_WLEN", 300)
	for hi := 0; hi < histories; hi++ {
		stream := hi%2 == 1
		h := c01wStart(t, em, rnd)
		method := fmt.Sprintf("/c01.server/%d/%d", verifSeed(), hi)
		h.attach(breaker.GetBreaker(method), int64(hi))
		ph := &c01wPhase{pPanic: 3}
		for n := 0; n < length; n++ {
			h.adv(h.gap(rnd))
			out, pref := ph.next(rnd)
			if h.src != nil {
				h.src.mode.Store(int32(pref))
			}
			h.id++
			id := h.id
			var inj error
			switch out {
			case "err":
				if rnd.Intn(5) == 0 {
					inj = context.DeadlineExceeded
				} else {
					inj = status.Error(c01wBad[rnd.Intn(len(c01wBad))], "c01")
				}
			case "accErr":
				if rnd.Intn(4) == 0 {
					inj = errors.New("c01 plain error")
				} else {
					inj = status.Error(c01wFine[rnd.Intn(len(c01wFine))], "c01")
				}
			}
			panv := &struct{ id int }{id}
			ctxKind := "none"
			ctx := context.Background()
			if !stream {
				ctxKind = "live"
				if rnd.Intn(12) == 0 {
					ctxKind = "done"
					c2, cancel := context.WithCancel(ctx)
					cancel()
					ctx = c2
				}
			}
			em.Emit(verifEv{"e": "callStart", "c": id, "api": "doAcc", "ctx": ctxKind, "acc": []string{"ok", "accErr"}})
			body := func() error {
				em.Emit(verifEv{"e": "reqStart", "c": id})
				em.Emit(verifEv{"e": "reqEnd", "c": id, "out": out})
				if out == "panic" {
					panic(panv)
				}
				return inj
			}
			pan := "no"
			var err error
			func() {
				defer func() {
					if r := recover(); r != nil {
						pan = "other"
						if r == any(panv) {
							pan = "same"
						}
					}
				}()
				if stream {
					err = StreamBreakerInterceptor(nil, nil, &grpc.StreamServerInfo{FullMethod: method},
						func(srv any, stream grpc.ServerStream) error { return body() })
				} else {
					_, err = UnaryBreakerInterceptor(ctx, nil, &grpc.UnaryServerInfo{FullMethod: method},
						func(ctx context.Context, req any) (any, error) { return nil, body() })
				}
			}()
			ret := "other"
			switch {
			case pan != "no":
				ret = "none"
			case err == nil:
				ret = "nil"
			case inj != nil && err == inj:
				ret = "same"
			case status.Code(err) == codes.Unavailable && status.Convert(err).Message() == breaker.ErrServiceUnavailable.Error():
				ret = "unavail"
			case err == ctx.Err():
				ret = "ctx"
			}
			em.Emit(verifEv{"e": "callEnd", "c": id, "ret": ret, "pan": pan})
			h.obs()
		}
	}
}
