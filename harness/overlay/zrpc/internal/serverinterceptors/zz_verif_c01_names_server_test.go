//go:build verif

package serverinterceptors

// C01 thorough tier, by-name entry points through the zRPC server breaker interceptors
// (unary and stream): concurrent first use of fresh method names. Validated by TLC against
// specs/breaker/BreakerNamesTrace.tla. Uses the harness of zz_verif_c01_server_test.go.

import (
	"context"
	"fmt"
	"math/rand"
	"os"
	"runtime"
	"sort"
	"sync"
	"sync/atomic"
	"testing"

	"github.com/zeromicro/go-zero/core/breaker"
	"google.golang.org/grpc"
	"google.golang.org/grpc/codes"
	"google.golang.org/grpc/status"
)

// ---- shared C01 by-name burst harness (same text in both zRPC wrapper drivers) ----
// Rounds of truly parallel calls through the interceptor on method names nobody has used
// before (the interceptor reaches its breaker through breaker.Do*(name, ...)), all goroutines
// leaving a spin barrier together; all calls of a round succeed or all fail, clock fixed
// (the eager placement of BreakerTrace.tla). Afterwards: which breaker the registry returns
// for every name (get{n,i}) and its window (obs{n,w}). One trace per (round, name).

type c01nStamped struct {
	n   int64
	ev  verifEv
	brk breaker.Breaker
}

// mk(name, id, good, choice, emit) returns the function that performs one call through the
// interceptor and emits its events through emit.
type c01nMk func(name string, id int, good bool, choice int, emit func(verifEv)) func()

func c01nRounds(t *testing.T, em *verifEmitter, rnd *rand.Rand, prefix string, mk c01nMk) {
	if runtime.GOMAXPROCS(0) < 4 {
		defer runtime.GOMAXPROCS(runtime.GOMAXPROCS(4))
	}
	rounds, maxG := verifEnvInt("VERIF_C01_NROUNDS", 200), verifEnvInt("VERIF_C01_NG", 8)
	nextID := 0
	for r := 0; r < rounds; r++ {
		good := rnd.Intn(2) == 0
		K := []int{1, 1, 2, 2, 3}[rnd.Intn(5)]
		G := 2*K + rnd.Intn(maxG-2*K+1)
		names := make([]string, K)
		for k := range names {
			names[k] = fmt.Sprintf("/%s/%d/%d/%d/m%d", prefix, verifSeed(), os.Getpid(), r, k)
		}
		t0 := 3600000 + int64(rnd.Intn(100000))
		c01wClock.Store(t0 * c01wMs)
		var seq atomic.Int64
		bufs := make([][]c01nStamped, G)
		work := make([][]func(), G)
		used := make([][]string, G)
		for g := 0; g < G; g++ {
			g := g
			emit := func(ev verifEv) { bufs[g] = append(bufs[g], c01nStamped{n: seq.Add(1), ev: ev}) }
			per := 1 + rnd.Intn(2)
			for k := 0; k < per; k++ {
				name := names[g%K]
				if k > 0 {
					name = names[rnd.Intn(K)]
				}
				nextID++
				emitN := func(ev verifEv) { ev["n"] = name; emit(ev) }
				work[g] = append(work[g], mk(name, nextID, good, rnd.Intn(1<<20), emitN))
				if k == 0 || name != used[g][0] {
					used[g] = append(used[g], name)
				}
			}
		}
		var arrived atomic.Int32
		var done sync.WaitGroup
		for g := 0; g < G; g++ {
			g := g
			done.Add(1)
			go func() {
				defer done.Done()
				arrived.Add(1)
				for arrived.Load() < int32(G) {
					runtime.Gosched()
				}
				for _, f := range work[g] {
					f()
				}
				for _, name := range used[g] {
					b := breaker.GetBreaker(name)
					bufs[g] = append(bufs[g], c01nStamped{n: seq.Add(1), ev: verifEv{"e": "get", "n": name}, brk: b})
				}
			}()
		}
		done.Wait()
		var all []c01nStamped
		for _, b := range bufs {
			all = append(all, b...)
		}
		sort.Slice(all, func(i, j int) bool { return all[i].n < all[j].n })
		ident := map[breaker.Breaker]int{}
		id := func(b breaker.Breaker) int {
			if _, ok := ident[b]; !ok {
				ident[b] = len(ident) + 1
			}
			return ident[b]
		}
		evs := make([]verifEv, 0, len(all)+2*K)
		for _, x := range all {
			if x.brk != nil {
				x.ev["i"] = id(x.brk)
			}
			evs = append(evs, x.ev)
		}
		for _, name := range names {
			b := breaker.GetBreaker(name)
			evs = append(evs, verifEv{"e": "get", "n": name, "i": id(b)})
			if w, err := breaker.VerifC01Sums(b); err == nil {
				evs = append(evs, verifEv{"e": "obs", "n": name, "w": w})
			}
		}
		for _, name := range names {
			em.Emit(verifEv{"e": "reset", "t": t0, "fair": false, "eager": true, "focus": name})
			for _, ev := range evs {
				em.Emit(ev)
			}
		}
	}
}

func TestVerifC01ServerNames(t *testing.T) {
	em := verifOpen(t)
	defer em.Close()
	defer c01wInstall()()
	c01nRounds(t, em, verifRand(49), "c01.server.names", func(name string, id int, good bool, choice int, emit func(verifEv)) func() {
		out := "ok"
		var inj error
		switch {
		case good && choice%3 == 0:
			out, inj = "accErr", status.Error(c01wFine[choice%len(c01wFine)], "c01")
		case !good && choice%5 == 0:
			out = "panic"
		case !good && choice%5 == 1:
			out, inj = "err", context.DeadlineExceeded
		case !good:
			out, inj = "err", status.Error(c01wBad[choice%len(c01wBad)], "c01")
		}
		stream := (choice>>8)%2 == 1
		panv := &struct{ id int }{id}
		return func() {
			ctx := context.Background()
			ctxKind := "live"
			if stream {
				ctxKind = "none"
			} else if (choice>>12)%8 == 0 { // a context that is already done: the call touches nothing
				ctxKind = "done"
				c2, cancel := context.WithCancel(ctx)
				cancel()
				ctx = c2
			}
			emit(verifEv{"e": "callStart", "c": id, "api": "doAcc", "ctx": ctxKind, "acc": []string{"ok", "accErr"}})
			body := func() error {
				emit(verifEv{"e": "reqStart", "c": id})
				emit(verifEv{"e": "reqEnd", "c": id, "out": out})
				if out == "panic" {
					panic(panv)
				}
				return inj
			}
			pan := "no"
			var err error
			func() {
				defer func() {
					if r := recover(); r != nil {
						pan = "other"
						if r == any(panv) {
							pan = "same"
						}
					}
				}()
				if stream {
					err = StreamBreakerInterceptor(nil, nil, &grpc.StreamServerInfo{FullMethod: name},
						func(srv any, stream grpc.ServerStream) error { return body() })
				} else {
					_, err = UnaryBreakerInterceptor(ctx, nil, &grpc.UnaryServerInfo{FullMethod: name},
						func(ctx context.Context, req any) (any, error) { return nil, body() })
				}
			}()
			ret := "other"
			switch {
			case pan != "no":
				ret = "none"
			case err == nil:
				ret = "nil"
			case inj != nil && err == inj:
				ret = "same"
			case status.Code(err) == codes.Unavailable && status.Convert(err).Message() == breaker.ErrServiceUnavailable.Error():
				ret = "unavail"
			case err == ctx.Err():
				ret = "ctx"
			}
			emit(verifEv{"e": "callEnd", "c": id, "ret": ret, "pan": pan})
		}
	})
}
