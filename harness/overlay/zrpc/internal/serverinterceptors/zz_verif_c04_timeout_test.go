//go:build verif

package serverinterceptors

// C04 driver (zRPC server): TLC-generated worker scripts run as the unary handler wrapped
// by the real UnaryTimeoutInterceptor (global and per-method timeouts, caller deadlines,
// cancellations). Records the context the handler saw, what it returned, and the
// (resp, err) the caller got. The verdict comes from TLC (specs/timeout/Timeout.tla).

import (
	"context"
	"encoding/json"
	"errors"
	"sync"
	"sync/atomic"
	"testing"
	"time"

	"google.golang.org/grpc"
	"google.golang.org/grpc/codes"
	"google.golang.org/grpc/status"
)

type c04Op struct {
	Op  string `json:"op"`
	Val int    `json:"val"`
	Err string `json:"err"`
}

type c04Cfg struct {
	def    time.Duration // interceptor default timeout
	method time.Duration // per-method timeout for the called method (0: not configured)
	pdl    time.Duration // caller deadline relative to the start of the call; 0: none
	pre    string        // "", "cancel": caller cancelled before the call, "expired": caller deadline already passed
	user   bool          // the caller's context is of a user-defined type (not one of package context's own)
}

// c04UserCtx is a caller-defined context type: everything is delegated, but no fast path keyed
// on the standard implementations applies to it.
type c04UserCtx struct{ context.Context }

const (
	c04Short    = 40 * time.Millisecond
	c04Huge     = 1000 * time.Second
	c04Watchdog = 30 * time.Second
	c04Method   = "/c04.Svc/Call"
)

var errC04W7 = errors.New("c04-w7")

type c04Trace struct {
	mu  sync.Mutex
	evs []verifEv
}

func (t *c04Trace) emit(ev verifEv) {
	t.mu.Lock()
	t.evs = append(t.evs, ev)
	t.mu.Unlock()
}

func c04Flush(em *verifEmitter, t *c04Trace) {
	t.mu.Lock()
	defer t.mu.Unlock()
	em.mu.Lock()
	defer em.mu.Unlock()
	for _, ev := range t.evs {
		b, err := json.Marshal(ev)
		if err != nil {
			panic(err)
		}
		em.w.Write(b)
		em.w.WriteByte('\n')
		em.n++
	}
}

// c04Stuck counts watchdog expiries in this process. The first three wait the full
// watchdog; once three calls have been recorded as stuck the run is failing anyway and the
// remaining calls use a short one so that a broken wrapper does not cost 30 s per call.
var c04Stuck atomic.Int32

func c04Dog() time.Duration {
	if c04Stuck.Load() >= 3 {
		return 3 * time.Second
	}
	return c04Watchdog
}

// c04Wait waits for the wrapper to return. 0: returned; 1: stuck (the watchdog expired
// while the work is blocked waiting for the driver); 2: watchdog expired for another reason
// (infrastructure). A wrapper is never declared stuck while the work is not blocked.
func c04Wait[T any](ch chan T, blocked *atomic.Bool) (T, int) {
	var zero T
	start := time.Now()
	tick := time.NewTicker(250 * time.Millisecond)
	defer tick.Stop()
	for {
		select {
		case r := <-ch:
			return r, 0
		case <-tick.C:
		}
		el := time.Since(start)
		if blocked.Load() && el >= c04Dog() {
			select { // last look: it may have returned just now
			case r := <-ch:
				return r, 0
			default:
			}
			return zero, 1
		}
		if el >= 2*c04Watchdog {
			return zero, 2
		}
	}
}

func c04Floor(d time.Duration) int { return int(d / time.Microsecond) }
func c04Ceil(d time.Duration) int  { return int((d + time.Microsecond - 1) / time.Microsecond) }

func c04CtxErr(ctx context.Context) string {
	switch err := ctx.Err(); {
	case err == nil:
		return "none"
	case errors.Is(err, context.DeadlineExceeded):
		return "deadline"
	case errors.Is(err, context.Canceled):
		return "canceled"
	default:
		return "other"
	}
}

func c04ErrName(err error) string {
	switch {
	case err == nil:
		return "nil"
	case errors.Is(err, errC04W7):
		return "w7"
	case status.Code(err) == codes.DeadlineExceeded || errors.Is(err, context.DeadlineExceeded):
		return "deadline"
	case status.Code(err) == codes.Canceled || errors.Is(err, context.Canceled):
		return "canceled"
	default:
		return "other"
	}
}

func c04ValOf(v any) int {
	switch x := v.(type) {
	case nil:
		return -1
	case int:
		return x
	default:
		return -2
	}
}

func (c c04Cfg) effective() time.Duration {
	if c.method > 0 {
		return c.method
	}
	return c.def
}

func c04Call(t *testing.T, em *verifEmitter, cfg c04Cfg, script []c04Op) {
	tr := &c04Trace{}
	defer c04Flush(em, tr)

	base := time.Now()
	parent := context.Background()
	var cancels []context.CancelFunc
	pdl := -1
	switch {
	case cfg.pre == "expired":
		c, cf := context.WithDeadline(parent, base.Add(time.Microsecond))
		parent, cancels, pdl = c, append(cancels, cf), 1
	case cfg.pdl > 0:
		c, cf := context.WithDeadline(parent, base.Add(cfg.pdl))
		parent, cancels, pdl = c, append(cancels, cf), c04Floor(cfg.pdl)
	}
	parent, parentCancel := context.WithCancel(parent)
	cancels = append(cancels, parentCancel)
	if cfg.user {
		parent = c04UserCtx{parent}
	}
	defer func() {
		for _, cf := range cancels {
			cf()
		}
	}()

	release := make(chan struct{})
	workerDone := make(chan struct{})
	ctxCaptured := make(chan struct{})
	var wctx atomic.Value
	var blocked atomic.Bool

	handler := func(ctx context.Context, req any) (any, error) {
		defer close(workerDone)
		wctx.Store(&ctx)
		dl, has := ctx.Deadline()
		now := c04Ceil(time.Since(base))
		d := 0
		if has {
			d = c04Floor(dl.Sub(base))
		}
		tr.emit(verifEv{"e": "ctx", "has": has, "dl": d, "now": now})
		close(ctxCaptured)
		for _, op := range script {
			switch op.Op {
			case "await":
				blocked.Store(true)
				select {
				case <-ctx.Done():
				case <-release:
				}
				blocked.Store(false)
				tr.emit(verifEv{"e": "await"})
			case "cancel":
				tr.emit(verifEv{"e": "cancel"})
				parentCancel()
			case "ret", "ignore":
				if op.Op == "ignore" {
					tr.emit(verifEv{"e": "ignore"})
					blocked.Store(true)
					<-release
					blocked.Store(false)
					op.Val, op.Err = 5, "nil"
				}
				var resp any
				var err error
				if op.Val >= 0 {
					resp = op.Val
				}
				if op.Err == "w7" {
					err = errC04W7
				}
				tr.emit(verifEv{"e": "ret", "val": op.Val, "err": op.Err})
				return resp, err
			case "panic":
				tr.emit(verifEv{"e": "panic"})
				panic("c04 worker panic")
			}
		}
		return nil, nil
	}

	var confs []MethodTimeoutConf
	if cfg.method > 0 {
		confs = append(confs, MethodTimeoutConf{FullMethod: c04Method, Timeout: cfg.method})
	}
	confs = append(confs, MethodTimeoutConf{FullMethod: "/c04.Svc/Other", Timeout: 7 * time.Hour})
	icpt := UnaryTimeoutInterceptor(cfg.def, confs...)

	if cfg.pre == "expired" {
		<-parent.Done()
		for time.Since(base) < 3*time.Microsecond {
		}
	}
	// the settings as they are (interceptor default, the called method's entry); which timeout they
	// amount to is decided by Layer P (Timeout.tla, TmoChoices)
	ov := []int{}
	if cfg.method > 0 {
		ov = append(ov, c04Floor(cfg.method))
	}
	tr.emit(verifEv{"e": "reset", "kind": "rpcs", "glob": c04Floor(cfg.def), "ov": ov, "mw": true, "pdl": pdl,
		"exempt": false, "s0": c04Floor(time.Since(base)), "pre": cfg.pre})
	if cfg.pre == "cancel" {
		tr.emit(verifEv{"e": "cancel"})
		parentCancel()
	}
	type result struct {
		pan  bool
		resp any
		err  error
	}
	returned := make(chan result, 1)
	go func() {
		var r result
		defer func() {
			if p := recover(); p != nil {
				r = result{pan: true}
			}
			returned <- r
		}()
		r.resp, r.err = icpt(parent, "req", &grpc.UnaryServerInfo{FullMethod: c04Method}, handler)
	}()

	none := []int{}
	r, st := c04Wait(returned, &blocked)
	switch st {
	case 0:
		s1 := c04Floor(time.Since(base))
		select {
		case <-ctxCaptured:
		case <-time.After(c04Watchdog):
			t.Errorf("c04: handler goroutine never started")
			return
		}
		tr.emit(verifEv{"e": "returned", "pan": r.pan, "val": c04ValOf(r.resp), "err": c04ErrName(r.err),
			"ctxerr": c04CtxErr(*(wctx.Load().(*context.Context))), "s1": s1,
			"code": 0, "hdr": none, "bt": none, "n": 0})
		close(release)
		select {
		case <-workerDone:
		case <-time.After(c04Watchdog):
			t.Errorf("c04: released handler did not finish")
			return
		}
		tr.emit(verifEv{"e": "final", "code": 0, "hdr": none, "bt": none, "n": 0})
	case 2:
		t.Errorf("c04: watchdog fired although the work is not blocked")
	case 1:
		c04Stuck.Add(1)
		tr.emit(verifEv{"e": "stuck", "el": c04Floor(time.Since(base))})
		close(release)
		select {
		case <-returned:
		case <-time.After(c04Watchdog):
			t.Errorf("c04: interceptor did not return even after the handler finished")
		}
	}
}

func c04Feasible(cfg c04Cfg, script []c04Op) bool {
	if cfg.pre != "" || cfg.effective() < c04Huge || (cfg.pdl > 0 && cfg.pdl < c04Huge) {
		return true
	}
	for _, op := range script {
		switch op.Op {
		case "cancel":
			return true
		case "await", "ignore":
			return false
		}
	}
	return true
}

var c04Cfgs = []c04Cfg{
	{def: c04Short},
	{def: c04Short, pdl: 10 * time.Second},
	{def: c04Huge, pdl: c04Short},
	{def: 60 * time.Millisecond, pdl: 35 * time.Millisecond},
	{def: c04Huge},
	{def: c04Huge, method: c04Short},                 // per-method shorter than the default
	{def: c04Short, method: c04Huge, pdl: c04Short},  // per-method longer; the caller bounds it
	{def: c04Huge, method: 35 * time.Millisecond, pdl: c04Huge},
	// the caller brings a deadline LATER than now+timeout: the timeout is the one that counts
	{def: c04Short, pdl: c04Huge},
	{def: 35 * time.Millisecond, pdl: c04Huge, user: true},
	{def: c04Huge, pdl: c04Short, user: true},
	{def: c04Short, pre: "cancel"},
	{def: c04Huge, pre: "cancel"},
	{def: c04Short, pre: "expired"},
	{def: c04Huge, method: c04Huge, pre: "expired"},
}

func TestVerifC04RpcServer(t *testing.T) {
	em := verifOpen(t)
	defer em.Close()
	var scripts [][]c04Op
	for _, raw := range verifInput(t) {
		var s []c04Op
		if err := json.Unmarshal(raw, &s); err != nil {
			t.Fatal(err)
		}
		scripts = append(scripts, s)
	}
	if len(scripts) == 0 {
		t.Fatal("c04: no scripts")
	}
	reps := verifEnvInt("VERIF_C04_REPS", 2)
	sem := make(chan struct{}, verifEnvInt("VERIF_C04_PAR", 24))
	var wg sync.WaitGroup
	for rep := 0; rep < reps; rep++ {
		for _, cfg := range c04Cfgs {
			for _, s := range scripts {
				if !c04Feasible(cfg, s) {
					continue
				}
				sem <- struct{}{}
				wg.Add(1)
				go func(cfg c04Cfg, s []c04Op) {
					defer wg.Done()
					defer func() { <-sem }()
					c04Call(t, em, cfg, s)
				}(cfg, s)
			}
		}
	}
	wg.Wait()
}
