//go:build verif

package internal

// C13 driver for the gRPC resolver. No expectations here: TLC validates the trace against
// specs/discov/Discov.tla (DiscovTrace).
//
//   TestVerifResolverSubset  subset(set, n) called directly
//   TestVerifResolverBuild   discovBuilder.Build through the public path: a real etcd
//                            clientv3 talking to an in-process etcd server (KV.Range,
//                            Watch, Maintenance.Status) the driver feeds, and a recording
//                            resolver.ClientConn. Watch events are delivered
//                            asynchronously; a compacted watch followed by a snapshot is
//                            the barrier (the next Watch request arrives only after
//                            everything before has been applied).

import (
	"context"
	"fmt"
	"net"
	"net/url"
	"sort"
	"strings"
	"sync"
	"testing"
	"time"

	"github.com/zeromicro/go-zero/core/logx"
	pb "go.etcd.io/etcd/api/v3/etcdserverpb"
	"go.etcd.io/etcd/api/v3/mvccpb"
	"google.golang.org/grpc"
	"google.golang.org/grpc/resolver"
	"google.golang.org/grpc/serviceconfig"
)

// ---------------------------------------------------------------- in-process etcd

type verifWatch struct {
	key    string
	id     int64
	stream pb.Watch_WatchServer
	mu     *sync.Mutex // one sender at a time per stream
}

type verifEtcd struct {
	pb.UnimplementedKVServer
	pb.UnimplementedWatchServer
	pb.UnimplementedMaintenanceServer

	mu      sync.Mutex
	store   map[string]string
	rev     int64
	nextID  int64
	creates chan *verifWatch
	addr    string
	gs      *grpc.Server
}

func verifStartEtcd(t *testing.T) *verifEtcd {
	lis, err := net.Listen("tcp", "127.0.0.1:0")
	if err != nil {
		t.Fatal(err)
	}
	s := &verifEtcd{store: map[string]string{}, rev: 10, creates: make(chan *verifWatch, 256),
		addr: lis.Addr().String(), gs: grpc.NewServer()}
	pb.RegisterKVServer(s.gs, s)
	pb.RegisterWatchServer(s.gs, s)
	pb.RegisterMaintenanceServer(s.gs, s)
	go s.gs.Serve(lis)
	return s
}

func (s *verifEtcd) header() *pb.ResponseHeader {
	return &pb.ResponseHeader{ClusterId: 1, MemberId: 1, Revision: s.rev, RaftTerm: 1}
}

func (s *verifEtcd) Status(context.Context, *pb.StatusRequest) (*pb.StatusResponse, error) {
	s.mu.Lock()
	defer s.mu.Unlock()
	return &pb.StatusResponse{Header: s.header(), Version: "3.5.15"}, nil
}

func (s *verifEtcd) Range(_ context.Context, req *pb.RangeRequest) (*pb.RangeResponse, error) {
	s.mu.Lock()
	defer s.mu.Unlock()
	resp := &pb.RangeResponse{Header: s.header()}
	keys := make([]string, 0, len(s.store))
	for k := range s.store {
		if strings.HasPrefix(k, string(req.Key)) {
			keys = append(keys, k)
		}
	}
	sort.Strings(keys)
	for _, k := range keys {
		resp.Kvs = append(resp.Kvs, &mvccpb.KeyValue{Key: []byte(k), Value: []byte(s.store[k]),
			CreateRevision: 1, ModRevision: 1, Version: 1})
	}
	resp.Count = int64(len(resp.Kvs))
	return resp, nil
}

func (s *verifEtcd) Watch(stream pb.Watch_WatchServer) error {
	mu := &sync.Mutex{}
	for {
		req, err := stream.Recv()
		if err != nil {
			return nil
		}
		switch {
		case req.GetCreateRequest() != nil:
			s.mu.Lock()
			s.nextID++
			w := &verifWatch{key: string(req.GetCreateRequest().Key), id: s.nextID, stream: stream, mu: mu}
			h := s.header()
			s.mu.Unlock()
			mu.Lock()
			err := stream.Send(&pb.WatchResponse{Header: h, WatchId: w.id, Created: true})
			mu.Unlock()
			if err != nil {
				return nil
			}
			s.creates <- w
		case req.GetCancelRequest() != nil:
			s.mu.Lock()
			h := s.header()
			s.mu.Unlock()
			mu.Lock()
			stream.Send(&pb.WatchResponse{Header: h, WatchId: req.GetCancelRequest().WatchId, Canceled: true})
			mu.Unlock()
		}
	}
}

// ---------------------------------------------------------------- recording ClientConn

type verifClientConn struct {
	mu   sync.Mutex
	pubs [][]string
}

func (c *verifClientConn) UpdateState(st resolver.State) error {
	addrs := []string{}
	for _, a := range st.Addresses {
		addrs = append(addrs, a.Addr)
	}
	sort.Strings(addrs)
	c.mu.Lock()
	c.pubs = append(c.pubs, addrs)
	c.mu.Unlock()
	return nil
}
func (c *verifClientConn) ReportError(error)                                    {}
func (c *verifClientConn) NewAddress([]resolver.Address)                        {}
func (c *verifClientConn) NewServiceConfig(string)                              {}
func (c *verifClientConn) ParseServiceConfig(string) *serviceconfig.ParseResult { return nil }
func (c *verifClientConn) take() [][]string {
	c.mu.Lock()
	out := c.pubs
	c.pubs = nil
	c.mu.Unlock()
	if out == nil {
		out = [][]string{}
	}
	return out
}

// ---------------------------------------------------------------- Build

const verifWait = 120 * time.Second

type resolverOp struct {
	Op   string // put | del | sync
	K, V string
	Lose int // sync: number of changes applied to the store without a watch event first
}

func resolverHistory(t *testing.T, em *verifEmitter, s *verifEtcd, seq int, initial map[string]string,
	ops []resolverOp, rnd interface{ Intn(int) int }, keyOf func() string, valOf func() string) {
	svc := fmt.Sprintf("svc%d", seq)
	prefix := svc + "/"
	snapshot := func() [][2]string {
		out := [][2]string{}
		for k, v := range s.store {
			if strings.HasPrefix(k, prefix) {
				out = append(out, [2]string{k, v})
			}
		}
		sort.Slice(out, func(i, j int) bool { return out[i][0] < out[j][0] })
		return out
	}
	s.mu.Lock()
	for k, v := range initial {
		s.store[prefix+k] = v
	}
	snap := snapshot()
	s.mu.Unlock()

	u, err := url.Parse(fmt.Sprintf("%s://%s/%s", DiscovScheme, s.addr, svc))
	if err != nil {
		t.Fatal(err)
	}
	cc := &verifClientConn{}
	var b discovBuilder
	// the etcd client's dial/version check has a 5 s budget: on a busy machine try again
	var r resolver.Resolver
	for attempt := 0; ; attempt++ {
		if r, err = b.Build(resolver.Target{URL: *u}, cc, resolver.BuildOptions{}); err == nil {
			break
		}
		if attempt == 5 {
			t.Fatalf("resolver driver: Build failed against the in-process etcd: %v", err)
		}
		cc.take()
	}
	defer r.Close()
	nextWatch := func() *verifWatch {
		for {
			select {
			case w := <-s.creates:
				if w.key == prefix {
					return w
				}
			case <-time.After(verifWait):
				t.Fatal("resolver driver: no Watch request arrived")
				return nil
			}
		}
	}
	w := nextWatch()
	em.Emit(verifEv{"e": "reset", "excl": false, "nl": 0})
	em.Emit(verifEv{"e": "build", "snap": snap, "pubs": cc.take()})

	send := func(resp *pb.WatchResponse) {
		w.mu.Lock()
		err := w.stream.Send(resp)
		w.mu.Unlock()
		if err != nil {
			t.Fatalf("resolver driver: watch stream broken: %v", err)
		}
	}
	for _, op := range ops {
		switch op.Op {
		case "put", "del":
			key := prefix + op.K
			s.mu.Lock()
			s.rev++
			ev := &mvccpb.Event{Kv: &mvccpb.KeyValue{Key: []byte(key), ModRevision: s.rev}}
			if op.Op == "put" {
				s.store[key] = op.V
				ev.Type = mvccpb.PUT
				ev.Kv.Value = []byte(op.V)
			} else {
				delete(s.store, key)
				ev.Type = mvccpb.DELETE
			}
			resp := &pb.WatchResponse{Header: s.header(), WatchId: w.id, Events: []*mvccpb.Event{ev}}
			s.mu.Unlock()
			send(resp)
			e := verifEv{"e": op.Op, "k": key, "obs": false, "vals": []string{}, "calls": []string{}}
			if op.Op == "put" {
				e["v"] = op.V
			}
			em.Emit(e)
		case "sync":
			s.mu.Lock()
			for i := 0; i < op.Lose; i++ { // changes the watch never reports
				key := prefix + keyOf()
				if rnd.Intn(3) == 0 {
					delete(s.store, key)
				} else {
					s.store[key] = valOf()
				}
			}
			s.rev += 5
			snap := snapshot()
			resp := &pb.WatchResponse{Header: s.header(), WatchId: w.id, Canceled: true, CompactRevision: s.rev}
			s.mu.Unlock()
			send(resp)
			w = nextWatch()
			em.Emit(verifEv{"e": "rsync", "snap": snap, "pubs": cc.take()})
		}
	}
	s.mu.Lock()
	for k := range s.store {
		if strings.HasPrefix(k, prefix) {
			delete(s.store, k)
		}
	}
	s.mu.Unlock()
}

// TestVerifResolverBuild: seeded histories; initial tables of 0..40 values so that both sides
// of the 32 boundary are built, crossed by deletes and puts, and re-loaded.
func TestVerifResolverBuild(t *testing.T) {
	logx.Disable()
	em := verifOpen(t)
	defer em.Close()
	s := verifStartEtcd(t)
	defer s.gs.Stop()
	rnd := verifRand(135)
	histories, length := 24, 14
	if verifThorough() {
		histories, length = 160, 30
	}
	sizes := []int{0, 1, 2, 3, 31, 32, 33, 34, 40}
	for h := 0; h < histories; h++ {
		n := sizes[h%len(sizes)]
		nk := n + 1 + rnd.Intn(4)
		nv := n + 1 + rnd.Intn(3)
		keyOf := func() string { return fmt.Sprintf("%d", 1+rnd.Intn(nk)) }
		valOf := func() string { return fmt.Sprintf("10.0.0.%d:80", 1+rnd.Intn(nv)) }
		initial := map[string]string{}
		for i := 1; i <= n; i++ {
			v := fmt.Sprintf("10.0.0.%d:80", i)
			if rnd.Intn(8) == 0 {
				v = valOf() // some values shared by several keys
			}
			initial[fmt.Sprintf("%d", i)] = v
		}
		var ops []resolverOp
		for i := 2 + rnd.Intn(length); i > 0; i-- {
			switch r := rnd.Intn(100); {
			case r < 40:
				ops = append(ops, resolverOp{Op: "put", K: keyOf(), V: valOf()})
			case r < 70:
				ops = append(ops, resolverOp{Op: "del", K: keyOf()})
			default:
				ops = append(ops, resolverOp{Op: "sync", Lose: rnd.Intn(3) * rnd.Intn(2)})
			}
		}
		ops = append(ops, resolverOp{Op: "sync"})
		resolverHistory(t, em, s, h+1, initial, ops, rnd, keyOf, valOf)
	}
}

// TestVerifResolverSubset: subset(set, n) on sets around n.
func TestVerifResolverSubset(t *testing.T) {
	em := verifOpen(t)
	defer em.Close()
	rnd := verifRand(136)
	em.Emit(verifEv{"e": "reset", "excl": false, "nl": 0})
	rounds := 40
	if verifThorough() {
		rounds = 400
	}
	for i := 0; i < rounds; i++ {
		for _, n := range []int{1, 2, subsetSize / 2, subsetSize, subsetSize + 4} {
			for _, size := range []int{0, 1, n - 1, n, n + 1, 2 * n, 3*n + rnd.Intn(5)} {
				if size < 0 {
					continue
				}
				set := make([]string, 0, size)
				for j := 0; j < size; j++ {
					set = append(set, fmt.Sprintf("10.0.%d.%d:80", j/250, j%250))
				}
				in := append([]string{}, set...)
				out := append([]string{}, subset(in, n)...)
				em.Emit(verifEv{"e": "subset", "set": set, "n": n, "out": out})
			}
		}
	}
}
