//go:build verif

package internal

// C13 driver, gRPC resolver: a real discovBuilder (discov.NewSubscriber -> Registry -> cluster
// -> container -> update() -> subset -> ClientConn.UpdateState) on the driver-fed fake etcd
// client, with a recording ClientConn; registries of up to ~45 distinct values so that the view
// crosses the subset size.  Records Values() and the addresses last published.  Also calls
// subset() directly for every size 0..70.  No expectations here: TLC validates the trace
// against specs/discov/Discov.tla (PubOK).

import (
	"fmt"
	"net/url"
	"sort"
	"strconv"
	"strings"
	"sync"
	"sync/atomic"
	"testing"

	"github.com/zeromicro/go-zero/core/discov"
	"github.com/zeromicro/go-zero/core/logx"
	clientv3 "go.etcd.io/etcd/client/v3"
	"google.golang.org/grpc/resolver"
	"google.golang.org/grpc/serviceconfig"
)

const verifRPrefix = "verif.rpc"

func verifRKey(k int) string { return fmt.Sprintf("%s/%d", verifRPrefix, k) }
func verifRVal(v int) string { return fmt.Sprintf("10.2.0.%d:8080", v) }

func verifRValInt(s string) int {
	n, err := strconv.Atoi(strings.TrimSuffix(strings.TrimPrefix(s, "10.2.0."), ":8080"))
	if err != nil || verifRVal(n) != s {
		return -1
	}
	return n
}

func verifRInts(vals []string) []int {
	out := make([]int, 0, len(vals))
	for _, s := range vals {
		out = append(out, verifRValInt(s))
	}
	sort.Ints(out)
	return out
}

type verifConnRec struct {
	mu    sync.Mutex
	addrs []int
	n     int
}

func (m *verifConnRec) UpdateState(state resolver.State) error {
	addrs := make([]int, 0, len(state.Addresses))
	for _, a := range state.Addresses {
		addrs = append(addrs, verifRValInt(a.Addr))
	}
	sort.Ints(addrs)
	m.mu.Lock()
	m.addrs = addrs
	m.n++
	m.mu.Unlock()
	return nil
}

func (m *verifConnRec) last() []int {
	m.mu.Lock()
	defer m.mu.Unlock()
	if m.addrs == nil {
		return []int{}
	}
	return append([]int{}, m.addrs...)
}

func (m *verifConnRec) ReportError(error)                                     {}
func (m *verifConnRec) NewAddress([]resolver.Address)                         {}
func (m *verifConnRec) NewServiceConfig(string)                               {}
func (m *verifConnRec) ParseServiceConfig(string) *serviceconfig.ParseResult { return nil }

type verifResolved struct {
	r  *discovResolver
	cc *verifConnRec
}

var verifRSeq int64

func TestVerifDiscovResolver(t *testing.T) {
	em := verifOpen(t)
	defer em.Close()
	logx.Disable()
	var fakesMu sync.Mutex
	fakes := map[string]*verifEtcd{}
	restore := discov.VerifSetEtcdClient(func(endpoints []string) (any, error) {
		fakesMu.Lock()
		defer fakesMu.Unlock()
		f, ok := fakes[endpoints[0]]
		if !ok {
			return nil, fmt.Errorf("verif: no fake etcd for %v", endpoints)
		}
		return f, nil
	})
	defer restore()

	traces := verifEnvInt("VERIF_DISCOV_TRACES", 12)
	for n := 0; n < traces; n++ {
		rnd := verifRand(int64(11000 + n))
		nvals := 38 + rnd.Intn(18) // views around the subset size of 32, from both sides
		nkeys := nvals + rnd.Intn(10)
		if n%3 == 2 {
			nkeys, nvals = 6, 4
		}
		steps := 25 + rnd.Intn(25)
		ep := fmt.Sprintf("verif-resolver-%d-%d:2379", verifSeed(), atomic.AddInt64(&verifRSeq, 1))
		fake := newVerifEtcd()
		fakesMu.Lock()
		fakes[ep] = fake
		fakesMu.Unlock()
		feed := &verifFeed{t: t, f: fake}
		em.Emit(verifEv{"e": "reset", "driver": "resolver", "n": n, "keys": nkeys, "values": nvals})
		reg := map[int]int{}
		var rs []*verifResolved
		observe := func(ev verifEv) {
			vals := make([][]int, len(rs))
			pub := make([][]int, len(rs))
			for i, r := range rs {
				vals[i] = verifRInts(r.r.sub.Values())
				pub[i] = r.cc.last()
			}
			ev["vals"] = vals
			ev["pub"] = pub
			em.Emit(ev)
		}
		build := func() {
			u, err := url.Parse(fmt.Sprintf("%s://%s/%s", DiscovScheme, ep, verifRPrefix))
			if err != nil {
				t.Fatal(err)
			}
			cc := &verifConnRec{}
			var b discovBuilder
			r, err := b.Build(resolver.Target{URL: *u}, cc, resolver.BuildOptions{})
			if err != nil {
				t.Fatalf("verif: discovBuilder.Build on the fake etcd client failed: %v", err)
			}
			if len(rs) == 0 {
				feed.awaitWatch()
			}
			rs = append(rs, &verifResolved{r: r.(*discovResolver), cc: cc})
			observe(verifEv{"e": "join", "s": len(rs), "x": false})
		}
		put := func(k, v int) {
			rev := feed.apply(verifRKey(k), verifRVal(v), false)
			if len(rs) > 0 {
				feed.events(verifPutEvent(verifRKey(k), verifRVal(v), rev))
			}
			reg[k] = v
			observe(verifEv{"e": "put", "k": k, "v": v})
		}
		// most traces start from a registry that is already populated (often with > 32 values)
		for k := 1; k <= nkeys && n%4 != 3; k++ {
			if rnd.Intn(7) != 0 {
				put(k, k%nvals+1)
			}
		}
		build()
		for i := 0; i < steps; i++ {
			k, v := 1+rnd.Intn(nkeys), 1+rnd.Intn(nvals)
			switch c := rnd.Intn(100); {
			case c < 45:
				if rnd.Intn(2) == 0 {
					v = (k+i)%nvals + 1 // keep the values spread out
				}
				put(k, v)
			case c < 65:
				rev := feed.apply(verifRKey(k), "", true)
				feed.events(verifDelEvent(verifRKey(k), "", rev))
				delete(reg, k)
				observe(verifEv{"e": "del", "k": k})
			case c < 75:
				var ops [][3]int
				var evs []*clientv3.Event
				for j := 2 + rnd.Intn(6); j > 0; j-- {
					bk, bv := 1+rnd.Intn(nkeys), 1+rnd.Intn(nvals)
					if rnd.Intn(3) == 0 {
						ops = append(ops, [3]int{0, bk, 0})
						delete(reg, bk)
						evs = append(evs, verifDelEvent(verifRKey(bk), "", feed.apply(verifRKey(bk), "", true)))
					} else {
						ops = append(ops, [3]int{1, bk, bv})
						reg[bk] = bv
						evs = append(evs, verifPutEvent(verifRKey(bk), verifRVal(bv), feed.apply(verifRKey(bk), verifRVal(bv), false)))
					}
				}
				feed.events(evs...)
				observe(verifEv{"e": "batch", "ops": ops})
			case c < 95:
				snap := map[int]int{}
				for rk := 1; rk <= nkeys; rk++ {
					rv, ok := reg[rk]
					if !ok {
						if rnd.Intn(3) == 0 {
							snap[rk] = (rk+i)%nvals + 1
						}
						continue
					}
					switch rnd.Intn(10) {
					case 0:
					case 1:
						snap[rk] = rv%nvals + 1
					default:
						snap[rk] = rv
					}
				}
				if rnd.Intn(10) == 0 {
					snap = map[int]int{}
				}
				kvs := map[string]string{}
				pairs := [][2]int{}
				for rk := 1; rk <= nkeys; rk++ {
					if rv, ok := snap[rk]; ok {
						kvs[verifRKey(rk)] = verifRVal(rv)
						pairs = append(pairs, [2]int{rk, rv})
					}
				}
				feed.setSnapshot(kvs)
				feed.compact(rnd.Intn(2) == 0)
				reg = snap
				observe(verifEv{"e": "reload", "snap": pairs})
			default:
				if len(rs) < 2 {
					build() // a second ClientConn on the same target: Registry.Monitor's replay path
				}
			}
		}
		for _, r := range rs {
			r.r.Close()
		}
	}

	// subset() itself, every size around and beyond the limit
	em.Emit(verifEv{"e": "reset", "driver": "subset"})
	for size := 0; size <= 70; size++ {
		set := make([]string, 0, size)
		ints := make([]int, 0, size)
		for i := 1; i <= size; i++ {
			set = append(set, verifRVal(i))
			ints = append(ints, i)
		}
		out := subset(set, subsetSize)
		em.Emit(verifEv{"e": "subset", "set": ints, "out": verifRInts(out)})
	}
}
