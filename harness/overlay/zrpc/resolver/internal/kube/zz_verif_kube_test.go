//go:build verif

package kube

// C13 driver for the Kubernetes endpoints handler: informer notification histories are
// delivered to the real EventHandler; the update function records what it is handed. No
// expectations here: TLC validates the trace against specs/discov/KubeEp.tla.

import (
	"encoding/json"
	"fmt"
	"sort"
	"strconv"
	"testing"

	"github.com/zeromicro/go-zero/core/logx"
	v1 "k8s.io/api/core/v1"
	metav1 "k8s.io/apimachinery/pkg/apis/meta/v1"
	"k8s.io/client-go/tools/cache"
)

type kubeOp struct {
	Op    string   `json:"op"` // kset | kadd | kupdate | kresync | kdelete | kbad
	Addrs []string `json:"addrs"`
	Tomb  bool     `json:"tomb"`
}

func kubeHistory(t *testing.T, em *verifEmitter, ops []kubeOp, rnd interface{ Intn(int) int }) {
	var pubs [][]string
	h := NewEventHandler(func(addrs []string) {
		cp := append([]string{}, addrs...)
		sort.Strings(cp)
		pubs = append(pubs, cp)
	})
	take := func() [][]string {
		out := pubs
		pubs = nil
		if out == nil {
			out = [][]string{}
		}
		return out
	}
	rv := 0
	var last *v1.Endpoints // the informer's last known state of the object
	// an Endpoints object: the ready addresses spread over 1..3 subsets (an address may be
	// listed in several), plus not-ready addresses that are no endpoints
	object := func(addrs []string) *v1.Endpoints {
		rv++
		ep := &v1.Endpoints{ObjectMeta: metav1.ObjectMeta{Name: "svc", Namespace: "ns", ResourceVersion: strconv.Itoa(rv)}}
		if len(addrs) == 0 && rnd.Intn(3) > 0 {
			return ep // no endpoints at all: no subsets
		}
		n := 1 + rnd.Intn(3)
		subs := make([]v1.EndpointSubset, n)
		for _, a := range addrs {
			i := rnd.Intn(n)
			subs[i].Addresses = append(subs[i].Addresses, v1.EndpointAddress{IP: a})
			if rnd.Intn(4) == 0 {
				j := rnd.Intn(n)
				if j != i {
					subs[j].Addresses = append(subs[j].Addresses, v1.EndpointAddress{IP: a})
				}
			}
		}
		for j := rnd.Intn(3); j > 0; j-- {
			i := rnd.Intn(n)
			subs[i].NotReadyAddresses = append(subs[i].NotReadyAddresses,
				v1.EndpointAddress{IP: fmt.Sprintf("10.9.9.%d", rnd.Intn(5))})
		}
		ep.Subsets = subs
		return ep
	}
	em.Emit(verifEv{"e": "reset"})
	for _, op := range ops {
		addrs := append([]string{}, op.Addrs...)
		sort.Strings(addrs)
		switch op.Op {
		case "kset":
			h.Update(object(addrs))
			em.Emit(verifEv{"e": "kset", "addrs": addrs, "pubs": take()})
		case "kadd":
			last = object(addrs)
			h.OnAdd(last, rnd.Intn(2) == 0)
			em.Emit(verifEv{"e": "kadd", "addrs": addrs, "pubs": take()})
		case "kupdate":
			old := last
			last = object(addrs)
			h.OnUpdate(old, last)
			em.Emit(verifEv{"e": "kupdate", "addrs": addrs, "pubs": take()})
		case "kresync":
			h.OnUpdate(last, last.DeepCopy())
			em.Emit(verifEv{"e": "kresync", "pubs": take()})
		case "kdelete":
			if op.Tomb {
				h.OnDelete(cache.DeletedFinalStateUnknown{Key: "ns/svc", Obj: last})
			} else {
				h.OnDelete(last)
			}
			last = nil
			em.Emit(verifEv{"e": "kdelete", "tomb": op.Tomb, "pubs": take()})
		case "kbad":
			switch rnd.Intn(4) {
			case 0:
				h.OnAdd("bad", false)
			case 1:
				h.OnDelete(&v1.Pod{})
			case 2:
				h.OnUpdate("bad", object(addrs))
			default:
				h.OnUpdate(object(addrs), 42)
			}
			em.Emit(verifEv{"e": "kbad", "pubs": take()})
		default:
			t.Fatalf("kube driver: unknown op %q", op.Op)
		}
	}
}

// relist = true adds the shapes that need a re-list or the resolver's start-up to occur:
// Update(...) before the first notification, and deletes delivered as tombstones.
func kubeRandomHistory(rnd interface{ Intn(int) int }, length int, relist bool) []kubeOp {
	na := 1 + rnd.Intn(6)
	set := func() []string {
		var s []string
		for i := 1; i <= na; i++ {
			if rnd.Intn(2) == 0 {
				s = append(s, fmt.Sprintf("10.0.0.%d", i))
			}
		}
		return s
	}
	var ops []kubeOp
	inStore := false
	if relist && rnd.Intn(2) == 0 {
		ops = append(ops, kubeOp{Op: "kset", Addrs: set()})
	}
	n := 2 + rnd.Intn(length)
	for i := 0; i < n; i++ {
		r := rnd.Intn(100)
		switch {
		case r < 8:
			ops = append(ops, kubeOp{Op: "kbad", Addrs: set()})
		case !inStore:
			ops = append(ops, kubeOp{Op: "kadd", Addrs: set()})
			inStore = true
		case r < 60:
			ops = append(ops, kubeOp{Op: "kupdate", Addrs: set()})
		case r < 75:
			ops = append(ops, kubeOp{Op: "kresync"})
		default:
			ops = append(ops, kubeOp{Op: "kdelete", Tomb: relist && rnd.Intn(2) == 0})
			inStore = false
		}
	}
	return ops
}

func kubeIsRelist(ops []kubeOp) bool {
	for _, op := range ops {
		if op.Op == "kset" || (op.Op == "kdelete" && op.Tomb) {
			return true
		}
	}
	return false
}

func kubeRun(t *testing.T, relist bool, salt int64, histories, length int) {
	logx.Disable()
	em := verifOpen(t)
	defer em.Close()
	rnd := verifRand(salt)
	for _, raw := range verifInput(t) {
		var ops []kubeOp
		if err := json.Unmarshal(raw, &ops); err != nil {
			t.Fatal(err)
		}
		if kubeIsRelist(ops) == relist {
			kubeHistory(t, em, ops, rnd)
		}
	}
	for i := 0; i < histories; i++ {
		kubeHistory(t, em, kubeRandomHistory(rnd, length, relist), rnd)
	}
}

// TestVerifKubeHandler replays TLC-generated notification histories (one per distinct state
// of KubeEpImpl) and seeded random ones on the real EventHandler: add / update / resync /
// delete of the watched object.
func TestVerifKubeHandler(t *testing.T) {
	if verifThorough() {
		kubeRun(t, false, 134, 3000, 40)
	} else {
		kubeRun(t, false, 134, 300, 20)
	}
}

// TestVerifKubeHandlerRelist: the same plus Update(...) before the informer's first
// notification (kubeBuilder.Build) and deletes noticed by a re-list (tombstones).
func TestVerifKubeHandlerRelist(t *testing.T) {
	if verifThorough() {
		kubeRun(t, true, 137, 400, 30)
	} else {
		kubeRun(t, true, 137, 10, 12)
	}
}
