//go:build verif

package kube

// C13 driver, Kubernetes half: the real EventHandler is driven with the call sequences a
// client-go informer restricted to ONE Endpoints object delivers (Build's Update, the
// start-up OnAdd with the same or a newer version, OnUpdate with new versions and resyncs,
// OnDelete with the last known state or a DeletedFinalStateUnknown tombstone, re-creation),
// addresses spread over several EndpointSubsets.  Records what the update func received.
// No expectations here: TLC validates the trace against specs/discov/KubeEp.tla.

import (
	"fmt"
	"sort"
	"strconv"
	"strings"
	"testing"

	v1 "k8s.io/api/core/v1"
	metav1 "k8s.io/apimachinery/pkg/apis/meta/v1"
	"k8s.io/client-go/tools/cache"
)

func verifIP(i int) string { return fmt.Sprintf("10.3.0.%d", i) }

func verifIPInts(ips []string) []int {
	out := make([]int, 0, len(ips))
	for _, s := range ips {
		n, err := strconv.Atoi(strings.TrimPrefix(s, "10.3.0."))
		if err != nil || verifIP(n) != s {
			n = -1
		}
		out = append(out, n)
	}
	sort.Ints(out)
	return out
}

func verifEndpoints(rv int, ips []int, split int) *v1.Endpoints {
	ep := &v1.Endpoints{ObjectMeta: metav1.ObjectMeta{Name: "verif-svc", Namespace: "default",
		ResourceVersion: strconv.Itoa(rv)}}
	if len(ips) == 0 {
		return ep
	}
	if split < 1 {
		split = 1
	}
	subsets := make([]v1.EndpointSubset, split)
	for i, ip := range ips {
		s := &subsets[i%split]
		s.Addresses = append(s.Addresses, v1.EndpointAddress{IP: verifIP(ip)})
	}
	for _, s := range subsets {
		if len(s.Addresses) > 0 {
			s.Ports = []v1.EndpointPort{{Port: 8080}}
			ep.Subsets = append(ep.Subsets, s)
		}
	}
	return ep
}

func TestVerifKubeHandler(t *testing.T) {
	em := verifOpen(t)
	defer em.Close()
	traces := verifEnvInt("VERIF_KUBE_TRACES", 150)
	for n := 0; n < traces; n++ {
		// the two rarer informer situations are kept to every tenth trace each
		startup := n%10 == 3 // the start-up list carries a newer version than Build's Update
		tombs := n%10 == 7   // deletes noticed by a relist arrive as tombstones
		rnd := verifRand(int64(13000 + n))
		nips := 2 + rnd.Intn(5)
		var calls [][]int
		h := NewEventHandler(func(eps []string) {
			calls = append(calls, verifIPInts(eps))
		})
		take := func() [][]int {
			out := calls
			calls = nil
			if out == nil {
				out = [][]int{}
			}
			return out
		}
		randIPs := func() []int {
			out := []int{}
			for i := 1; i <= nips; i++ {
				if rnd.Intn(2) == 0 {
					out = append(out, i)
				}
			}
			return out
		}
		em.Emit(verifEv{"e": "reset", "driver": "kube", "n": n})
		rv := 1
		ips := randIPs()
		cur := verifEndpoints(rv, ips, 1+rnd.Intn(3))
		if n%5 != 4 || startup {
			// Build: the object just fetched goes to Update; then the informer starts
			h.Update(cur)
			em.Emit(verifEv{"e": "kupdate", "rv": rv, "ips": ips, "calls": take()})
			if startup {
				// the object changed between Build's Get and the informer's list
				rv++
				ips = randIPs()
				cur = verifEndpoints(rv, ips, 1+rnd.Intn(3))
			}
		}
		h.OnAdd(cur, true)
		em.Emit(verifEv{"e": "kadd", "rv": rv, "ips": ips, "calls": take()})
		exists := true
		for i := 10 + rnd.Intn(20); i > 0; i-- {
			if !exists {
				rv++
				ips = randIPs()
				cur = verifEndpoints(rv, ips, 1+rnd.Intn(3))
				h.OnAdd(cur, false)
				em.Emit(verifEv{"e": "kadd", "rv": rv, "ips": ips, "calls": take()})
				exists = true
				continue
			}
			switch c := rnd.Intn(100); {
			case c < 60:
				rv++
				nips2 := randIPs()
				if rnd.Intn(5) == 0 {
					nips2 = append([]int{}, ips...) // a new version with the same addresses
				}
				next := verifEndpoints(rv, nips2, 1+rnd.Intn(3))
				h.OnUpdate(cur, next)
				cur, ips = next, nips2
				em.Emit(verifEv{"e": "kupd", "rv": rv, "ips": ips, "calls": take()})
			case c < 80:
				h.OnUpdate(cur, cur) // resync
				em.Emit(verifEv{"e": "kupd", "rv": rv, "ips": ips, "calls": take()})
			default:
				tomb := tombs && rnd.Intn(2) == 0
				if tomb {
					h.OnDelete(cache.DeletedFinalStateUnknown{Key: "default/verif-svc", Obj: cur})
				} else {
					h.OnDelete(cur)
				}
				exists = false
				em.Emit(verifEv{"e": "kdel", "tomb": tomb, "calls": take()})
			}
		}
	}
}
