//go:build verif

package zrpc

// C04 driver (zRPC wiring): TLC-generated (settings, call) cases of specs/timeout/TimeoutWireImpl.tla
// against the code that decides WHICH timeout wrapper a call gets:
//   client  zrpc.NewClient(RpcClientConf{Timeout, Middlewares.Timeout}, [zrpc.WithTimeout(d)]) and a
//           call through the real *grpc.ClientConn with or without zrpc.WithCallTimeout(d); the last
//           interceptor of the chain (added with zrpc.WithUnaryClientInterceptor) plays the remote
//           side: it records the context it is given and runs the worker script. No network: the
//           client dials non-blocking and the recording interceptor never calls the real invoker.
//   server  the unary interceptor chain zrpc.NewServer builds from RpcServerConf{Timeout,
//           MethodTimeouts} (every other middleware switched off), called the way grpc calls it.
// The reset event carries the settings as they are (glob / ov / mw); which timeout they amount to
// is decided by Layer P (Timeout.tla, TmoChoices). No expectations here.

import (
	"context"
	"encoding/json"
	"errors"
	"sync"
	"sync/atomic"
	"testing"
	"time"

	"github.com/zeromicro/go-zero/core/logx"
	"google.golang.org/grpc"
	"google.golang.org/grpc/codes"
	"google.golang.org/grpc/status"
)

type c04Op struct {
	Op  string `json:"op"`
	Val int    `json:"val"`
	Err string `json:"err"`
}

type c04Wire struct {
	Kind string `json:"kind"`
	Glob int    `json:"glob"`
	Ov   []int  `json:"ov"`
	Mw   bool   `json:"mw"`
	Pdl  int    `json:"pdl"`
	Inl  bool   `json:"inl"` // steering hint from Layer P: this call may wait for its work
	Fin  bool   `json:"fin"`
}

type c04WireJob struct {
	Case   c04Wire `json:"case"`
	Script []c04Op `json:"script"`
	Steer  int     `json:"steer"`
}

const (
	c04Huge     = 1000 * time.Second
	c04Watchdog = 30 * time.Second
	c04Method   = "/c04.Svc/Call"
)

var errC04W7 = errors.New("c04-w7")

// c04Dur maps the abstract durations of the model to real ones: 3 / 5 / 7 ticks are 30 / 50 / 70 ms,
// 100 ("beyond the horizon") is 1000 s, values <= 0 keep their sign.
func c04Dur(x int) time.Duration {
	switch {
	case x < 0:
		return -time.Second
	case x >= 100:
		return c04Huge
	default:
		return time.Duration(x) * 10 * time.Millisecond
	}
}

func c04Floor(d time.Duration) int { return int(d / time.Microsecond) }
func c04Ceil(d time.Duration) int  { return int((d + time.Microsecond - 1) / time.Microsecond) }

var c04Stuck atomic.Int32

func c04Dog() time.Duration {
	if c04Stuck.Load() >= 3 {
		return 3 * time.Second
	}
	return c04Watchdog
}

type c04Result struct {
	pan  bool
	resp any
	err  error
}

// c04Wait: 0 returned; 1 stuck (watchdog expired while the work is blocked waiting for the driver);
// 2 watchdog expired for another reason (infrastructure).
func c04Wait(ch chan c04Result, blocked *atomic.Bool) (c04Result, int) {
	start := time.Now()
	tick := time.NewTicker(250 * time.Millisecond)
	defer tick.Stop()
	for {
		select {
		case r := <-ch:
			return r, 0
		case <-tick.C:
		}
		el := time.Since(start)
		if blocked.Load() && el >= c04Dog() {
			select {
			case r := <-ch:
				return r, 0
			default:
			}
			return c04Result{}, 1
		}
		if el >= 2*c04Watchdog {
			return c04Result{}, 2
		}
	}
}

func c04CtxErr(ctx context.Context) string {
	switch err := ctx.Err(); {
	case err == nil:
		return "none"
	case errors.Is(err, context.DeadlineExceeded):
		return "deadline"
	case errors.Is(err, context.Canceled):
		return "canceled"
	default:
		return "other"
	}
}

func c04ErrName(err error) string {
	switch {
	case err == nil:
		return "nil"
	case errors.Is(err, errC04W7):
		return "w7"
	case status.Code(err) == codes.DeadlineExceeded || errors.Is(err, context.DeadlineExceeded):
		return "deadline"
	case status.Code(err) == codes.Canceled || errors.Is(err, context.Canceled):
		return "canceled"
	default:
		return "other"
	}
}

func c04ValOf(v any) int {
	switch x := v.(type) {
	case nil:
		return -1
	case int:
		return x
	default:
		return -2
	}
}

type c04Work func(ctx context.Context) (any, error)

type c04WorkKey struct{}

// c04Call performs one call: invoke is handed the caller's context (which carries the work) and
// must route it through the real wiring; the work runs wherever the wiring calls it.
func c04Call(t *testing.T, em *verifEmitter, w *c04Wire, script []c04Op, via string,
	invoke func(ctx context.Context) (any, error)) {
	var mu sync.Mutex
	var evs []verifEv
	emit := func(ev verifEv) { mu.Lock(); evs = append(evs, ev); mu.Unlock() }
	defer func() {
		mu.Lock()
		defer mu.Unlock()
		em.mu.Lock()
		defer em.mu.Unlock()
		for _, ev := range evs {
			b, err := json.Marshal(ev)
			if err != nil {
				panic(err)
			}
			em.w.Write(b)
			em.w.WriteByte('\n')
			em.n++
		}
	}()

	base := time.Now()
	parent := context.Background()
	pdl := -1
	if w.Pdl > 0 {
		c, cf := context.WithDeadline(parent, base.Add(c04Dur(w.Pdl)))
		defer cf()
		parent, pdl = c, c04Floor(c04Dur(w.Pdl))
	}
	parent, parentCancel := context.WithCancel(parent)
	defer parentCancel()

	release := make(chan struct{})
	workerDone := make(chan struct{})
	ctxCaptured := make(chan struct{})
	var wctx atomic.Value
	var blocked atomic.Bool
	var started atomic.Bool

	work := c04Work(func(ctx context.Context) (any, error) {
		if !started.CompareAndSwap(false, true) {
			return nil, errors.New("c04: work called twice")
		}
		defer close(workerDone)
		wctx.Store(&ctx)
		dl, has := ctx.Deadline()
		now := c04Ceil(time.Since(base))
		d := 0
		if has {
			d = c04Floor(dl.Sub(base))
		}
		emit(verifEv{"e": "ctx", "has": has, "dl": d, "now": now})
		close(ctxCaptured)
		for _, op := range script {
			switch op.Op {
			case "await":
				blocked.Store(true)
				select {
				case <-ctx.Done():
				case <-release:
				}
				blocked.Store(false)
				emit(verifEv{"e": "await"})
			case "cancel":
				emit(verifEv{"e": "cancel"})
				parentCancel()
			case "ret", "ignore":
				if op.Op == "ignore" {
					emit(verifEv{"e": "ignore"})
					blocked.Store(true)
					<-release
					blocked.Store(false)
					op.Val, op.Err = 5, "nil"
				}
				var resp any
				var err error
				if op.Val >= 0 {
					resp = op.Val
				}
				if op.Err == "w7" {
					err = errC04W7
				}
				emit(verifEv{"e": "ret", "val": op.Val, "err": op.Err})
				return resp, err
			case "panic":
				emit(verifEv{"e": "panic"})
				panic("c04 worker panic")
			}
		}
		return nil, nil
	})
	if w.Inl {
		close(release) // a call that may legitimately wait for its work is not made to (steering only)
	}

	ov := []int{}
	for _, o := range w.Ov {
		ov = append(ov, c04Floor(c04Dur(o)))
	}
	emit(verifEv{"e": "reset", "kind": w.Kind, "via": via, "glob": c04Floor(c04Dur(w.Glob)), "ov": ov, "mw": w.Mw,
		"pdl": pdl, "exempt": false, "s0": c04Floor(time.Since(base))})
	returned := make(chan c04Result, 1)
	go func() {
		var r c04Result
		defer func() {
			if p := recover(); p != nil {
				r = c04Result{pan: true}
			}
			returned <- r
		}()
		r.resp, r.err = invoke(context.WithValue(parent, c04WorkKey{}, work))
	}()

	none := []int{}
	r, st := c04Wait(returned, &blocked)
	switch st {
	case 0:
		s1 := c04Floor(time.Since(base))
		select {
		case <-ctxCaptured:
		case <-time.After(c04Watchdog):
			t.Errorf("c04: work never recorded its context (%s)", via)
			return
		}
		emit(verifEv{"e": "returned", "pan": r.pan, "val": c04ValOf(r.resp), "err": c04ErrName(r.err),
			"ctxerr": c04CtxErr(*(wctx.Load().(*context.Context))), "s1": s1,
			"code": 0, "hdr": none, "bt": none, "n": 0})
		if !w.Inl {
			close(release)
		}
		select {
		case <-workerDone:
		case <-time.After(c04Watchdog):
			t.Errorf("c04: released work did not finish (%s)", via)
			return
		}
		emit(verifEv{"e": "final", "code": 0, "hdr": none, "bt": none, "n": 0})
	case 2:
		t.Errorf("c04: watchdog fired although the work is not blocked (%s)", via)
	case 1:
		c04Stuck.Add(1)
		emit(verifEv{"e": "stuck", "el": c04Floor(time.Since(base))})
		if !w.Inl {
			close(release)
		}
		select {
		case <-returned:
		case <-time.After(c04Watchdog):
			t.Errorf("c04: the call did not return even after the work finished (%s)", via)
		}
	}
}

// ---- client ----

// c04Remote is the last interceptor of the client chain: it stands for the remote side.
func c04Remote(ctx context.Context, method string, req, reply any, cc *grpc.ClientConn,
	invoker grpc.UnaryInvoker, opts ...grpc.CallOption) error {
	work, ok := ctx.Value(c04WorkKey{}).(c04Work)
	if !ok {
		return errors.New("c04: call without work")
	}
	resp, err := work(ctx)
	if p, ok := reply.(*any); ok {
		*p = resp
	}
	return err
}

type c04ClientKey struct {
	glob int
	mw   bool
	opt  bool // client-level timeout given with the zrpc.WithTimeout option instead of RpcClientConf.Timeout
}

func c04NewClient(t *testing.T, k c04ClientKey) Client {
	conf := RpcClientConf{Endpoints: []string{"127.0.0.1:1"}, NonBlock: true}
	conf.Middlewares.Timeout = k.mw
	opts := []ClientOption{WithUnaryClientInterceptor(c04Remote)}
	if k.opt {
		opts = append(opts, WithTimeout(c04Dur(k.glob)))
	} else {
		conf.Timeout = int64(c04Dur(k.glob) / time.Millisecond)
	}
	cli, err := NewClient(conf, opts...)
	if err != nil {
		t.Fatalf("c04: NewClient: %v", err)
	}
	return cli
}

// ---- server ----

func c04ServerConf(glob int) RpcServerConf {
	var c RpcServerConf
	c.ListenOn = "127.0.0.1:0"
	c.Timeout = int64(c04Dur(glob) / time.Millisecond)
	c.MethodTimeouts = []MethodTimeoutConf{{FullMethod: "/c04.Svc/Other", Timeout: 7 * time.Hour}}
	for _, o := range []int{3, 7, 100} {
		c.MethodTimeouts = append(c.MethodTimeouts, MethodTimeoutConf{FullMethod: c04MethodFor([]int{o}), Timeout: c04Dur(o)})
	}
	return c
}

func c04MethodFor(ov []int) string {
	if len(ov) == 0 {
		return c04Method
	}
	return c04Method + string(rune('A'+ov[0]%26))
}

// c04Chain calls the interceptors the way grpc's chained server interceptor does.
func c04Chain(ics []grpc.UnaryServerInterceptor, ctx context.Context, req any, info *grpc.UnaryServerInfo,
	final grpc.UnaryHandler) (any, error) {
	if len(ics) == 0 {
		return final(ctx, req)
	}
	return ics[0](ctx, req, info, func(c context.Context, r any) (any, error) {
		return c04Chain(ics[1:], c, r, info, final)
	})
}

func TestVerifC04ZrpcWire(t *testing.T) {
	em := verifOpen(t)
	defer em.Close()
	logx.Disable()
	var jobs []c04WireJob
	for _, raw := range verifInput(t) {
		var j c04WireJob
		if err := json.Unmarshal(raw, &j); err != nil {
			t.Fatal(err)
		}
		jobs = append(jobs, j)
	}
	if len(jobs) == 0 {
		t.Fatal("c04: no wiring jobs")
	}
	clients := map[c04ClientKey]Client{}
	chains := map[int][]grpc.UnaryServerInterceptor{}
	serverOK := true
	for i := range jobs {
		c := &jobs[i].Case
		switch c.Kind {
		case "rpcc":
			k := c04ClientKey{c.Glob, c.Mw, i%2 == 1}
			if clients[k] == nil {
				clients[k] = c04NewClient(t, k)
			}
		case "rpcs":
			if _, ok := chains[c.Glob]; !ok && serverOK {
				chains[c.Glob], serverOK = c04ServerChain(c04ServerConf(c.Glob))
			}
		}
	}
	defer func() {
		for _, cli := range clients {
			cli.Conn().Close()
		}
	}()
	if !serverOK {
		t.Log("c04: server interceptor chain not accessible in this tree: server wiring cases skipped")
	}
	sem := make(chan struct{}, verifEnvInt("VERIF_C04_PAR", 24))
	var wg sync.WaitGroup
	for i := range jobs {
		i, j := i, &jobs[i]
		if t.Failed() {
			break
		}
		if j.Case.Kind == "rpcs" && !serverOK {
			continue
		}
		sem <- struct{}{}
		wg.Add(1)
		go func() {
			defer wg.Done()
			defer func() { <-sem }()
			c := &j.Case
			switch c.Kind {
			case "rpcc":
				k := c04ClientKey{c.Glob, c.Mw, i%2 == 1}
				cli := clients[k]
				var opts []grpc.CallOption
				if len(c.Ov) > 0 {
					opts = append(opts, WithCallTimeout(c04Dur(c.Ov[0])))
				}
				via := "client-conf"
				if k.opt {
					via = "client-option"
				}
				c04Call(t, em, c, j.Script, via, func(ctx context.Context) (any, error) {
					var reply any
					err := cli.Conn().Invoke(ctx, c04Method, "req", &reply, opts...)
					return reply, err
				})
			case "rpcs":
				ics := chains[c.Glob]
				info := &grpc.UnaryServerInfo{FullMethod: c04MethodFor(c.Ov)}
				c04Call(t, em, c, j.Script, "server-conf", func(ctx context.Context) (any, error) {
					return c04Chain(ics, ctx, "req", info, func(ctx context.Context, req any) (any, error) {
						return ctx.Value(c04WorkKey{}).(c04Work)(ctx)
					})
				})
			}
		}()
	}
	wg.Wait()
}
