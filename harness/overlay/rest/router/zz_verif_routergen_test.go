//go:build verif

package router

// C09: route tables and request probes for the router drivers (rest/router and, with the
// package clause rewritten by the runner, rest). Nothing here judges an answer: tables and
// probes are inputs; every recorded answer is judged by TLC against specs/router/Router.tla.

import (
	"encoding/json"
	"math/rand"
	"sort"
	"strings"
)

// rtSeg is one piece of a route pattern: a literal S or the variable :S.
type rtSeg struct {
	V bool
	S string
}

// rtRoute is one registration: method, "starts with /" and the raw pieces after it.
type rtRoute struct {
	M   string
	Abs bool
	P   []rtSeg
}

// rtReq is one request: method and the raw pieces after the leading slash.
type rtReq struct {
	M string
	P []string
}

type rtTable struct {
	Fam    string
	NF, NA bool // install custom not-found / not-allowed handlers
	Thin   int  // > 1: serve only every Thin-th request when the last registration was refused
	Routes []rtRoute
	Reqs   []rtReq
}

func rtL(s string) rtSeg { return rtSeg{S: s} }
func rtV(s string) rtSeg { return rtSeg{V: true, S: s} }

func (s rtSeg) text() string {
	if s.V {
		return ":" + s.S
	}
	return s.S
}

func (r rtRoute) text() string {
	parts := make([]string, len(r.P))
	for i, s := range r.P {
		parts[i] = s.text()
	}
	t := strings.Join(parts, "/")
	if r.Abs {
		return "/" + t
	}
	return t
}

func (r rtReq) text() string { return "/" + strings.Join(r.P, "/") }

func rtEncPat(p []rtSeg) [][]string {
	out := make([][]string, len(p))
	for i, s := range p {
		k := "l"
		if s.V {
			k = "v"
		}
		out[i] = []string{k, s.S}
	}
	return out
}

func rtEncPath(p []string) []string {
	if p == nil {
		return []string{}
	}
	return p
}

// rtCleanPat: the pieces that survive cleaning (used only to aim probes at routes).
func rtCleanPat(p []rtSeg) []rtSeg {
	var out []rtSeg
	for _, s := range p {
		switch {
		case !s.V && (s.S == "" || s.S == "."):
		case !s.V && s.S == "..":
			if len(out) > 0 {
				out = out[:len(out)-1]
			}
		default:
			out = append(out, s)
		}
	}
	return out
}

func rtCopySegs(p []rtSeg) []rtSeg   { return append([]rtSeg(nil), p...) }
func rtCopyPath(p []string) []string { return append([]string(nil), p...) }

// rtNoisePath inserts pieces that cleaning removes again: "", ".", "zz/..", a trailing
// slash, a leading "..".
func rtNoisePath(p []string, rng *rand.Rand) []string {
	out := rtCopyPath(p)
	n := 1 + rng.Intn(3)
	for k := 0; k < n; k++ {
		pos := rng.Intn(len(out) + 1)
		var ins []string
		switch rng.Intn(6) {
		case 0:
			ins = []string{""}
		case 1:
			ins = []string{"."}
		case 2:
			ins = []string{"zz", ".."}
		case 3:
			pos = len(out)
			ins = []string{""}
		case 4:
			pos = 0
			ins = []string{".."}
		default:
			ins = []string{"", ".", ""}
		}
		out = append(out[:pos], append(ins, out[pos:]...)...)
	}
	return out
}

func rtNoisePat(p []rtSeg, rng *rand.Rand) []rtSeg {
	out := rtCopySegs(p)
	n := 1 + rng.Intn(2)
	for k := 0; k < n; k++ {
		pos := rng.Intn(len(out) + 1)
		var ins []rtSeg
		switch rng.Intn(6) {
		case 0:
			ins = []rtSeg{rtL("")}
		case 1:
			ins = []rtSeg{rtL(".")}
		case 2:
			ins = []rtSeg{rtL("zz"), rtL("..")}
		case 3:
			pos = len(out)
			ins = []rtSeg{rtL("")}
		case 4:
			pos = 0
			ins = []rtSeg{rtL("..")}
		default:
			ins = []rtSeg{rtV("tmp"), rtL("..")}
		}
		out = append(out[:pos], append(ins, out[pos:]...)...)
	}
	return out
}

var rtSupported = []string{"GET", "POST", "PUT", "DELETE", "PATCH", "HEAD", "OPTIONS"}
var rtUnsupported = []string{"TRACE", "CONNECT", "get", "FOO", ""}

// rtProbes derives requests aimed at the table: every route hit exactly (variables bound to
// fresh values and to sibling literals), near misses (shorter, longer, one literal changed),
// raw forms needing cleaning, the root, methods with and without routes.
func rtProbes(routes []rtRoute, rng *rand.Rand, perRoute int) []rtReq {
	mset := map[string]bool{}
	litAt := map[int][]string{}
	seenLit := map[string]bool{}
	var pats [][]rtSeg
	for _, r := range routes {
		if !r.Abs {
			continue
		}
		mset[r.M] = true
		cp := rtCleanPat(r.P)
		pats = append(pats, cp)
		for i, s := range cp {
			if !s.V {
				k := string(rune('0'+i)) + s.S
				if !seenLit[k] {
					seenLit[k] = true
					litAt[i] = append(litAt[i], s.S)
				}
			}
		}
	}
	var methods []string
	for _, m := range rtSupported {
		if mset[m] {
			methods = append(methods, m)
		}
	}
	var unused []string // supported methods without any route: two of them, at random
	for _, m := range rtSupported {
		if !mset[m] {
			unused = append(unused, m)
		}
	}
	rng.Shuffle(len(unused), func(i, j int) { unused[i], unused[j] = unused[j], unused[i] })
	if len(unused) > 2 {
		unused = unused[:2]
	}
	methods = append(methods, unused...)
	methods = append(methods, rtUnsupported[rng.Intn(len(rtUnsupported))])

	seen := map[string]bool{}
	var out []rtReq
	add := func(m string, p []string) {
		k := m + " " + strings.Join(p, "/")
		if seen[k] {
			return
		}
		seen[k] = true
		out = append(out, rtReq{M: m, P: p})
	}
	addAll := func(p []string) {
		for _, m := range methods {
			add(m, p)
		}
	}
	pick := func(i int) string {
		if l := litAt[i]; len(l) > 0 && rng.Intn(3) > 0 {
			s := l[rng.Intn(len(l))]
			switch rng.Intn(12) { // near misses of a literal are different segments
			case 0:
				return strings.ToUpper(s)
			case 1:
				return s + "x"
			case 2:
				return s + s
			case 3:
				if len(s) > 1 {
					return s[:len(s)-1]
				}
			}
			return s
		}
		switch rng.Intn(8) {
		case 0:
			return ":x"
		case 1:
			return "..."
		}
		return "q" + string(rune('0'+i%10))
	}
	for _, cp := range pats {
		for v := 0; v < perRoute; v++ {
			p := make([]string, len(cp))
			for i, s := range cp {
				switch {
				case !s.V:
					p[i] = s.S
				case v == 0:
					p[i] = "q" + string(rune('0'+i%10))
				case v == 1 && len(litAt[i]) > 0:
					p[i] = litAt[i][rng.Intn(len(litAt[i]))]
				default:
					p[i] = pick(i)
				}
			}
			if len(p) == 0 {
				p = []string{""}
			}
			addAll(p)
			m := methods[rng.Intn(len(methods))]
			switch rng.Intn(5) {
			case 0:
				add(m, rtNoisePath(p, rng))
			case 1:
				if len(p) > 1 {
					add(m, rtCopyPath(p[:len(p)-1]))
				}
			case 2:
				add(m, append(rtCopyPath(p), pick(len(p))))
			case 3:
				q := rtCopyPath(p)
				pos := rng.Intn(len(q))
				q[pos] = pick(pos)
				add(m, q)
			}
		}
	}
	addAll([]string{""})
	add(methods[0], []string{"", ""})
	add(methods[0], []string{"..", "."})
	for k := 0; k < 3; k++ {
		n := 1 + rng.Intn(4)
		p := make([]string, n)
		for i := range p {
			p[i] = pick(i)
		}
		add(methods[rng.Intn(len(methods))], p)
	}
	return out
}

// rtAllPaths: every path of 1..depth pieces over the alphabet.
func rtAllPaths(alpha []string, depth int) [][]string {
	var out [][]string
	var rec func(cur []string)
	rec = func(cur []string) {
		if len(cur) > 0 {
			out = append(out, rtCopyPath(cur))
		}
		if len(cur) == depth {
			return
		}
		for _, a := range alpha {
			rec(append(cur, a))
		}
	}
	rec(nil)
	return out
}

// rtCompatible: the premise, between two cleaned patterns of the same method.
func rtCompatible(p, q []rtSeg) bool {
	for i := 0; i < len(p) && i < len(q); i++ {
		if p[i].V && q[i].V && p[i].S != q[i].S {
			return false
		}
		if p[i] != q[i] {
			return true // prefixes differ from here on
		}
	}
	return true
}

// rtUniverse: root plus every pattern of 1..depth pieces over segs, for every method.
func rtUniverse(segs []rtSeg, depth int, methods []string) []rtRoute {
	var pats [][]rtSeg
	pats = append(pats, []rtSeg{})
	var rec func(cur []rtSeg)
	rec = func(cur []rtSeg) {
		if len(cur) > 0 {
			pats = append(pats, rtCopySegs(cur))
		}
		if len(cur) == depth {
			return
		}
		for _, a := range segs {
			rec(append(cur, a))
		}
	}
	rec(nil)
	var out []rtRoute
	for _, m := range methods {
		for _, p := range pats {
			out = append(out, rtRoute{M: m, Abs: true, P: p})
		}
	}
	return out
}

// rtEnumTables visits every set of 1..maxRoutes routes of the universe that honours the
// premise (in index order; idx counts the visited tables).
func rtEnumTables(u []rtRoute, maxRoutes int, visit func(idx int, routes []rtRoute)) int {
	idx := 0
	var cur []int
	var rec func(from int)
	rec = func(from int) {
		if len(cur) > 0 {
			rs := make([]rtRoute, len(cur))
			for i, c := range cur {
				rs[i] = u[c]
			}
			visit(idx, rs)
			idx++
		}
		if len(cur) == maxRoutes {
			return
		}
	next:
		for i := from; i < len(u); i++ {
			for _, c := range cur {
				if u[c].M == u[i].M && !rtCompatible(u[c].P, u[i].P) {
					continue next
				}
			}
			cur = append(cur, i)
			rec(i + 1)
			cur = cur[:len(cur)-1]
		}
	}
	rec(0)
	return idx
}

// rtRandomTable: n routes grown along a shared trie (shared prefixes, literal and variable
// children under the same node), one variable name per node; some registrations are raw
// forms needing cleaning, repeats, unsupported methods or relative patterns (valid = true:
// only raw forms, and no pattern twice for a method, so that every registration is one
// the router should accept).
func rtRandomTable(rng *rand.Rand, n int, valid bool) []rtRoute {
	lits := []string{"a", "b", "c", "d", "api", "v1", "users", "...", ".a"}
	lits = lits[:3+rng.Intn(len(lits)-2)]
	names := []string{"x", "y", "id", "name", ""}
	names = names[:2+rng.Intn(len(names)-1)]
	nm := 2 + rng.Intn(3)
	methods := append([]string(nil), rtSupported...)
	rng.Shuffle(len(methods), func(i, j int) { methods[i], methods[j] = methods[j], methods[i] })
	methods = methods[:nm]
	perMethodNames := rng.Intn(4) == 0
	varName := map[string]string{}   // node -> its variable child's name
	children := map[string][]rtSeg{} // node -> children created so far (any method)
	maxDepth := 2 + rng.Intn(4)
	var out []rtRoute
	have := map[string]bool{}
	key := func(r rtRoute) string { return r.M + " " + rtRoute{Abs: true, P: rtCleanPat(r.P)}.text() }
	for tries := 0; len(out) < n && tries < 50*n; tries++ {
		m := methods[rng.Intn(len(methods))]
		if !valid && len(out) > 0 && rng.Intn(10) == 0 { // repeat an earlier pattern (maybe in raw form, maybe other method)
			r := out[rng.Intn(len(out))]
			nr := rtRoute{M: r.M, Abs: true, P: rtCopySegs(r.P)}
			if rng.Intn(2) == 0 {
				nr.M = m
			}
			if rng.Intn(2) == 0 {
				nr.P = rtNoisePat(nr.P, rng)
			}
			out = append(out, nr)
			continue
		}
		d := 1 + rng.Intn(maxDepth)
		if rng.Intn(25) == 0 {
			d = 0 // the root
		}
		var p []rtSeg
		node := ""
		if perMethodNames {
			node = m
		}
		for i := 0; i < d; i++ {
			var s rtSeg
			ch := children[node]
			switch {
			case len(ch) > 0 && rng.Intn(10) < 6:
				s = ch[rng.Intn(len(ch))]
			case rng.Intn(3) == 0:
				name, ok := varName[node]
				if !ok {
					name = names[rng.Intn(len(names))]
					varName[node] = name
				}
				s = rtV(name)
			default:
				s = rtL(lits[rng.Intn(len(lits))])
			}
			found := false
			for _, c := range ch {
				if c == s {
					found = true
				}
			}
			if !found {
				children[node] = append(ch, s)
			}
			p = append(p, s)
			node += "/" + s.text()
		}
		r := rtRoute{M: m, Abs: true, P: p}
		if have[key(r)] && (valid || rng.Intn(4) > 0) { // keep accidental repeats rare
			continue
		}
		have[key(r)] = true
		switch k := rng.Intn(30); {
		case k == 0 && !valid:
			r.M = rtUnsupported[rng.Intn(len(rtUnsupported))]
		case k == 1 && !valid:
			r.Abs = false
		case k >= 2 && k <= 4:
			r.P = rtNoisePat(r.P, rng)
		}
		out = append(out, r)
	}
	return out
}

// rtSpecialTables: hand-picked situations (backtracking after a literal prefix fails,
// root against a variable, raw registrations, premise-breaking tables, custom handlers).
func rtSpecialTables(rng *rand.Rand) []rtTable {
	g := func(m string, p ...rtSeg) rtRoute { return rtRoute{M: m, Abs: true, P: p} }
	a, b, c, d := rtL("a"), rtL("b"), rtL("c"), rtL("d")
	x, y, z := rtV("x"), rtV("y"), rtV("z")
	tabs := [][]rtRoute{
		{g("GET", a, b, c), g("GET", a, y, d), g("GET", x, b, d), g("GET", x, y, z)},
		{g("GET", a, b), g("GET", x, c), g("POST", x, b), g("POST", a, y, c)},
		{g("GET"), g("POST", x), g("PUT", x, y)},
		{g("GET", x), g("GET", x, x), g("GET", x, a, x)},
		{g("GET", a, x, b, y, c), g("GET", a, b, x, c, y), g("GET", a, x, x, y, y), g("POST", a, b, b, c, c)},
		{g("GET", a, rtL(""), b), g("GET", a, b), g("GET", a, rtL("."), b, rtL("")), g("GET", a, c, rtL(".."), b)},
		{g("GET", rtL(".."), a), g("GET", a, rtL(".."), rtL("..")), g("GET"), g("GET", rtL("")), g("GET", rtL("."))},
		{{M: "GET", Abs: false, P: []rtSeg{a}}, {M: "GET", Abs: false, P: []rtSeg{}}, {M: "GET", Abs: false, P: []rtSeg{x, a}},
			{M: "TRACE", Abs: true, P: []rtSeg{a}}, {M: "get", Abs: true, P: []rtSeg{a}}, {M: "", Abs: true, P: []rtSeg{a}}, g("HEAD", a)},
		{g("GET", a, x), g("POST", a, y), g("PUT", a, b), g("DELETE", x, b)},
		{g("OPTIONS", rtL("..."), x), g("OPTIONS", rtL(".a"), rtL("b.")), g("PATCH", rtL("..."), rtL("..a"))},
		// the premise does not hold below: the spec demands nothing of the dispatch
		{g("GET", x, a), g("GET", y, b), g("GET", x, b)},
		{g("GET", a, x), g("GET", a, y), g("POST", a, z)},
	}
	var out []rtTable
	for i, rs := range tabs {
		for k := 0; k < 4; k++ {
			t := rtTable{Fam: "special", NF: k&1 == 1, NA: k&2 == 2, Routes: rs}
			t.Reqs = rtProbes(rs, rng, 4)
			if i == 6 || i == 5 {
				t.Reqs = append(t.Reqs, rtReq{M: "GET", P: []string{"a", "..", ".."}}, rtReq{M: "GET", P: []string{"a", "", "b", ""}},
					rtReq{M: "GET", P: []string{".", "a", ".", "b"}}, rtReq{M: "GET", P: []string{"a", "c", "..", "b"}})
			}
			out = append(out, t)
		}
	}
	return out
}

// rtFromOps turns a TLC-generated history of Handle operations into routes.
func rtFromOps(raw json.RawMessage) ([]rtRoute, error) {
	var ops []struct {
		M   string     `json:"m"`
		Abs bool       `json:"abs"`
		P   [][]string `json:"p"`
	}
	if err := json.Unmarshal(raw, &ops); err != nil {
		return nil, err
	}
	var out []rtRoute
	for _, o := range ops {
		r := rtRoute{M: o.M, Abs: o.Abs}
		for _, s := range o.P {
			r.P = append(r.P, rtSeg{V: s[0] == "v", S: s[1]})
		}
		out = append(out, r)
	}
	return out, nil
}

// rtFullProbes: every path of 1..depth pieces over the alphabet, the root and one longer
// path for every method in ms; a few of them, and a few raw forms, for the methods in other.
func rtFullProbes(alpha []string, depth int, ms, other []string, rng *rand.Rand) []rtReq {
	paths := rtAllPaths(alpha, depth)
	long := make([]string, depth+1)
	for i := range long {
		long[i] = alpha[i%len(alpha)]
	}
	paths = append(paths, []string{""}, long)
	var out []rtReq
	for _, m := range ms {
		for _, p := range paths {
			out = append(out, rtReq{M: m, P: p})
		}
	}
	all := append(append([]string(nil), ms...), other...)
	for _, m := range other {
		out = append(out, rtReq{M: m, P: []string{""}})
		for k := 0; k < 3; k++ {
			out = append(out, rtReq{M: m, P: paths[rng.Intn(len(paths))]})
		}
	}
	for k := 0; k < 4; k++ {
		p := paths[rng.Intn(len(paths))]
		out = append(out, rtReq{M: all[rng.Intn(len(all))], P: rtNoisePath(p, rng)})
	}
	for k := 0; k < 3; k++ { // a piece that merely starts with / differs in case from an alphabet piece
		p := rtCopyPath(paths[rng.Intn(len(paths))])
		i := rng.Intn(len(p))
		p[i] = []string{p[i] + p[i], p[i] + "x", strings.ToUpper(p[i])}[k]
		out = append(out, rtReq{M: ms[rng.Intn(len(ms))], P: p})
	}
	return out
}

func rtSortedVars(m map[string]string) [][]string {
	out := make([][]string, 0, len(m))
	for k, v := range m {
		out = append(out, []string{k, v})
	}
	sort.Slice(out, func(i, j int) bool { return out[i][0] < out[j][0] })
	return out
}

func rtSplitAllow(vals []string) []string {
	out := []string{}
	for _, v := range vals {
		if v == "" {
			continue
		}
		out = append(out, strings.Split(v, ", ")...)
	}
	return out
}
