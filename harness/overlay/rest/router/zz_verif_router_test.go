//go:build verif

package router

// C09 driver: registers route tables on the real router (NewRouter), serves requests
// through ServeHTTP with httptest and records what happened: the error of every Handle,
// and per request which handler ran, the pathvar.Vars it saw, the status code, the Allow
// header, invocations of the custom not-found / not-allowed handlers. No expectations
// here: the verdict comes from TLC validating the trace against specs/router/Router.tla.

import (
	"net/http"
	"net/http/httptest"
	"testing"

	"github.com/zeromicro/go-zero/rest/pathvar"
)

var thinOff int

type rtCall struct {
	id   int
	vars map[string]string
}

// rtRunTable performs one table on a fresh router and emits one trace.
func rtRunTable(em *verifEmitter, t rtTable) {
	var calls []rtCall
	nf, na := 0, 0
	rt := NewRouter()
	if t.NF {
		rt.SetNotFoundHandler(http.HandlerFunc(func(w http.ResponseWriter, r *http.Request) { nf++ }))
	}
	if t.NA {
		rt.SetNotAllowedHandler(http.HandlerFunc(func(w http.ResponseWriter, r *http.Request) { na++ }))
	}
	em.Emit(verifEv{"e": "reset", "nf": t.NF, "na": t.NA})
	var lastErr error
	for i, r := range t.Routes {
		id := i + 1
		err := rt.Handle(r.M, r.text(), http.HandlerFunc(func(w http.ResponseWriter, req *http.Request) {
			calls = append(calls, rtCall{id: id, vars: pathvar.Vars(req)})
		}))
		lastErr = err
		ev := verifEv{"e": "handle", "m": r.M, "abs": r.Abs, "p": rtEncPat(r.P), "id": id, "ok": err == nil}
		if err != nil {
			ev["err"] = err.Error()
		}
		em.Emit(ev)
	}
	reqs := t.Reqs
	if t.Thin > 1 && lastErr != nil { // the table itself was served in full by the history that built it
		var some []rtReq
		for i := thinOff % t.Thin; i < len(reqs); i += t.Thin {
			some = append(some, reqs[i])
		}
		reqs = some
		thinOff++
	}
	for _, q := range reqs {
		calls = calls[:0]
		nf, na = 0, 0
		req := httptest.NewRequest(http.MethodGet, "/", nil)
		req.Method = q.M
		req.URL.Path = q.text()
		rec := httptest.NewRecorder()
		rt.ServeHTTP(rec, req)
		h := 0
		vars := [][]string{}
		if len(calls) > 0 {
			h = calls[0].id
			vars = rtSortedVars(calls[0].vars)
		}
		em.Emit(verifEv{"e": "serve", "m": q.M, "p": rtEncPath(q.P), "n": len(calls), "h": h, "vars": vars,
			"st": rec.Code, "allow": rtSplitAllow(rec.Header().Values("Allow")), "nf": nf, "na": na})
	}
}

// TestVerifRouterReplay: TLC-generated registration histories (one per reachable table of
// the model), each probed with every path over its alphabet.
func TestVerifRouterReplay(t *testing.T) {
	em := verifOpen(t)
	defer em.Close()
	rng := verifRand(11)
	depth := verifEnvInt("VERIF_RT_DEPTH", 2)
	for _, raw := range verifInput(t) {
		routes, err := rtFromOps(raw)
		if err != nil {
			t.Fatal(err)
		}
		tab := rtTable{Fam: "tlc", Routes: routes, Thin: 6}
		tab.Reqs = rtFullProbes([]string{"a", "b", "c"}, depth, []string{"GET", "POST"}, []string{"PUT", "TRACE"}, rng)
		rtRunTable(em, tab)
	}
}

// TestVerifRouterEnum: every premise-honouring table of up to VERIF_RT_ROUTES routes over
// the pattern pieces {a, b, :x, :y} (depth VERIF_RT_DEPTH, methods GET/POST), each probed
// with every path over {a, b, c}; VERIF_RT_STRIDE > 1 visits a seeded 1-in-stride sample.
func TestVerifRouterEnum(t *testing.T) {
	em := verifOpen(t)
	defer em.Close()
	rng := verifRand(12)
	depth := verifEnvInt("VERIF_RT_DEPTH", 2)
	maxRoutes := verifEnvInt("VERIF_RT_ROUTES", 3)
	stride := verifEnvInt("VERIF_RT_STRIDE", 1)
	part, parts := verifEnvInt("VERIF_RT_PART", 0), verifEnvInt("VERIF_RT_PARTS", 1)
	segs := []rtSeg{rtL("a"), rtL("b"), rtV("x"), rtV("y")}
	u := rtUniverse(segs, depth, []string{"GET", "POST"})
	paths := rtAllPaths([]string{"a", "b", "c"}, depth)
	paths = append(paths, []string{""}, []string{"a", "b", "c", "a"}[:depth+1], []string{"aa"}, []string{"ab", "b"}, []string{"a", "B"})
	// GET and POST: every path; PUT (no routes: 405 or 404): a rotating quarter of them
	var variants [4][]rtReq
	for v := range variants {
		for _, m := range []string{"GET", "POST", "PUT"} {
			for i, p := range paths {
				if m != "PUT" || i%4 == v {
					variants[v] = append(variants[v], rtReq{M: m, P: p})
				}
			}
		}
	}
	off := int(verifSeed()) % stride
	n := 0
	total := rtEnumTables(u, maxRoutes, func(idx int, routes []rtRoute) {
		if idx%stride != off || (idx/stride)%parts != part {
			return
		}
		reqs := variants[n%4]
		tab := rtTable{Fam: "enum", Routes: routes, Reqs: reqs}
		if rng.Intn(8) == 0 { // a raw form of one probe
			q := reqs[rng.Intn(len(reqs))]
			tab.Reqs = append(append([]rtReq(nil), reqs...), rtReq{M: q.M, P: rtNoisePath(q.P, rng)})
		}
		rtRunTable(em, tab)
		n++
	})
	t.Logf("enum: universe %d routes, %d tables honour the premise, %d visited", len(u), total, n)
}

// TestVerifRouterRandom: random larger tables (10-40 routes with shared prefixes, literal
// and variable children under the same node), probes aimed at every route; plus the
// hand-picked special tables.
func TestVerifRouterRandom(t *testing.T) {
	em := verifOpen(t)
	defer em.Close()
	rng := verifRand(13)
	for _, tab := range rtSpecialTables(rng) {
		rtRunTable(em, tab)
	}
	tables := verifEnvInt("VERIF_RT_TABLES", 60)
	for i := 0; i < tables; i++ {
		n := 10 + rng.Intn(31)
		if i%10 == 9 {
			n = 1 + rng.Intn(9)
		}
		routes := rtRandomTable(rng, n, rng.Intn(5) == 0)
		tab := rtTable{Fam: "random", Routes: routes, NF: rng.Intn(6) == 0, NA: rng.Intn(6) == 0}
		tab.Reqs = rtProbes(routes, rng, 3)
		rtRunTable(em, tab)
	}
}
