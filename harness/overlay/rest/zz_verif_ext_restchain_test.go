//go:build verif

package rest

// Extension "restchain" (host C09, advisory), driver for the per-route pipeline the engine builds:
// real rest.Server objects are configured (built-in handlers on/off, WithChain, Use,
// WithMiddlewares, AddRoutes with WithJwt / WithSignature), bound with engine.bindRoutes -- the
// path Start takes before listening -- onto a recording router, and requests are served by the
// handlers the engine handed to that router.  Harness middlewares and handlers record when they
// are constructed, entered and left, which of trace / log / timeout is in effect around them and which
// built-in handlers are on their call stack.
// No expectations here: TLC validates the recorded trace against specs/restchain/Route.tla.

import (
	"crypto/rand"
	"crypto/rsa"
	"crypto/x509"
	"encoding/json"
	"encoding/pem"
	"fmt"
	"net/http"
	"net/http/httptest"
	"os"
	"path/filepath"
	"runtime"
	"sort"
	"strings"
	"sync"
	"testing"
	"time"

	"github.com/golang-jwt/jwt/v4"
	"github.com/zeromicro/go-zero/core/logx"
	"github.com/zeromicro/go-zero/rest/chain"
	"github.com/zeromicro/go-zero/rest/internal"
	"go.opentelemetry.io/otel"
	sdktrace "go.opentelemetry.io/otel/sdk/trace"
	oteltrace "go.opentelemetry.io/otel/trace"
)

const (
	verifExtrestchainQ      = "X-Verif-Q"
	verifExtrestchainBlk    = "X-Verif-Blk"
	verifExtrestchainBoom   = "X-Verif-Boom"
	verifExtrestchainSecret = "verif-extrestchain-secret"
	verifExtrestchainMaxLen = 16 // conf.MaxBytes
)

var verifExtrestchainBuiltins = []string{"trace", "log", "prometheus", "maxconns", "breaker", "shedding",
	"timeout", "recover", "metrics", "maxbytes", "gunzip"}

var verifExtrestchainSeq int

type verifExtrestchainRouter struct{ handlers []http.Handler }

func (r *verifExtrestchainRouter) Handle(_, _ string, h http.Handler) error {
	r.handlers = append(r.handlers, h)
	return nil
}
func (r *verifExtrestchainRouter) ServeHTTP(http.ResponseWriter, *http.Request) {}
func (r *verifExtrestchainRouter) SetNotFoundHandler(http.Handler)                {}
func (r *verifExtrestchainRouter) SetNotAllowedHandler(http.Handler)              {}

type verifExtrestchainConf struct {
	Mw     []string `json:"mw"`
	Tmo    bool     `json:"tmo"`
	Custom bool     `json:"custom"`
	Cms    []string `json:"cms"`
}

type verifExtrestchainGroup struct {
	Jwt   bool     `json:"jwt"`
	Sig   string   `json:"sig"`
	Mids  []string `json:"mids"`
	Terms []string `json:"terms"`
}

type verifExtrestchainWorld struct {
	t       *testing.T
	em      *verifEmitter
	mu      sync.Mutex
	wraps   []string
	nq      int
	id      int
	nroutes int
	srv     *Server
	router  *verifExtrestchainRouter
	keyFile string
	token   string
	jitter  bool
}

func verifExtrestchainStrs(s []string) []string {
	if s == nil {
		return []string{}
	}
	return s
}

func (w *verifExtrestchainWorld) drain() []string {
	w.mu.Lock()
	out := w.wraps
	w.wraps = nil
	w.mu.Unlock()
	return verifExtrestchainStrs(out)
}

func (w *verifExtrestchainWorld) built(tag string) {
	w.mu.Lock()
	w.wraps = append(w.wraps, tag)
	w.mu.Unlock()
}

// verifExtrestchainFrames: the go-zero functions whose closures are the built-in handlers and gates (the
// compiler names a closure after the constructor it came from even when that was inlined into the engine:
// rest.(*engine).buildChainWithNativeMiddlewares.MaxBytesHandler.func8.1).
var verifExtrestchainFrames = []struct{ sub, name string }{
	{".TraceHandler.", "trace"},
	{"LogHandler.", "log"},
	{".PrometheusHandler.", "prometheus"},
	{".MaxConnsHandler.", "maxconns"},
	{".BreakerHandler.", "breaker"},
	{".SheddingHandler.", "shedding"},
	{".(*timeoutHandler).", "timeout"},
	{".RecoverHandler.", "recover"},
	{".MetricHandler.", "metrics"},
	{".MaxBytesHandler.", "maxbytes"},
	{".GunzipHandler.", "gunzip"},
	{".Authorize.", "auth"},
	{"ContentSecurityHandler.", "sig"},
}

// verifExtrestchainStack: the built-in handlers and gates on the caller's stack, outermost first
// (consecutive frames of one handler count once).
func verifExtrestchainStack() []string {
	pcs := make([]uintptr, 512)
	n := runtime.Callers(2, pcs)
	frames := runtime.CallersFrames(pcs[:n])
	var inner []string
	for {
		f, more := frames.Next()
		for _, m := range verifExtrestchainFrames {
			if strings.Contains(f.Function, "go-zero/rest") && strings.Contains(f.Function, m.sub) {
				if len(inner) == 0 || inner[len(inner)-1] != m.name {
					inner = append(inner, m.name)
				}
				break
			}
		}
		if !more {
			break
		}
	}
	out := make([]string, len(inner))
	for i, x := range inner {
		out[len(inner)-1-i] = x
	}
	return out
}

func verifExtrestchainCaps(r *http.Request) []string {
	caps := []string{}
	ctx := r.Context()
	if oteltrace.SpanContextFromContext(ctx).IsValid() {
		caps = append(caps, "trace")
	}
	if internal.LogCollectorFromContext(ctx) != nil {
		caps = append(caps, "log")
	}
	if _, ok := ctx.Deadline(); ok {
		caps = append(caps, "timeout")
	}
	return caps
}

// layer is what every harness middleware / handler does with a request (next == nil: the handler).
func (w *verifExtrestchainWorld) layer(tag string, next http.HandlerFunc) http.HandlerFunc {
	return func(rw http.ResponseWriter, r *http.Request) {
		q := r.Header.Get(verifExtrestchainQ)
		w.em.Emit(verifEv{"e": "enter", "q": q, "tag": tag, "caps": verifExtrestchainCaps(r), "stk": verifExtrestchainStack()})
		defer func() { w.em.Emit(verifEv{"e": "leave", "q": q, "tag": tag}) }()
		if w.jitter {
			runtime.Gosched()
		}
		if next == nil {
			if r.Header.Get(verifExtrestchainBoom) != "" {
				panic("verif: handler panics")
			}
			rw.WriteHeader(http.StatusOK)
			return
		}
		if strings.Contains(r.Header.Get(verifExtrestchainBlk), ","+tag+",") {
			rw.WriteHeader(http.StatusTeapot)
			return
		}
		next(rw, r)
	}
}

func (w *verifExtrestchainWorld) restMw(tag string) Middleware {
	return func(next http.HandlerFunc) http.HandlerFunc {
		w.built(tag)
		return w.layer(tag, next)
	}
}

func (w *verifExtrestchainWorld) chainMw(tag string) chain.Middleware {
	return func(next http.Handler) http.Handler {
		w.built(tag)
		return w.layer(tag, next.ServeHTTP)
	}
}

func verifExtrestchainNew(t *testing.T, em *verifEmitter, src, keyFile, token string, cf verifExtrestchainConf) *verifExtrestchainWorld {
	verifExtrestchainSeq++
	w := &verifExtrestchainWorld{t: t, em: em, id: verifExtrestchainSeq, keyFile: keyFile, token: token,
		router: &verifExtrestchainRouter{}}
	conf := RestConf{MaxBytes: verifExtrestchainMaxLen, MaxConns: 10000}
	if cf.Tmo {
		conf.Timeout = 3600 * 1000 // one hour: never expires in a run
	}
	on := map[string]bool{}
	for _, m := range cf.Mw {
		on[m] = true
	}
	conf.Middlewares.Trace = on["trace"]
	conf.Middlewares.Log = on["log"]
	conf.Middlewares.Prometheus = on["prometheus"]
	conf.Middlewares.MaxConns = on["maxconns"]
	conf.Middlewares.Breaker = on["breaker"]
	conf.Middlewares.Shedding = on["shedding"]
	conf.Middlewares.Timeout = on["timeout"]
	conf.Middlewares.Recover = on["recover"]
	conf.Middlewares.Metrics = on["metrics"]
	conf.Middlewares.MaxBytes = on["maxbytes"]
	conf.Middlewares.Gunzip = on["gunzip"]
	opts := []RunOption{WithRouter(w.router)}
	if cf.Custom {
		ms := make([]chain.Middleware, len(cf.Cms))
		for i, tag := range cf.Cms {
			ms[i] = w.chainMw(tag)
		}
		opts = append(opts, WithChain(chain.New(ms...)))
	}
	srv, err := NewServer(conf, opts...)
	if err != nil {
		t.Fatal(err)
	}
	w.srv = srv
	mw := []string{}
	for _, b := range verifExtrestchainBuiltins {
		if on[b] {
			mw = append(mw, b)
		}
	}
	em.Emit(verifEv{"e": "reset", "src": src, "mw": mw, "tmo": cf.Tmo, "shed": conf.CpuThreshold > 0, "custom": cf.Custom, "cms": verifExtrestchainStrs(cf.Cms)})
	w.drain()
	return w
}

func (w *verifExtrestchainWorld) use(tag string) {
	w.srv.Use(w.restMw(tag))
	w.em.Emit(verifEv{"e": "use", "t": tag, "w": w.drain()})
}

func (w *verifExtrestchainWorld) add(g verifExtrestchainGroup) {
	routes := make([]Route, len(g.Terms))
	terms := make([]string, len(g.Terms))
	for i := range g.Terms {
		w.nroutes++
		terms[i] = fmt.Sprintf("h%d", w.nroutes)
		routes[i] = Route{Method: http.MethodGet, Path: fmt.Sprintf("/x%d/r%d", w.id, w.nroutes),
			Handler: w.layer(terms[i], nil)}
	}
	ms := make([]Middleware, len(g.Mids))
	for i, tag := range g.Mids {
		ms[i] = w.restMw(tag)
	}
	routes = WithMiddlewares(ms, routes...)
	var opts []RouteOption
	if g.Jwt {
		opts = append(opts, WithJwt(verifExtrestchainSecret))
	}
	keys := []PrivateKeyConf{{Fingerprint: "verif", KeyFile: w.keyFile}}
	switch g.Sig {
	case "strict":
		opts = append(opts, WithSignature(SignatureConf{Strict: true, Expiry: time.Hour, PrivateKeys: keys}))
	case "lax":
		opts = append(opts, WithSignature(SignatureConf{Strict: false, Expiry: time.Hour, PrivateKeys: keys}))
	case "nokeys":
		opts = append(opts, WithSignature(SignatureConf{Strict: false, Expiry: time.Hour}))
	case "bad":
		opts = append(opts, WithSignature(SignatureConf{Strict: true, Expiry: time.Hour}))
	}
	w.srv.AddRoutes(routes, opts...)
	w.em.Emit(verifEv{"e": "add", "jwt": g.Jwt, "sig": g.Sig, "mids": verifExtrestchainStrs(g.Mids), "terms": terms, "w": w.drain()})
}

func (w *verifExtrestchainWorld) bind() {
	err := w.srv.ngin.bindRoutes(w.srv.router)
	w.em.Emit(verifEv{"e": "bind", "ok": err == nil, "n": len(w.router.handlers), "w": w.drain()})
}

// serve sends one request to the handler of the r-th router.Handle call.  trig says what the request
// carries: "maxbytes" a body over conf.MaxBytes, "gunzip" a gzip body that is none, "auth" no token,
// "sig" a method the signature handler checks (and no signature); any other name tells the harness
// middlewares of that name to answer themselves.
func (w *verifExtrestchainWorld) serve(r int, trig []string, boom bool) {
	if r < 1 || r > len(w.router.handlers) {
		return
	}
	w.mu.Lock()
	w.nq++
	q := fmt.Sprintf("q%d", w.nq)
	w.mu.Unlock()
	has := map[string]bool{}
	blk := ","
	for _, x := range trig {
		has[x] = true
		switch x {
		case "maxbytes", "gunzip", "auth", "sig":
		default:
			blk += x + ","
		}
	}
	method := http.MethodPatch
	if has["sig"] {
		method = http.MethodGet
	}
	body := ""
	if has["maxbytes"] {
		body = strings.Repeat("x", 4*verifExtrestchainMaxLen)
	} else if has["gunzip"] {
		body = "xx"
	}
	var req *http.Request
	if body == "" {
		req = httptest.NewRequest(method, "/", http.NoBody)
	} else {
		req = httptest.NewRequest(method, "/", strings.NewReader(body))
	}
	if has["gunzip"] {
		req.Header.Set("Content-Encoding", "gzip")
	}
	if !has["auth"] {
		req.Header.Set("Authorization", w.token)
	}
	req.Header.Set(verifExtrestchainQ, q)
	req.Header.Set(verifExtrestchainBlk, blk)
	if boom {
		req.Header.Set(verifExtrestchainBoom, "1")
	}
	rec := httptest.NewRecorder()
	sort.Strings(trig)
	w.em.Emit(verifEv{"e": "begin", "q": q, "r": r, "trig": verifExtrestchainStrs(trig), "boom": boom})
	code := func() (code int) {
		defer func() {
			if p := recover(); p != nil {
				code = 0
			}
		}()
		w.router.handlers[r-1].ServeHTTP(rec, req)
		return rec.Code
	}()
	w.em.Emit(verifEv{"e": "end", "q": q, "code": code})
}

func (w *verifExtrestchainWorld) fin() { w.em.Emit(verifEv{"e": "fin", "w": w.drain()}) }

// verifExtrestchainEnv: log off, a real tracer provider (so that TraceHandler's spans are valid), an RSA
// key file for WithSignature, a token the auth handler accepts.
func verifExtrestchainEnv(t *testing.T) (keyFile, token string) {
	logx.Disable()
	prev := otel.GetTracerProvider()
	tp := sdktrace.NewTracerProvider()
	otel.SetTracerProvider(tp)
	t.Cleanup(func() { otel.SetTracerProvider(prev) })
	key, err := rsa.GenerateKey(rand.Reader, 1024)
	if err != nil {
		t.Fatal(err)
	}
	keyFile = filepath.Join(t.TempDir(), "verif-extrestchain.pem")
	pemBytes := pem.EncodeToMemory(&pem.Block{Type: "RSA PRIVATE KEY", Bytes: x509.MarshalPKCS1PrivateKey(key)})
	if err := os.WriteFile(keyFile, pemBytes, 0o600); err != nil {
		t.Fatal(err)
	}
	now := time.Now().Unix()
	token, err = jwt.NewWithClaims(jwt.SigningMethodHS256, jwt.MapClaims{"iat": now - 60, "exp": now + 24*3600,
		"verif": "extrestchain"}).SignedString([]byte(verifExtrestchainSecret))
	if err != nil {
		t.Fatal(err)
	}
	return keyFile, token
}

type verifExtrestchainOp struct {
	Op string `json:"op"`
	verifExtrestchainConf
	T string `json:"t"`
	verifExtrestchainGroup
	R    int      `json:"r"`
	Trig []string `json:"trig"`
	Boom bool     `json:"boom"`
}

// TestVerifExtrestchainEngineReplay: every TLC-generated history of RouteImpl.tla (server set-up,
// start, one request; one per distinct pipeline x answering layers x handler panic) on a real server.
func TestVerifExtrestchainEngineReplay(t *testing.T) {
	em := verifOpen(t)
	defer em.Close()
	keyFile, token := verifExtrestchainEnv(t)
	for _, raw := range verifInput(t) {
		var ops []verifExtrestchainOp
		if err := json.Unmarshal(raw, &ops); err != nil {
			t.Fatal(err)
		}
		if len(ops) == 0 || ops[0].Op != "new" {
			t.Fatalf("history does not start with new: %s", raw)
		}
		w := verifExtrestchainNew(t, em, "replay", keyFile, token, ops[0].verifExtrestchainConf)
		for _, op := range ops[1:] {
			switch op.Op {
			case "use":
				w.use(op.T)
			case "add":
				w.add(op.verifExtrestchainGroup)
			case "bind":
				w.bind()
			case "req":
				w.serve(op.R, op.Trig, op.Boom)
			}
		}
		w.fin()
	}
}

// TestVerifExtrestchainEngineRandom: seeded random servers (any subset of the built-ins, custom chains,
// several groups with every signature setting, longer middleware lists) and random requests, half of the
// servers serving them from several goroutines at once.
func TestVerifExtrestchainEngineRandom(t *testing.T) {
	em := verifOpen(t)
	defer em.Close()
	keyFile, token := verifExtrestchainEnv(t)
	rng := verifRand(902)
	runs := verifEnvInt("VERIF_EXT_ENGINE_RUNS", 150)
	tags := []string{"a", "b", "c", "d", "e"}
	pick := func(max int) []string {
		n := rng.Intn(max + 1)
		out := make([]string, n)
		for i := range out {
			out[i] = tags[rng.Intn(len(tags))]
		}
		return out
	}
	sigs := []string{"off", "off", "off", "strict", "strict", "lax", "nokeys"}
	for run := 0; run < runs; run++ {
		cf := verifExtrestchainConf{Tmo: rng.Intn(4) != 0}
		switch rng.Intn(5) {
		case 0:
			cf.Custom = true
			cf.Cms = pick(3)
		case 1:
			cf.Mw = append([]string{}, verifExtrestchainBuiltins...)
		default:
			for _, b := range verifExtrestchainBuiltins {
				if rng.Intn(2) == 0 {
					cf.Mw = append(cf.Mw, b)
				}
			}
		}
		w := verifExtrestchainNew(t, em, "random", keyFile, token, cf)
		w.jitter = run%3 == 0
		ngroups := 1 + rng.Intn(3)
		useAt := rng.Intn(ngroups + 1) // Use calls may come before, between or after the AddRoutes calls
		nuse := rng.Intn(4)
		badAt := -1 // a group whose signature setting is rejected at start: first, in the middle or last
		if run%5 == 3 {
			badAt = rng.Intn(ngroups)
		}
		for g := 0; g <= ngroups; g++ {
			if g == useAt {
				for i := 0; i < nuse; i++ {
					w.use(tags[rng.Intn(len(tags))])
				}
			}
			if g == ngroups {
				break
			}
			grp := verifExtrestchainGroup{Jwt: rng.Intn(2) == 0, Sig: sigs[rng.Intn(len(sigs))], Mids: pick(3),
				Terms: make([]string, 1+rng.Intn(3))}
			if g == badAt {
				grp.Sig = "bad"
			}
			w.add(grp)
		}
		w.bind()
		n := len(w.router.handlers)
		nreq := 0
		if n > 0 {
			nreq = 6 + rng.Intn(10)
		}
		booms := 0
		var wg sync.WaitGroup
		for i := 0; i < nreq; i++ {
			r := 1 + rng.Intn(n)
			var trig []string
			for _, x := range []string{"maxbytes", "gunzip", "auth", "sig"} {
				if rng.Intn(3) == 0 {
					trig = append(trig, x)
				}
			}
			if rng.Intn(3) == 0 {
				trig = append(trig, tags[rng.Intn(len(tags))])
			}
			boom := false
			if booms < 3 && rng.Intn(6) == 0 { // few enough never to trip the route's breaker
				boom = true
				booms++
			}
			if run%2 == 0 {
				wg.Add(1)
				go func() { defer wg.Done(); w.serve(r, trig, boom) }()
				if i%4 == 3 {
					wg.Wait()
				}
			} else {
				w.serve(r, trig, boom)
			}
		}
		wg.Wait()
		w.fin()
	}
}
