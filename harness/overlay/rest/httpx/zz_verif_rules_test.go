//go:build verif

package httpx

// C08 driver: replays TLC-enumerated vectors (FieldRulesGen.tla) on the real
// unmarshallers and records what they did.  No expectations live here: the verdict
// is TLC's (FieldRulesTrace.tla).
//
// A vector = source x wrapper x type (field specs, built with reflect.StructOf incl.
// tags) x input (one value class per field + extra keys).  Numbers travel as integers in
// the unit of their field (f.u): n stands for n/u - halves (3 is 1.5) or twentieths (2 is
// 0.1).  The form and header sources are multimaps: a key carries a list of texts (the
// classes novals / num2 / str2 / list are lists of no, two, or several texts).

import (
	"bytes"
	"encoding/json"
	"fmt"
	"math"
	"net/http"
	"net/http/httptest"
	"net/url"
	"os"
	"reflect"
	"sort"
	"strconv"
	"strings"
	"testing"

	"github.com/zeromicro/go-zero/core/conf"
	"github.com/zeromicro/go-zero/core/mapping"
	"github.com/zeromicro/go-zero/rest/pathvar"
)

type vfVal struct {
	T string `json:"t"`
	N int    `json:"n"`
	S string `json:"s"`
}

type vfField struct {
	Nm   string   `json:"nm"`
	K    string   `json:"k"`
	U    int      `json:"u"` // unit of the numbers of this field (dn, lo, hi, on, input and result): n stands for n/u
	Ptr  bool     `json:"ptr"`
	Opt  string   `json:"opt"`
	Dep  string   `json:"dep"`
	Hd   bool     `json:"hd"`
	Dn   int      `json:"dn"`
	Ds   string   `json:"ds"`
	Hr   bool     `json:"hr"`
	Lo   int      `json:"lo"`
	Hi   int      `json:"hi"`
	Li   bool     `json:"li"`
	Ri   bool     `json:"ri"`
	Hlo  bool     `json:"hlo"`
	Hhi  bool     `json:"hhi"`
	Ho   bool     `json:"ho"`
	On   []int    `json:"on"`
	Os   []string `json:"os"`
	Osyn string   `json:"osyn"`
	Fs   bool     `json:"fs"`
}

type vfVec struct {
	Src  string    `json:"src"`
	Wrap string    `json:"wrap"`
	Wabs bool      `json:"wabs"`
	F    []vfField `json:"f"`
	In   []vfVal   `json:"in"`
	Xk   []string  `json:"xk"`
	Xv   []vfVal   `json:"xv"`  // the values the extra keys carry (one per extra key)
	Ksp  string    `json:"ksp"` // spelling of the document keys: "lower" (as in the tags) / "cap"
	Mk   string    `json:"mk"`  // first key of the map wrapper (the second one is "k2")
}

// vfKey spells a document key (field name or wrapper key) the way the vector asks for.
func (v *vfVec) key(k string) string {
	if v.Ksp == "cap" && k != "" {
		return strings.ToUpper(k[:1]) + k[1:]
	}
	return k
}

func (v *vfVec) mapKeys() []string {
	mk := v.Mk
	if mk == "" {
		mk = "k"
	}
	return []string{mk, "k2"}
}

func vfIsList(k string) bool { return k == "strs" || k == "ints" }

func vfSplit(s string) []string {
	if s == "" {
		return nil
	}
	return strings.Split(s, ",")
}

// leaf of an input document: the value class plus the kind and the unit of the field it is meant for
type vfLeaf struct {
	v    vfVal
	kind string
	u    int
}

// vfNum writes the number n/u as an exact decimal text (u = 2: halves, u = 20: twentieths).
func vfNum(n, u int) string {
	if u <= 0 {
		u = 2
	}
	if n%u == 0 {
		return strconv.Itoa(n / u)
	}
	s := ""
	if n < 0 {
		s = "-"
		n = -n
	}
	scale, digits := 10, 1
	for scale%u != 0 {
		scale *= 10
		digits++
		if digits > 6 {
			panic("verif: unit without a finite decimal expansion")
		}
	}
	frac := fmt.Sprintf("%0*d", digits, (n%u)*(scale/u))
	return fmt.Sprintf("%s%d.%s", s, n/u, strings.TrimRight(frac, "0"))
}

// unit of the numbers of a field (vectors written before units existed carry none: halves)
func (f vfField) unit() int {
	if f.U <= 0 {
		return 2
	}
	return f.U
}

// the extra keys and their values (a vector without xv: every extra key carries the word q)
func (v *vfVec) extra() map[string]vfVal {
	m := map[string]vfVal{}
	for j, k := range v.Xk {
		if j < len(v.Xv) {
			m[k] = v.Xv[j]
		} else {
			m[k] = vfVal{T: "str", S: "q"}
		}
	}
	return m
}

func vfTagKey(src string) string {
	switch src {
	case "map":
		return "key"
	case "form", "formpost":
		return "form"
	case "path":
		return "path"
	case "header":
		return "header"
	default:
		return "json"
	}
}

// vfTagText renders the tag value of a field; variant changes the order of the options
// (the tag grammar is order-free).
func vfTagText(f vfField, variant int) string {
	var opts []string
	switch f.Opt {
	case "plain":
		opts = append(opts, "optional")
	case "dep":
		opts = append(opts, "optional="+f.Dep)
	case "notdep":
		opts = append(opts, "optional=!"+f.Dep)
	}
	if f.Hd {
		switch {
		case f.K == "string":
			opts = append(opts, "default="+f.Ds)
		case f.K == "bool":
			if f.Dn != 0 {
				opts = append(opts, "default=true")
			} else {
				opts = append(opts, "default=false")
			}
		case vfIsList(f.K):
			opts = append(opts, "default=["+f.Ds+"]")
		default:
			opts = append(opts, "default="+vfNum(f.Dn, f.unit()))
		}
	}
	if f.Hr {
		var b strings.Builder
		b.WriteString("range=")
		if f.Li {
			b.WriteByte('[')
		} else {
			b.WriteByte('(')
		}
		if f.Hlo {
			b.WriteString(vfNum(f.Lo, f.unit()))
		}
		b.WriteByte(':')
		if f.Hhi {
			b.WriteString(vfNum(f.Hi, f.unit()))
		}
		if f.Ri {
			b.WriteByte(']')
		} else {
			b.WriteByte(')')
		}
		opts = append(opts, b.String())
	}
	if f.Ho {
		var items []string
		for _, n := range f.On {
			items = append(items, vfNum(n, f.unit()))
		}
		items = append(items, f.Os...)
		if f.Osyn == "list" {
			opts = append(opts, "options=["+strings.Join(items, ",")+"]")
		} else {
			opts = append(opts, "options="+strings.Join(items, "|"))
		}
	}
	if f.Fs {
		opts = append(opts, "string")
	}
	if variant%2 == 1 {
		for i, j := 0, len(opts)-1; i < j; i, j = i+1, j-1 {
			opts[i], opts[j] = opts[j], opts[i]
		}
	}
	return strings.Join(append([]string{f.Nm}, opts...), ",")
}

func vfKindType(k string) reflect.Type {
	switch k {
	case "int":
		return reflect.TypeOf(int(0))
	case "int8":
		return reflect.TypeOf(int8(0))
	case "int16":
		return reflect.TypeOf(int16(0))
	case "int32":
		return reflect.TypeOf(int32(0))
	case "int64":
		return reflect.TypeOf(int64(0))
	case "uint":
		return reflect.TypeOf(uint(0))
	case "uint8":
		return reflect.TypeOf(uint8(0))
	case "uint16":
		return reflect.TypeOf(uint16(0))
	case "uint32":
		return reflect.TypeOf(uint32(0))
	case "uint64":
		return reflect.TypeOf(uint64(0))
	case "strs":
		return reflect.TypeOf([]string(nil))
	case "ints":
		return reflect.TypeOf([]int(nil))
	case "float32":
		return reflect.TypeOf(float32(0))
	case "float64":
		return reflect.TypeOf(float64(0))
	case "string":
		return reflect.TypeOf("")
	case "bool":
		return reflect.TypeOf(false)
	}
	panic("verif: unknown kind " + k)
}

func vfTag(key, text string) reflect.StructTag {
	return reflect.StructTag(key + ":" + strconv.Quote(text))
}

// vfBuildType returns the outer struct type and the tag texts used.
func vfBuildType(v *vfVec, variant int) (reflect.Type, []string) {
	key := vfTagKey(v.Src)
	var fields []reflect.StructField
	var tags []string
	for _, f := range v.F {
		tp := vfKindType(f.K)
		if f.Ptr {
			tp = reflect.PointerTo(tp)
		}
		text := vfTagText(f, variant)
		tags = append(tags, text)
		fields = append(fields, reflect.StructField{
			Name: strings.ToUpper(f.Nm),
			Type: tp,
			Tag:  vfTag(key, text),
		})
	}
	inner := reflect.StructOf(fields)
	wrap := func(name, tagName string, tp reflect.Type) reflect.Type {
		return reflect.StructOf([]reflect.StructField{{Name: name, Type: tp, Tag: vfTag(key, tagName)}})
	}
	switch v.Wrap {
	case "flat":
		return inner, tags
	case "nested":
		return wrap("In", "in", inner), tags
	case "pnested":
		return wrap("In", "in", reflect.PointerTo(inner)), tags
	case "slice":
		return wrap("L", "l", reflect.SliceOf(inner)), tags
	case "map":
		return wrap("M", "m", reflect.MapOf(reflect.TypeOf(""), inner)), tags
	}
	panic("verif: unknown wrapper " + v.Wrap)
}

// vfInner finds the struct value that holds the fields (ok=false: it does not exist).
// Slice and map wrappers hold two copies of the input; pick selects the one reported.
func vfInner(v *vfVec, target reflect.Value, pick int) (reflect.Value, bool) {
	switch v.Wrap {
	case "flat":
		return target, true
	case "nested":
		return target.Field(0), true
	case "pnested":
		p := target.Field(0)
		if p.IsNil() {
			return reflect.Value{}, false
		}
		return p.Elem(), true
	case "slice":
		s := target.Field(0)
		if s.Len() != 2 {
			return reflect.Value{}, false
		}
		return s.Index(pick % 2), true
	case "map":
		m := target.Field(0)
		if m.IsNil() {
			return reflect.Value{}, false
		}
		e := m.MapIndex(reflect.ValueOf(v.mapKeys()[pick%2]))
		if !e.IsValid() || m.Len() != 2 {
			return reflect.Value{}, false
		}
		return e, true
	}
	return reflect.Value{}, false
}

// vfResult reads a field back into the value classes of the specification.  A number is
// reported in the unit u of its field: an integer i as i*u; a float as the n for which the
// field holds exactly what the decimal text n/u becomes in the field's kind (strconv, the
// nearest value of that kind) - anything else is reported as "other" with its digits.
func vfResult(fv reflect.Value, u int) verifEv {
	mk := func(t string, n int, s string) verifEv { return verifEv{"t": t, "n": n, "s": s} }
	if fv.Kind() == reflect.Ptr {
		if fv.IsNil() {
			return mk("nil", 0, "")
		}
		fv = fv.Elem()
	}
	switch fv.Kind() {
	case reflect.Slice: // a list of scalars: count + texts joined by "," (nil and empty are both the empty list)
		var items []string
		for i := 0; i < fv.Len(); i++ {
			e := fv.Index(i)
			switch e.Kind() {
			case reflect.String:
				items = append(items, e.String())
			case reflect.Int:
				items = append(items, strconv.FormatInt(e.Int(), 10))
			default:
				return mk("other", 0, fv.Type().String())
			}
		}
		return mk("list", fv.Len(), strings.Join(items, ","))
	case reflect.Int, reflect.Int8, reflect.Int16, reflect.Int32, reflect.Int64:
		i := fv.Int()
		if i > int64(1<<29/u) || i < -int64(1<<29/u) { // the trace carries 32-bit integers
			return mk("other", 0, "big")
		}
		return mk("num", int(i)*u, "")
	case reflect.Uint, reflect.Uint8, reflect.Uint16, reflect.Uint32, reflect.Uint64:
		x := fv.Uint()
		if x > uint64(1<<29/u) {
			return mk("other", 0, "big")
		}
		return mk("num", int(x)*u, "")
	case reflect.Float32, reflect.Float64:
		bits := 64
		if fv.Kind() == reflect.Float32 {
			bits = 32
		}
		d := math.Round(fv.Float() * float64(u))
		if math.IsNaN(d) || math.Abs(d) > 1<<28 {
			return mk("other", 0, strconv.FormatFloat(fv.Float(), 'g', -1, bits))
		}
		if held, err := strconv.ParseFloat(vfNum(int(d), u), bits); err != nil || held != fv.Float() {
			return mk("other", 0, strconv.FormatFloat(fv.Float(), 'g', -1, bits))
		}
		return mk("num", int(d), "")
	case reflect.String:
		return mk("str", 0, fv.String())
	case reflect.Bool:
		if fv.Bool() {
			return mk("bool", 1, "")
		}
		return mk("bool", 0, "")
	}
	return mk("other", 0, fv.Kind().String())
}

// ---------------------------------------------------------------- input documents

// vfDoc builds the input as a tree: map[string]any / []any / vfLeaf.
func vfDoc(v *vfVec) map[string]any {
	inner := map[string]any{}
	for i, f := range v.F {
		if v.In[i].T == "absent" {
			continue
		}
		inner[v.key(f.Nm)] = vfLeaf{v: v.In[i], kind: f.K, u: f.unit()}
	}
	for k, x := range v.extra() { // extra keys are not bound by the type: always spelled as they are
		inner[k] = vfLeaf{v: x, kind: "string", u: 2}
	}
	switch v.Wrap {
	case "flat":
		return inner
	case "nested", "pnested":
		if v.Wabs {
			return map[string]any{}
		}
		return map[string]any{v.key("in"): inner}
	case "slice": // two equal elements: the verdict is that of one
		return map[string]any{v.key("l"): []any{inner, vfCopy(inner)}}
	case "map": // map keys are data: never respelled
		mk := v.mapKeys()
		return map[string]any{v.key("m"): map[string]any{mk[0]: inner, mk[1]: vfCopy(inner)}}
	}
	panic("verif: unknown wrapper " + v.Wrap)
}

func vfCopy(m map[string]any) map[string]any {
	c := map[string]any{}
	for k, x := range m {
		c[k] = x
	}
	return c
}

func vfKeys(m map[string]any) []string {
	ks := make([]string, 0, len(m))
	for k := range m {
		ks = append(ks, k)
	}
	sort.Strings(ks)
	return ks
}

func vfScalarText(l vfLeaf, quoteStrings bool) string {
	q := func(s string) string {
		if quoteStrings {
			return strconv.Quote(s)
		}
		return s
	}
	switch l.v.T {
	case "num":
		return vfNum(l.v.N, l.u)
	case "numstr":
		return q(vfNum(l.v.N, l.u))
	case "str":
		return q(l.v.S)
	case "bool":
		if l.v.N != 0 {
			return "true"
		}
		return "false"
	case "null":
		return "null"
	case "list": // flow style: valid JSON, YAML and TOML
		items := vfSplit(l.v.S)
		if l.kind == "strs" {
			for i := range items {
				items[i] = strconv.Quote(items[i])
			}
		}
		return "[" + strings.Join(items, ",") + "]"
	}
	panic("verif: unknown value class " + l.v.T)
}

func vfJSON(b *strings.Builder, x any) {
	switch t := x.(type) {
	case vfLeaf:
		b.WriteString(vfScalarText(t, true))
	case map[string]any:
		b.WriteByte('{')
		for i, k := range vfKeys(t) {
			if i > 0 {
				b.WriteByte(',')
			}
			b.WriteString(strconv.Quote(k))
			b.WriteByte(':')
			vfJSON(b, t[k])
		}
		b.WriteByte('}')
	case []any:
		b.WriteByte('[')
		for i, e := range t {
			if i > 0 {
				b.WriteByte(',')
			}
			vfJSON(b, e)
		}
		b.WriteByte(']')
	}
}

// block-style YAML
func vfYAMLMap(b *strings.Builder, m map[string]any, indent string, first string) {
	pre := first
	for _, k := range vfKeys(m) {
		b.WriteString(pre)
		pre = indent
		b.WriteString(k)
		b.WriteByte(':')
		switch t := m[k].(type) {
		case vfLeaf:
			b.WriteByte(' ')
			b.WriteString(vfScalarText(t, true))
			b.WriteByte('\n')
		case map[string]any:
			if len(t) == 0 {
				b.WriteString(" {}\n")
			} else {
				b.WriteByte('\n')
				vfYAMLMap(b, t, indent+"  ", indent+"  ")
			}
		case []any:
			b.WriteByte('\n')
			for _, e := range t {
				em := e.(map[string]any)
				if len(em) == 0 {
					b.WriteString(indent + "  - {}\n")
				} else {
					vfYAMLMap(b, em, indent+"    ", indent+"  - ")
				}
			}
		}
	}
}

func vfYAML(doc map[string]any) string {
	if len(doc) == 0 {
		return "{}\n"
	}
	var b strings.Builder
	vfYAMLMap(&b, doc, "", "")
	return b.String()
}

// TOML: scalars of a table first, then sub-tables
func vfTOMLTable(b *strings.Builder, m map[string]any, path string) {
	for _, k := range vfKeys(m) {
		if l, ok := m[k].(vfLeaf); ok {
			b.WriteString(k + " = " + vfScalarText(l, true) + "\n")
		}
	}
	for _, k := range vfKeys(m) {
		full := k
		if path != "" {
			full = path + "." + k
		}
		switch t := m[k].(type) {
		case map[string]any:
			b.WriteString("[" + full + "]\n")
			vfTOMLTable(b, t, full)
		case []any:
			for _, e := range t {
				b.WriteString("[[" + full + "]]\n")
				vfTOMLTable(b, e.(map[string]any), full)
			}
		}
	}
}

func vfTOML(doc map[string]any) string {
	var b strings.Builder
	vfTOMLTable(&b, doc, "")
	return b.String()
}

// typed Go values for mapping.UnmarshalKey
func vfGoValue(x any) any {
	switch t := x.(type) {
	case map[string]any:
		m := map[string]any{}
		for k, e := range t {
			m[k] = vfGoValue(e)
		}
		return m
	case []any:
		var s []any
		for _, e := range t {
			s = append(s, vfGoValue(e))
		}
		return s
	case vfLeaf:
		switch t.v.T {
		case "null":
			return nil
		case "str":
			return t.v.S
		case "numstr":
			return vfNum(t.v.N, t.u)
		case "bool":
			return t.v.N != 0
		case "list":
			out := []any{}
			for _, it := range vfSplit(t.v.S) {
				if t.kind == "ints" {
					n, err := strconv.Atoi(it)
					if err != nil {
						panic("verif: bad list item " + it)
					}
					out = append(out, n)
				} else {
					out = append(out, it)
				}
			}
			return out
		case "num":
			n := t.v.N
			if n%t.u != 0 {
				if t.kind == "float32" {
					return float32(n) / float32(t.u)
				}
				return float64(n) / float64(t.u)
			}
			i := n / t.u
			switch t.kind {
			case "int":
				return i
			case "int64":
				return int64(i)
			case "int8":
				if i >= math.MinInt8 && i <= math.MaxInt8 {
					return int8(i)
				}
				return i
			case "int16":
				if i >= math.MinInt16 && i <= math.MaxInt16 {
					return int16(i)
				}
				return i
			case "int32":
				return int32(i)
			case "uint8":
				if i >= 0 && i <= math.MaxUint8 {
					return uint8(i)
				}
				return i
			case "uint16":
				if i >= 0 && i <= math.MaxUint16 {
					return uint16(i)
				}
				return i
			case "uint32":
				if i >= 0 {
					return uint32(i)
				}
				return i
			case "uint":
				if i >= 0 {
					return uint(i)
				}
				return i
			case "uint64":
				if i >= 0 {
					return uint64(i)
				}
				return i
			case "float32":
				return float32(i)
			case "float64":
				return float64(i)
			default:
				return i
			}
		}
	}
	panic("verif: cannot convert input")
}

// vfTexts: the list of texts a key of a parameter map carries for a value class
func vfTexts(l vfLeaf) []string {
	switch l.v.T {
	case "novals": // the key is there, its list of values is empty
		return []string{}
	case "num2":
		return []string{vfNum(l.v.N, l.u), vfNum(l.v.N+l.u, l.u)}
	case "str2":
		return []string{l.v.S, "z"}
	case "list":
		return append([]string{}, vfSplit(l.v.S)...)
	}
	return []string{vfScalarText(l, false)}
}

// flat name -> texts for the string sources (path variables: exactly one text per name)
func vfStrings(v *vfVec) map[string][]string {
	m := map[string][]string{}
	for i, f := range v.F {
		if v.In[i].T == "absent" {
			continue
		}
		m[f.Nm] = vfTexts(vfLeaf{v: v.In[i], kind: f.K, u: f.unit()})
	}
	for k, x := range v.extra() {
		m[k] = vfTexts(vfLeaf{v: x, kind: "string", u: 2})
	}
	return m
}

// vfEmptyKeys puts the keys without any value into a parsed form (a query string cannot spell
// them; a filter that clears a parameter in place leaves them behind)
func vfEmptyKeys(r *http.Request, vals map[string][]string) error {
	var empty []string
	for k, l := range vals {
		if len(l) == 0 {
			empty = append(empty, k)
		}
	}
	if len(empty) == 0 {
		return nil
	}
	if err := r.ParseForm(); err != nil {
		return err
	}
	for _, k := range empty {
		r.Form[k] = []string{}
	}
	return nil
}

func vfShow(vals map[string][]string) string {
	ks := make([]string, 0, len(vals))
	for k := range vals {
		ks = append(ks, k)
	}
	sort.Strings(ks)
	var parts []string
	for _, k := range ks {
		parts = append(parts, fmt.Sprintf("%s=%q", k, vals[k]))
	}
	return strings.Join(parts, " ")
}

// ---------------------------------------------------------------- one call

type vfOutcome struct {
	acc, pan bool
	err      string
	out      []verifEv
	input    string
	call     string
}

func vfClean(s string) string {
	var b strings.Builder
	for _, r := range s {
		if r >= 32 && r < 127 && r != '"' && r != '\\' {
			b.WriteRune(r)
		} else {
			b.WriteByte('?')
		}
		if b.Len() >= 160 {
			break
		}
	}
	return b.String()
}

func vfCall(v *vfVec, id int, ptr any) (call string, input string, err error) {
	doc := func() map[string]any { return vfDoc(v) }
	switch v.Src {
	case "json", "conf", "body":
		var b strings.Builder
		vfJSON(&b, doc())
		input = b.String()
		switch v.Src {
		case "json":
			return "mapping.UnmarshalJsonBytes", input, mapping.UnmarshalJsonBytes([]byte(input), ptr)
		case "conf":
			return "conf.LoadFromJsonBytes", input, conf.LoadFromJsonBytes([]byte(input), ptr)
		default:
			r := httptest.NewRequest(http.MethodPost, "/", bytes.NewBufferString(input))
			r.Header.Set("Content-Type", "application/json")
			return "httpx.Parse(json body)", input, Parse(r, ptr)
		}
	case "yaml":
		input = vfYAML(doc())
		return "mapping.UnmarshalYamlBytes", input, mapping.UnmarshalYamlBytes([]byte(input), ptr)
	case "confyaml":
		input = vfYAML(doc())
		return "conf.LoadFromYamlBytes", input, conf.LoadFromYamlBytes([]byte(input), ptr)
	case "toml":
		input = vfTOML(doc())
		return "mapping.UnmarshalTomlBytes", input, mapping.UnmarshalTomlBytes([]byte(input), ptr)
	case "conftoml":
		input = vfTOML(doc())
		return "conf.LoadFromTomlBytes", input, conf.LoadFromTomlBytes([]byte(input), ptr)
	case "map":
		m := vfGoValue(doc()).(map[string]any)
		input = fmt.Sprintf("%#v", m)
		return "mapping.UnmarshalKey", input, mapping.UnmarshalKey(m, ptr)
	case "form":
		vals := vfStrings(v)
		q := url.Values{}
		for k, l := range vals {
			for _, s := range l {
				q.Add(k, s)
			}
		}
		r := httptest.NewRequest(http.MethodGet, "/?"+q.Encode(), nil)
		if err := vfEmptyKeys(r, vals); err != nil {
			panic("verif: " + err.Error())
		}
		return "httpx.Parse(query)", vfShow(vals), Parse(r, ptr)
	case "formpost":
		vals := vfStrings(v)
		q := url.Values{}
		for k, l := range vals {
			for _, s := range l {
				q.Add(k, s)
			}
		}
		r := httptest.NewRequest(http.MethodPost, "/", strings.NewReader(q.Encode()))
		r.Header.Set("Content-Type", "application/x-www-form-urlencoded")
		if err := vfEmptyKeys(r, vals); err != nil {
			panic("verif: " + err.Error())
		}
		return "httpx.ParseForm(post)", vfShow(vals), ParseForm(r, ptr)
	case "path":
		vars := map[string]string{}
		for k, l := range vfStrings(v) {
			if len(l) != 1 {
				panic("verif: a path variable has exactly one text")
			}
			vars[k] = l[0]
		}
		input = fmt.Sprintf("%v", vars)
		r := pathvar.WithVars(httptest.NewRequest(http.MethodGet, "/", nil), vars)
		if id%2 == 0 {
			return "httpx.ParsePath", input, ParsePath(r, ptr)
		}
		return "httpx.Parse(path)", input, Parse(r, ptr)
	case "header":
		r := httptest.NewRequest(http.MethodGet, "/", nil)
		vars := vfStrings(v)
		for k, l := range vars { // http.Header is a map[string][]string: a key may carry no value at all
			r.Header[http.CanonicalHeaderKey(k)] = l
		}
		input = vfShow(vars)
		if id%2 == 0 {
			return "httpx.ParseHeaders", input, ParseHeaders(r, ptr)
		}
		return "httpx.Parse(headers)", input, Parse(r, ptr)
	}
	panic("verif: unknown source " + v.Src)
}

// vfExec performs one call on a fresh target.  variant selects the order of the tag options
// (hence the struct type), sel the entry point where a source has two.
func vfExec(v *vfVec, variant, sel int) (o vfOutcome, tags []string, target reflect.Value) {
	tp, tags := vfBuildType(v, variant)
	target = reflect.New(tp)
	func() {
		defer func() {
			if r := recover(); r != nil {
				o.pan = true
				o.err = vfClean(fmt.Sprint(r))
			}
		}()
		call, input, err := vfCall(v, sel, target.Interface())
		o.call, o.input = call, vfClean(input)
		if err != nil {
			o.err = vfClean(err.Error())
		} else {
			o.acc = true
		}
	}()
	return o, tags, target
}

// vfRead reads the values a target holds: one value per field (of the entry / element
// selected by pick for the map / slice wrappers) and the keys of the map wrapper.
func vfRead(v *vfVec, target reflect.Value, pick int) (out []verifEv, omk []string) {
	omk = []string{}
	inner, ok := vfInner(v, target.Elem(), pick)
	for i := range v.F {
		if ok {
			out = append(out, vfResult(inner.Field(i), v.F[i].unit()))
		} else {
			out = append(out, verifEv{"t": "nowrapper", "n": 0, "s": ""})
		}
	}
	if v.Wrap == "map" {
		m := target.Elem().Field(0)
		for _, k := range m.MapKeys() {
			omk = append(omk, k.String())
		}
		sort.Strings(omk)
	}
	return out, omk
}

// vfScribble is a caller making use of its own target: everything reachable from it is
// overwritten in place - slice elements (the backing array up to its capacity), variables
// behind pointers, map entries, plain fields.
func vfScribble(x reflect.Value, mark int) {
	switch x.Kind() {
	case reflect.Ptr:
		if !x.IsNil() {
			vfScribble(x.Elem(), mark)
		}
	case reflect.Struct:
		for i := 0; i < x.NumField(); i++ {
			vfScribble(x.Field(i), mark)
		}
	case reflect.Slice:
		if x.IsNil() {
			return
		}
		full := x.Slice(0, x.Cap())
		for i := 0; i < full.Len(); i++ {
			vfScribble(full.Index(i), mark)
		}
	case reflect.Map:
		for _, k := range x.MapKeys() {
			e := reflect.New(x.Type().Elem()).Elem()
			e.Set(x.MapIndex(k))
			vfScribble(e, mark)
			x.SetMapIndex(k, e)
		}
	case reflect.String:
		if x.CanSet() {
			x.SetString("~" + strconv.Itoa(mark%7))
		}
	case reflect.Int, reflect.Int8, reflect.Int16, reflect.Int32, reflect.Int64:
		if x.CanSet() {
			x.SetInt(int64(90 + mark%7))
		}
	case reflect.Uint, reflect.Uint8, reflect.Uint16, reflect.Uint32, reflect.Uint64:
		if x.CanSet() {
			x.SetUint(uint64(90 + mark%7))
		}
	case reflect.Float32, reflect.Float64:
		if x.CanSet() {
			x.SetFloat(float64(90 + mark%7))
		}
	case reflect.Bool:
		if x.CanSet() {
			x.SetBool(!x.Bool())
		}
	}
}

func vfNone(v *vfVec) []verifEv {
	var out []verifEv
	for range v.F {
		out = append(out, verifEv{"t": "none", "n": 0, "s": ""})
	}
	return out
}

// vfVecEvent: the "vec" event of one call (vector fields copied from the generated line).
func vfVecEvent(raw map[string]any, id, pass int, o vfOutcome, tags []string, out []verifEv, omk []string, tg int, keep bool) verifEv {
	ev := verifEv{}
	for k, x := range raw {
		ev[k] = x
	}
	ev["e"] = "vec"
	ev["id"] = id
	ev["pass"] = pass
	ev["acc"] = o.acc
	ev["pan"] = o.pan
	ev["out"] = out
	ev["omk"] = omk
	ev["tg"] = tg
	ev["keep"] = keep
	ev["Err"] = o.err
	ev["Tags"] = tags
	ev["Call"] = o.call
	ev["Input"] = o.input
	return ev
}

// vfRun: one call; the outcome is read, then the caller overwrites its target and drops it.
func vfRun(v *vfVec, id int) (o vfOutcome, tags []string, omk []string) {
	o, tags, target := vfExec(v, id, id)
	omk = []string{}
	if o.acc && !o.pan {
		o.out, omk = vfRead(v, target, id)
		vfScribble(target.Elem(), id)
	} else {
		o.out = vfNone(v)
	}
	return o, tags, omk
}

// TestVerifRulesReplay: VERIF_IN holds one vector per line.  The vectors are cut into
// chunks; every chunk is one trace: evaluated once in order and once more in another
// order (so that the caches keyed by tag text / key / type are in different states).
// VERIF_RULES_MODE=order keeps TLC's order (second pass shuffled); =shuffle permutes
// all vectors first (second pass reversed).  After every accepted call the driver, as the
// owner of the target, overwrites everything reachable from it in place (keep=false).
func TestVerifRulesReplay(t *testing.T) {
	em := verifOpen(t)
	defer em.Close()
	lines := verifInput(t)
	if len(lines) == 0 {
		t.Fatal("no vectors in VERIF_IN")
	}
	vecs := make([]*vfVec, len(lines))
	raws := make([]map[string]any, len(lines))
	for i, ln := range lines {
		vecs[i] = new(vfVec)
		if err := json.Unmarshal(ln, vecs[i]); err != nil {
			t.Fatal(err)
		}
		if err := json.Unmarshal(ln, &raws[i]); err != nil {
			t.Fatal(err)
		}
		if len(vecs[i].F) != len(vecs[i].In) || len(vecs[i].F) == 0 {
			t.Fatalf("malformed vector %d", i)
		}
	}
	mode := os.Getenv("VERIF_RULES_MODE")
	if mode == "" {
		mode = "order"
	}
	chunk := verifEnvInt("VERIF_RULES_CHUNK", 40)
	base := verifEnvInt("VERIF_RULES_IDBASE", 0)
	rng := verifRand(int64(len(lines)) + int64(verifEnvInt("VERIF_RULES_SALT", 0)))
	ids := make([]int, len(lines))
	for i := range ids {
		ids[i] = i
	}
	if mode == "shuffle" {
		rng.Shuffle(len(ids), func(i, j int) { ids[i], ids[j] = ids[j], ids[i] })
	}
	emit := func(id, pass int) {
		o, tags, omk := vfRun(vecs[id], id+base)
		em.Emit(vfVecEvent(raws[id], id+base, pass, o, tags, o.out, omk, 0, false))
	}
	for c := 0; c*chunk < len(ids); c++ {
		hi := (c + 1) * chunk
		if hi > len(ids) {
			hi = len(ids)
		}
		part := append([]int(nil), ids[c*chunk:hi]...)
		em.Emit(verifEv{"e": "reset", "mode": mode, "chunk": c})
		for _, id := range part {
			emit(id, 1)
		}
		if mode == "shuffle" {
			for i, j := 0, len(part)-1; i < j; i, j = i+1, j-1 {
				part[i], part[j] = part[j], part[i]
			}
		} else {
			rng.Shuffle(len(part), func(i, j int) { part[i], part[j] = part[j], part[i] })
		}
		for _, id := range part {
			emit(id, 2)
		}
	}
}
