//go:build verif

package chain

// Extension "restchain" (host C09, advisory), driver for package rest/chain: performs operation
// histories on real chains (New / Append / Prepend / Then / ThenFunc, the caller scribbling over
// slices it passed in) and serves requests through the handlers they return.  Harness
// middlewares record when their constructor is called and when a request enters / leaves them.
// No expectations here: TLC validates the recorded trace against specs/restchain/Chain.tla.

import (
	"context"
	"encoding/json"
	"fmt"
	"net/http"
	"net/http/httptest"
	"runtime"
	"sync"
	"testing"
)

type verifExtrestchainKey struct{}

const (
	verifExtrestchainQ      = "X-Verif-Q"
	verifExtrestchainBlk    = "X-Verif-Blk"
	verifExtrestchainMuxPat = "/verif-extrestchain-mux"
)

var verifExtrestchainMuxOnce sync.Once

type verifExtrestchainWorld struct {
	em     *verifEmitter
	mu     sync.Mutex
	wraps  []string // constructors called since the last structural event
	chains []Chain
	args   [][]Middleware // the slice the caller passed when chain k was created (nil: none)
	hands  []http.Handler
	nq     int
	jitter func()
	spare  func() int // extra capacity of the caller's argument slices (nil: exact, as in f(m1, m2))
}

func (w *verifExtrestchainWorld) drain() []string {
	w.mu.Lock()
	out := w.wraps
	w.wraps = nil
	w.mu.Unlock()
	if out == nil {
		out = []string{}
	}
	return out
}

func (w *verifExtrestchainWorld) layer(tag string, next http.Handler) http.Handler {
	return http.HandlerFunc(func(rw http.ResponseWriter, r *http.Request) {
		q := r.Header.Get(verifExtrestchainQ)
		w.em.Emit(verifEv{"e": "enter", "q": q, "tag": tag})
		defer func() { w.em.Emit(verifEv{"e": "leave", "q": q, "tag": tag}) }()
		if w.jitter != nil {
			w.jitter()
		}
		if next == nil { // terminal
			rw.WriteHeader(http.StatusOK)
			return
		}
		if r.Header.Get(verifExtrestchainBlk) == tag {
			rw.WriteHeader(http.StatusTeapot)
			return
		}
		next.ServeHTTP(rw, r)
	})
}

// mw is the harness middleware tagged tag: its constructor notes that it was called.
func (w *verifExtrestchainWorld) mw(tag string) Middleware {
	return func(next http.Handler) http.Handler {
		w.mu.Lock()
		w.wraps = append(w.wraps, tag)
		w.mu.Unlock()
		return w.layer(tag, next)
	}
}

func (w *verifExtrestchainWorld) mws(tags []string) []Middleware {
	extra := 0
	if w.spare != nil && len(tags) > 0 {
		extra = w.spare()
	}
	out := make([]Middleware, len(tags), len(tags)+extra) // exact capacity, as in f(m1, m2), unless spare is set
	for i, t := range tags {
		out[i] = w.mw(t)
	}
	return out
}

func verifExtrestchainTags(ts []string) []string {
	if ts == nil {
		return []string{}
	}
	return ts
}

func (w *verifExtrestchainWorld) opNew(ms []string) {
	arg := w.mws(ms)
	var c Chain
	if len(arg) == 0 {
		c = New()
		arg = nil
	} else {
		c = New(arg...)
	}
	w.chains = append(w.chains, c)
	w.args = append(w.args, arg)
	w.em.Emit(verifEv{"e": "new", "ms": verifExtrestchainTags(ms), "c": len(w.chains), "w": w.drain()})
}

func (w *verifExtrestchainWorld) opJoin(op string, c int, ms []string) {
	arg := w.mws(ms)
	var r Chain
	switch {
	case op == "append" && len(arg) == 0:
		r = w.chains[c-1].Append()
	case op == "append":
		r = w.chains[c-1].Append(arg...)
	case len(arg) == 0:
		r = w.chains[c-1].Prepend()
	default:
		r = w.chains[c-1].Prepend(arg...)
	}
	if len(arg) == 0 {
		arg = nil
	}
	w.chains = append(w.chains, r)
	w.args = append(w.args, arg)
	w.em.Emit(verifEv{"e": op, "c": c, "ms": verifExtrestchainTags(ms), "r": len(w.chains), "w": w.drain()})
}

// the caller reuses the slice it passed when chain k was created: overwrites element j, or (j beyond
// the end) appends to it within its capacity
func (w *verifExtrestchainWorld) opScribble(k, j int, t string) {
	if k >= 1 && k <= len(w.args) {
		a := w.args[k-1]
		if j >= 1 && j <= len(a) {
			a[j-1] = w.mw(t)
		} else if j > len(a) && len(a) < cap(a) {
			_ = append(a, w.mw(t))
		}
	}
	w.em.Emit(verifEv{"e": "scribble", "w": w.drain()})
}

// term: "mux" = nil (http.DefaultServeMux), anything else a harness terminal of that name.
// fn: go through ThenFunc instead of Then.
func (w *verifExtrestchainWorld) opThen(c int, term string, fn bool) int {
	var h http.Handler
	switch {
	case term == "mux" && fn:
		h = w.chains[c-1].ThenFunc(nil)
	case term == "mux":
		h = w.chains[c-1].Then(nil)
	case fn:
		h = w.chains[c-1].ThenFunc(w.layer(term, nil).(http.HandlerFunc))
	default:
		h = w.chains[c-1].Then(w.layer(term, nil))
	}
	w.hands = append(w.hands, h)
	id := len(w.hands)
	w.em.Emit(verifEv{"e": "then", "c": c, "t": term, "h": id, "fn": fn, "w": w.drain()})
	return id
}

func (w *verifExtrestchainWorld) newQ() string {
	w.mu.Lock()
	w.nq++
	q := fmt.Sprintf("q%d", w.nq)
	w.mu.Unlock()
	return q
}

func (w *verifExtrestchainWorld) serve(h int, blk string) {
	q := w.newQ()
	req := httptest.NewRequest(http.MethodGet, verifExtrestchainMuxPat, nil)
	req.Header.Set(verifExtrestchainQ, q)
	if blk != "" {
		req.Header.Set(verifExtrestchainBlk, blk)
	}
	req = req.WithContext(context.WithValue(req.Context(), verifExtrestchainKey{}, w))
	rec := httptest.NewRecorder()
	w.em.Emit(verifEv{"e": "begin", "q": q, "h": h, "blk": blk})
	w.hands[h-1].ServeHTTP(rec, req)
	w.em.Emit(verifEv{"e": "end", "q": q, "code": rec.Code})
}

func verifExtrestchainWorldNew(em *verifEmitter) *verifExtrestchainWorld {
	// nil means http.DefaultServeMux: give it a route that reports to the world the request belongs to
	verifExtrestchainMuxOnce.Do(func() {
		http.DefaultServeMux.HandleFunc(verifExtrestchainMuxPat, func(rw http.ResponseWriter, r *http.Request) {
			w := r.Context().Value(verifExtrestchainKey{}).(*verifExtrestchainWorld)
			w.layer("mux", nil).ServeHTTP(rw, r)
		})
	})
	w := &verifExtrestchainWorld{em: em}
	em.Emit(verifEv{"e": "reset"})
	return w
}

type verifExtrestchainOp struct {
	Op string   `json:"op"`
	Ms []string `json:"ms"`
	C  int      `json:"c"`
	K  int      `json:"k"`
	J  int      `json:"j"`
	T  string   `json:"t"`
}

func (w *verifExtrestchainWorld) apply(op verifExtrestchainOp, fn bool) {
	switch op.Op {
	case "new":
		w.opNew(op.Ms)
	case "append", "prepend":
		w.opJoin(op.Op, op.C, op.Ms)
	case "scribble":
		w.opScribble(op.K, op.J, op.T)
	case "then":
		w.opThen(op.C, op.T, fn)
	}
}

// audit: what does every chain created so far hold now?  Then() shows it through the constructor
// calls; one of the handlers (rotating) also serves a request.
func (w *verifExtrestchainWorld) audit(salt int, blks []string) {
	n := len(w.chains)
	for c := 1; c <= n; c++ {
		h := w.opThen(c, "h", (c+salt)%2 == 0)
		if n > 0 && c == 1+salt%n {
			w.serve(h, blks[salt%len(blks)])
		}
	}
}

// TestVerifExtrestchainReplay: every TLC-generated operation history (one per distinct state of
// ChainImpl.tla) on real chains, followed by an audit of all chains.
func TestVerifExtrestchainReplay(t *testing.T) {
	em := verifOpen(t)
	defer em.Close()
	blks := []string{"", "a", "b", ""}
	for i, raw := range verifInput(t) {
		var ops []verifExtrestchainOp
		if err := json.Unmarshal(raw, &ops); err != nil {
			t.Fatal(err)
		}
		w := verifExtrestchainWorldNew(em)
		for j, op := range ops {
			w.apply(op, (i+j)%2 == 1)
		}
		// handlers the history itself built: serve each once
		for h := range w.hands {
			w.serve(h+1, blks[(i+h)%len(blks)])
		}
		w.audit(i, blks)
		em.Emit(verifEv{"e": "fin", "w": w.drain()})
	}
}

// TestVerifExtrestchainRandom: long seeded histories over more tags, longer argument lists and
// many chains; requests are served by other goroutines while the history goes on.
func TestVerifExtrestchainRandom(t *testing.T) {
	em := verifOpen(t)
	defer em.Close()
	rng := verifRand(901)
	runs := verifEnvInt("VERIF_EXT_CHAIN_RUNS", 60)
	tags := []string{"a", "b", "c", "d", "e", "f"}
	terms := []string{"h", "h2", "mux"}
	for run := 0; run < runs; run++ {
		w := verifExtrestchainWorldNew(em)
		if run%3 == 0 {
			w.jitter = runtime.Gosched
		}
		if run%2 == 1 {
			w.spare = func() int { return rng.Intn(4) }
		}
		pick := func(max int) []string {
			n := rng.Intn(max + 1)
			out := make([]string, n)
			for i := range out {
				out[i] = tags[rng.Intn(len(tags))]
			}
			return out
		}
		var wg sync.WaitGroup
		nops := 10 + rng.Intn(30)
		for i := 0; i < nops; i++ {
			x := rng.Intn(100)
			switch {
			case len(w.chains) == 0 || x < 10:
				w.opNew(pick(4))
			case x < 40:
				w.opJoin("append", 1+rng.Intn(len(w.chains)), pick(3))
			case x < 55:
				w.opJoin("prepend", 1+rng.Intn(len(w.chains)), pick(3))
			case x < 70:
				k := 1 + rng.Intn(len(w.args))
				if n := len(w.args[k-1]); n > 0 {
					w.opScribble(k, 1+rng.Intn(n+1), tags[rng.Intn(len(tags))])
				}
			case x < 85:
				w.opThen(1+rng.Intn(len(w.chains)), terms[rng.Intn(len(terms))], rng.Intn(2) == 0)
			default:
				if len(w.hands) > 0 {
					h := 1 + rng.Intn(len(w.hands))
					blk := ""
					if rng.Intn(3) == 0 {
						blk = tags[rng.Intn(len(tags))]
					}
					if run%2 == 0 {
						wg.Add(1)
						go func() { defer wg.Done(); w.serve(h, blk) }()
					} else {
						w.serve(h, blk)
					}
				}
			}
		}
		wg.Wait()
		// every chain as it is now, every handler once more
		for c := 1; c <= len(w.chains); c++ {
			w.opThen(c, "h", c%2 == 0)
		}
		for h := 1; h <= len(w.hands); h++ {
			if run%2 == 0 {
				wg.Add(1)
				go func(h int) { defer wg.Done(); w.serve(h, "") }(h)
			} else {
				w.serve(h, tags[rng.Intn(len(tags))])
			}
		}
		wg.Wait()
		em.Emit(verifEv{"e": "fin", "w": w.drain()})
	}
}
