//go:build verif

package handler

// C05 adapter for the REST max-connections middleware (drive and record only; the verdict
// comes from TLC validating the trace against specs/caps/Semaphore.tla).  The protected
// handler is the guarded region; a request is a "try": it is served or answered 503.

import (
	"net/http"
	"net/http/httptest"
	"strconv"
	"testing"

	"github.com/zeromicro/go-zero/core/logx"
)

type verifCapsConns struct {
	h http.Handler
}

func (a *verifCapsConns) Kind() string                 { return "maxconns" }
func (a *verifCapsConns) Supports(w string) bool       { return w == "try" || w == "panic" }
func (a *verifCapsConns) Release() string              { return "sync" }
func (a *verifCapsConns) Over(c *verifCapsCtx) bool    { return false }
func (a *verifCapsConns) Quiesce(c *verifCapsCtx) bool { return true }
func (a *verifCapsConns) Close(c *verifCapsCtx) bool   { return true }
func (a *verifCapsConns) Do(c *verifCapsCtx, p int, mode string) {
	c.AcqStart(p, "try")
	req := httptest.NewRequest(http.MethodGet, "http://localhost/caps", http.NoBody)
	req.Header.Set("X-Verif-Ticket", strconv.Itoa(p))
	rec := httptest.NewRecorder()
	func() {
		defer func() { recover() }() // a panicking handler propagates to the server's recover
		a.h.ServeHTTP(rec, req)
	}()
	if c.Entered(p) {
		c.RelEnd(p, false)
		return
	}
	// not served: the answer is logged as it is (TLC accepts only 503)
	c.Refused(p, rec.Code)
}

func verifCapsMake(c *verifCapsCtx, kind string, n int, age int) (verifCapsAdapter, func(), func()) {
	logx.Disable()
	if kind != "maxconns" {
		return nil, nil, nil
	}
	h := MaxConnsHandler(n)(http.HandlerFunc(func(w http.ResponseWriter, r *http.Request) {
		p, _ := strconv.Atoi(r.Header.Get("X-Verif-Ticket"))
		c.Region(p, 0)
	}))
	return &verifCapsConns{h: h}, nil, nil
}

func TestVerifCapsReplay(t *testing.T) { verifCapsReplayAll(t, verifCapsMake) }

func TestVerifCapsStress(t *testing.T) {
	verifCapsStressAll(t, []string{"maxconns"}, verifCapsMake)
}
