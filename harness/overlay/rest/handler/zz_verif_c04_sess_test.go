//go:build verif

package handler

// C04 session driver (REST): several calls through ONE handler value returned by the real
// TimeoutHandler, executed step by step in the order of a TLC-generated schedule
// (specs/timeout/TimeoutSessGen.tla): start q / sh, wh, wr q / end q (cancel | expire) /
// fin q (ret | panic). The work of a call is a goroutine that does exactly what the driver
// tells it, one step at a time, also long after its wrapper returned a timeout result and
// while later calls are being served. Everything that reaches each call's client is recorded;
// the verdict comes from TLC (specs/timeout/TimeoutSessTrace.tla: one Timeout.tla monitor
// per call + Isolation). Payloads are owned: chunk ids and header values are q*16+small.
//
// No timing enters the record: "expire" waits on the context the handler was given, the
// wrapper's return is awaited with the usual watchdog (blocked work = "stuck"), and a step is
// only started when the previous one has been acknowledged.

import (
	"bytes"
	"context"
	"encoding/json"
	"fmt"
	"net/http"
	"net/http/httptest"
	"strconv"
	"strings"
	"sync"
	"sync/atomic"
	"testing"
	"time"

	"github.com/zeromicro/go-zero/core/logx"
)

type c04SStep struct {
	Op   string `json:"op"`
	Q    int    `json:"q"`
	K    string `json:"k"`
	V    int    `json:"v"`
	Code int    `json:"code"`
	C    int    `json:"c"`
	How  string `json:"how"`
}

const (
	c04Stride   = 16
	c04SessOwn  = 6 * time.Millisecond // handler timeout of an "own timer" session
	c04SessPdl  = 3 * time.Millisecond // caller deadline of a call that is to expire (handler timeout huge)
	c04CallHdr  = "X-C04-Call"
	c04MaxChunk = 3
)

func c04SessChunk(q, c int) []byte {
	fill := ""
	switch c {
	case 2:
		fill = strings.Repeat("0123456789abcdef", 600) // ~10 kB
	case 3:
		fill = strings.Repeat("beta-", 40)
	default:
		fill = "alpha"
	}
	return []byte(fmt.Sprintf("<q%dc%d:%s>", q, c, fill))
}

// c04SessTokens abstracts a body to owned chunk tokens (q*16+c); other text becomes one 0.
func c04SessTokens(b []byte, n int) []int {
	out := []int{}
	for i := 0; i < len(b); {
		hit, adv := 0, 0
		if b[i] == '<' {
			for q := 1; q <= n && hit == 0; q++ {
				for c := 1; c <= c04MaxChunk; c++ {
					ch := c04SessChunk(q, c)
					if bytes.HasPrefix(b[i:], ch) {
						hit, adv = q*c04Stride+c, len(ch)
						break
					}
				}
			}
		}
		if hit != 0 {
			out = append(out, hit)
			i += adv
			continue
		}
		if len(out) == 0 || out[len(out)-1] != 0 {
			out = append(out, 0)
		}
		i++
	}
	return out
}

func c04SessSnapshot(r *c04Recorder, ev verifEv, n int) verifEv {
	r.mu.Lock()
	defer r.mu.Unlock()
	hdr := r.hdr
	if r.code == 0 {
		hdr = c04TestHeaders(r.live)
	}
	ev["code"] = r.code
	ev["hdr"] = hdr
	ev["bt"] = c04SessTokens(r.body.Bytes(), n)
	ev["n"] = r.n
	raw := r.body.String()
	if len(raw) > 48 {
		raw = raw[:48] + "..."
	}
	ev["raw"] = raw
	return ev
}

type c04SCall struct {
	q            int
	rec          *c04Recorder
	base         time.Time
	parentCancel context.CancelFunc
	cancels      []context.CancelFunc
	cmd          chan c04SStep
	ack          chan struct{}
	ctxCaptured  chan struct{}
	workerDone   chan struct{}
	returned     chan bool
	wctx         atomic.Value
	idle         atomic.Bool // the work is waiting for the driver's next instruction
	started      bool
	retLogged    bool
	wfin         bool
}

// c04Session runs one schedule. own: the handler's own timer is the short one (every call of
// the session has it); otherwise the handler timeout is huge and a call that is to expire
// gets a short caller deadline.
func c04Session(t *testing.T, em *verifEmitter, steps []c04SStep, own bool, label string) {
	tr := &c04Trace{}
	defer c04Flush(em, tr)

	n := 0
	expires := map[int]bool{}
	for _, s := range steps {
		if s.Q > n {
			n = s.Q
		}
		if s.Op == "end" && s.How == "expire" {
			expires[s.Q] = true
		}
	}
	if len(expires) == 0 {
		own = false
	}
	dt := c04Huge
	if own {
		dt = c04SessOwn
	}
	calls := make([]*c04SCall, n+1)
	abort := make(chan struct{})
	var abortOnce sync.Once
	stop := func() { abortOnce.Do(func() { close(abort) }) }
	defer func() {
		stop()
		for _, c := range calls {
			if c != nil {
				for _, cf := range c.cancels {
					cf()
				}
			}
		}
	}()

	worker := http.HandlerFunc(func(w http.ResponseWriter, r *http.Request) {
		q, _ := strconv.Atoi(r.Header.Get(c04CallHdr))
		c := calls[q]
		defer close(c.workerDone)
		ctx := r.Context()
		c.wctx.Store(&ctx)
		dl, has := ctx.Deadline()
		now := c04Ceil(time.Since(c.base))
		d := 0
		if has {
			d = c04Floor(dl.Sub(c.base))
		}
		tr.emit(verifEv{"e": "ctx", "q": q, "has": has, "dl": d, "now": now})
		close(c.ctxCaptured)
		for {
			var st c04SStep
			c.idle.Store(true)
			select {
			case st = <-c.cmd:
			case <-abort:
				c.idle.Store(false)
				return
			}
			c.idle.Store(false)
			switch st.Op {
			case "sh":
				v := q*c04Stride + st.V
				w.Header().Set(c04HdrPfx+st.K, strconv.Itoa(v))
				tr.emit(verifEv{"e": "sh", "q": q, "k": st.K, "v": v})
			case "wh":
				w.WriteHeader(st.Code)
				tr.emit(verifEv{"e": "wh", "q": q, "code": st.Code})
			case "wr":
				_, err := w.Write(c04SessChunk(q, st.C))
				tr.emit(verifEv{"e": "wr", "q": q, "c": q*c04Stride + st.C, "err": err != nil})
			case "fin":
				if st.How == "panic" {
					tr.emit(verifEv{"e": "panic", "q": q})
					panic("c04 session worker panic")
				}
				tr.emit(verifEv{"e": "ret", "q": q, "val": -1, "err": "nil"})
				return
			}
			select {
			case c.ack <- struct{}{}:
			case <-abort:
				return
			}
		}
	})
	h := TimeoutHandler(dt)(worker)

	tr.emit(verifEv{"e": "reset", "sess": true, "n": n, "via": label, "own": own})

	broken := false
	infra := func(format string, args ...any) {
		broken = true
		t.Errorf("c04 session: "+format, args...)
	}

	start := func(q int) {
		c := &c04SCall{q: q, rec: c04NewRecorder(), cmd: make(chan c04SStep), ack: make(chan struct{}),
			ctxCaptured: make(chan struct{}), workerDone: make(chan struct{}), returned: make(chan bool, 1)}
		calls[q] = c
		c.base = time.Now()
		parent := context.Background()
		pdl := -1
		if !own && expires[q] {
			p, cf := context.WithDeadline(parent, c.base.Add(c04SessPdl))
			parent, pdl = p, c04Floor(c04SessPdl)
			c.cancels = append(c.cancels, cf)
		}
		parent, c.parentCancel = context.WithCancel(parent)
		c.cancels = append(c.cancels, c.parentCancel)
		req := httptest.NewRequest(http.MethodGet, "http://localhost/c04s", http.NoBody).WithContext(parent)
		req.Header.Set(c04CallHdr, strconv.Itoa(q))
		tr.emit(verifEv{"e": "start", "q": q, "kind": "rest", "tmo": c04Floor(dt), "pdl": pdl,
			"exempt": false, "s0": c04Floor(time.Since(c.base))})
		c.started = true
		go func() {
			pan := false
			defer func() {
				if p := recover(); p != nil {
					pan = true
				}
				c.returned <- pan
			}()
			h.ServeHTTP(c.rec, req)
		}()
		select {
		case <-c.ctxCaptured:
		case <-time.After(c04Watchdog):
			infra("handler goroutine of call %d never started (%s)", q, label)
		}
	}

	// awaitReturn: the wrapper of call q has to return now (its context ended or its work
	// finished). Blocked work in its way = stuck.
	awaitReturn := func(c *c04SCall) {
		if c.retLogged || broken {
			return
		}
		pan, st := c04Wait(c.returned, &c.idle)
		switch st {
		case 0:
			s1 := c04Floor(time.Since(c.base))
			ctxerr := c04CtxErr(*(c.wctx.Load().(*context.Context)))
			tr.emit(c04SessSnapshot(c.rec, verifEv{"e": "returned", "q": c.q, "pan": pan, "val": -1, "err": "nil",
				"ctxerr": ctxerr, "s1": s1}, n))
			c.retLogged = true
		case 1:
			c04Stuck.Add(1)
			tr.emit(verifEv{"e": "stuck", "q": c.q, "el": c04Floor(time.Since(c.base))})
			broken = true // the trace ends here (rejected by the monitor); release everything
			stop()
			select {
			case <-c.returned:
			case <-time.After(c04Watchdog):
				t.Errorf("c04 session: wrapper of call %d did not return even after its work finished (%s)", c.q, label)
			}
		default:
			infra("watchdog fired although the work of call %d is not blocked (%s)", c.q, label)
		}
	}

	tell := func(c *c04SCall, st c04SStep) {
		select {
		case c.cmd <- st:
		case <-time.After(c04Watchdog):
			infra("work of call %d does not take instructions (%s)", c.q, label)
			return
		}
		if st.Op == "fin" {
			select {
			case <-c.workerDone:
			case <-time.After(c04Watchdog):
				infra("work of call %d did not finish (%s)", c.q, label)
			}
			c.wfin = true
			return
		}
		select {
		case <-c.ack:
		case <-time.After(c04Watchdog):
			infra("work of call %d did not acknowledge %s (%s)", c.q, st.Op, label)
		}
	}

	for _, st := range steps {
		if broken {
			return
		}
		if st.Op == "start" {
			start(st.Q)
			continue
		}
		c := calls[st.Q]
		if c == nil || !c.started {
			infra("schedule uses call %d before its start (%s)", st.Q, label)
			return
		}
		switch st.Op {
		case "sh", "wh", "wr":
			if !c.wfin {
				tell(c, st)
			}
		case "end":
			if st.How == "cancel" {
				tr.emit(verifEv{"e": "cancel", "q": c.q})
				c.parentCancel()
			} else {
				ctx := *(c.wctx.Load().(*context.Context))
				select {
				case <-ctx.Done():
				case <-time.After(c04Watchdog):
					infra("context of call %d never expired (%s)", c.q, label)
					return
				}
			}
			awaitReturn(c)
		case "fin":
			if !c.wfin {
				tell(c, st)
			}
			awaitReturn(c)
		}
	}
	if broken {
		return
	}
	// work still running is finished by the driver; then the last look at every client
	for _, c := range calls {
		if c != nil && c.started && !c.wfin {
			tell(c, c04SStep{Op: "fin", Q: c.q, How: "ret"})
			awaitReturn(c)
		}
	}
	if broken {
		return
	}
	for _, c := range calls {
		if c != nil && c.started && c.retLogged {
			tr.emit(c04SessSnapshot(c.rec, verifEv{"e": "final", "q": c.q}, n))
		}
	}
}

// TestVerifC04Sess: every TLC-generated session schedule. Schedules without a real timer
// run one after the other (strictly deterministic, also in what a recycling allocator would
// hand out); schedules that wait for an expiry run VERIF_C04_SPAR at a time.
func TestVerifC04Sess(t *testing.T) {
	em := verifOpen(t)
	defer em.Close()
	logx.Disable()
	var scheds [][]c04SStep
	for _, raw := range verifInput(t) {
		var s []c04SStep
		if err := json.Unmarshal(raw, &s); err != nil {
			t.Fatal(err)
		}
		scheds = append(scheds, s)
	}
	if len(scheds) == 0 {
		t.Fatal("c04: no session schedules")
	}
	var timed [][]c04SStep
	for _, s := range scheds {
		hasTimer := false
		for _, st := range s {
			if st.Op == "end" && st.How == "expire" {
				hasTimer = true
			}
		}
		if hasTimer {
			timed = append(timed, s)
			continue
		}
		if t.Failed() {
			return
		}
		c04Session(t, em, s, false, "handler-seq")
	}
	sem := make(chan struct{}, verifEnvInt("VERIF_C04_SPAR", 8))
	var wg sync.WaitGroup
	for i, s := range timed {
		if t.Failed() {
			break
		}
		sem <- struct{}{}
		wg.Add(1)
		go func(i int, s []c04SStep) {
			defer wg.Done()
			defer func() { <-sem }()
			c04Session(t, em, s, (i+int(verifSeed()))%2 == 0, "handler-par")
		}(i, s)
	}
	wg.Wait()
}
