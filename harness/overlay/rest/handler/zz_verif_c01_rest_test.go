//go:build verif

package handler

// C01 thorough tier: rest BreakerHandler (Allow + promise, accepted iff status < 500) driven
// through histories under the virtual clock; same events and specification as the core
// breaker: an admitted request is a call whose outcome is "ok" (2xx), "accErr" (4xx) or
// "err" (5xx), all with the acceptable set {ok, accErr}; a reject is a 503 without the next
// handler having run. Handler panics are not driven here: in go-zero's chain RecoverHandler
// sits inside BreakerHandler and turns them into a 500 before the breaker sees them.
//
// The middleware keeps its breaker in a closure; the driver finds it there (checked against
// the itab of a known breaker and the metrics pointer it passed in).

import (
	"fmt"
	"math/rand"
	"net/http"
	"net/http/httptest"
	"sync"
	"sync/atomic"
	"testing"
	"time"
	"unsafe"

	"github.com/zeromicro/go-zero/core/breaker"
	"github.com/zeromicro/go-zero/core/stat"
	"github.com/zeromicro/go-zero/core/timex"
)

// ---- shared C01 wrapper harness (same text in every wrapper driver) ----

var c01wClock atomic.Int64

type c01wSrc struct {
	mode atomic.Int32
	mu   sync.Mutex
	rnd  *rand.Rand
}

func (s *c01wSrc) Seed(int64) {}
func (s *c01wSrc) Int63() int64 {
	switch s.mode.Load() {
	case 0:
		return 0
	case 1:
		return (1<<63 - 1) &^ (1<<10 - 1)
	}
	s.mu.Lock()
	v := s.rnd.Int63()
	s.mu.Unlock()
	return v
}

type c01wH struct {
	t   *testing.T
	em  *verifEmitter
	b   breaker.Breaker
	src *c01wSrc
	t0  int64
	id  int
}

const c01wMs = int64(time.Millisecond)

func c01wInstall() func() {
	timex.VerifNow = func() time.Duration { return time.Duration(c01wClock.Load()) }
	return func() { timex.VerifNow = nil }
}

func c01wStart(t *testing.T, em *verifEmitter, rnd *rand.Rand) *c01wH {
	t0 := 3600000 + int64(rnd.Intn(100000))
	c01wClock.Store(t0 * c01wMs)
	return &c01wH{t: t, em: em, t0: t0}
}

// attach is called once the wrapper's breaker exists (created at the current virtual time)
func (h *c01wH) attach(b breaker.Breaker, seed int64) {
	h.b = b
	h.src = &c01wSrc{rnd: rand.New(rand.NewSource(seed))}
	h.src.mode.Store(2)
	fair := false
	if err := breaker.VerifC01Steer(b, h.src); err != nil {
		// the coin cannot be loaded on this tree (internals changed): the breaker's own source decides
		h.src, fair = nil, true
	}
	h.em.Emit(verifEv{"e": "reset", "t": h.t0, "fair": fair, "eager": false})
	h.obs()
}

func (h *c01wH) obs() {
	if w, err := breaker.VerifC01Sums(h.b); err == nil {
		h.em.Emit(verifEv{"e": "obs", "w": w})
	}
}

func (h *c01wH) adv(d int) {
	if d > 0 {
		c01wClock.Add(int64(d) * c01wMs)
		h.em.Emit(verifEv{"e": "adv", "d": d})
		h.obs()
	}
}

func (h *c01wH) gap(rnd *rand.Rand) int {
	switch x := rnd.Intn(100); {
	case x < 55:
		return 0
	case x < 70:
		return 1 + rnd.Intn(60)
	case x < 80:
		to := 250 - int((c01wClock.Load()/c01wMs-h.t0)%250)
		return to - 1 + rnd.Intn(3)
	case x < 90:
		return []int{999, 1000, 1001, 1250}[rnd.Intn(4)]
	case x < 97:
		return []int{9749, 9750, 9751, 9999, 10000, 10001, 10250}[rnd.Intn(7)]
	}
	return 10000 + rnd.Intn(20000)
}

// phases of outcomes: returns "ok" | "accErr" | "err" | "panic"
type c01wPhase struct{ pOK, pAcc, pPanic, left, pref int }

func (p *c01wPhase) next(rnd *rand.Rand) (string, int) {
	if p.left <= 0 {
		p.pOK = []int{0, 0, 10, 50, 90, 100}[rnd.Intn(6)]
		p.pAcc = []int{0, 10, 30}[rnd.Intn(3)]
		p.pref = []int{0, 0, 0, 1, 2}[rnd.Intn(5)]
		p.left = 5 + rnd.Intn(60)
	}
	p.left--
	x := rnd.Intn(100)
	switch {
	case x < p.pOK:
		return "ok", p.pref
	case x < p.pOK+p.pAcc:
		return "accErr", p.pref
	case x < p.pOK+p.pAcc+p.pPanic:
		return "panic", p.pref
	}
	return "err", p.pref
}

func c01wClosureBreaker(t *testing.T, mw func(http.Handler) http.Handler, metrics *stat.Metrics) breaker.Breaker {
	var probe breaker.Breaker = breaker.NewBreaker()
	itab := (*[2]uintptr)(unsafe.Pointer(&probe))[0]
	words := *(**[4]uintptr)(unsafe.Pointer(&mw)) // funcval: code pointer, then the captured variables
	seenMetrics := false
	for i := 1; i < 4; i++ {
		if words[i] == uintptr(unsafe.Pointer(metrics)) {
			seenMetrics = true
		}
	}
	for i := 1; i < 3 && seenMetrics; i++ {
		if words[i] == itab && words[i+1] != 0 {
			var out breaker.Breaker
			*(*[2]uintptr)(unsafe.Pointer(&out)) = [2]uintptr{words[i], words[i+1]}
			return out
		}
	}
	t.Fatal("c01: cannot locate the breaker captured by BreakerHandler (driver needs updating)")
	return nil
}

func TestVerifC01BreakerHandler(t *testing.T) {
	em := verifOpen(t)
	defer em.Close()
	defer c01wInstall()()
	rnd := verifRand(47)
	histories, length := verifEnvInt("VERIF_C01_WHIST", 20), verifEnvInt("VERIF_C01_WLEN", 300)
	for hi := 0; hi < histories; hi++ {
		h := c01wStart(t, em, rnd)
		metrics := stat.NewMetrics(fmt.Sprintf("c01-%d", hi))
		mw := BreakerHandler(http.MethodGet, fmt.Sprintf("/c01/%d/%d", verifSeed(), hi), metrics)
		h.attach(c01wClosureBreaker(t, mw, metrics), int64(hi))
		ph := &c01wPhase{}
		for n := 0; n < length; n++ {
			h.adv(h.gap(rnd))
			out, pref := ph.next(rnd)
			if h.src != nil {
				h.src.mode.Store(int32(pref))
			}
			h.id++
			id := h.id
			code := 200
			switch out {
			case "ok":
				code = []int{200, 201, 204, 301}[rnd.Intn(4)]
			case "accErr":
				code = []int{400, 401, 404, 429, 499}[rnd.Intn(5)]
			case "err":
				code = []int{500, 502, 503, 504}[rnd.Intn(4)]
			}
			implicit := out == "ok" && rnd.Intn(4) == 0 // handler writes a body without WriteHeader: 200
			em.Emit(verifEv{"e": "callStart", "c": id, "api": "doAcc", "ctx": "none", "acc": []string{"ok", "accErr"}})
			runs := 0
			next := http.HandlerFunc(func(w http.ResponseWriter, r *http.Request) {
				runs++
				em.Emit(verifEv{"e": "reqStart", "c": id})
				if implicit {
					w.Write([]byte("ok"))
				} else {
					w.WriteHeader(code)
				}
				em.Emit(verifEv{"e": "reqEnd", "c": id, "out": out})
			})
			if implicit {
				code = 200
			}
			rec := httptest.NewRecorder()
			mw(next).ServeHTTP(rec, httptest.NewRequest(http.MethodGet, "http://localhost/c01", http.NoBody))
			ret := "other"
			switch {
			case runs == 0 && rec.Code == http.StatusServiceUnavailable:
				ret = "unavail"
			case runs > 0 && rec.Code == code && out == "ok":
				ret = "nil"
			case runs > 0 && rec.Code == code:
				ret = "same"
			}
			em.Emit(verifEv{"e": "callEnd", "c": id, "ret": ret, "pan": "no"})
			h.obs()
		}
	}
}
