//go:build verif

package handler

// C18 driver: concretises the symbolic credentials enumerated by TLC from
// specs/auth/GatesMC.tla with real cryptography, sends them through the real
// Authorize / ContentSecurityHandler middleware and records what happened.
// No expectations here: the verdict comes from TLC validating the recorded
// trace against specs/auth/Gates.tla (GatesTrace.tla).
//
// This file is package-agnostic: the runner also compiles a copy of it into package
// rest, where the gates are the ones rest/engine.go wires for a route declared with
// WithJwt / WithJwtTransition / WithSignature.  The two functions that bind it to a package,
//   c18NextWire(decl)               the wiring (Gates.tla Part 4) the next gate is built with
//   c18MakeGate(t, wire, g, next)   the gate(s) wire.Decl declares, in front of next
// live in zz_verif_gates_bind_test.go of each package.

import (
	"bytes"
	"crypto/aes"
	"crypto/ecdsa"
	"crypto/elliptic"
	"crypto/hmac"
	crand "crypto/rand"
	"crypto/rsa"
	"crypto/sha256"
	"crypto/x509"
	"encoding/base64"
	"encoding/json"
	"encoding/pem"
	"fmt"
	"io"
	"math/big"
	"math/rand"
	"net/http"
	"net/http/httptest"
	"os"
	"path/filepath"
	"sort"
	"strconv"
	"strings"
	"testing"
	"time"

	"github.com/golang-jwt/jwt/v4"
	"github.com/zeromicro/go-zero/core/logx"
	"github.com/zeromicro/go-zero/core/timex"
)

func c18id(b []byte) string {
	s := sha256.Sum256(b)
	return fmt.Sprintf("%d:%x", len(b), s[:8])
}

func c18b64(b []byte) string { return base64.RawURLEncoding.EncodeToString(b) }

// c18Wire: how a gate is put in front of the protected handler (Gates.tla Part 4; logged with
// every reset event).  level "handler": the middleware used directly.
type c18Wire struct {
	Level string `json:"level"`
	Chain string `json:"chain"`
	Use   int    `json:"use"`
	Ropts bool   `json:"ropts"`
	Decl  string `json:"decl"`
}

func (w c18Wire) key() string { return fmt.Sprintf("%s/%s/%d/%v/%s", w.Level, w.Chain, w.Use, w.Ropts, w.Decl) }

// c18GateSpec: the parameters of the gates a route declares.
type c18GateSpec struct {
	Cur, Prev string // JWT secrets (Prev "": no previous secret)
	Callback  bool   // a passive unauthorized callback is installed
	Keys      []c18KeyFile
	Tolerance time.Duration
}

// ---------------------------------------------------------------- JWT

type c18Tok struct {
	Alg    string `json:"alg"`
	Key    string `json:"key"`
	Exp    string `json:"exp"`
	Nbf    string `json:"nbf"`
	Iat    string `json:"iat"`
	Shape  string `json:"shape"`
	Claims string `json:"claims"`
}

type c18SeqOp struct {
	Op  string `json:"op"`
	Tok c18Tok `json:"tok"`
	D   int    `json:"d"`
}

type c18Seq struct {
	Prev bool       `json:"prev"`
	Ops  []c18SeqOp `json:"ops"`
}

type c18JwtEnv struct {
	rng     *rand.Rand
	secrets map[string]string // cur, prev, other, empty
	rsaKey  *rsa.PrivateKey
	ecKey   *ecdsa.PrivateKey
	frozen  time.Time
	probe   []string // claim names the handler always looks for in its context
}

var c18StdClaims = []string{"aud", "exp", "jti", "iat", "iss", "nbf", "sub"}

func c18RandString(r *rand.Rand, n int) string {
	const al = "ABCDEFGHIJKLMNOPQRSTUVWXYZabcdefghijklmnopqrstuvwxyz0123456789-_"
	b := make([]byte, n)
	for i := range b {
		b[i] = al[r.Intn(len(al))]
	}
	return string(b)
}

func c18NewJwtEnv(t *testing.T, r *rand.Rand) *c18JwtEnv {
	rk, err := rsa.GenerateKey(crand.Reader, 2048)
	if err != nil {
		t.Fatal(err)
	}
	ek, err := ecdsa.GenerateKey(elliptic.P256(), crand.Reader)
	if err != nil {
		t.Fatal(err)
	}
	e := &c18JwtEnv{
		rng: r,
		secrets: map[string]string{
			"cur":   "cur-" + c18RandString(r, 8+r.Intn(40)),
			"prev":  "prev-" + c18RandString(r, 8+r.Intn(40)),
			"other": "other-" + c18RandString(r, 8+r.Intn(40)),
			"empty": "",
		},
		rsaKey: rk,
		ecKey:  ek,
		frozen: time.Now().Truncate(time.Second),
	}
	names := map[string]bool{}
	for _, cs := range []string{"A", "B", "none", "mixed"} {
		for k := range e.claimSet(cs, nil) {
			names[k] = true
		}
	}
	for _, k := range c18StdClaims {
		names[k] = true
	}
	for k := range names {
		e.probe = append(e.probe, k)
	}
	sort.Strings(e.probe)
	return e
}

// claimSet returns the non-standard claims of a symbolic claim set; values are JSON texts.
// With a rng some values vary per token.
func (e *c18JwtEnv) claimSet(name string, r *rand.Rand) map[string]json.RawMessage {
	v := func(def string, alts ...string) json.RawMessage {
		if r == nil || len(alts) == 0 {
			return json.RawMessage(def)
		}
		all := append([]string{def}, alts...)
		return json.RawMessage(all[r.Intn(len(all))])
	}
	switch name {
	case "A":
		return map[string]json.RawMessage{
			"uid":    v(`"alice"`, `"al ice"`, `"a"`, `""`),
			"role":   v(`7`, `0`, `-3`),
			"adm":    v(`false`),
			"big":    v(`9007199254740993`, `18446744073709551615`),
			"ratio":  v(`1.5`, `0.25`),
			"groups": v(`["dev","ops"]`, `[]`, `[1,"x",true]`),
			"org":    v(`{"id":12,"name":"acme"}`),
			"key":    v(`"value"`),
		}
	case "B":
		return map[string]json.RawMessage{
			"uid":   v(`"mallory"`),
			"role":  v(`1`),
			"adm":   v(`true`),
			"scope": v(`"root"`),
		}
	}
	// the name classes of Gates!ClaimSets: a few names of the class (seeded random members), next to
	// one ordinary claim; values of any JSON type
	out := map[string]json.RawMessage{}
	val := func() json.RawMessage {
		return v(`"tenant-7"`, `"partner gw"`, `""`, `42`, `0`, `-1.5`, `true`, `false`, `["x","y"]`, `[]`,
			`{"id":1,"tag":"t"}`, `18446744073709551615`, `"1790000000"`, `1790000000`)
	}
	add := func(cls string, n int) {
		pool := c18ClaimNames(cls, r)
		if r == nil {
			n = len(pool)
		}
		for i := 0; i < n && len(pool) > 0; i++ {
			j := 0
			if r != nil {
				j = r.Intn(len(pool))
			}
			out[pool[j]] = val()
			pool = append(pool[:j:j], pool[j+1:]...)
		}
	}
	switch name {
	case "caseVar", "affix", "odd", "hdrField":
		n := 2
		if r != nil {
			n = 1 + r.Intn(4)
		}
		add(name, n)
		out["uid"] = v(`"carol"`, `"c"`)
	case "mixed":
		for _, cls := range []string{"caseVar", "affix", "odd", "hdrField"} {
			add(cls, 2)
		}
		for k, x := range e.claimSet("A", r) {
			out[k] = x
		}
	}
	return out
}

// c18ClaimNames: private claim names of a name class.  None of them is one of the seven registered
// names (that is Gates!RegisteredNames's business to decide: the names go into the trace as they are).
func c18ClaimNames(cls string, r *rand.Rand) []string {
	switch cls {
	case "caseVar":
		var out []string
		seen := map[string]bool{}
		for _, n := range c18StdClaims {
			cands := []string{strings.ToUpper(n[:1]) + n[1:], strings.ToUpper(n), n[:len(n)-1] + strings.ToUpper(n[len(n)-1:])}
			if r != nil {
				b := []byte(n)
				b[r.Intn(len(b))] -= 'a' - 'A'
				for j := range b {
					if b[j] >= 'a' && r.Intn(3) == 0 {
						b[j] -= 'a' - 'A'
					}
				}
				cands = append(cands, string(b))
			}
			for _, c := range cands {
				if !seen[c] {
					seen[c] = true
					out = append(out, c)
				}
			}
		}
		return out
	case "affix":
		out := []string{"subject", "issuer", "audience", "expires", "expiry", "su", "jt", "is", "ex", "nb"}
		for _, n := range c18StdClaims {
			out = append(out, n+"_", "_"+n, n+" ", " "+n, n+".", "x-"+n, n+"2", n+n, n+"/"+n)
		}
		return out
	case "odd":
		return []string{"", " ", "a b", "a.b", "a/b:c", "$ref", "__proto__", "0", "17", "true", "null", "-", "k=v;x",
			"UID", "Uid", "x-" + strings.Repeat("long", 60)}
	case "hdrField":
		return []string{"alg", "typ", "kid", "cty", "Authorization", "authorization", "secret", "key", "signature", "Bearer"}
	}
	return nil
}

func (e *c18JwtEnv) timeClaim(cls string) (json.RawMessage, bool) {
	t := e.frozen.Unix()
	switch cls {
	case "past":
		return json.RawMessage(strconv.FormatInt(t-3600, 10)), true
	case "now":
		return json.RawMessage(strconv.FormatInt(t, 10)), true
	case "future":
		return json.RawMessage(strconv.FormatInt(t+3600, 10)), true
	case "future2":
		return json.RawMessage(strconv.FormatInt(t+7200, 10)), true
	case "str":
		return json.RawMessage(`"soon"`), true
	}
	return nil, false
}

func c18Marshal(m map[string]json.RawMessage) []byte {
	keys := make([]string, 0, len(m))
	for k := range m {
		keys = append(keys, k)
	}
	sort.Strings(keys)
	var b bytes.Buffer
	b.WriteByte('{')
	for i, k := range keys {
		if i > 0 {
			b.WriteByte(',')
		}
		kb, _ := json.Marshal(k)
		b.Write(kb)
		b.WriteByte(':')
		b.Write(m[k])
	}
	b.WriteByte('}')
	return b.Bytes()
}

func c18Pairs(m map[string]json.RawMessage) [][]string {
	keys := make([]string, 0, len(m))
	for k := range m {
		keys = append(keys, k)
	}
	sort.Strings(keys)
	out := [][]string{}
	for _, k := range keys {
		out = append(out, []string{k, string(m[k])})
	}
	return out
}

func c18IsStd(k string) bool {
	for _, s := range c18StdClaims {
		if s == k {
			return true
		}
	}
	return false
}

// payload builds the claims object: non-standard claims of the set, the time claims by class,
// and a few other registered claims.
func (e *c18JwtEnv) payload(tok c18Tok, claims, exp string, pick *rand.Rand) (raw []byte, all map[string]json.RawMessage) {
	all = map[string]json.RawMessage{}
	for k, v := range e.claimSet(claims, pick) {
		all[k] = v
	}
	if v, ok := e.timeClaim(exp); ok {
		all["exp"] = v
	}
	if v, ok := e.timeClaim(tok.Nbf); ok {
		all["nbf"] = v
	}
	if v, ok := e.timeClaim(tok.Iat); ok {
		all["iat"] = v
	}
	all["sub"] = json.RawMessage(`"subject-1"`)
	all["iss"] = json.RawMessage(`"issuer"`)
	all["jti"] = json.RawMessage(`"id-77"`)
	all["aud"] = json.RawMessage(`"audience"`)
	return c18Marshal(all), all
}

func c18HmacMethod(alg string) jwt.SigningMethod {
	switch alg {
	case "HS384":
		return jwt.SigningMethodHS384
	case "HS512":
		return jwt.SigningMethodHS512
	}
	return jwt.SigningMethodHS256
}

func c18SwapAlg(a string) string {
	if a == "HS256" {
		return "HS384"
	}
	return "HS256"
}

func c18Header(alg string) string {
	name := alg
	if alg == "bogus" {
		name = "XS999"
	}
	h, _ := json.Marshal(map[string]string{"alg": name, "typ": "JWT"})
	return c18b64(h)
}

// build returns the Authorization header value (set=false: no header at all) and every claim
// (registered or not) of the payload that is transmitted.
func (e *c18JwtEnv) build(t *testing.T, tok c18Tok, pick *rand.Rand) (hdr string, set bool, sent [][]string) {
	seedPick := pick.Int63()
	praw, sentClaims := e.payload(tok, tok.Claims, tok.Exp, rand.New(rand.NewSource(seedPick)))
	h := c18Header(tok.Alg)
	p := c18b64(praw)
	switch tok.Shape {
	case "badB64":
		i := 1 + pick.Intn(len(p)-2)
		p = p[:i] + "!" + p[i+1:]
	case "badJson":
		p = c18b64([]byte(`{"uid":"alice", not json`))
	}
	input := h + "." + p
	key := []byte(e.secrets[tok.Key])
	var sig string
	var err error
	switch tok.Alg {
	case "HS256", "HS384", "HS512":
		sig, err = c18HmacMethod(tok.Alg).Sign(input, key)
	case "RS256":
		sig, err = jwt.SigningMethodRS256.Sign(input, e.rsaKey)
	case "ES256":
		sig, err = jwt.SigningMethodES256.Sign(input, e.ecKey)
	case "none", "None":
		if tok.Key == "empty" {
			sig = ""
		} else {
			sig, err = jwt.SigningMethodHS256.Sign(input, key)
		}
	default:
		sig, err = jwt.SigningMethodHS256.Sign(input, key)
	}
	if err != nil {
		t.Fatalf("sign %+v: %v", tok, err)
	}
	sigBytes := func() []byte {
		b, err := base64.RawURLEncoding.DecodeString(sig)
		if err != nil {
			t.Fatal(err)
		}
		if len(b) == 0 {
			b = []byte{0x5a, 0x5a}
		}
		return b
	}
	switch tok.Shape {
	case "sigFlipBit":
		b := sigBytes()
		b[pick.Intn(len(b))] ^= 1 << uint(pick.Intn(8))
		sig = c18b64(b)
	case "sigFlipLast":
		b := sigBytes()
		b[len(b)-1] ^= 1
		sig = c18b64(b)
	case "sigTrunc":
		b := sigBytes()
		sig = c18b64(b[:len(b)-1])
	case "sigExtend":
		sig = c18b64(append(sigBytes(), 0))
	case "sigEmpty":
		sig = ""
	case "payloadSwapped":
		other := "A"
		if tok.Claims == "A" {
			other = "B"
		}
		praw, sentClaims = e.payload(tok, other, tok.Exp, rand.New(rand.NewSource(seedPick)))
		p = c18b64(praw)
	case "expSwapped":
		praw, sentClaims = e.payload(tok, tok.Claims, "future2", rand.New(rand.NewSource(seedPick)))
		p = c18b64(praw)
	case "hdrSwapped":
		h = c18Header(c18SwapAlg(tok.Alg))
	}
	token := h + "." + p + "." + sig
	sent = c18Pairs(sentClaims)
	switch tok.Shape {
	case "missing":
		return "", false, sent
	case "emptyHdr":
		return "", true, sent
	case "bearerOnly":
		return "Bearer ", true, sent
	case "noPrefix":
		return token, true, sent
	case "lowerPrefix":
		return "bearer " + token, true, sent
	case "basicPrefix":
		return "Basic " + token, true, sent
	case "twoParts":
		return "Bearer " + h + "." + p, true, sent
	case "fourParts":
		return "Bearer " + token + "." + sig, true, sent
	}
	return "Bearer " + token, true, sent
}

type c18JwtGate struct {
	env     *c18JwtEnv
	wire    c18Wire
	h       http.Handler
	calls   int
	seen    [][]string
	hstatus int
	probe   []string // claim names the handler looks for in its context (per request)
}

// c18SeenClaims: what the handler finds in its context under the probed names
func c18SeenClaims(r *http.Request, probe []string) [][]string {
	seen := [][]string{}
	for _, k := range probe {
		if v := r.Context().Value(k); v != nil {
			b, err := json.Marshal(v)
			if err != nil {
				b = []byte(fmt.Sprintf("%q", fmt.Sprint(v)))
			}
			seen = append(seen, []string{k, string(b)})
		}
	}
	return seen
}

// probeFor: the handler looks for every name that was sent, next to the fixed vocabulary
func (e *c18JwtEnv) probeFor(sent [][]string) []string {
	names := map[string]bool{}
	for _, k := range e.probe {
		names[k] = true
	}
	for _, p := range sent {
		names[p[0]] = true
	}
	probe := make([]string, 0, len(names))
	for k := range names {
		probe = append(probe, k)
	}
	sort.Strings(probe)
	return probe
}

func (e *c18JwtEnv) gateSpec(prev, withCallback bool) c18GateSpec {
	g := c18GateSpec{Cur: e.secrets["cur"], Callback: withCallback}
	if prev {
		g.Prev = e.secrets["prev"]
	}
	return g
}

func (e *c18JwtEnv) newGate(t *testing.T, prev, withCallback bool) *c18JwtGate {
	g := &c18JwtGate{env: e, wire: c18NextWire("jwt")}
	g.h = c18MakeGate(t, g.wire, e.gateSpec(prev, withCallback), http.HandlerFunc(func(w http.ResponseWriter, r *http.Request) {
		g.calls++
		g.seen = c18SeenClaims(r, g.probe)
		w.WriteHeader(g.hstatus)
		io.WriteString(w, "protected content")
	}))
	return g
}

func (g *c18JwtGate) request(t *testing.T, em *verifEmitter, tok c18Tok, pick *rand.Rand) {
	hdr, set, sent := g.env.build(t, tok, pick)
	g.probe = g.env.probeFor(sent)
	methods := []string{http.MethodGet, http.MethodPost, http.MethodDelete}
	req := httptest.NewRequest(methods[pick.Intn(len(methods))], "http://localhost/protected?x=1", http.NoBody)
	if set {
		req.Header["Authorization"] = []string{hdr}
	}
	g.calls = 0
	g.seen = [][]string{}
	g.hstatus = []int{200, 201, 202}[pick.Intn(3)]
	rec := httptest.NewRecorder()
	status := c18Serve(g.h, rec, req)
	em.Emit(verifEv{"e": "jwt", "tok": tok, "calls": g.calls, "status": status, "hstatus": g.hstatus,
		"sent": sent, "seen": g.seen})
}

// c18Serve runs the chain; a panic escaping the middleware is what rest's recover handler
// turns into a 500.
func c18Serve(h http.Handler, rec *httptest.ResponseRecorder, req *http.Request) (status int) {
	defer func() {
		if p := recover(); p != nil {
			status = 500
		}
	}()
	h.ServeHTTP(rec, req)
	return rec.Code
}

func c18FreezeJwtClock(e *c18JwtEnv) func() {
	old := jwt.TimeFunc
	jwt.TimeFunc = func() time.Time { return e.frozen }
	return func() { jwt.TimeFunc = old }
}

// virtual relative clock (hook H1) for the parser's history reset
type c18Clock struct{ hours int }

func (c *c18Clock) install() func() {
	timex.VerifNow = func() time.Duration { return 1000*time.Hour + time.Duration(c.hours)*time.Hour }
	return func() { timex.VerifNow = nil }
}

// TestVerifGatesJwtCases: every case under both configurations (previous secret configured or
// not), in seeded random order, in chunks that share one middleware instance (so the parser's
// history counters are in many different states when a case arrives).
func TestVerifGatesJwtCases(t *testing.T) {
	em := verifOpen(t)
	defer em.Close()
	logx.Disable()
	in := verifInput(t)
	if len(in) == 0 {
		t.Fatal("no input cases")
	}
	toks := make([]c18Tok, len(in))
	for i, raw := range in {
		if err := json.Unmarshal(raw, &toks[i]); err != nil {
			t.Fatal(err)
		}
	}
	r := verifRand(1801)
	env := c18NewJwtEnv(t, r)
	defer c18FreezeJwtClock(env)()
	clk := &c18Clock{}
	defer clk.install()()
	chunk := verifEnvInt("VERIF_C18_CHUNK", 48)
	for _, prev := range []bool{false, true} {
		order := r.Perm(len(toks))
		for at := 0; at < len(order); at += chunk {
			end := at + chunk
			if end > len(order) {
				end = len(order)
			}
			g := env.newGate(t, prev, r.Intn(2) == 0)
			em.Emit(verifEv{"e": "reset", "gate": "jwt", "prev": prev, "wire": g.wire})
			for _, i := range order[at:end] {
				if r.Intn(6) == 0 {
					d := []int{1, 7, 25}[r.Intn(3)]
					clk.hours += d
					em.Emit(verifEv{"e": "tick", "d": d})
				}
				g.request(t, em, toks[i], r)
			}
		}
	}
}

// TestVerifGatesJwtSeq: request sequences generated by TLC from the parser machine.
func TestVerifGatesJwtSeq(t *testing.T) {
	em := verifOpen(t)
	defer em.Close()
	logx.Disable()
	in := verifInput(t)
	if len(in) == 0 {
		t.Fatal("no input sequences")
	}
	r := verifRand(1802)
	env := c18NewJwtEnv(t, r)
	defer c18FreezeJwtClock(env)()
	clk := &c18Clock{}
	defer clk.install()()
	for _, raw := range in {
		var s c18Seq
		if err := json.Unmarshal(raw, &s); err != nil {
			t.Fatal(err)
		}
		g := env.newGate(t, s.Prev, false)
		em.Emit(verifEv{"e": "reset", "gate": "jwt", "prev": s.Prev, "wire": g.wire})
		for _, op := range s.Ops {
			switch op.Op {
			case "tick":
				clk.hours += op.D
				em.Emit(verifEv{"e": "tick", "d": op.D})
			case "jwt":
				g.request(t, em, op.Tok, r)
			default:
				t.Fatalf("unknown op %q", op.Op)
			}
		}
	}
}

// ---------------------------------------------------------------- content security

type c18Cs struct {
	Hdr     string `json:"hdr"`
	Fp      string `json:"fp"`
	EncTo   string `json:"encTo"`
	Swf     string `json:"swf"`
	Type    string `json:"type"`
	Ts      string `json:"ts"`
	Method  string `json:"method"`
	Path    string `json:"path"`
	Query   string `json:"query"`
	Body    string `json:"body"`
	Sform   string `json:"sform"`
	Sts     string `json:"sts"`
	Smethod string `json:"smethod"`
	Spath   string `json:"spath"`
	Squery  string `json:"squery"`
	Sbody   string `json:"sbody"`
	Off     c18Off `json:"off"`
	Plen    int    `json:"plen"`
	Rlen    int    `json:"rlen"`
	Chunks  int    `json:"chunks"`
	Wp      []string `json:"wp"`
	Xfer    string `json:"xfer"`
}

// c18Off: a timestamp s*m*2^k + j*(tolerance-120) seconds from the clock (Gates!Offs)
type c18Off struct {
	S int `json:"s"`
	M int `json:"m"`
	K int `json:"k"`
	J int `json:"j"`
}

func c18ParseCs(t *testing.T, raw json.RawMessage) c18Cs {
	var c c18Cs
	if err := json.Unmarshal(raw, &c); err != nil {
		t.Fatal(err)
	}
	if c.Wp == nil {
		c.Wp = []string{}
	}
	return c
}

type c18RsaPair struct {
	priv *rsa.PrivateKey
	fp   string
}

// c18KeyFile: a configured private key (PKCS#1 PEM file) and its fingerprint
type c18KeyFile struct {
	Fp   string
	File string
}

type c18CsEnv struct {
	rng     *rand.Rand
	keys    map[string]*c18RsaPair // A, B configured; other: not configured
	files   []c18KeyFile
	next    http.Handler
	gates   map[string]http.Handler // per wiring (the gate is stateless)
	wire    c18Wire
	h       http.Handler
	calls   int
	hbody   string
	hstatus int
	rpay    []byte
	chunks  int
	wp      []string
	wrote   []byte              // every byte passed to Write, copied when the call was made
	onCall  func(*http.Request) // extra observation when the protected handler runs
}

// useWire: the gate under the given wiring (built once per wiring and declaration)
func (e *c18CsEnv) useWire(t *testing.T, w c18Wire, g c18GateSpec) {
	g.Keys, g.Tolerance = e.files, c18Tolerance
	k := w.key() + "|" + g.Cur + "|" + g.Prev
	h, ok := e.gates[k]
	if !ok {
		h = c18MakeGate(t, w, g, e.next)
		e.gates[k] = h
	}
	e.wire, e.h = w, h
}

// respond: the protected handler produces its response.  Without a program: rpay from a private
// slice in one or two calls.  With one (Gates!WOps): a buffer the handler owns and reuses.
func (e *c18CsEnv) respond(w http.ResponseWriter) {
	write := func(p []byte) {
		e.wrote = append(e.wrote, p...)
		w.Write(p)
	}
	if len(e.wp) == 0 {
		if e.chunks <= 1 || len(e.rpay) < 2 {
			write(e.rpay)
		} else {
			cut := len(e.rpay) / 2
			write(e.rpay[:cut])
			write(e.rpay[cut:])
		}
		return
	}
	buf := make([]byte, len(e.rpay), len(e.rpay)+e.rng.Intn(64))
	for _, op := range e.wp {
		switch op {
		case "fill":
			e.rng.Read(buf)
		case "scribble":
			for i := range buf {
				buf[i] ^= 0xa5
			}
		case "write":
			write(buf)
		case "wpriv":
			p := make([]byte, 1+e.rng.Intn(2*len(buf)+2))
			e.rng.Read(p)
			write(p)
		case "wempty":
			write(buf[:0])
		case "flush":
			if f, ok := w.(http.Flusher); ok {
				f.Flush()
			}
		}
	}
}

const c18Tolerance = time.Hour

func c18NewCsEnv(t *testing.T, r *rand.Rand) *c18CsEnv {
	e := &c18CsEnv{rng: r, keys: map[string]*c18RsaPair{}, gates: map[string]http.Handler{}}
	dir := t.TempDir()
	var files []c18KeyFile
	for _, name := range []string{"A", "B", "other"} {
		bits := map[string]int{"A": 2048, "B": 1024, "other": 1024}[name]
		k, err := rsa.GenerateKey(crand.Reader, bits)
		if err != nil {
			t.Fatal(err)
		}
		p := &c18RsaPair{priv: k, fp: "fp" + name + "-" + c18RandString(r, 12)}
		e.keys[name] = p
		if name == "other" {
			continue
		}
		file := filepath.Join(dir, "c18-"+name+".pem")
		pemBytes := pem.EncodeToMemory(&pem.Block{Type: "RSA PRIVATE KEY", Bytes: x509.MarshalPKCS1PrivateKey(k)})
		if err := os.WriteFile(file, pemBytes, 0o600); err != nil {
			t.Fatal(err)
		}
		files = append(files, c18KeyFile{Fp: p.fp, File: file})
	}
	e.files = files
	e.next = http.HandlerFunc(func(w http.ResponseWriter, req *http.Request) {
		e.calls++
		if e.onCall != nil {
			e.onCall(req)
		}
		b, err := io.ReadAll(req.Body)
		if err != nil {
			e.hbody = "readerror"
		} else {
			e.hbody = c18id(b)
		}
		w.WriteHeader(e.hstatus)
		e.respond(w)
	})
	return e
}

// c18PieceReader hands out the body in pieces of seeded random size.
type c18PieceReader struct {
	b   []byte
	rng *rand.Rand
}

func (p *c18PieceReader) Read(out []byte) (int, error) {
	if len(p.b) == 0 {
		return 0, io.EOF
	}
	n := 1 + p.rng.Intn(len(p.b))
	if n > len(out) {
		n = len(out)
	}
	copy(out, p.b[:n])
	p.b = p.b[n:]
	return n, nil
}

func c18Pkcs7Pad(b []byte, bs int) []byte {
	n := bs - len(b)%bs
	return append(append([]byte{}, b...), bytes.Repeat([]byte{byte(n)}, n)...)
}

// client-side AES-ECB with PKCS#7 padding written against the standard library only
func c18EcbEncrypt(key, plain []byte) []byte {
	blk, err := aes.NewCipher(key)
	if err != nil {
		panic(err)
	}
	in := c18Pkcs7Pad(plain, blk.BlockSize())
	out := make([]byte, len(in))
	for i := 0; i < len(in); i += blk.BlockSize() {
		blk.Encrypt(out[i:i+blk.BlockSize()], in[i:i+blk.BlockSize()])
	}
	return out
}

func c18EcbDecrypt(key, ct []byte) ([]byte, bool) {
	blk, err := aes.NewCipher(key)
	if err != nil {
		return nil, false
	}
	bs := blk.BlockSize()
	if len(ct) == 0 || len(ct)%bs != 0 {
		return nil, false
	}
	out := make([]byte, len(ct))
	for i := 0; i < len(ct); i += bs {
		blk.Decrypt(out[i:i+bs], ct[i:i+bs])
	}
	n := int(out[len(out)-1])
	if n == 0 || n > bs || n > len(out) {
		return nil, false
	}
	for _, c := range out[len(out)-n:] {
		if int(c) != n {
			return nil, false
		}
	}
	return out[:len(out)-n], true
}

func c18RsaEncrypt(pub *rsa.PublicKey, msg []byte) []byte {
	limit := pub.Size() - 11
	var out []byte
	for len(msg) > 0 {
		n := len(msg)
		if n > limit {
			n = limit
		}
		c, err := rsa.EncryptPKCS1v15(crand.Reader, pub, msg[:n])
		if err != nil {
			panic(err)
		}
		out = append(out, c...)
		msg = msg[n:]
	}
	return out
}

func (e *c18CsEnv) tsString(cls string, off c18Off, now int64) string {
	tol := int64(c18Tolerance / time.Second)
	switch cls {
	case "off":
		// now + s*m*2^k + j*(tol-120), exactly, as a decimal integer of whatever size
		v := new(big.Int).Lsh(big.NewInt(int64(off.M)), uint(off.K))
		v.Mul(v, big.NewInt(int64(off.S)))
		v.Add(v, big.NewInt(int64(off.J)*(tol-120)))
		v.Add(v, big.NewInt(now))
		return v.String()
	case "in":
		return strconv.FormatInt(now, 10)
	case "in2":
		return strconv.FormatInt(now-1, 10)
	case "inLo":
		return strconv.FormatInt(now-tol+120, 10)
	case "inHi":
		return strconv.FormatInt(now+tol-120, 10)
	case "old":
		return strconv.FormatInt(now-tol-120, 10)
	case "ahead":
		return strconv.FormatInt(now+tol+120, 10)
	case "nan":
		return "17x" + strconv.FormatInt(now%100000, 10)
	}
	return ""
}

func c18Path(p string) string {
	switch p {
	case "p1":
		return "/a/c"
	case "p0slash":
		return "/a/b/"
	}
	return "/a/b"
}

func c18Query(q string) string {
	switch q {
	case "q0":
		return "c=d&e=f"
	case "q1":
		return "c=d&e=g"
	case "q0perm":
		return "e=f&c=d"
	}
	return ""
}

// wireBody: the bytes on the wire for a symbolic body, and the plaintext the client meant.
func (e *c18CsEnv) wireBody(sym, typ string, key, payload []byte) (wire, plain []byte) {
	variant := func() []byte {
		if len(payload) == 0 {
			return []byte{0x78}
		}
		v := append([]byte{}, payload...)
		v[len(v)/2] ^= 0x01
		return v
	}
	switch sym {
	case "none":
		return nil, nil
	case "b0":
		plain = payload
	case "b1":
		plain = variant()
	case "junk":
		if typ == "enc" {
			j := []byte("this-is-not*a*ciphertext-" + strconv.Itoa(len(payload)))
			return j, j
		}
		j := append([]byte("junk-"), variant()...)
		return j, j
	}
	if typ == "enc" {
		return []byte(base64.StdEncoding.EncodeToString(c18EcbEncrypt(key, plain))), plain
	}
	return plain, plain
}

// c18CsShot: one concretised signed request and what the client needs to read the answer
type c18CsShot struct {
	req         *http.Request
	key         []byte
	wire, plain []byte
}

func (e *c18CsEnv) run(t *testing.T, em *verifEmitter, c c18Cs) {
	s := e.prepare(c)
	rec := httptest.NewRecorder()
	status := c18Serve(e.h, rec, s.req)
	em.Emit(verifEv{"e": "cs", "req": c, "calls": e.calls, "status": status, "hstatus": e.hstatus,
		"o": e.observe(s, rec)})
}

// prepare concretises the symbolic request and arms the protected handler for it.
func (e *c18CsEnv) prepare(c c18Cs) *c18CsShot {
	r := e.rng
	key := make([]byte, []int{16, 24, 32}[r.Intn(3)])
	r.Read(key)
	key2 := make([]byte, len(key))
	r.Read(key2)
	payload := make([]byte, c.Plen)
	r.Read(payload)
	e.rpay = make([]byte, c.Rlen)
	r.Read(e.rpay)
	e.chunks = c.Chunks
	e.wp = c.Wp
	e.wrote = e.wrote[:0]
	e.hstatus = []int{200, 201, 202}[r.Intn(3)]
	now := time.Now().Unix()

	wire, plain := e.wireBody(c.Body, c.Type, key, payload)
	swire, _ := e.wireBody(c.Sbody, c.Type, key, payload)
	digest := func(b []byte) string { s := sha256.Sum256(b); return fmt.Sprintf("%x", s[:]) }
	content := strings.Join([]string{e.tsString(c.Sts, c.Off, now), c.Smethod, c18Path(c.Spath), c18Query(c.Squery), digest(swire)}, "\n")
	mac := func(k []byte) []byte { m := hmac.New(sha256.New, k); m.Write([]byte(content)); return m.Sum(nil) }
	sigBytes := mac(key)
	sig := base64.StdEncoding.EncodeToString(sigBytes)
	switch c.Sform {
	case "flipBit":
		sigBytes[r.Intn(len(sigBytes))] ^= 1 << uint(r.Intn(8))
		sig = base64.StdEncoding.EncodeToString(sigBytes)
	case "caseSwap":
		bs := []byte(sig)
		for i, ch := range bs {
			if ch >= 'a' && ch <= 'z' {
				bs[i] = ch - 'a' + 'A'
				break
			} else if ch >= 'A' && ch <= 'Z' {
				bs[i] = ch - 'A' + 'a'
				break
			}
		}
		sig = string(bs)
	case "trunc":
		sig = base64.StdEncoding.EncodeToString(sigBytes[:len(sigBytes)-1-r.Intn(3)])
	case "extend":
		sig = base64.StdEncoding.EncodeToString(append(sigBytes, 0))
	case "empty":
		sig = ""
	case "otherKey":
		sig = base64.StdEncoding.EncodeToString(mac(key2))
	}

	// the secret: attributes encrypted to an RSA key
	var attrs []string
	attrs = append(attrs, "version=v1")
	switch c.Swf {
	case "noType":
	case "badType":
		attrs = append(attrs, "type=x")
	default:
		if c.Type == "enc" {
			attrs = append(attrs, "type=1")
		} else {
			attrs = append(attrs, "type=0")
		}
	}
	k64 := base64.StdEncoding.EncodeToString(key)
	if c.Swf == "badKey" {
		i := 1 + r.Intn(len(k64)-4)
		k64 = k64[:i] + "!" + k64[i+1:]
	}
	attrs = append(attrs, "key="+k64)
	if c.Swf != "noTime" {
		attrs = append(attrs, "time="+e.tsString(c.Ts, c.Off, now))
	}
	secretPlain := []byte(strings.Join(attrs, "; "))
	var secret string
	switch c.EncTo {
	case "A", "B", "other":
		secret = base64.StdEncoding.EncodeToString(c18RsaEncrypt(&e.keys[c.EncTo].priv.PublicKey, secretPlain))
	case "junk":
		j := make([]byte, 256)
		r.Read(j)
		secret = base64.StdEncoding.EncodeToString(j)
	case "notB64":
		secret = "%%%-not-base64-%%%"
	case "empty":
		secret = ""
	}
	var fp string
	switch c.Fp {
	case "A", "B":
		fp = e.keys[c.Fp].fp
	case "unknown":
		fp = "fpX-" + c18RandString(r, 12)
	}

	url := "http://localhost" + c18Path(c.Path)
	if q := c18Query(c.Query); q != "" {
		url += "?" + q
	}
	var body io.Reader = http.NoBody
	chunked := c.Xfer == "chunked"
	pieces := (c.Body != "none" && r.Intn(2) == 0) || (chunked && r.Intn(4) != 0)
	if pieces {
		// the body arrives in several reads, as it does from a network connection
		body = &c18PieceReader{b: append([]byte{}, wire...), rng: r}
	} else if c.Body != "none" || chunked {
		body = bytes.NewReader(wire)
	}
	req := httptest.NewRequest(c.Method, url, body)
	if chunked {
		// what net/http hands a handler for "Transfer-Encoding: chunked": no announced length, the
		// body (possibly empty) ends where the stream ends
		req.ContentLength = -1
		req.TransferEncoding = []string{"chunked"}
		req.Body = io.NopCloser(body)
	} else if pieces {
		req.ContentLength = int64(len(wire))
	}
	if c.Hdr == "present" {
		req.Header.Set("X-Content-Security", strings.Join([]string{"key=" + fp, "secret=" + secret, "signature=" + sig}, "; "))
	}
	e.calls = 0
	e.hbody = "-"
	return &c18CsShot{req: req, key: key, wire: wire, plain: plain}
}

// observe: the identities Gates!RoundTrip is about.  rpay is what the handler passed to Write
// (copied call by call); when it did not run, what it would have written without a program.
func (e *c18CsEnv) observe(s *c18CsShot, rec *httptest.ResponseRecorder) map[string]string {
	rraw := rec.Body.Bytes()
	rdec := "fail"
	if ct, err := base64.StdEncoding.DecodeString(string(rraw)); err == nil {
		if p, ok := c18EcbDecrypt(s.key, ct); ok {
			rdec = c18id(p)
		}
	}
	rpay := e.rpay
	if e.calls > 0 {
		rpay = e.wrote
	}
	return map[string]string{"wire": c18id(s.wire), "payload": c18id(s.plain), "hbody": e.hbody,
		"rpay": c18id(rpay), "rraw": c18id(rraw), "rdec": rdec}
}

// TestVerifGatesCs: every symbolic signed request, concretised, through the strict handler.
func TestVerifGatesCs(t *testing.T) {
	em := verifOpen(t)
	defer em.Close()
	logx.Disable()
	in := verifInput(t)
	if len(in) == 0 {
		t.Fatal("no input cases")
	}
	r := verifRand(1803)
	env := c18NewCsEnv(t, r)
	chunk := verifEnvInt("VERIF_C18_CHUNK", 48)
	order := r.Perm(len(in))
	for n, i := range order {
		c := c18ParseCs(t, in[i])
		if n%chunk == 0 {
			env.useWire(t, c18NextWire("cs"), c18GateSpec{})
			em.Emit(verifEv{"e": "reset", "gate": "cs", "prev": false, "wire": env.wire})
		}
		env.run(t, em, c)
	}
}
