//go:build verif

package handler

// C18: the gates as package handler exports them.

import (
	"net/http"
	"testing"
	"time"

	"github.com/zeromicro/go-zero/core/codec"
)

func c18MakeJwtGate(t *testing.T, cur, prev string, passiveCallback bool, next http.Handler) http.Handler {
	var opts []AuthorizeOption
	if prev != "" {
		opts = append(opts, WithPrevSecret(prev))
	}
	if passiveCallback {
		// looks at the error, writes nothing
		opts = append(opts, WithUnauthorizedCallback(func(w http.ResponseWriter, r *http.Request, err error) {
			_ = err
		}))
	}
	return Authorize(cur, opts...)(next)
}

func c18MakeCsGate(t *testing.T, keys []c18KeyFile, tolerance time.Duration, next http.Handler) http.Handler {
	decrypters := map[string]codec.RsaDecrypter{}
	for _, k := range keys {
		d, err := codec.NewRsaDecrypter(k.File)
		if err != nil {
			t.Fatal(err)
		}
		decrypters[k.Fp] = d
	}
	return ContentSecurityHandler(decrypters, tolerance, true)(next)
}
