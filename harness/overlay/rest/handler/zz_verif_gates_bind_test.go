//go:build verif

package handler

// C18: the gates as package handler exports them (wiring level "handler": the middleware
// is put in front of the protected handler directly; a route that needs both gates nests them).

import (
	"net/http"
	"testing"

	"github.com/zeromicro/go-zero/core/codec"
)

func c18NextWire(decl string) c18Wire {
	return c18Wire{Level: "handler", Chain: "none", Decl: decl}
}

func c18MakeGate(t *testing.T, w c18Wire, g c18GateSpec, next http.Handler) http.Handler {
	h := next
	if w.Decl == "cs" || w.Decl == "both" {
		decrypters := map[string]codec.RsaDecrypter{}
		for _, k := range g.Keys {
			d, err := codec.NewRsaDecrypter(k.File)
			if err != nil {
				t.Fatal(err)
			}
			decrypters[k.Fp] = d
		}
		h = ContentSecurityHandler(decrypters, g.Tolerance, true)(h)
	}
	if w.Decl == "jwt" || w.Decl == "both" {
		var opts []AuthorizeOption
		if g.Prev != "" {
			opts = append(opts, WithPrevSecret(g.Prev))
		}
		if g.Callback {
			// looks at the error, writes nothing
			opts = append(opts, WithUnauthorizedCallback(func(w http.ResponseWriter, r *http.Request, err error) {
				_ = err
			}))
		}
		h = Authorize(g.Cur, opts...)(h)
	}
	return h
}
