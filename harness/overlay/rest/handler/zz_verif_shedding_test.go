//go:build verif

package handler

// C02 driver, request level (both tiers): requests go through the real SheddingHandler in front
// of a real adaptive shedder (CPU verdict injected, virtual clock). A recording wrapper around
// the shedder logs every Allow / Pass / Fail the middleware performs; a shim around what the
// middleware calls as its next handler logs how that handler ended (hdone, in a defer, as
// observed: status written / panic); the innermost handler is gated by the driver, so many
// requests can be parked in flight while exactly one thing happens at a time. No expectations
// here: TLC validates the trace against specs/shedder/ShedderWrap.tla (events: reset adv hin
// allow hdone pass fail hend).
//
// modes: "plain"     SheddingHandler -> handler
//        "chain"     SheddingHandler -> TimeoutHandler(1h) -> handler (a panic is re-raised by the
//                    timeout handler and travels through the shedding handler; "cancel" /
//                    "timeout" end the request through its context while the handler is parked)
//        "chainrec"  SheddingHandler -> TimeoutHandler(1h) -> RecoverHandler -> handler, the order
//                    rest/engine.go sets up (a panic becomes a 500)
//        "nop"       plain, with the shedder of a process whose shedding is disabled

import (
	"context"
	"encoding/json"
	"net/http"
	"net/http/httptest"
	"sync"
	"sync/atomic"
	"testing"
	"time"

	"github.com/zeromicro/go-zero/core/load"
	"github.com/zeromicro/go-zero/core/logx"
	"github.com/zeromicro/go-zero/core/stat"
	"github.com/zeromicro/go-zero/core/timex"
)

const c02Base = 1000 * time.Hour

var (
	c02Rel atomic.Int64 // ms since the shedder was created
	c02Ov  atomic.Bool
)

// c02Rec wraps the real shedder and logs what the middleware does with it.
type c02Rec struct {
	em    *verifEmitter
	inner load.Shedder
	mu    sync.Mutex
	next  int
	cur   int // the request being handed to the wrapper
}

type c02Promise struct {
	r   *c02Rec
	req int
	id  int
	p   load.Promise
}

func (r *c02Rec) Allow() (load.Promise, error) {
	ov := c02Ov.Load()
	p, err := r.inner.Allow()
	fly, avg, _ := load.VerifC02Peek(r.inner)
	r.mu.Lock()
	defer r.mu.Unlock()
	r.next++
	r.em.Emit(verifEv{"e": "allow", "r": r.cur, "id": r.next, "ov": ov, "shed": err != nil, "fly": fly, "avg": avg})
	if err != nil {
		return nil, err
	}
	return &c02Promise{r: r, req: r.cur, id: r.next, p: p}, nil
}

func (p *c02Promise) Pass() {
	p.p.Pass()
	fly, avg, _ := load.VerifC02Peek(p.r.inner)
	p.r.em.Emit(verifEv{"e": "pass", "r": p.req, "id": p.id, "fly": fly, "avg": avg})
}

func (p *c02Promise) Fail() {
	p.p.Fail()
	fly, avg, _ := load.VerifC02Peek(p.r.inner)
	p.r.em.Emit(verifEv{"e": "fail", "r": p.req, "id": p.id, "fly": fly, "avg": avg})
}

// c02Ctx is a context the driver ends by hand, with the error of its choice (no wall clock).
type c02Ctx struct {
	context.Context
	done chan struct{}
	mu   sync.Mutex
	err  error
}

func (c *c02Ctx) Done() <-chan struct{} { return c.done }
func (c *c02Ctx) Err() error {
	c.mu.Lock()
	defer c.mu.Unlock()
	return c.err
}
func (c *c02Ctx) Deadline() (time.Time, bool) { return time.Time{}, false }
func (c *c02Ctx) end(err error) {
	c.mu.Lock()
	c.err = err
	c.mu.Unlock()
	close(c.done)
}

type c02Key struct{}

type c02Req struct {
	n       int
	ctx     *c02Ctx
	release chan string
	done    chan struct{}
	how     string
}

type c02Geo struct {
	nb  int
	bd  int64
	thr int64
}

// concrete ways a handler ends, by the class the specification talks about
var c02Outcomes = map[string][]string{
	"ok":      {"200", "body", "silent", "204", "302", "400", "404", "429"},
	"failcls": {"503", "503body"},
	"err":     {"500", "502", "504", "500body"},
	"panic":   {"panic", "abort", "503panic", "bodypanic"},
}

// c02Code records the status the next handler answered with (observation only).
type c02Code struct {
	http.ResponseWriter
	code int
}

func (w *c02Code) WriteHeader(code int) {
	if w.code == 0 {
		w.code = code
	}
	w.ResponseWriter.WriteHeader(code)
}

func (w *c02Code) Write(b []byte) (int, error) {
	if w.code == 0 {
		w.code = http.StatusOK
	}
	return w.ResponseWriter.Write(b)
}

type c02Sess struct {
	t      *testing.T
	em     *verifEmitter
	mode   string
	rec    *c02Rec
	h      http.Handler
	parked []*c02Req
	enter  chan *c02Req
	nreq   int
}

func c02Install(t *testing.T) func() {
	logx.Disable()
	stat.SetReporter(nil)
	timex.VerifNow = func() time.Duration {
		return c02Base + time.Duration(c02Rel.Load())*time.Millisecond
	}
	restore := load.VerifC02SetOverload(func() bool { return c02Ov.Load() })
	return func() {
		restore()
		timex.VerifNow = nil
	}
}

func c02NewSess(t *testing.T, em *verifEmitter, mode string, g c02Geo, metrics *stat.Metrics) *c02Sess {
	s := &c02Sess{t: t, em: em, mode: mode, enter: make(chan *c02Req, 1)}
	c02Rel.Store(0)
	opts := []load.ShedderOption{load.WithBuckets(g.nb),
		load.WithWindow(time.Duration(g.bd) * time.Millisecond * time.Duration(g.nb)), load.WithCpuThreshold(g.thr)}
	kind := "adaptive"
	var inner load.Shedder
	if mode == "nop" {
		inner = load.VerifC02NewDisabled(opts...)
		kind = "nop"
	} else {
		inner = load.NewAdaptiveShedder(opts...)
	}
	s.rec = &c02Rec{em: em, inner: inner}
	em.Emit(verifEv{"e": "reset", "kind": kind, "nb": g.nb, "bd": g.bd})
	// the innermost handler: parks until the driver says how to end
	var gated http.Handler = http.HandlerFunc(func(w http.ResponseWriter, r *http.Request) {
		q := r.Context().Value(c02Key{}).(*c02Req)
		s.enter <- q
		switch what := <-q.release; what {
		case "200":
			w.WriteHeader(http.StatusOK)
		case "body":
			w.Write([]byte("c02"))
		case "silent":
		case "204":
			w.WriteHeader(http.StatusNoContent)
		case "302":
			w.WriteHeader(http.StatusFound)
		case "400":
			w.WriteHeader(http.StatusBadRequest)
		case "404":
			w.WriteHeader(http.StatusNotFound)
		case "429":
			w.WriteHeader(http.StatusTooManyRequests)
		case "503":
			w.WriteHeader(http.StatusServiceUnavailable)
		case "503body":
			w.WriteHeader(http.StatusServiceUnavailable)
			w.Write([]byte("c02"))
		case "500":
			w.WriteHeader(http.StatusInternalServerError)
		case "500body":
			w.WriteHeader(http.StatusInternalServerError)
			w.Write([]byte("c02"))
		case "502":
			w.WriteHeader(http.StatusBadGateway)
		case "504":
			w.WriteHeader(http.StatusGatewayTimeout)
		case "panic":
			panic("c02 handler panic")
		case "abort":
			panic(http.ErrAbortHandler)
		case "503panic":
			w.WriteHeader(http.StatusServiceUnavailable)
			panic("c02 handler panic after 503")
		case "bodypanic":
			w.Write([]byte("c02"))
			panic("c02 handler panic after body")
		}
	})
	behind := gated
	switch mode {
	case "chain":
		behind = TimeoutHandler(time.Hour)(gated)
	case "chainrec":
		behind = TimeoutHandler(time.Hour)(RecoverHandler(gated))
	}
	shim := http.HandlerFunc(func(w http.ResponseWriter, r *http.Request) {
		q := r.Context().Value(c02Key{}).(*c02Req)
		cw := &c02Code{ResponseWriter: w}
		defer func() {
			p := recover()
			out := "ok"
			switch {
			case p != nil:
				out = "panic"
			case cw.code == http.StatusServiceUnavailable:
				out = "failcls"
			case cw.code >= 500:
				out = "err"
			}
			em.Emit(verifEv{"e": "hdone", "r": q.n, "out": out})
			if p != nil {
				panic(p)
			}
		}()
		behind.ServeHTTP(cw, r)
	})
	s.h = SheddingHandler(s.rec, metrics)(shim)
	return s
}

func (s *c02Sess) adv(d int64) {
	c02Rel.Add(d)
	s.em.Emit(verifEv{"e": "adv", "d": d})
}

// start hands a new request to the wrapper and waits until it is parked in its handler or back.
func (s *c02Sess) start(ov bool) {
	s.nreq++
	q := &c02Req{n: s.nreq, release: make(chan string, 1), done: make(chan struct{})}
	q.ctx = &c02Ctx{Context: context.WithValue(context.Background(), c02Key{}, q), done: make(chan struct{})}
	c02Ov.Store(ov)
	s.rec.cur = q.n
	s.em.Emit(verifEv{"e": "hin", "r": q.n})
	go func() {
		defer close(q.done)
		defer func() {
			q.how = "ret"
			if recover() != nil {
				q.how = "panic"
			}
		}()
		req := httptest.NewRequest(http.MethodGet, "http://localhost/c02", http.NoBody).WithContext(q.ctx)
		s.h.ServeHTTP(httptest.NewRecorder(), req)
	}()
	select {
	case <-s.enter:
		s.parked = append(s.parked, q)
	case <-q.done:
		s.em.Emit(verifEv{"e": "hend", "r": q.n, "how": q.how})
	case <-time.After(120 * time.Second):
		s.t.Fatal("c02: request neither reached the handler nor returned")
	}
}

// finish lets the i-th parked request end the given way and waits until the wrapper gave control back.
func (s *c02Sess) finish(i int, what string) {
	q := s.parked[i]
	s.parked = append(s.parked[:i], s.parked[i+1:]...)
	switch what {
	case "cancel": // the client goes away: the timeout handler answers 499, the handler stays parked
		q.ctx.end(context.Canceled)
	case "timeout": // the deadline passes: the timeout handler answers 503
		q.ctx.end(context.DeadlineExceeded)
	default:
		q.release <- what
	}
	select {
	case <-q.done:
		s.em.Emit(verifEv{"e": "hend", "r": q.n, "how": q.how})
	case <-time.After(120 * time.Second):
		s.t.Fatal("c02: released request did not return")
	}
	if what == "cancel" || what == "timeout" {
		q.release <- "silent" // let the abandoned handler goroutine go (nobody listens to it any more)
	}
}

// pick a concrete way to end for an outcome class
func (s *c02Sess) variant(rnd interface{ Intn(int) int }, class string) string {
	if (s.mode == "chain" || s.mode == "chainrec") && rnd.Intn(3) == 0 {
		switch class {
		case "ok":
			return "cancel"
		case "failcls":
			return "timeout"
		}
	}
	v := c02Outcomes[class]
	return v[rnd.Intn(len(v))]
}

type c02WOp struct {
	Op  string `json:"op"` // adv | start | finish
	D   int64  `json:"d"`
	Ov  bool   `json:"ov"`
	K   int    `json:"k"`
	Out string `json:"out"`
}

var c02Modes = []string{"plain", "chain", "chainrec", "nop"}

// TestVerifC02WrapReplay performs the TLC-generated request-level histories (ShedderWrapImpl, one per
// distinct reachable model state; model time unit = VERIF_C02_UNIT ms, 3 buckets of 2 units) (every
// one in plain mode, shared out over the other modes).
func TestVerifC02WrapReplay(t *testing.T) {
	em := verifOpen(t)
	defer em.Close()
	defer c02Install(t)()
	rnd := verifRand(71)
	metrics := stat.NewMetrics("c02")
	unit := int64(verifEnvInt("VERIF_C02_UNIT", 250))
	var hists [][]c02WOp
	for _, raw := range verifInput(t) {
		var ops []c02WOp
		if err := json.Unmarshal(raw, &ops); err != nil {
			t.Fatal(err)
		}
		hists = append(hists, ops)
	}
	for _, mode := range c02Modes {
		for hi, ops := range hists {
			// every history in plain mode; the chain modes share them out (the seed decides); few in nop mode
			switch mode {
			case "chain":
				if (int64(hi)+verifSeed())%2 != 0 {
					continue
				}
			case "chainrec":
				if (int64(hi)+verifSeed())%2 == 0 {
					continue
				}
			case "nop":
				if (int64(hi)+verifSeed())%8 != 0 {
					continue
				}
			}
			s := c02NewSess(t, em, mode, c02Geo{3, 2 * unit, -1000000000}, metrics)
			for _, op := range ops {
				switch op.Op {
				case "adv":
					s.adv(op.D * unit)
				case "start":
					s.start(op.Ov)
				case "finish":
					// the model's k-th parked request; the real shedder may have decided differently
					if len(s.parked) > 0 {
						s.finish((op.K-1)%len(s.parked), s.variant(rnd, op.Out))
					}
				}
			}
			for len(s.parked) > 0 {
				s.finish(0, "200")
			}
		}
	}
}

// TestVerifC02SheddingHandler: seeded random request-level histories. Per history an outcome
// profile (mixed / nearly all ok / failure heavy / panic heavy), a wandering in-flight target and
// a CPU pattern; gaps on bucket edges, window lengths and the cool-off boundary.
func TestVerifC02SheddingHandler(t *testing.T) {
	em := verifOpen(t)
	defer em.Close()
	defer c02Install(t)()
	rnd := verifRand(7)
	metrics := stat.NewMetrics("c02")
	geos := []c02Geo{{3, 500, -1000000000}, {4, 1000, 999}, {10, 100, -1000000000}, {5, 20, 500}}
	runs := verifEnvInt("VERIF_C02_WHIST", 40)
	lo := verifEnvInt("VERIF_C02_WLEN", 150)
	profiles := [][]string{
		{"ok", "ok", "ok", "ok", "failcls", "failcls", "err", "err", "panic"},
		{"ok", "ok", "ok", "ok", "ok", "ok", "ok", "ok", "ok", "ok", "ok", "failcls", "err", "panic"},
		{"failcls", "failcls", "failcls", "failcls", "ok", "err", "panic"},
		{"panic", "panic", "panic", "ok", "ok", "failcls", "err"},
	}
	for run := 0; run < runs; run++ {
		g := geos[rnd.Intn(len(geos))]
		mode := c02Modes[run%len(c02Modes)]
		if mode == "nop" && rnd.Intn(2) == 0 {
			mode = "plain"
		}
		s := c02NewSess(t, em, mode, g, metrics)
		prof := profiles[rnd.Intn(len(profiles))]
		target := 2 + rnd.Intn(6)
		pOv := rnd.Intn(3)
		lastOv := int64(-1)
		steps := lo + rnd.Intn(lo+1)
		for step := 0; step < steps; step++ {
			if rnd.Intn(25) == 0 {
				target = 1 + rnd.Intn(12)
				pOv = rnd.Intn(3)
			}
			switch x := rnd.Intn(10); {
			case x < 2:
				now := c02Rel.Load()
				d := []int64{1, 1 + int64(rnd.Intn(40)), g.bd - now%g.bd, g.bd + int64(rnd.Intn(3)) - 1,
					g.bd * int64(g.nb), 200 + int64(rnd.Intn(1500)), lastOv + 999 + int64(rnd.Intn(3)) - now}[rnd.Intn(7)]
				if d < 1 {
					d = 1
				}
				s.adv(d)
			case len(s.parked) <= target && x < 7:
				ov := pOv == 2 || pOv == 1 && rnd.Intn(2) == 0
				if ov {
					lastOv = c02Rel.Load()
				}
				s.start(ov)
			default:
				if len(s.parked) > 0 {
					s.finish(rnd.Intn(len(s.parked)), s.variant(rnd, prof[rnd.Intn(len(prof))]))
				}
			}
		}
		// drain, then a few requests under CPU load with nothing else in flight
		for len(s.parked) > 0 {
			s.finish(0, s.variant(rnd, prof[rnd.Intn(len(prof))]))
		}
		for i := 0; i < 3; i++ {
			s.start(true)
			for len(s.parked) > 0 {
				s.finish(0, "200")
			}
		}
	}
}
