//go:build verif

package handler

// C02 driver (thorough tier): requests go through the real SheddingHandler in front of a real
// adaptive shedder (CPU verdict injected, virtual clock). A recording wrapper around the
// shedder logs every Allow / Pass / Fail the middleware performs; the next handler is gated by
// the driver, so many requests can be parked in flight while exactly one thing happens at a
// time. No expectations here: TLC validates the trace against specs/shedder/Shedder.tla
// (events: reset adv allow pass fail hend -- hend{id}: the request that holds promise id has
// returned, id 0: it was shed).

import (
	"net/http"
	"net/http/httptest"
	"sync"
	"sync/atomic"
	"testing"
	"time"

	"github.com/zeromicro/go-zero/core/load"
	"github.com/zeromicro/go-zero/core/logx"
	"github.com/zeromicro/go-zero/core/stat"
	"github.com/zeromicro/go-zero/core/timex"
)

const c02Base = 1000 * time.Hour

var (
	c02Rel atomic.Int64 // ms since the shedder was created
	c02Ov  atomic.Bool
)

type c02Rec struct {
	em     *verifEmitter
	inner  load.Shedder
	mu     sync.Mutex
	next   int
	lastID int
}

type c02Promise struct {
	r  *c02Rec
	id int
	p  load.Promise
}

func (r *c02Rec) Allow() (load.Promise, error) {
	ov := c02Ov.Load()
	p, err := r.inner.Allow()
	fly, avg, _ := load.VerifC02Peek(r.inner)
	r.mu.Lock()
	defer r.mu.Unlock()
	r.next++
	if err != nil {
		r.lastID = 0
		r.em.Emit(verifEv{"e": "allow", "id": r.next, "ov": ov, "shed": true, "fly": fly, "avg": avg})
		return nil, err
	}
	r.lastID = r.next
	r.em.Emit(verifEv{"e": "allow", "id": r.next, "ov": ov, "shed": false, "fly": fly, "avg": avg})
	return &c02Promise{r: r, id: r.next, p: p}, nil
}

func (p *c02Promise) Pass() {
	p.p.Pass()
	fly, avg, _ := load.VerifC02Peek(p.r.inner)
	p.r.em.Emit(verifEv{"e": "pass", "id": p.id, "fly": fly, "avg": avg})
}

func (p *c02Promise) Fail() {
	p.p.Fail()
	fly, avg, _ := load.VerifC02Peek(p.r.inner)
	p.r.em.Emit(verifEv{"e": "fail", "id": p.id, "fly": fly, "avg": avg})
}

type c02Req struct {
	id      int
	release chan string
	done    chan struct{}
}

func TestVerifC02SheddingHandler(t *testing.T) {
	em := verifOpen(t)
	defer em.Close()
	logx.Disable()
	stat.SetReporter(nil)
	timex.VerifNow = func() time.Duration {
		return c02Base + time.Duration(c02Rel.Load())*time.Millisecond
	}
	defer func() { timex.VerifNow = nil }()
	defer load.VerifC02SetOverload(func() bool { return c02Ov.Load() })()
	rnd := verifRand(7)
	metrics := stat.NewMetrics("c02")
	type geo struct {
		nb  int
		bd  int64
		thr int64
	}
	geos := []geo{{3, 500, -1000000000}, {4, 1000, 999}, {10, 100, -1000000000}, {5, 20, 500}}
	runs := verifEnvInt("VERIF_C02_WHIST", 40)
	for run := 0; run < runs; run++ {
		g := geos[rnd.Intn(len(geos))]
		c02Rel.Store(0)
		inner := load.NewAdaptiveShedder(load.WithBuckets(g.nb),
			load.WithWindow(time.Duration(g.bd)*time.Millisecond*time.Duration(g.nb)), load.WithCpuThreshold(g.thr))
		rec := &c02Rec{em: em, inner: inner}
		em.Emit(verifEv{"e": "reset", "kind": "adaptive", "nb": g.nb, "bd": g.bd})
		entered := make(chan *c02Req, 1)
		var cur *c02Req
		next := http.HandlerFunc(func(w http.ResponseWriter, r *http.Request) {
			q := cur
			entered <- q
			switch what := <-q.release; what {
			case "503":
				w.WriteHeader(http.StatusServiceUnavailable)
			case "500":
				w.WriteHeader(http.StatusInternalServerError)
			case "body":
				w.Write([]byte("c02"))
			case "503body":
				w.WriteHeader(http.StatusServiceUnavailable)
				w.Write([]byte("c02"))
			case "panic":
				panic("c02 handler panic")
			case "abort":
				panic(http.ErrAbortHandler)
			case "silent":
			default:
				w.WriteHeader(http.StatusOK)
			}
		})
		h := SheddingHandler(rec, metrics)(next)
		var parked []*c02Req
		start := func() {
			q := &c02Req{release: make(chan string, 1), done: make(chan struct{})}
			cur = q
			go func() {
				defer close(q.done)
				defer func() { recover() }()
				req := httptest.NewRequest(http.MethodGet, "http://localhost/c02", http.NoBody)
				h.ServeHTTP(httptest.NewRecorder(), req)
			}()
			select {
			case <-entered:
				q.id = rec.lastID
				parked = append(parked, q)
			case <-q.done:
				em.Emit(verifEv{"e": "hend", "id": 0})
			case <-time.After(60 * time.Second):
				t.Fatal("request neither reached the handler nor returned")
			}
		}
		finish := func(i int, what string) {
			q := parked[i]
			parked = append(parked[:i], parked[i+1:]...)
			q.release <- what
			select {
			case <-q.done:
				em.Emit(verifEv{"e": "hend", "id": q.id})
			case <-time.After(60 * time.Second):
				t.Fatal("released request did not return")
			}
		}
		outcomes := []string{"ok", "ok", "ok", "body", "silent", "503", "503body", "500", "panic", "abort"}
		target := 2 + rnd.Intn(6)
		pOv := rnd.Intn(3)
		lastOv := int64(-1)
		for step := 0; step < 150+rnd.Intn(150); step++ {
			if rnd.Intn(25) == 0 {
				target = 1 + rnd.Intn(12)
				pOv = rnd.Intn(3)
			}
			switch x := rnd.Intn(10); {
			case x < 2:
				now := c02Rel.Load()
				d := []int64{1, 1 + int64(rnd.Intn(40)), g.bd - now%g.bd, g.bd + int64(rnd.Intn(3)) - 1,
					g.bd * int64(g.nb), 200 + int64(rnd.Intn(1500)), lastOv + 999 + int64(rnd.Intn(3)) - now}[rnd.Intn(7)]
				if d < 1 {
					d = 1
				}
				c02Rel.Add(d)
				em.Emit(verifEv{"e": "adv", "d": d})
			case len(parked) <= target && x < 7:
				ov := pOv == 2 || pOv == 1 && rnd.Intn(2) == 0
				c02Ov.Store(ov)
				if ov {
					lastOv = c02Rel.Load()
				}
				start()
			default:
				if len(parked) > 0 {
					finish(rnd.Intn(len(parked)), outcomes[rnd.Intn(len(outcomes))])
				}
			}
		}
		for len(parked) > 0 {
			finish(0, outcomes[rnd.Intn(len(outcomes))])
		}
	}
}
