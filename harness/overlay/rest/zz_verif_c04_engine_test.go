//go:build verif

package rest

// C04 driver (REST engine level): runs TLC-generated worker scripts as route handlers of real
// rest.Server instances whose routes are bound by engine.bindRoutes (global RestConf.Timeout
// versus per-route WithTimeout / WithSSE), under several caller-deadline / cancellation /
// exemption configurations, and records what the handler did, what context it saw and what reached
// the client. No expectations here: the verdict comes from TLC feeding the recorded events
// to the monitor of specs/timeout/Timeout.tla.
//
// Timing: real timers cannot be avoided (context.WithTimeout), but nothing recorded
// depends on how fast anything ran: a script part that must happen "at expiry" waits on
// the handler's own ctx.Done() and then acts at once; a handler that ignores its context
// is released by the driver only after the wrapper returned.

import (
	"bytes"
	"context"
	"encoding/json"
	"errors"
	"net/http"
	"net/http/httptest"
	"runtime"
	"sort"
	"strconv"
	"strings"
	"sync"
	"sync/atomic"
	"testing"
	"time"

	"github.com/zeromicro/go-zero/core/logx"
	"github.com/zeromicro/go-zero/rest/router"
)

type c04Op struct {
	Op   string `json:"op"`
	K    string `json:"k"`
	V    int    `json:"v"`
	Code int    `json:"code"`
	C    int    `json:"c"`
	Val  int    `json:"val"`
	Err  string `json:"err"`
}

type c04Cfg struct {
	tmo    time.Duration // 0: no timeout configured
	pdl    time.Duration // caller deadline relative to the start of the call; 0: none
	exempt string        // "", "ws", "sse"
	pre    string        // "", "cancel": caller gone before the call, "expired": caller deadline already passed
}

const (
	c04Short    = 40 * time.Millisecond
	c04Huge     = 1000 * time.Second
	c04Watchdog = 30 * time.Second
	c04HdrPfx   = "X-C04-"
)

var c04Chunks = map[int][]byte{
	1: []byte("<c1:alpha>"),
	2: []byte("<c2:" + strings.Repeat("0123456789abcdef", 4500) + ">"), // 72 kB: larger than any plausible internal buffer
	3: []byte("<c3:" + strings.Repeat("beta-", 900) + ">"),
}

// ---- per-call event buffer (one trace = one call; flushed contiguously) ----
type c04Trace struct {
	mu  sync.Mutex
	evs []verifEv
}

func (t *c04Trace) emit(ev verifEv) {
	t.mu.Lock()
	t.evs = append(t.evs, ev)
	t.mu.Unlock()
}

func c04Flush(em *verifEmitter, t *c04Trace) {
	t.mu.Lock()
	defer t.mu.Unlock()
	em.mu.Lock()
	defer em.mu.Unlock()
	for _, ev := range t.evs {
		b, err := json.Marshal(ev)
		if err != nil {
			panic(err)
		}
		em.w.Write(b)
		em.w.WriteByte('\n')
		em.n++
	}
}

// c04Stuck counts watchdog expiries in this process. The first three wait the full
// watchdog; once three calls have been recorded as stuck the run is failing anyway and the
// remaining calls use a short one so that a broken wrapper does not cost 30 s per call.
var c04Stuck atomic.Int32

func c04Dog() time.Duration {
	if c04Stuck.Load() >= 3 {
		return 3 * time.Second
	}
	return c04Watchdog
}

// c04Wait waits for the wrapper to return. 0: returned; 1: stuck (the watchdog expired
// while the work is blocked waiting for the driver); 2: watchdog expired for another reason
// (infrastructure). A wrapper is never declared stuck while the work is not blocked.
func c04Wait[T any](ch chan T, blocked *atomic.Bool) (T, int) {
	var zero T
	start := time.Now()
	tick := time.NewTicker(250 * time.Millisecond)
	defer tick.Stop()
	for {
		select {
		case r := <-ch:
			return r, 0
		case <-tick.C:
		}
		el := time.Since(start)
		if blocked.Load() && el >= c04Dog() {
			select { // last look: it may have returned just now
			case r := <-ch:
				return r, 0
			default:
			}
			return zero, 1
		}
		if el >= 2*c04Watchdog {
			return zero, 2
		}
	}
}

func c04Floor(d time.Duration) int { return int(d / time.Microsecond) }
func c04Ceil(d time.Duration) int  { return int((d + time.Microsecond - 1) / time.Microsecond) }

// ---- the client side: a ResponseWriter that freezes headers at the first
// WriteHeader/Write like net/http, counts calls, and can act as a gate ----
type c04Recorder struct {
	mu    sync.Mutex
	live  http.Header
	hdr   [][2]any
	code  int
	body  bytes.Buffer
	n     int
	first chan struct{} // closed at the first WriteHeader/Write
	once  sync.Once
	gate  func() // steering only: called before the first WriteHeader/Write takes effect
}

func c04NewRecorder() *c04Recorder {
	return &c04Recorder{live: make(http.Header), first: make(chan struct{})}
}

func (r *c04Recorder) Header() http.Header { return r.live }

func (r *c04Recorder) commitLocked(code int) {
	if r.code != 0 {
		return
	}
	r.code = code
	r.hdr = c04TestHeaders(r.live)
}

func (r *c04Recorder) enter() {
	r.once.Do(func() {
		if r.gate != nil {
			r.gate()
		}
		close(r.first)
	})
}

func (r *c04Recorder) WriteHeader(code int) {
	r.enter()
	r.mu.Lock()
	r.n++
	r.commitLocked(code)
	r.mu.Unlock()
}

func (r *c04Recorder) Write(b []byte) (int, error) {
	r.enter()
	r.mu.Lock()
	r.n++
	r.commitLocked(http.StatusOK)
	r.body.Write(b)
	r.mu.Unlock()
	return len(b), nil
}

func c04TestHeaders(h http.Header) [][2]any {
	out := [][2]any{}
	for k, vv := range h {
		if strings.HasPrefix(k, c04HdrPfx) && len(vv) > 0 {
			v, _ := strconv.Atoi(vv[len(vv)-1])
			out = append(out, [2]any{strings.ToLower(strings.TrimPrefix(k, c04HdrPfx)), v})
		}
	}
	sort.Slice(out, func(i, j int) bool { return out[i][0].(string) < out[j][0].(string) })
	return out
}

// c04Tokens abstracts a body to the sequence of worker chunk ids it consists of; any
// other text (the wrapper's own timeout body) becomes one token 0.
func c04Tokens(b []byte) []int {
	out := []int{}
	for i := 0; i < len(b); {
		hit := 0
		for id := 1; id <= 3; id++ {
			if bytes.HasPrefix(b[i:], c04Chunks[id]) {
				hit = id
				break
			}
		}
		if hit != 0 {
			out = append(out, hit)
			i += len(c04Chunks[hit])
			continue
		}
		if len(out) == 0 || out[len(out)-1] != 0 {
			out = append(out, 0)
		}
		i++
	}
	return out
}

func (r *c04Recorder) snapshot(ev verifEv) verifEv {
	r.mu.Lock()
	defer r.mu.Unlock()
	hdr := r.hdr
	if r.code == 0 { // nothing committed yet: what an implicit 200 would carry
		hdr = c04TestHeaders(r.live)
	}
	ev["code"] = r.code
	ev["hdr"] = hdr
	ev["bt"] = c04Tokens(r.body.Bytes())
	ev["n"] = r.n
	raw := r.body.String()
	if len(raw) > 48 {
		raw = raw[:48] + "..."
	}
	ev["raw"] = raw
	return ev
}

func c04CtxErr(ctx context.Context) string {
	if ctx == nil {
		return "none"
	}
	switch err := ctx.Err(); {
	case err == nil:
		return "none"
	case errors.Is(err, context.DeadlineExceeded):
		return "deadline"
	case errors.Is(err, context.Canceled):
		return "canceled"
	default:
		return "other"
	}
}

// c04Call performs one wrapped call. wrap builds the handler chain around the worker
// (TimeoutHandler here; the engine driver in package rest has its own copy).
// steer: 0 free race, 1 the rest of the script after "await" is held until the wrapper
// has started writing its own result, 2 the wrapper's first write to the client is held
// until the worker has passed its "await" (worker acts while the wrapper is mid-branch).
func c04Call(t *testing.T, em *verifEmitter, cfg c04Cfg, script []c04Op, steer int,
	wrap func(http.Handler) http.Handler, label string) {
	tr := &c04Trace{}
	defer c04Flush(em, tr)

	inline := cfg.exempt != "" || cfg.tmo == 0
	base := time.Now()
	parent := context.Background()
	var cancels []context.CancelFunc
	pdl := -1
	switch {
	case cfg.pre == "expired":
		c, cf := context.WithDeadline(parent, base.Add(time.Microsecond))
		parent, cancels, pdl = c, append(cancels, cf), 1
	case cfg.pdl > 0:
		c, cf := context.WithDeadline(parent, base.Add(cfg.pdl))
		parent, cancels, pdl = c, append(cancels, cf), c04Floor(cfg.pdl)
	}
	parent, parentCancel := context.WithCancel(parent)
	cancels = append(cancels, parentCancel)
	defer func() {
		for _, cf := range cancels {
			cf()
		}
	}()

	rec := c04NewRecorder()
	release := make(chan struct{})     // closed by the driver: blocked workers may go on
	workerDone := make(chan struct{})  // handler function finished (returned or panicked)
	ctxCaptured := make(chan struct{}) // handler has recorded the context it was given
	passedAwait := make(chan struct{}) // handler is past its await (steering)
	var passedOnce sync.Once
	var wctx atomic.Value
	var blocked atomic.Bool
	if steer == 2 && !inline {
		rec.gate = func() {
			select {
			case <-passedAwait:
			case <-workerDone:
			case <-time.After(2 * time.Second):
			}
			for i := 0; i < 50; i++ {
				runtime.Gosched()
			}
		}
	}

	worker := http.HandlerFunc(func(w http.ResponseWriter, r *http.Request) {
		defer close(workerDone)
		defer passedOnce.Do(func() { close(passedAwait) })
		ctx := r.Context()
		wctx.Store(&ctx)
		dl, has := ctx.Deadline()
		now := c04Ceil(time.Since(base))
		d := 0
		if has {
			d = c04Floor(dl.Sub(base))
		}
		tr.emit(verifEv{"e": "ctx", "has": has, "dl": d, "now": now})
		close(ctxCaptured)
		if cfg.pre != "" { // already expired: the whole script is "after the await"
			passedOnce.Do(func() { close(passedAwait) })
		}
		for _, op := range script {
			switch op.Op {
			case "sh":
				w.Header().Set(c04HdrPfx+op.K, strconv.Itoa(op.V))
				tr.emit(verifEv{"e": "sh", "k": op.K, "v": op.V})
			case "wh":
				w.WriteHeader(op.Code)
				tr.emit(verifEv{"e": "wh", "code": op.Code})
			case "wr":
				_, err := w.Write(c04Chunks[op.C])
				tr.emit(verifEv{"e": "wr", "c": op.C, "err": err != nil})
			case "await":
				blocked.Store(true)
				select {
				case <-ctx.Done():
				case <-release:
				}
				blocked.Store(false)
				tr.emit(verifEv{"e": "await"})
				if steer == 1 && !inline {
					select {
					case <-rec.first:
					case <-release:
					case <-time.After(2 * time.Second):
					}
				}
				passedOnce.Do(func() { close(passedAwait) })
			case "cancel":
				tr.emit(verifEv{"e": "cancel"})
				parentCancel()
			case "ret":
				tr.emit(verifEv{"e": "ret", "val": -1, "err": "nil"})
				return
			case "panic":
				tr.emit(verifEv{"e": "panic"})
				panic("c04 worker panic")
			case "ignore":
				tr.emit(verifEv{"e": "ignore"})
				passedOnce.Do(func() { close(passedAwait) })
				blocked.Store(true)
				<-release
				blocked.Store(false)
				tr.emit(verifEv{"e": "ret", "val": -1, "err": "nil"})
				return
			}
		}
	})
	h := wrap(worker)
	req := httptest.NewRequest(http.MethodGet, "http://localhost/c04", http.NoBody).WithContext(parent)
	switch cfg.exempt {
	case "ws":
		req.Header.Set("Upgrade", "websocket")
		req.Header.Set("Connection", "Upgrade")
	case "sse":
		req.Header.Set("Accept", "text/event-stream")
	}
	if inline {
		close(release) // an inline wrapper legitimately waits for the work
	}
	returned := make(chan bool, 1)
	if cfg.pre == "expired" {
		<-parent.Done()
		for time.Since(base) < 3*time.Microsecond {
		}
	}
	tr.emit(verifEv{"e": "reset", "kind": "rest", "via": label, "tmo": c04Floor(cfg.tmo), "pdl": pdl,
		"exempt": cfg.exempt != "", "s0": c04Floor(time.Since(base)), "steer": steer, "pre": cfg.pre})
	if cfg.pre == "cancel" {
		tr.emit(verifEv{"e": "cancel"})
		parentCancel()
	}
	go func() {
		pan := false
		defer func() {
			if p := recover(); p != nil {
				pan = true
			}
			returned <- pan
		}()
		h.ServeHTTP(rec, req)
	}()

	pan, st := c04Wait(returned, &blocked)
	switch st {
	case 0:
		s1 := c04Floor(time.Since(base))
		select {
		case <-ctxCaptured:
		case <-time.After(c04Watchdog):
			t.Fatalf("c04: handler goroutine never started (%s)", label)
		}
		ctxerr := c04CtxErr(*(wctx.Load().(*context.Context)))
		tr.emit(rec.snapshot(verifEv{"e": "returned", "pan": pan, "val": -1, "err": "nil",
			"ctxerr": ctxerr, "s1": s1}))
		if !inline {
			close(release)
		}
		select {
		case <-workerDone:
		case <-time.After(c04Watchdog):
			t.Fatalf("c04: released handler did not finish (%s)", label)
		}
		tr.emit(rec.snapshot(verifEv{"e": "final"}))
	case 2:
		t.Fatalf("c04: watchdog fired although the handler is not blocked (%s)", label)
	case 1:
		c04Stuck.Add(1)
		tr.emit(verifEv{"e": "stuck", "el": c04Floor(time.Since(base))})
		if !inline {
			close(release)
		}
		select {
		case <-returned:
		case <-time.After(c04Watchdog):
			t.Fatalf("c04: wrapper did not return even after the handler finished (%s)", label)
		}
	}
}

// c04Feasible: a script that blocks (await / ignore) needs something that ends the call:
// a finite deadline or a cancellation requested earlier in the script (driving only).
func c04Feasible(cfg c04Cfg, script []c04Op) bool {
	if cfg.exempt != "" || cfg.tmo == 0 {
		return true
	}
	if cfg.pre != "" {
		return true
	}
	finite := (cfg.tmo > 0 && cfg.tmo < c04Huge) || (cfg.pdl > 0 && cfg.pdl < c04Huge)
	if finite {
		return true
	}
	for _, op := range script {
		switch op.Op {
		case "cancel":
			return true
		case "await", "ignore":
			return false
		}
	}
	return true
}

func c04Scripts(t *testing.T) [][]c04Op {
	var out [][]c04Op
	for _, raw := range verifInput(t) {
		var s []c04Op
		if err := json.Unmarshal(raw, &s); err != nil {
			t.Fatal(err)
		}
		out = append(out, s)
	}
	if len(out) == 0 {
		t.Fatal("c04: no scripts")
	}
	return out
}

var c04Timed = []c04Cfg{
	{tmo: c04Short},                         // own timeout only
	{tmo: c04Short, pdl: 10 * time.Second},  // caller deadline far away
	{tmo: c04Huge, pdl: c04Short},           // caller deadline is the tight one
	{tmo: 60 * time.Millisecond, pdl: 35 * time.Millisecond},
	{tmo: c04Huge},                          // only a cancellation can end it
	{tmo: 35 * time.Millisecond, pdl: c04Huge},
	{tmo: c04Short, pre: "cancel"}, // expiry before the handler even starts
	{tmo: c04Huge, pre: "expired"},
}

var c04Inline = []c04Cfg{
	{tmo: c04Short, exempt: "ws"},
	{tmo: c04Short, exempt: "sse"},
	{tmo: c04Short, exempt: "sse", pdl: 10 * time.Second},
	{tmo: 0},
	{tmo: 0, pdl: 10 * time.Second},
	{tmo: c04Short, exempt: "ws", pre: "cancel"},
}

type c04Job struct {
	cfg    c04Cfg
	script []c04Op
	steer  int
}

func c04RunJobs(t *testing.T, em *verifEmitter, jobs []c04Job, par int,
	run func(j c04Job)) {
	sem := make(chan struct{}, par)
	var wg sync.WaitGroup
	for _, j := range jobs {
		if t.Failed() {
			break
		}
		sem <- struct{}{}
		wg.Add(1)
		go func(j c04Job) {
			defer wg.Done()
			defer func() { <-sem }()
			run(j)
		}(j)
	}
	wg.Wait()
}

// ---- engine level ----

type c04Route struct {
	path string
	rt   time.Duration // WithTimeout value (0: option not used)
	sse  bool
}

type c04Server struct {
	global time.Duration
	routes []c04Route
	h      http.Handler
}

var c04Workers sync.Map // call id -> http.Handler
var c04CallID atomic.Int64

func c04Dispatch(w http.ResponseWriter, r *http.Request) {
	if h, ok := c04Workers.Load(r.Header.Get("X-C04-Call")); ok {
		h.(http.Handler).ServeHTTP(w, r)
	}
}

func c04BuildServer(t *testing.T, global time.Duration, routes []c04Route) *c04Server {
	var c RestConf
	c.Timeout = int64(global / time.Millisecond)
	c.Middlewares.Timeout = true
	srv := MustNewServer(c)
	for _, r := range routes {
		var opts []RouteOption
		if r.rt > 0 {
			opts = append(opts, WithTimeout(r.rt))
		}
		if r.sse {
			opts = append(opts, WithSSE())
		}
		srv.AddRoute(Route{Method: http.MethodGet, Path: r.path, Handler: c04Dispatch}, opts...)
	}
	rt := router.NewRouter()
	if err := srv.ngin.bindRoutes(rt); err != nil {
		t.Fatal(err)
	}
	return &c04Server{global: global, routes: routes, h: rt}
}

// effective timeout the engine is documented to apply: the route's own if set, else the global
func (s *c04Server) effective(r c04Route) time.Duration {
	if r.rt > 0 && !r.sse {
		return r.rt
	}
	return s.global
}

func (s *c04Server) wrap(path string) func(http.Handler) http.Handler {
	return func(worker http.Handler) http.Handler {
		return http.HandlerFunc(func(w http.ResponseWriter, r *http.Request) {
			id := strconv.FormatInt(c04CallID.Add(1), 10)
			c04Workers.Store(id, worker)
			// not deleted on return: the handler goroutine may start after the wrapper returned
			r.Header.Set("X-C04-Call", id)
			r.URL.Path = path
			s.h.ServeHTTP(w, r)
		})
	}
}

type c04EngineJob struct {
	srv    *c04Server
	route  c04Route
	cfg    c04Cfg
	script []c04Op
	steer  int
}

// TestVerifC04Engine: three servers (global timeout huge / short / none) with routes that
// override it, inherit it, or are SSE routes; every script under rotating caller
// configurations. The expected timeout recorded in the reset event is the configured one.
func TestVerifC04Engine(t *testing.T) {
	em := verifOpen(t)
	defer em.Close()
	logx.Disable()
	scripts := c04Scripts(t)
	rnd := verifRand(44)
	servers := []*c04Server{
		c04BuildServer(t, c04Huge, []c04Route{{path: "/short", rt: c04Short}, {path: "/inherit"},
			{path: "/other", rt: 60 * time.Millisecond}}),
		c04BuildServer(t, c04Short, []c04Route{{path: "/inherit"}, {path: "/long", rt: c04Huge},
			{path: "/sse", sse: true}}),
		c04BuildServer(t, 0, []c04Route{{path: "/none"}, {path: "/short", rt: c04Short}}),
	}
	callers := []c04Cfg{
		{}, {pdl: 10 * time.Second}, {pdl: c04Short}, {pdl: 35 * time.Millisecond},
		{pre: "cancel"}, {pre: "expired"}, {exempt: "ws"}, {exempt: "sse"}, {exempt: "sse", pdl: 10 * time.Second},
	}
	perScript := verifEnvInt("VERIF_C04_CFGS", 2)
	var jobs []c04EngineJob
	for _, s := range scripts {
		n := 0
		for try := 0; try < 40 && n < perScript; try++ {
			srv := servers[rnd.Intn(len(servers))]
			route := srv.routes[rnd.Intn(len(srv.routes))]
			cfg := callers[rnd.Intn(len(callers))]
			cfg.tmo = srv.effective(route)
			if !c04Feasible(cfg, s) {
				continue
			}
			jobs = append(jobs, c04EngineJob{srv, route, cfg, s, rnd.Intn(3)})
			n++
		}
	}
	sem := make(chan struct{}, verifEnvInt("VERIF_C04_PAR", 24))
	var wg sync.WaitGroup
	for _, j := range jobs {
		if t.Failed() {
			break
		}
		sem <- struct{}{}
		wg.Add(1)
		go func(j c04EngineJob) {
			defer wg.Done()
			defer func() { <-sem }()
			c04Call(t, em, j.cfg, j.script, j.steer, j.srv.wrap(j.route.path), "engine"+j.route.path)
		}(j)
	}
	wg.Wait()
}
