//go:build verif

package rest

// C09 driver, server wiring: the same kind of route tables, but registered through
// rest.Server (AddRoutes, WithPrefix groups, a Use middleware, the engine's middleware
// chain and not-found handler) and bound with engine.bindRoutes -- the path Start takes
// before listening -- onto the real router behind a recording wrapper. The wrapper logs
// the outcome of every router.Handle the engine issues (pattern parsed from the text the
// engine passed) and learns which harness handler sits inside the chain by probing it.
// Requests are served through Server.router.ServeHTTP. Verdicts come from TLC only.
// (The rt* helpers come from rest/router/zz_verif_routergen_test.go, package clause
// rewritten by the runner.)

import (
	"net/http"
	"net/http/httptest"
	"strings"
	"testing"

	"github.com/zeromicro/go-zero/core/logx"
	"github.com/zeromicro/go-zero/rest/httpx"
	"github.com/zeromicro/go-zero/rest/pathvar"
	"github.com/zeromicro/go-zero/rest/router"
)

const rtProbeHeader = "X-Verif-Probe"

type rtSrvRun struct {
	em     *verifEmitter
	probed int // id reported by the harness handler during a probe
	calls  []int
	vars   []map[string]string
	mw     int // invocations of the Use middleware
}

type rtRecRouter struct {
	inner httpx.Router
	run   *rtSrvRun
}

func rtParsePattern(p string) (bool, []rtSeg) {
	abs := len(p) > 0 && p[0] == '/'
	if p == "" {
		return false, []rtSeg{}
	}
	if abs {
		p = p[1:]
	}
	segs := []rtSeg{}
	for _, piece := range strings.Split(p, "/") {
		if strings.HasPrefix(piece, ":") {
			segs = append(segs, rtV(piece[1:]))
		} else {
			segs = append(segs, rtL(piece))
		}
	}
	return abs, segs
}

func (r *rtRecRouter) Handle(method, path string, handler http.Handler) error {
	err := r.inner.Handle(method, path, handler)
	// which harness handler is inside the chain the engine built?
	r.run.probed = 0
	req := httptest.NewRequest(http.MethodGet, "/", nil)
	req.Header.Set(rtProbeHeader, "1")
	handler.ServeHTTP(httptest.NewRecorder(), req)
	abs, segs := rtParsePattern(path)
	ev := verifEv{"e": "handle", "m": method, "abs": abs, "p": rtEncPat(segs), "id": r.run.probed, "ok": err == nil}
	if err != nil {
		ev["err"] = err.Error()
	}
	r.run.em.Emit(ev)
	return err
}

func (r *rtRecRouter) ServeHTTP(w http.ResponseWriter, req *http.Request) { r.inner.ServeHTTP(w, req) }
func (r *rtRecRouter) SetNotFoundHandler(h http.Handler)                  { r.inner.SetNotFoundHandler(h) }
func (r *rtRecRouter) SetNotAllowedHandler(h http.Handler)                { r.inner.SetNotAllowedHandler(h) }

type rtGroup struct {
	prefix string // "" or "/lit"
	routes []rtRoute
}

func rtRunServer(t *testing.T, em *verifEmitter, groups []rtGroup, reqs []rtReq) {
	run := &rtSrvRun{em: em}
	rec := &rtRecRouter{inner: router.NewRouter(), run: run}
	conf := RestConf{MaxBytes: 1 << 20}
	conf.Middlewares.Trace = true
	conf.Middlewares.Recover = true
	conf.Middlewares.MaxBytes = true
	conf.Middlewares.Gunzip = true
	srv, err := NewServer(conf, WithRouter(rec), WithNotFoundHandler(nil))
	if err != nil {
		t.Fatal(err)
	}
	srv.Use(func(next http.HandlerFunc) http.HandlerFunc {
		return func(w http.ResponseWriter, r *http.Request) {
			run.mw++
			next(w, r)
		}
	})
	id := 0
	for _, g := range groups {
		var rs []Route
		for _, r := range g.routes {
			id++
			hid := id
			rs = append(rs, Route{Method: r.M, Path: r.text(), Handler: func(w http.ResponseWriter, req *http.Request) {
				if req.Header.Get(rtProbeHeader) != "" {
					run.probed = hid
					return
				}
				run.calls = append(run.calls, hid)
				run.vars = append(run.vars, pathvar.Vars(req))
			}})
		}
		if g.prefix != "" {
			srv.AddRoutes(rs, WithPrefix(g.prefix))
		} else {
			srv.AddRoutes(rs)
		}
	}
	em.Emit(verifEv{"e": "reset", "nf": false, "na": false})
	_ = srv.ngin.bindRoutes(srv.router) // stops at the first rejected registration; every Handle issued is in the trace
	for _, q := range reqs {
		run.calls, run.vars = run.calls[:0], run.vars[:0]
		req := httptest.NewRequest(http.MethodGet, "/", nil)
		req.Method = q.M
		req.URL.Path = q.text()
		w := httptest.NewRecorder()
		srv.router.ServeHTTP(w, req)
		h := 0
		vars := [][]string{}
		if len(run.calls) > 0 {
			h = run.calls[0]
			vars = rtSortedVars(run.vars[0])
		}
		em.Emit(verifEv{"e": "serve", "m": q.M, "p": rtEncPath(q.P), "n": len(run.calls), "h": h, "vars": vars,
			"st": w.Code, "allow": rtSplitAllow(w.Header().Values("Allow")), "nf": 0, "na": 0})
	}
}

// TestVerifRouterServer: random tables split into AddRoutes groups (some WithPrefix),
// served through the server's router after engine.bindRoutes.
func TestVerifRouterServer(t *testing.T) {
	logx.Disable()
	em := verifOpen(t)
	defer em.Close()
	rng := verifRand(14)
	tables := verifEnvInt("VERIF_RT_TABLES", 40)
	for i := 0; i < tables; i++ {
		n := 4 + rng.Intn(30)
		// the engine stops binding at the first rejected route: keep most tables free of
		// rejects so that large tables get bound completely
		routes := rtRandomTable(rng, n, i%4 != 3)
		ng := 1 + rng.Intn(3)
		groups := make([]rtGroup, ng)
		for gi := range groups {
			if rng.Intn(3) == 0 {
				groups[gi].prefix = "/" + []string{"a", "b", "api"}[rng.Intn(3)]
			}
		}
		var bound []rtRoute // what reaches the router, for aiming the probes
		for _, r := range routes {
			if r.M == "" {
				r.M = "FOO"
			}
			gi := rng.Intn(ng)
			groups[gi].routes = append(groups[gi].routes, r)
		}
		for _, g := range groups {
			for _, r := range g.routes {
				if g.prefix != "" {
					r = rtRoute{M: r.M, Abs: true, P: append([]rtSeg{rtL(g.prefix[1:])}, r.P...)}
				}
				bound = append(bound, r)
			}
		}
		var reqs []rtReq
		for _, q := range rtProbes(bound, rng, 3) {
			if q.M != "" {
				reqs = append(reqs, q)
			}
		}
		rtRunServer(t, em, groups, reqs)
	}
}
