//go:build verif

package rest

// C18 driver, server wiring (Gates.tla Part 4).  Input: the cases TLC enumerated from
// GatesMC Mode "wire": every wiring x gate declaration x a core set of credentials; for a
// route that declares both gates each request carries a token and a signed request.  One
// server is built per (wiring, declaration, previous-secret) group through the real
// AddRoutes / bindRoutes; what happened to every request is recorded.  No expectations here:
// TLC validates the trace against Gates.tla.

import (
	"encoding/json"
	"math/rand"
	"net/http"
	"net/http/httptest"
	"sort"
	"testing"

	"github.com/zeromicro/go-zero/core/logx"
)

type c18WireCase struct {
	Wire c18Wire         `json:"wire"`
	Prev bool            `json:"prev"`
	Tok  c18Tok          `json:"tok"`
	Req  json.RawMessage `json:"req"`
}

func TestVerifGatesWire(t *testing.T) {
	em := verifOpen(t)
	defer em.Close()
	logx.Disable()
	in := verifInput(t)
	if len(in) == 0 {
		t.Fatal("no input cases")
	}
	r := verifRand(1804)
	jenv := c18NewJwtEnv(t, r)
	defer c18FreezeJwtClock(jenv)()
	clk := &c18Clock{}
	defer clk.install()()
	cenv := c18NewCsEnv(t, r)

	groups := map[string][]c18WireCase{}
	var keys []string
	for _, raw := range in {
		var c c18WireCase
		if err := json.Unmarshal(raw, &c); err != nil {
			t.Fatal(err)
		}
		k := c.Wire.key()
		if c.Prev {
			k += "+prev"
		}
		if _, ok := groups[k]; !ok {
			keys = append(keys, k)
		}
		groups[k] = append(groups[k], c)
	}
	sort.Strings(keys)
	r.Shuffle(len(keys), func(i, j int) { keys[i], keys[j] = keys[j], keys[i] })

	for _, k := range keys {
		cases := groups[k]
		r.Shuffle(len(cases), func(i, j int) { cases[i], cases[j] = cases[j], cases[i] })
		w, prev := cases[0].Wire, cases[0].Prev
		switch w.Decl {
		case "jwt":
			g := &c18JwtGate{env: jenv, wire: w}
			g.h = c18MakeGate(t, w, jenv.gateSpec(prev, r.Intn(2) == 0), http.HandlerFunc(func(rw http.ResponseWriter, req *http.Request) {
				g.calls++
				g.seen = c18SeenClaims(req, g.probe)
				rw.WriteHeader(g.hstatus)
				rw.Write([]byte("protected content"))
			}))
			em.Emit(verifEv{"e": "reset", "gate": "jwt", "prev": prev, "wire": w})
			for _, c := range cases {
				g.request(t, em, c.Tok, r)
			}
		case "cs":
			cenv.useWire(t, w, c18GateSpec{})
			for _, c := range cases {
				// one trace per request, as in TestVerifGatesCs
				em.Emit(verifEv{"e": "reset", "gate": "cs", "prev": false, "wire": w})
				cenv.run(t, em, c18ParseCs(t, c.Req))
			}
		case "both":
			cenv.useWire(t, w, jenv.gateSpec(prev, false))
			em.Emit(verifEv{"e": "reset", "gate": "both", "prev": prev, "wire": w})
			for _, c := range cases {
				c18Both(t, em, jenv, cenv, c.Tok, c18ParseCs(t, c.Req), r)
			}
		default:
			t.Fatalf("unknown declaration %q", w.Decl)
		}
	}
}

// c18Both: one request with a token and a content-security header to a route behind both gates.
func c18Both(t *testing.T, em *verifEmitter, jenv *c18JwtEnv, cenv *c18CsEnv, tok c18Tok, c c18Cs, pick *rand.Rand) {
	hdr, set, sent := jenv.build(t, tok, pick)
	probe := jenv.probeFor(sent)
	seen := [][]string{}
	cenv.onCall = func(req *http.Request) { seen = c18SeenClaims(req, probe) }
	defer func() { cenv.onCall = nil }()
	s := cenv.prepare(c)
	if set {
		s.req.Header["Authorization"] = []string{hdr}
	}
	rec := httptest.NewRecorder()
	status := c18Serve(cenv.h, rec, s.req)
	em.Emit(verifEv{"e": "both", "tok": tok, "req": c, "calls": cenv.calls, "status": status, "hstatus": cenv.hstatus,
		"sent": sent, "seen": seen, "o": cenv.observe(s, rec)})
}
