//go:build verif

package rest

// C18: the gates as rest/engine.go wires them for routes declared with WithJwt /
// WithJwtTransition / WithSignature (strict), under every server wiring of Gates.tla Part 4:
// the native chain (all / some / none of RestConf.Middlewares), a user supplied chain
// (WithChain), middlewares added with Use, further route options.  The handler returned is
// the server's router after bindRoutes, i.e. what http.Server would call.

import (
	"encoding/json"
	"net/http"
	"os"
	"strconv"
	"testing"
	"time"

	"github.com/zeromicro/go-zero/rest/chain"
	"github.com/zeromicro/go-zero/rest/router"
)

// the wirings the case sets are driven under in turn (VERIF_C18_WIRES: the JSON list TLC
// enumerated from Gates!WireCfgs; unset: the one native chain the check started with)
var (
	c18Wires    []c18Wire
	c18WireNext int
)

func c18NextWire(decl string) c18Wire {
	if c18Wires == nil {
		if s := os.Getenv("VERIF_C18_WIRES"); s != "" {
			if err := json.Unmarshal([]byte(s), &c18Wires); err != nil {
				panic("VERIF_C18_WIRES: " + err.Error())
			}
		}
		if len(c18Wires) == 0 {
			c18Wires = []c18Wire{{Level: "engine", Chain: "nativeBase"}}
		}
		seed, _ := strconv.Atoi(os.Getenv("VERIF_SEED"))
		c18WireNext = seed * 7
	}
	w := c18Wires[c18WireNext%len(c18Wires)]
	c18WireNext++
	w.Decl = decl
	return w
}

// a user middleware that lets everything through
func c18PassChain(next http.Handler) http.Handler {
	return http.HandlerFunc(func(w http.ResponseWriter, r *http.Request) { next.ServeHTTP(w, r) })
}

func c18PassUse(next http.HandlerFunc) http.HandlerFunc {
	return func(w http.ResponseWriter, r *http.Request) { next(w, r) }
}

func c18Server(w c18Wire, opts ...RunOption) *Server {
	conf := RestConf{MaxBytes: 1 << 20, MaxConns: 10000}
	conf.Name = "c18"
	m := &conf.Middlewares
	switch w.Chain {
	case "nativeFull":
		m.Trace, m.Log, m.Prometheus, m.MaxConns, m.Breaker, m.Shedding = true, true, true, true, true, true
		m.Timeout, m.Recover, m.Metrics, m.MaxBytes, m.Gunzip = true, true, true, true, true
	case "nativeBase":
		m.Recover, m.MaxBytes, m.Gunzip = true, true, true
	case "custom":
		opts = append(opts, WithChain(chain.New(c18PassChain, c18PassChain)))
	case "customEmpty":
		opts = append(opts, WithChain(chain.New()))
	}
	srv := &Server{ngin: newEngine(conf), router: router.NewRouter()}
	for _, opt := range opts {
		opt(srv)
	}
	for i := 0; i < w.Use; i++ {
		srv.Use(c18PassUse)
	}
	return srv
}

func c18Routes(methods, paths []string, next http.Handler) []Route {
	var rs []Route
	for _, m := range methods {
		for _, p := range paths {
			rs = append(rs, Route{Method: m, Path: p, Handler: next.ServeHTTP})
		}
	}
	return rs
}

func c18MakeGate(t *testing.T, w c18Wire, g c18GateSpec, next http.Handler) http.Handler {
	var opts []RunOption
	if g.Callback {
		opts = append(opts, WithUnauthorizedCallback(func(w http.ResponseWriter, r *http.Request, err error) {
			_ = err
		}))
	}
	srv := c18Server(w, opts...)
	var ropts []RouteOption
	methods := []string{http.MethodGet, http.MethodPost, http.MethodDelete}
	paths := []string{"/protected"}
	if w.Decl == "jwt" || w.Decl == "both" {
		if g.Prev != "" {
			ropts = append(ropts, WithJwtTransition(g.Cur, g.Prev))
		} else {
			ropts = append(ropts, WithJwt(g.Cur))
		}
	}
	if w.Decl == "cs" || w.Decl == "both" {
		sig := SignatureConf{Strict: true, Expiry: g.Tolerance}
		for _, k := range g.Keys {
			sig.PrivateKeys = append(sig.PrivateKeys, PrivateKeyConf{Fingerprint: k.Fp, KeyFile: k.File})
		}
		ropts = append(ropts, WithSignature(sig))
		methods = []string{http.MethodGet, http.MethodPost, http.MethodPut, http.MethodDelete, http.MethodPatch,
			http.MethodHead, http.MethodOptions}
		paths = []string{"/a/b", "/a/c"}
	}
	if w.Ropts {
		ropts = append(ropts, WithPriority(), WithTimeout(time.Hour), WithMaxBytes(1<<20))
	}
	srv.AddRoutes(c18Routes(methods, paths, next), ropts...)
	if err := srv.ngin.bindRoutes(srv.router); err != nil {
		t.Fatal(err)
	}
	return srv.router
}
