//go:build verif

package rest

// C18: the gates as rest/engine.go wires them for routes declared with WithJwt /
// WithJwtTransition / WithSignature (strict).  The handler returned is the server's router
// after bindRoutes, i.e. what http.Server would call.

import (
	"net/http"
	"testing"
	"time"

	"github.com/zeromicro/go-zero/rest/router"
)

func c18Server(opts ...RunOption) *Server {
	conf := RestConf{MaxBytes: 1 << 20}
	conf.Middlewares.Recover = true
	conf.Middlewares.MaxBytes = true
	conf.Middlewares.Gunzip = true
	srv := &Server{ngin: newEngine(conf), router: router.NewRouter()}
	for _, opt := range opts {
		opt(srv)
	}
	return srv
}

func c18Routes(methods, paths []string, next http.Handler) []Route {
	var rs []Route
	for _, m := range methods {
		for _, p := range paths {
			rs = append(rs, Route{Method: m, Path: p, Handler: next.ServeHTTP})
		}
	}
	return rs
}

func c18MakeJwtGate(t *testing.T, cur, prev string, passiveCallback bool, next http.Handler) http.Handler {
	var opts []RunOption
	if passiveCallback {
		opts = append(opts, WithUnauthorizedCallback(func(w http.ResponseWriter, r *http.Request, err error) {
			_ = err
		}))
	}
	srv := c18Server(opts...)
	ropt := WithJwt(cur)
	if prev != "" {
		ropt = WithJwtTransition(cur, prev)
	}
	srv.AddRoutes(c18Routes([]string{http.MethodGet, http.MethodPost, http.MethodDelete}, []string{"/protected"}, next), ropt)
	if err := srv.ngin.bindRoutes(srv.router); err != nil {
		t.Fatal(err)
	}
	return srv.router
}

func c18MakeCsGate(t *testing.T, keys []c18KeyFile, tolerance time.Duration, next http.Handler) http.Handler {
	sig := SignatureConf{Strict: true, Expiry: tolerance}
	for _, k := range keys {
		sig.PrivateKeys = append(sig.PrivateKeys, PrivateKeyConf{Fingerprint: k.Fp, KeyFile: k.File})
	}
	srv := c18Server()
	methods := []string{http.MethodGet, http.MethodPost, http.MethodPut, http.MethodDelete, http.MethodPatch,
		http.MethodHead, http.MethodOptions}
	srv.AddRoutes(c18Routes(methods, []string{"/a/b", "/a/c"}, next), WithSignature(sig))
	if err := srv.ngin.bindRoutes(srv.router); err != nil {
		t.Fatal(err)
	}
	return srv.router
}
