//go:build verif

package rest

// Extension "resthandlers" (host C04; advisory): drivers for the request/response laws of the REST
// middlewares beyond the listed properties -- rest/handler MaxBytesHandler, GunzipHandler,
// RecoverHandler, rest/internal/cors (through WithCors / WithCorsHeaders / WithCustomCors) and the
// rest/httpx response helpers (Ok, OkJson[Ctx], WriteJson[Ctx], Error[Ctx], SetErrorHandler[Ctx],
// SetOkHandler).
//
// Everything goes through the PUBLIC API of a real rest.Server that listens on a loopback port
// (NewServer + RunOptions, AddRoutes, StartWithOpts) and a real net/http client: no unexported
// go-zero name is used, so there is no white-box part that could stop compiling.
//
// The drivers only drive and record.  A harness handler executes the script a request names (read
// the body, set a header, write, call an httpx helper, panic) and records what it saw; the client
// records the response.  The verdict comes from TLC validating the recorded trace against
// specs/resthandlers/RestHTrace.tla.
//
//   reset   cfg                         a server with this configuration was started, httpx handlers reset
//   seteh.s / seteh.e   h               httpx.SetErrorHandler[Ctx] call starts / has returned (h: harness handler id)
//   setok.s / setok.e   h               httpx.SetOkHandler
//   req     id m p o cl sz psz bk enc script     request id is about to be sent
//   h       id op=enter                 the harness handler was entered
//   h       id op=read n eqp eqw err    io.ReadAll(r.Body): n bytes, prefix of the plaintext / of the wire bytes, error?
//   h       id op=hs k                  an httpx helper that consults a registered handler is about to be called
//   h       id op=he used n ctxok       it returned; which harness handler was invoked (none), how often, ctx seen
//   resp    id st body hdr...           what the client got (st 0: the exchange was aborted)

import (
	"bytes"
	"compress/gzip"
	"context"
	"encoding/json"
	"errors"
	"fmt"
	"io"
	"log"
	"net"
	"net/http"
	"net/http/httptest"
	"strings"
	"sync"
	"testing"
	"time"

	"github.com/zeromicro/go-zero/core/logx"
	"github.com/zeromicro/go-zero/rest/httpx"
	"google.golang.org/grpc/codes"
	"google.golang.org/grpc/status"
)

type verifExtresthandlersCfg struct {
	Cors    string     `json:"cors"`    // off | plain (WithCors) | hdrs (WithCorsHeaders) | custom (WithCustomCors)
	Origins [][]string `json:"origins"` // allowed origins, each a list of characters
	Xh      []string   `json:"xh"`      // hdrs: the extra allowed headers
	Mfn     bool       `json:"mfn"`     // custom: a middlewareFn is given (sets X-Verif-M)
	Nfn     string     `json:"nfn"`     // custom: notAllowedFn  none | hdr | code | write
	Rec     bool       `json:"rec"`     // Middlewares.Recover
	Mb      bool       `json:"mb"`      // Middlewares.MaxBytes
	N       int        `json:"n"`       // RestConf.MaxBytes
	Rmb     int        `json:"rmb"`     // WithMaxBytes of the routes on /a
	Gz      bool       `json:"gz"`      // Middlewares.Gunzip
}

type verifExtresthandlersStep struct {
	Op  string `json:"op"` // read hdr code write ok wjson okjson error panic
	C   int    `json:"c"`
	S   string `json:"s"`
	V   string `json:"v"`   // obj str arr bad
	Ctx bool   `json:"ctx"` // the Ctx variant of the helper
	Err string `json:"err"` // plain | g<code number>
	Fns int    `json:"fns"` // number of per-call error functions
	W   string `json:"w"`   // panic: str err abort
}

type verifExtresthandlersReq struct {
	M      string                     `json:"m"`
	P      string                     `json:"p"`  // a b zz
	O      []string                   `json:"o"`  // Origin header, characters; empty: no header
	Ch     bool                       `json:"ch"` // send without a declared length (chunked)
	Psz    int                        `json:"psz"`
	Bk     string                     `json:"bk"`  // plain empty gz gztrunc gzcrc
	Enc    string                     `json:"enc"` // none gzip other fuzzy
	Encv   int                        `json:"encv"`
	Cut    int                        `json:"cut"`
	Fit    int                        `json:"fit"` // > 0: choose the plaintext size so that the wire size is as close to Fit as possible
	Script []verifExtresthandlersStep `json:"script"`
}

type verifExtresthandlersOp struct {
	Op  string                   `json:"op"` // req seteh setok
	H   string                   `json:"h"`
	Req *verifExtresthandlersReq `json:"req"`
}

type verifExtresthandlersPlan struct {
	Cfg verifExtresthandlersCfg  `json:"cfg"`
	Ops []verifExtresthandlersOp `json:"ops"`
}

type verifExtresthandlersExch struct {
	id     string
	req    *verifExtresthandlersReq
	plain  []byte
	wire   []byte
	mu     sync.Mutex
	used   []string
	ctxok  bool
	nreads int
}

type verifExtresthandlersCtxKey struct{}

type verifExtresthandlersWorld struct {
	t      *testing.T
	em     *verifEmitter
	cfg    verifExtresthandlersCfg
	base   string
	hs     *http.Server
	client *http.Client
	exch   sync.Map // id -> *verifExtresthandlersExch
}

var verifExtresthandlersSeq int64
var verifExtresthandlersSeqMu sync.Mutex

func verifExtresthandlersStr(chars []string) string { return strings.Join(chars, "") }

func verifExtresthandlersChars(s string) []string {
	out := make([]string, 0, len(s))
	for _, c := range s {
		out = append(out, string(c))
	}
	return out
}

func verifExtresthandlersStrs(s []string) []string {
	if s == nil {
		return []string{}
	}
	return s
}

// --- harness values, errors and registered handlers --------------------------------------------------

type verifExtresthandlersObj struct {
	Name string `json:"name"`
}
type verifExtresthandlersBad struct {
	Name string   `json:"name"`
	C    chan int `json:"c"`
}

func verifExtresthandlersVal(kind, id string) any {
	switch kind {
	case "obj":
		return verifExtresthandlersObj{Name: id}
	case "str":
		return id
	case "arr":
		return []string{id}
	case "bad":
		return verifExtresthandlersBad{Name: id, C: make(chan int)}
	}
	return nil
}

// the id an httpx callback is working for: values and error messages end in the exchange id
func verifExtresthandlersIdOfVal(v any) string {
	switch x := v.(type) {
	case verifExtresthandlersObj:
		return x.Name
	case string:
		return x
	case []string:
		if len(x) > 0 {
			return x[0]
		}
	case verifExtresthandlersBad:
		return x.Name
	}
	return ""
}

func verifExtresthandlersIdOfErr(err error) string {
	s := err.Error()
	if i := strings.LastIndex(s, "-"); i >= 0 {
		return s[i+1:]
	}
	return ""
}

func verifExtresthandlersErr(kind, id string) error {
	if kind == "plain" {
		return errors.New("e-" + id)
	}
	var c int
	fmt.Sscanf(kind, "g%d", &c)
	return status.Error(codes.Code(c), "g-"+id)
}

func (w *verifExtresthandlersWorld) note(id, h string, ctx context.Context) {
	v, ok := w.exch.Load(id)
	if !ok {
		return
	}
	x := v.(*verifExtresthandlersExch)
	x.mu.Lock()
	x.used = append(x.used, h)
	if ctx != nil {
		if got, _ := ctx.Value(verifExtresthandlersCtxKey{}).(string); got == id {
			x.ctxok = true
		}
	}
	x.mu.Unlock()
}

func (w *verifExtresthandlersWorld) errBody(h string, err error) (int, any) {
	switch h {
	case "p1":
		return http.StatusForbidden, err.Error()
	case "p2":
		return http.StatusConflict, err
	case "p3":
		return http.StatusBadGateway, nil
	case "c1":
		return http.StatusUnprocessableEntity, map[string]string{"msg": err.Error()}
	case "c2":
		return http.StatusInternalServerError, make(chan int)
	case "c3":
		return http.StatusOK, []string{err.Error()}
	}
	return 599, nil
}

func (w *verifExtresthandlersWorld) setEh(h string) {
	w.em.Emit(verifEv{"e": "seteh.s", "h": h})
	switch {
	case h == "none":
		httpx.SetErrorHandlerCtx(nil)
	case strings.HasPrefix(h, "p"):
		httpx.SetErrorHandler(func(err error) (int, any) {
			w.note(verifExtresthandlersIdOfErr(err), h, nil)
			return w.errBody(h, err)
		})
	default:
		httpx.SetErrorHandlerCtx(func(ctx context.Context, err error) (int, any) {
			w.note(verifExtresthandlersIdOfErr(err), h, ctx)
			return w.errBody(h, err)
		})
	}
	w.em.Emit(verifEv{"e": "seteh.e", "h": h})
}

func (w *verifExtresthandlersWorld) setOk(h string) {
	w.em.Emit(verifEv{"e": "setok.s", "h": h})
	if h == "none" {
		httpx.SetOkHandler(nil)
	} else {
		httpx.SetOkHandler(func(ctx context.Context, v any) any {
			w.note(verifExtresthandlersIdOfVal(v), h, ctx)
			switch h {
			case "o1":
				return map[string]any{"data": v}
			case "o2":
				return "ok2"
			}
			return nil
		})
	}
	w.em.Emit(verifEv{"e": "setok.e", "h": h})
}

// --- the harness handler ------------------------------------------------------------------------------

func verifExtresthandlersIsPrefix(got, of []byte) bool {
	return len(got) <= len(of) && bytes.Equal(got, of[:len(got)])
}

func (w *verifExtresthandlersWorld) handle(rw http.ResponseWriter, r *http.Request) {
	id := r.Header.Get("X-Verif-Id")
	v, ok := w.exch.Load(id)
	if !ok {
		rw.WriteHeader(598)
		return
	}
	x := v.(*verifExtresthandlersExch)
	w.em.Emit(verifEv{"e": "h", "id": id, "op": "enter"})
	ctx := context.WithValue(r.Context(), verifExtresthandlersCtxKey{}, id)
	helper := func(kind string, call func()) {
		x.mu.Lock()
		x.used, x.ctxok = nil, false
		x.mu.Unlock()
		w.em.Emit(verifEv{"e": "h", "id": id, "op": "hs", "k": kind})
		call()
		x.mu.Lock()
		used, n, ctxok := "none", len(x.used), x.ctxok
		if n > 0 {
			used = x.used[0]
			for _, u := range x.used {
				if u != used {
					used = "mixed"
				}
			}
		}
		x.mu.Unlock()
		w.em.Emit(verifEv{"e": "h", "id": id, "op": "he", "used": used, "n": n, "ctxok": ctxok})
	}
	for _, st := range x.req.Script {
		switch st.Op {
		case "read":
			b, err := io.ReadAll(r.Body)
			w.em.Emit(verifEv{"e": "h", "id": id, "op": "read", "n": len(b),
				"eqp": verifExtresthandlersIsPrefix(b, x.plain), "eqw": verifExtresthandlersIsPrefix(b, x.wire),
				"err": err != nil})
		case "hdr":
			rw.Header().Set("X-Verif-H", "1")
		case "code":
			rw.WriteHeader(st.C)
		case "write":
			rw.Write([]byte(st.S))
		case "ok":
			httpx.Ok(rw)
		case "wjson":
			if st.Ctx {
				httpx.WriteJsonCtx(ctx, rw, st.C, verifExtresthandlersVal(st.V, id))
			} else {
				httpx.WriteJson(rw, st.C, verifExtresthandlersVal(st.V, id))
			}
		case "okjson":
			helper("okjson", func() {
				if st.Ctx {
					httpx.OkJsonCtx(ctx, rw, verifExtresthandlersVal(st.V, id))
				} else {
					httpx.OkJson(rw, verifExtresthandlersVal(st.V, id))
				}
			})
		case "error":
			helper("error", func() {
				err := verifExtresthandlersErr(st.Err, id)
				var fns []func(http.ResponseWriter, error)
				if st.Fns >= 1 {
					fns = append(fns, func(w2 http.ResponseWriter, e error) {
						w2.Header().Set("X-Verif-H", "f")
						http.Error(w2, e.Error(), 499)
					})
				}
				if st.Fns >= 2 {
					fns = append(fns, func(w2 http.ResponseWriter, e error) { w2.Write([]byte("f2")) })
				}
				if st.Ctx {
					httpx.ErrorCtx(ctx, rw, err, fns...)
				} else {
					httpx.Error(rw, err, fns...)
				}
			})
		case "panic":
			switch st.W {
			case "abort":
				panic(http.ErrAbortHandler)
			case "err":
				panic(errors.New("boom"))
			default:
				panic("boom")
			}
		}
	}
}

// --- a real server ----------------------------------------------------------------------------------

type verifExtresthandlersUp struct {
	hs   *http.Server
	addr net.Addr
}

func verifExtresthandlersNew(t *testing.T, em *verifEmitter, src string, cfg verifExtresthandlersCfg) *verifExtresthandlersWorld {
	w := &verifExtresthandlersWorld{t: t, em: em, cfg: cfg}
	conf := RestConf{Host: "127.0.0.1", Port: 0, MaxBytes: int64(cfg.N), MaxConns: 100000}
	conf.Middlewares = MiddlewaresConf{Recover: cfg.Rec, MaxBytes: cfg.Mb, Gunzip: cfg.Gz}
	origins := make([]string, len(cfg.Origins))
	for i, o := range cfg.Origins {
		origins[i] = verifExtresthandlersStr(o)
	}
	var opts []RunOption
	switch cfg.Cors {
	case "plain":
		opts = append(opts, WithCors(origins...))
	case "hdrs":
		opts = append(opts, WithCorsHeaders(cfg.Xh...))
	case "custom":
		var mfn func(http.Header)
		if cfg.Mfn {
			mfn = func(h http.Header) { h.Set("X-Verif-M", "m") }
		}
		var nfn func(http.ResponseWriter)
		switch cfg.Nfn {
		case "hdr":
			nfn = func(rw http.ResponseWriter) { rw.Header().Set("X-Verif-N", "n") }
		case "code":
			nfn = func(rw http.ResponseWriter) { rw.WriteHeader(http.StatusTeapot) }
		case "write":
			nfn = func(rw http.ResponseWriter) { rw.Write([]byte("n")) }
		}
		opts = append(opts, WithCustomCors(mfn, nfn, origins...))
	}
	srv, err := NewServer(conf, opts...)
	if err != nil {
		t.Fatal(err)
	}
	srv.AddRoutes([]Route{
		{Method: http.MethodGet, Path: "/a", Handler: w.handle},
		{Method: http.MethodPost, Path: "/a", Handler: w.handle},
	}, WithMaxBytes(int64(cfg.Rmb)))
	srv.AddRoutes([]Route{{Method: http.MethodPost, Path: "/b", Handler: w.handle}})
	up := make(chan verifExtresthandlersUp, 1)
	go func() {
		defer func() {
			if p := recover(); p != nil {
				close(up)
			}
		}()
		srv.StartWithOpts(func(hs *http.Server) {
			hs.ErrorLog = log.New(io.Discard, "", 0)
			hs.BaseContext = func(l net.Listener) context.Context {
				up <- verifExtresthandlersUp{hs: hs, addr: l.Addr()}
				return context.Background()
			}
		})
	}()
	select {
	case u, ok := <-up:
		if !ok {
			t.Fatal("resthandlers: the server did not start")
		}
		w.hs = u.hs
		w.base = "http://" + u.addr.String()
	case <-time.After(60 * time.Second):
		t.Fatal("resthandlers: the server did not start in time (infrastructure)")
	}
	w.client = &http.Client{
		Timeout: 120 * time.Second,
		Transport: &http.Transport{DisableCompression: true, MaxIdleConnsPerHost: 64,
			IdleConnTimeout: 30 * time.Second},
		CheckRedirect: func(*http.Request, []*http.Request) error { return http.ErrUseLastResponse },
	}
	httpx.SetErrorHandlerCtx(nil)
	httpx.SetOkHandler(nil)
	origs := make([][]string, len(cfg.Origins))
	for i, o := range cfg.Origins {
		origs[i] = verifExtresthandlersStrs(o)
	}
	em.Emit(verifEv{"e": "reset", "src": src, "cors": cfg.Cors, "origins": origs, "xh": verifExtresthandlersStrs(cfg.Xh),
		"mfn": cfg.Mfn, "nfn": cfg.Nfn, "rec": cfg.Rec, "mb": cfg.Mb, "n": cfg.N, "rmb": cfg.Rmb, "gz": cfg.Gz})
	return w
}

func (w *verifExtresthandlersWorld) stop() {
	httpx.SetErrorHandlerCtx(nil)
	httpx.SetOkHandler(nil)
	w.client.CloseIdleConnections()
	w.hs.Close()
}

// --- requests -----------------------------------------------------------------------------------------

type verifExtresthandlersOpaque struct{ r io.Reader } // hides the reader's type: no declared length

func (o verifExtresthandlersOpaque) Read(p []byte) (int, error) { return o.r.Read(p) }

func verifExtresthandlersPlain(n int) []byte {
	b := make([]byte, n)
	for i := range b {
		b[i] = "abcdefghijklmnopqrstuvwxyz012345"[(i*7+i/32)%32]
	}
	return b
}

var verifExtresthandlersGzCache sync.Map // plaintext -> gzip stream (the compressor is costly to set up)

func verifExtresthandlersGzip(p []byte) []byte {
	if z, ok := verifExtresthandlersGzCache.Load(string(p)); ok {
		return append([]byte(nil), z.([]byte)...)
	}
	var buf bytes.Buffer
	zw := gzip.NewWriter(&buf)
	zw.Write(p)
	zw.Close()
	verifExtresthandlersGzCache.Store(string(p), append([]byte(nil), buf.Bytes()...))
	return buf.Bytes()
}

var verifExtresthandlersFuzzy = []string{"GZIP", "x-gzip", "deflate, gzip", "Gzip"}

func (w *verifExtresthandlersWorld) bodies(q *verifExtresthandlersReq) (plain, wire []byte) {
	if q.Fit > 0 && q.Bk != "empty" {
		fit := *q
		fit.Fit = 0
		best := -1
		lo, hi := 1, q.Fit+8
		if q.Bk == "plain" {
			lo, hi = q.Fit, q.Fit
		} else if hi > 160 {
			lo, hi = 1, 160
		}
		for psz := lo; psz <= hi; psz++ {
			fit.Psz = psz
			_, wr := w.bodies(&fit)
			d := len(wr) - q.Fit
			if d < 0 {
				d = -d
			}
			if best < 0 || d < best {
				best, plain, wire = d, nil, nil
				plain, wire = w.bodies(&fit)
			}
		}
		return plain, wire
	}
	plain = verifExtresthandlersPlain(q.Psz)
	switch q.Bk {
	case "empty":
		return []byte{}, []byte{}
	case "plain":
		return plain, plain
	case "gz":
		return plain, verifExtresthandlersGzip(plain)
	case "gztrunc":
		z := verifExtresthandlersGzip(plain)
		cut := q.Cut
		if cut < 1 {
			cut = 1
		}
		if cut > len(z)-11 {
			cut = len(z) - 11
		}
		return plain, z[:len(z)-cut]
	case "gzcrc":
		z := verifExtresthandlersGzip(plain)
		z[len(z)-8] ^= 0x5a
		return plain, z
	}
	return plain, plain
}

func verifExtresthandlersTokens(vals []string) []string {
	out := []string{}
	for _, v := range vals {
		for _, tok := range strings.Split(v, ",") {
			if tok = strings.TrimSpace(tok); tok != "" {
				out = append(out, tok)
			}
		}
	}
	return out
}

func verifExtresthandlersSteps(s []verifExtresthandlersStep) []any {
	out := make([]any, len(s))
	for i, st := range s {
		out[i] = verifEv{"op": st.Op, "c": st.C, "s": st.S, "v": st.V, "ctx": st.Ctx, "err": st.Err, "fns": st.Fns, "w": st.W}
	}
	return out
}

func (w *verifExtresthandlersWorld) request(q *verifExtresthandlersReq) {
	verifExtresthandlersSeqMu.Lock()
	verifExtresthandlersSeq++
	id := fmt.Sprintf("q%d", verifExtresthandlersSeq)
	verifExtresthandlersSeqMu.Unlock()
	plain, wire := w.bodies(q)
	x := &verifExtresthandlersExch{id: id, req: q, plain: plain, wire: wire}
	w.exch.Store(id, x)
	defer w.exch.Delete(id)
	// an empty body of a type net/http does not know: the request is sent without a body, but the transport does
	// not consider it replayable, so an exchange the server aborts is never silently sent a second time
	var body io.Reader = verifExtresthandlersOpaque{bytes.NewReader(nil)}
	cl := len(wire)
	if len(wire) > 0 {
		if q.Ch {
			body = verifExtresthandlersOpaque{bytes.NewReader(wire)}
			cl = -1
		} else {
			body = bytes.NewReader(wire)
		}
	}
	req, err := http.NewRequest(q.M, w.base+"/"+q.P, body)
	if err != nil {
		w.t.Fatal(err)
	}
	req.Header.Set("X-Verif-Id", id)
	if len(q.O) > 0 {
		req.Header.Set("Origin", verifExtresthandlersStr(q.O))
	}
	switch q.Enc {
	case "gzip":
		req.Header.Set("Content-Encoding", "gzip")
	case "other":
		req.Header.Set("Content-Encoding", "deflate")
	case "fuzzy":
		req.Header.Set("Content-Encoding", verifExtresthandlersFuzzy[q.Encv%len(verifExtresthandlersFuzzy)])
	}
	w.em.Emit(verifEv{"e": "req", "id": id, "m": q.M, "p": q.P, "o": verifExtresthandlersStrs(q.O), "cl": cl,
		"sz": len(wire), "psz": len(plain), "bk": q.Bk, "enc": q.Enc, "script": verifExtresthandlersSteps(q.Script)})
	ev := verifEv{"e": "resp", "id": id, "st": 0, "body": "", "ct": []string{}, "acao": [][]string{}, "acam": []string{},
		"acah": []string{}, "acac": []string{}, "aceh": []string{}, "acma": []string{}, "vary": []string{},
		"allow": []string{}, "xh": []string{}, "xm": []string{}, "xn": []string{}}
	resp, err := w.client.Do(req)
	if err == nil {
		b, rerr := io.ReadAll(resp.Body)
		resp.Body.Close()
		if rerr == nil {
			h := resp.Header
			acao := [][]string{}
			for _, v := range h.Values("Access-Control-Allow-Origin") {
				acao = append(acao, verifExtresthandlersChars(v))
			}
			ev["st"], ev["body"] = resp.StatusCode, string(b)
			ev["ct"] = verifExtresthandlersStrs(h.Values("Content-Type"))
			ev["acao"] = acao
			ev["acam"] = verifExtresthandlersStrs(h.Values("Access-Control-Allow-Methods"))
			ev["acah"] = verifExtresthandlersTokens(h.Values("Access-Control-Allow-Headers"))
			ev["acac"] = verifExtresthandlersStrs(h.Values("Access-Control-Allow-Credentials"))
			ev["aceh"] = verifExtresthandlersStrs(h.Values("Access-Control-Expose-Headers"))
			ev["acma"] = verifExtresthandlersStrs(h.Values("Access-Control-Max-Age"))
			ev["vary"] = verifExtresthandlersTokens(h.Values("Vary"))
			ev["allow"] = verifExtresthandlersTokens(h.Values("Allow"))
			ev["xh"] = verifExtresthandlersStrs(h.Values("X-Verif-H"))
			ev["xm"] = verifExtresthandlersStrs(h.Values("X-Verif-M"))
			ev["xn"] = verifExtresthandlersStrs(h.Values("X-Verif-N"))
		}
	} else if ne := net.Error(nil); errors.As(err, &ne) && ne.Timeout() {
		w.t.Fatalf("resthandlers: request %s timed out (infrastructure): %v", id, err)
	}
	w.em.Emit(ev)
}

func (w *verifExtresthandlersWorld) run(ops []verifExtresthandlersOp) {
	for i := range ops {
		switch ops[i].Op {
		case "seteh":
			w.setEh(ops[i].H)
		case "setok":
			w.setOk(ops[i].H)
		case "req":
			w.request(ops[i].Req)
		}
	}
}

// --- spec -> code: TLC-generated (configuration, handlers, request) cases --------------------------------

func TestVerifExtresthandlersReplay(t *testing.T) {
	logx.Disable()
	em := verifOpen(t)
	defer em.Close()
	for _, raw := range verifInput(t) {
		var p verifExtresthandlersPlan
		if err := json.Unmarshal(raw, &p); err != nil {
			t.Fatal(err)
		}
		w := verifExtresthandlersNew(t, em, "replay", p.Cfg)
		w.run(p.Ops)
		w.stop()
	}
}

// --- code -> spec: seeded random servers, origins, bodies and handler scripts ------------------------------

var verifExtresthandlersCodes = []int{200, 201, 202, 204, 400, 401, 404, 409, 418, 500, 503}
var verifExtresthandlersGrpcKinds = []string{"g1", "g2", "g3", "g4", "g5", "g6", "g7", "g8", "g9", "g10", "g11", "g12",
	"g13", "g14", "g15", "g16", "g77"}
var verifExtresthandlersValKinds = []string{"obj", "str", "arr", "bad"}
var verifExtresthandlersErrIds = []string{"none", "p1", "p2", "p3", "c1", "c2", "c3"}
var verifExtresthandlersOkIds = []string{"none", "o1", "o2", "o3"}

type verifExtresthandlersRng interface{ Intn(int) int }

func verifExtresthandlersHost(r verifExtresthandlersRng) string {
	labels := []string{"a", "b", "c", "ab", "x", "A", "Bc", "q9", "safe", "com", "local"}
	n := 1 + r.Intn(3)
	parts := make([]string, n)
	for i := range parts {
		parts[i] = labels[r.Intn(len(labels))]
	}
	h := strings.Join(parts, ".")
	switch r.Intn(6) {
	case 0:
		h = "http://" + h
	case 1:
		h = "https://" + h + ":8443"
	}
	return h
}

// an Origin header for a server that allows list: exact, other case, sub-domain, a look-alike, unrelated, none
func verifExtresthandlersOrigin(r verifExtresthandlersRng, list []string) string {
	if len(list) == 0 || r.Intn(5) == 0 {
		if r.Intn(3) == 0 {
			return ""
		}
		return verifExtresthandlersHost(r)
	}
	a := list[r.Intn(len(list))]
	if a == "*" {
		return verifExtresthandlersHost(r)
	}
	switch r.Intn(7) {
	case 0:
		return a
	case 1:
		return strings.ToUpper(a)
	case 2:
		return "sub." + a
	case 3:
		return "http://deep.sub." + a
	case 4:
		return "not-" + a // ends with the allowed entry, but is no sub-domain of it
	case 5:
		return a + ".evil"
	}
	return "x" + strings.ToLower(a)
}

func verifExtresthandlersRandCfg(r verifExtresthandlersRng) verifExtresthandlersCfg {
	c := verifExtresthandlersCfg{Cors: []string{"off", "plain", "plain", "custom", "custom", "hdrs"}[r.Intn(6)], Nfn: "none",
		Rec: r.Intn(4) != 0, Mb: r.Intn(5) != 0, Gz: r.Intn(4) != 0, Xh: []string{}, Origins: [][]string{}}
	c.N = []int{0, -1, 1, 8, 31, 40, 64, 1000}[r.Intn(8)]
	c.Rmb = []int{0, 0, 5, 33, 100}[r.Intn(5)]
	if c.Cors == "plain" || c.Cors == "custom" {
		for i, n := 0, r.Intn(4); i < n; i++ {
			o := verifExtresthandlersHost(r)
			if r.Intn(6) == 0 {
				o = "*"
			}
			c.Origins = append(c.Origins, verifExtresthandlersChars(o))
		}
	}
	if c.Cors == "custom" {
		c.Mfn = r.Intn(2) == 0
		c.Nfn = []string{"none", "hdr", "code", "write"}[r.Intn(4)]
	}
	if c.Cors == "hdrs" {
		c.Xh = []string{"X-Requested-With", "X-Verif", "UserHeader"}[:r.Intn(4)]
	}
	return c
}

func verifExtresthandlersRandScript(r verifExtresthandlersRng, helpersOnly bool) []verifExtresthandlersStep {
	n := r.Intn(5)
	if helpersOnly {
		n = 1 + r.Intn(3)
	}
	out := make([]verifExtresthandlersStep, 0, n)
	for i := 0; i < n; i++ {
		k := r.Intn(12)
		if helpersOnly {
			k = 5 + r.Intn(4)
		}
		switch k {
		case 0, 1:
			out = append(out, verifExtresthandlersStep{Op: "read"})
		case 2:
			out = append(out, verifExtresthandlersStep{Op: "hdr"})
		case 3:
			out = append(out, verifExtresthandlersStep{Op: "code", C: verifExtresthandlersCodes[r.Intn(len(verifExtresthandlersCodes))]})
		case 4:
			out = append(out, verifExtresthandlersStep{Op: "write", S: []string{"hi", "{\"a\":1}", "x y", "<b>"}[r.Intn(4)]})
		case 5, 6:
			e := "plain"
			if r.Intn(2) == 0 {
				e = verifExtresthandlersGrpcKinds[r.Intn(len(verifExtresthandlersGrpcKinds))]
			}
			out = append(out, verifExtresthandlersStep{Op: "error", Err: e, Ctx: r.Intn(2) == 0, Fns: []int{0, 0, 1, 2}[r.Intn(4)]})
		case 7, 8:
			out = append(out, verifExtresthandlersStep{Op: "okjson", V: verifExtresthandlersValKinds[r.Intn(4)], Ctx: r.Intn(2) == 0})
		case 9:
			out = append(out, verifExtresthandlersStep{Op: "wjson", V: verifExtresthandlersValKinds[r.Intn(4)], Ctx: r.Intn(2) == 0,
				C: verifExtresthandlersCodes[r.Intn(len(verifExtresthandlersCodes))]})
		case 10:
			out = append(out, verifExtresthandlersStep{Op: "ok"})
		case 11:
			out = append(out, verifExtresthandlersStep{Op: "panic", W: []string{"str", "err", "abort"}[r.Intn(3)]})
		}
	}
	return out
}

func verifExtresthandlersRandReq(r verifExtresthandlersRng, c verifExtresthandlersCfg) *verifExtresthandlersReq {
	q := &verifExtresthandlersReq{O: []string{}}
	q.M = []string{"POST", "POST", "POST", "GET", "OPTIONS", "PUT", "DELETE"}[r.Intn(7)]
	q.P = []string{"a", "b", "b", "zz"}[r.Intn(4)]
	list := make([]string, len(c.Origins))
	for i, o := range c.Origins {
		list[i] = verifExtresthandlersStr(o)
	}
	q.O = verifExtresthandlersChars(verifExtresthandlersOrigin(r, list))
	q.Bk = []string{"plain", "plain", "gz", "gz", "gztrunc", "gzcrc", "empty"}[r.Intn(7)]
	q.Enc = []string{"none", "gzip", "gzip", "other", "fuzzy"}[r.Intn(5)]
	if q.Bk == "gz" && r.Intn(3) != 0 {
		q.Enc = "gzip"
	}
	q.Encv = r.Intn(4)
	q.Cut = 1 + r.Intn(12)
	q.Ch = r.Intn(4) == 0
	q.Psz = r.Intn(120)
	if q.M == "GET" || q.M == "DELETE" {
		q.Bk, q.Psz = "empty", 0
	}
	// sizes at and next to the limit in force
	lim := c.N
	if q.P == "a" && c.Rmb > 0 {
		lim = c.Rmb
	}
	if lim > 0 && r.Intn(2) == 0 {
		q.Fit = lim + r.Intn(3) - 1
		if q.Fit < 1 {
			q.Fit = 1
		}
	}
	if q.Bk == "empty" {
		q.Psz = 0
	} else if q.Psz == 0 {
		q.Psz = 1
	}
	q.Script = verifExtresthandlersRandScript(r, false)
	return q
}

func TestVerifExtresthandlersRandom(t *testing.T) {
	logx.Disable()
	em := verifOpen(t)
	defer em.Close()
	r := verifRand(7411)
	worlds := verifEnvInt("VERIF_EXT_RESTHANDLERS_WORLDS", 60)
	per := verifEnvInt("VERIF_EXT_RESTHANDLERS_OPS", 40)
	for i := 0; i < worlds; i++ {
		c := verifExtresthandlersRandCfg(r)
		w := verifExtresthandlersNew(t, em, "random", c)
		for j := 0; j < per; j++ {
			switch r.Intn(8) {
			case 0:
				w.setEh(verifExtresthandlersErrIds[r.Intn(len(verifExtresthandlersErrIds))])
			case 1:
				w.setOk(verifExtresthandlersOkIds[r.Intn(len(verifExtresthandlersOkIds))])
			default:
				w.request(verifExtresthandlersRandReq(r, c))
			}
		}
		w.stop()
	}
}

// --- code -> spec, concurrent: clients call helper-heavy handlers while another goroutine re-registers ------

func TestVerifExtresthandlersRace(t *testing.T) {
	logx.Disable()
	em := verifOpen(t)
	defer em.Close()
	rounds := verifEnvInt("VERIF_EXT_RESTHANDLERS_ROUNDS", 6)
	clients := verifEnvInt("VERIF_EXT_RESTHANDLERS_CLIENTS", 6)
	per := verifEnvInt("VERIF_EXT_RESTHANDLERS_PER", 25)
	for round := 0; round < rounds; round++ {
		c := verifExtresthandlersCfg{Cors: "off", Nfn: "none", Rec: true, Xh: []string{}, Origins: [][]string{}}
		if round%2 == 1 {
			c.Cors, c.Origins = "plain", [][]string{verifExtresthandlersChars("a.b")}
		}
		w := verifExtresthandlersNew(t, em, "race", c)
		var wg sync.WaitGroup
		stop := make(chan struct{})
		setter := make(chan struct{})
		go func() {
			defer close(setter)
			r := verifRand(int64(9000 + round))
			for {
				select {
				case <-stop:
					return
				default:
				}
				if r.Intn(2) == 0 {
					w.setEh(verifExtresthandlersErrIds[r.Intn(len(verifExtresthandlersErrIds))])
				} else {
					w.setOk(verifExtresthandlersOkIds[r.Intn(len(verifExtresthandlersOkIds))])
				}
				for i, n := 0, r.Intn(4); i < n; i++ {
					time.Sleep(time.Duration(r.Intn(200)) * time.Microsecond) // perturbation only
				}
			}
		}()
		for k := 0; k < clients; k++ {
			wg.Add(1)
			go func(k int) {
				defer wg.Done()
				r := verifRand(int64(9100 + 100*round + k))
				for j := 0; j < per; j++ {
					q := &verifExtresthandlersReq{M: "POST", P: "b", O: verifExtresthandlersChars([]string{"", "a.b", "x.a.b", "q"}[r.Intn(4)]),
						Psz: 1 + r.Intn(9), Bk: "plain", Enc: "none", Script: verifExtresthandlersRandScript(r, true)}
					w.request(q)
				}
			}(k)
		}
		wg.Wait()
		close(stop)
		<-setter
		w.stop()
	}
}

// direct: the harness handler is called on a recorder, without a server (configuration: everything off), so that
// many helper calls per second meet the registrations of the other goroutine
func (w *verifExtresthandlersWorld) direct(q *verifExtresthandlersReq) {
	verifExtresthandlersSeqMu.Lock()
	verifExtresthandlersSeq++
	id := fmt.Sprintf("q%d", verifExtresthandlersSeq)
	verifExtresthandlersSeqMu.Unlock()
	x := &verifExtresthandlersExch{id: id, req: q, plain: []byte{}, wire: []byte{}}
	w.exch.Store(id, x)
	defer w.exch.Delete(id)
	req := httptest.NewRequest(q.M, "/"+q.P, http.NoBody)
	req.Header.Set("X-Verif-Id", id)
	w.em.Emit(verifEv{"e": "req", "id": id, "m": q.M, "p": q.P, "o": []string{}, "cl": 0, "sz": 0, "psz": 0, "bk": "empty",
		"enc": "none", "script": verifExtresthandlersSteps(q.Script)})
	rec := httptest.NewRecorder()
	ok := func() (ok bool) {
		defer func() {
			if p := recover(); p != nil {
				ok = false
			}
		}()
		w.handle(rec, req)
		return true
	}()
	ev := verifEv{"e": "resp", "id": id, "st": 0, "body": "", "ct": []string{}, "acao": [][]string{}, "acam": []string{},
		"acah": []string{}, "acac": []string{}, "aceh": []string{}, "acma": []string{}, "vary": []string{},
		"allow": []string{}, "xh": []string{}, "xm": []string{}, "xn": []string{}}
	if ok {
		res := rec.Result()
		b, _ := io.ReadAll(res.Body)
		ev["st"], ev["body"] = res.StatusCode, string(b)
		ev["ct"] = verifExtresthandlersStrs(res.Header.Values("Content-Type"))
		ev["xh"] = verifExtresthandlersStrs(res.Header.Values("X-Verif-H"))
	}
	w.em.Emit(ev)
}

func TestVerifExtresthandlersDirect(t *testing.T) {
	logx.Disable()
	em := verifOpen(t)
	defer em.Close()
	callers := verifEnvInt("VERIF_EXT_RESTHANDLERS_CALLERS", 4)
	per := verifEnvInt("VERIF_EXT_RESTHANDLERS_CALLS", 500)
	maxSets := verifEnvInt("VERIF_EXT_RESTHANDLERS_SETS", 1200)
	w := &verifExtresthandlersWorld{t: t, em: em}
	httpx.SetErrorHandlerCtx(nil)
	httpx.SetOkHandler(nil)
	em.Emit(verifEv{"e": "reset", "src": "direct", "cors": "off", "origins": [][]string{}, "xh": []string{}, "mfn": false,
		"nfn": "none", "rec": false, "mb": false, "n": 0, "rmb": 0, "gz": false})
	var wg sync.WaitGroup
	stop := make(chan struct{})
	setter := make(chan struct{})
	go func() {
		defer close(setter)
		r := verifRand(9500)
		for i := 0; i < maxSets; i++ {
			select {
			case <-stop:
				return
			default:
			}
			switch r.Intn(5) {
			case 0:
				w.setOk([]string{"none", "o1"}[r.Intn(2)])
			case 1, 2:
				w.setEh("none")
			default:
				w.setEh([]string{"p1", "c1"}[r.Intn(2)])
			}
		}
	}()
	for k := 0; k < callers; k++ {
		wg.Add(1)
		go func(k int) {
			defer wg.Done()
			r := verifRand(int64(9600 + k))
			for j := 0; j < per; j++ {
				st := verifExtresthandlersStep{Op: "error", Err: "plain", Ctx: r.Intn(2) == 0}
				if r.Intn(4) == 0 {
					st = verifExtresthandlersStep{Op: "okjson", V: "str", Ctx: r.Intn(2) == 0}
				}
				w.direct(&verifExtresthandlersReq{M: "POST", P: "b", Bk: "empty", Enc: "none", Script: []verifExtresthandlersStep{st}})
			}
		}(k)
	}
	wg.Wait()
	close(stop)
	<-setter
	httpx.SetErrorHandlerCtx(nil)
	httpx.SetOkHandler(nil)
}
