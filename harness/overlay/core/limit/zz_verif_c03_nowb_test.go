//go:build verif && verifnowb

package limit

// Black-box stand-ins for zz_verif_c03_wb_test.go (see there).

const tokWB = false

func tokAliveFlag(l *TokenLimiter) uint32 { return 1 }

func tokFlags(l *TokenLimiter) (alive bool, monitor bool) { return true, false }
