//go:build verif

package limit

// C03 driver, token limiter: several TokenLimiter instances share one key of a world's store
// (see zz_verif_limit_test.go).  Every call passes an explicit `now` kept in lock-step with
// the store's clock (FastForward).  Recorded per call: instance, now (ms), n, the answer, and
// the path the call took as seen by a go-redis hook (store / fail / local / ctx).  The
// monitor's recovery is logged when the driver observes it (white-box: redisAlive and
// monitorStarted under rescueLock) at a moment with no call in flight - never assumed.

import (
	"context"
	"encoding/json"
	"runtime"
	"sync"
	"sync/atomic"
	"testing"
	"time"
)

type tokOp struct {
	Op string `json:"op"`
	I  int    `json:"i"`
	V  int    `json:"v"`
}

type tokHistory struct {
	Rate  int     `json:"rate"`
	Burst int     `json:"burst"`
	Ops   []tokOp `json:"ops"`
}

type tokTrace struct {
	w      *limWorld
	lims   []*TokenLimiter
	failed []int32 // a call of the instance took the fail path since its last logged recovery
	rate   int
	burst  int
}

var tokCallSeq int64

func tokBegin(w *limWorld, rate, burst, n int) *tokTrace {
	key := limFreshKey("verif-tok")
	tt := &tokTrace{w: w, rate: rate, burst: burst, failed: make([]int32, n)}
	for i := 0; i < n; i++ {
		tt.lims = append(tt.lims, NewTokenLimiter(rate, burst, w.r, key))
	}
	w.emit(verifEv{"e": "reset", "rate": rate, "burst": burst, "n": n})
	return tt
}

// call performs AllowNCtx and classifies the path; cancelled: with an already cancelled context.
func (tt *tokTrace) call(i int, t int64, n int, cancelled bool) (bool, string, string) {
	rec := &limCallRec{}
	ctx := context.WithValue(context.Background(), limCallKey{}, rec)
	a0 := tokAliveFlag(tt.lims[i])
	if cancelled {
		c, cancel := context.WithCancel(ctx)
		cancel()
		ctx = c
	}
	ok := tt.lims[i].AllowNCtx(ctx, limBase.Add(time.Duration(t)*time.Millisecond), n)
	path, msg := rec.path(cancelled, a0)
	if path == "fail" || path == "nostore" {
		atomic.StoreInt32(&tt.failed[i], 1)
	}
	return ok, path, msg
}

func (tt *tokTrace) allow(i, n int, cancelled bool) {
	t := tt.w.clk
	ok, path, msg := tt.call(i, t, n, cancelled)
	tt.w.emit(verifEv{"e": "allow", "i": i, "t": int(t), "n": n, "ok": ok, "path": path, "err": msg})
}

// state of the instance's fallback machinery, read under its lock
func (tt *tokTrace) flags(i int) (alive bool, monitor bool) {
	return tokFlags(tt.lims[i])
}

func (tt *tokTrace) inFallback(i int) bool {
	alive, monitor := tt.flags(i)
	return !alive || monitor
}

// limRecoverBound is TokenBucket.tla's RecoverBound: the real time a reachable store may still
// find an instance in fallback mode.
const limRecoverBound = 10 * time.Second

// settle waits (store up, no call in flight) until instance i is back on the store and its
// monitor is gone, and logs the recovery if the instance had taken the fail path.
//
// While it waits the driver PINGs the store with its own client and adds up the real time for
// which the store has answered without a gap (only intervals between two successful probes at
// most 150 ms apart count: a stalled test process earns no credit).  What it finds is logged,
// not judged: fallback{i,ms} when the wait begins and - if the instance is still in fallback mode
// when the credit reaches the specification's RecoverBound - once more with that credit, after
// which the trace ends (the specification has no action for it).  A state that cannot change any
// more - fallback mode without a monitor - is logged as "stuck".
func (tt *tokTrace) settle(i int) {
	w := tt.w
	bound := time.Duration(verifEnvInt("VERIF_TOKEN_RECOVER_MS", int(limRecoverBound/time.Millisecond))) * time.Millisecond
	began := time.Now()
	hard := began.Add(120 * time.Second)
	var credit time.Duration
	var last, lastProbe time.Time
	logged := false
	for {
		alive, monitor := tt.flags(i)
		if alive && !monitor {
			break
		}
		if !alive && !monitor {
			w.emit(verifEv{"e": "stuck", "i": i})
			w.retire = true
			return
		}
		if now := time.Now(); lastProbe.IsZero() || now.Sub(lastProbe) >= 20*time.Millisecond {
			lastProbe = now
			if w.probePing() {
				now = time.Now()
				if !last.IsZero() {
					if gap := now.Sub(last); gap <= 150*time.Millisecond {
						credit += gap
					}
				}
				last = now
			} else {
				credit, last = 0, time.Time{}
			}
			limForgetFailures() // the store answers: the client's breaker must not hide it
			if !logged && !last.IsZero() {
				logged = true
				w.emit(verifEv{"e": "fallback", "i": i, "ms": int(credit / time.Millisecond)})
			}
			if credit >= bound {
				w.emit(verifEv{"e": "fallback", "i": i, "ms": int(credit / time.Millisecond)})
				w.retire = true
				return
			}
		}
		if time.Now().After(hard) {
			w.t.Errorf("instance %d did not leave fallback mode within 120 s and the driver's own client could not "+
				"show the store reachable for %v without a gap", i, bound)
			w.broken = true
			return
		}
		time.Sleep(2 * time.Millisecond)
	}
	if atomic.SwapInt32(&tt.failed[i], 0) == 1 {
		w.emit(verifEv{"e": "recover", "i": i, "waited": int(time.Since(began) / time.Millisecond)})
	}
}

// holdOutage keeps an error outage going until the monitors of the instances in fallback mode
// have pinged the dead store at least once (steering only: gives up silently after a while).
func (tt *tokTrace) holdOutage() {
	if tt.w.mode != "down" || tt.w.closed {
		return
	}
	waiting := 0
	for i := range tt.lims {
		if _, monitor := tt.flags(i); monitor {
			waiting++
		}
	}
	if waiting == 0 {
		return
	}
	target := atomic.LoadInt64(&tt.w.pings) + int64(waiting)
	for deadline := time.Now().Add(1500 * time.Millisecond); time.Now().Before(deadline); {
		if atomic.LoadInt64(&tt.w.pings) >= target {
			return
		}
		time.Sleep(5 * time.Millisecond)
	}
}

// end brings the store back and waits for every instance, so that no monitor of this trace
// is still pinging when the world is used for the next one.
func (tt *tokTrace) end() {
	tt.w.fault("up", false)
	for i := range tt.lims {
		if tt.w.broken || tt.w.retire {
			return
		}
		tt.settle(i)
	}
}

// TestVerifTokenReplay replays TLC-generated histories (TokenBucketMC, Emit = TRUE).
func TestVerifTokenReplay(t *testing.T) {
	em := verifOpen(t)
	defer em.Close()
	if !tokWB {
		// the white-box accessors do not compile against this tree: recoveries cannot be observed, so the
		// token-limiter drivers do not run (the period limiter and the design-level models still decide)
		em.Emit(verifEv{"e": "info", "skipped": "token-limiter drivers need the alive/monitor flags of TokenLimiter"})
		return
	}
	defer limInstallClock()()
	n := verifEnvInt("VERIF_TOKEN_N", 2)
	closedEvery := verifEnvInt("VERIF_TOKEN_CLOSED_EVERY", 0)
	probe := verifEnvInt("VERIF_TOKEN_PROBE", 1) == 1
	var hs []tokHistory
	for _, raw := range verifInput(t) {
		var h tokHistory
		if err := json.Unmarshal(raw, &h); err != nil {
			t.Fatal(err)
		}
		hs = append(hs, h)
	}
	limRunTraces(t, em, limPar(), len(hs), func(w *limWorld, job int) {
		h := hs[job]
		tt := tokBegin(w, h.Rate, h.Burst, n)
		for _, op := range h.Ops {
			if w.broken || w.retire {
				return
			}
			switch op.Op {
			case "allow":
				tt.allow(op.I, op.V, false)
			case "advance":
				w.advance(op.V)
			case "fault":
				if op.V == 1 {
					w.fault("down", closedEvery > 0 && job%closedEvery == closedEvery-1)
				} else {
					if job%4 == 1 {
						tt.holdOutage()
					}
					w.fault("up", false)
				}
			case "recover":
				if w.mode == "up" {
					tt.settle(op.I)
				}
			default:
				t.Errorf("unknown op %q", op.Op)
				return
			}
		}
		tt.end()
		// closing probe of the bucket the history left behind: an instance asks until it is
		// refused, the clock moves to the next whole second (sometimes a little short of it),
		// and it asks for what a second brings
		if probe && !w.broken && !w.retire {
			i := job % n
			for r := 0; r < h.Burst+1; r++ {
				tt.allow(i, 1, false)
			}
			if job%3 == 0 {
				w.advance(int(999 - w.clk%1000))
				tt.allow(i, 1, false)
				w.advance(1)
			} else {
				w.advance(int(1000 - w.clk%1000))
			}
			tt.allow(i, h.Rate, false)
			tt.allow(i, 1, false)
			tt.allow(i, h.Burst, false)
		}
	})
}

// sizes of requests worth asking for
func tokSize(rnd interface{ Intn(int) int }, burst int) int {
	switch x := rnd.Intn(12); {
	case x < 5:
		return 1
	case x < 7:
		return 2
	case x < 8:
		return 0
	case x < 9:
		return burst
	case x < 10:
		return burst + 1
	default:
		return 1 + rnd.Intn(burst+1)
	}
}

func tokParams(rnd interface{ Intn(int) int }) (rate, burst int) {
	switch x := rnd.Intn(10); {
	case x < 7:
		return 1 + rnd.Intn(8), 1 + rnd.Intn(8)
	case x < 8: // burst well below rate/2
		rate = 4 + rnd.Intn(40)
		return rate, 1 + rnd.Intn((rate-1)/2)
	default:
		return 1 + rnd.Intn(50), 1 + rnd.Intn(20)
	}
}

// clock advances aimed at the bucket's seconds: sub-second steps, the next second boundary,
// whole seconds up to a little over the time the bucket (and its keys) need
func tokAdvance(rnd interface{ Intn(int) int }, clk int64, rate, burst int) int {
	fill := (burst + rate - 1) / rate // seconds to fill
	switch x := rnd.Intn(10); {
	case x < 3:
		return 1 + rnd.Intn(999)
	case x < 5:
		return int(1000 - clk%1000) // to the next whole second
	case x < 6:
		return int(1000-clk%1000) - 1 + 2*rnd.Intn(2)
	case x < 8:
		return 1000 * (1 + rnd.Intn(2*fill+2))
	case x < 9:
		return 1000*(1+rnd.Intn(2*fill+2)) - int(clk%1000) - rnd.Intn(2)
	default:
		return 1 + rnd.Intn(1000*(2*fill+3))
	}
}

// TestVerifTokenRandom: long seeded sequential histories: 1..4 instances, (rate, burst) in
// [1,8]^2 and beyond including burst < rate/2, request sizes 0..burst+1, clock advances around
// second boundaries and fill times, outages (error replies; sometimes dropped connections) at any
// position, calls in the window between the end of an outage and the monitor's recovery,
// calls with a cancelled context.
func TestVerifTokenRandom(t *testing.T) {
	em := verifOpen(t)
	defer em.Close()
	if !tokWB {
		// the white-box accessors do not compile against this tree: recoveries cannot be observed, so the
		// token-limiter drivers do not run (the period limiter and the design-level models still decide)
		em.Emit(verifEv{"e": "info", "skipped": "token-limiter drivers need the alive/monitor flags of TokenLimiter"})
		return
	}
	defer limInstallClock()()
	traces, length := 100, 60
	if verifThorough() {
		traces, length = 600, 120
	}
	traces = verifEnvInt("VERIF_TOKEN_TRACES", traces)
	limRunTraces(t, em, limPar(), traces, func(w *limWorld, job int) {
		rnd := verifRand(3000 + int64(job))
		rate, burst := tokParams(rnd)
		n := 1 + rnd.Intn(4)
		tt := tokBegin(w, rate, burst, n)
		faulty := rnd.Intn(3) > 0
		closedOK := verifThorough() && job%25 == 7
		budget := 4
		ln := 15 + rnd.Intn(length)
		for k := 0; k < ln && !w.broken && !w.retire; k++ {
			i := rnd.Intn(n)
			switch x := rnd.Intn(100); {
			case x < 55:
				tt.allow(i, tokSize(rnd, burst), false)
			case x < 58:
				if !tt.inFallback(i) {
					tt.allow(i, tokSize(rnd, burst), true)
				} else {
					tt.allow(i, 1, false)
				}
			case x < 60:
				// an outage that lasts for one command
				w.glitch(1+rnd.Intn(2), func() { tt.allow(i, tokSize(rnd, burst), false) })
			case x < 82:
				w.advance(tokAdvance(rnd, w.clk, rate, burst))
			case x < 90:
				// drain: the same instance asks until it is refused twice
				for r, refused := 0, 0; r < 3*burst+4 && refused < 2; r++ {
					t0 := w.clk
					ok, path, msg := tt.call(i, t0, 1, false)
					w.emit(verifEv{"e": "allow", "i": i, "t": int(t0), "n": 1, "ok": ok, "path": path, "err": msg})
					if !ok {
						refused++
					}
				}
			case x < 96:
				if !faulty {
					tt.allow(i, 1, false)
					break
				}
				if w.mode == "up" && budget > 0 {
					budget--
					w.fault("down", closedOK && rnd.Intn(2) == 0)
				} else if w.mode == "down" {
					w.fault("up", false)
				}
			default:
				if w.mode == "up" {
					tt.settle(i)
				}
			}
			if w.mode == "down" && rnd.Intn(6) == 0 {
				if rnd.Intn(2) == 0 {
					tt.holdOutage()
				}
				w.fault("up", false)
				if rnd.Intn(2) == 0 { // calls in the window before the monitors notice
					for r := 0; r < 1+rnd.Intn(4); r++ {
						tt.allow(rnd.Intn(n), tokSize(rnd, burst), false)
					}
				}
			}
		}
		tt.end()
	})
}

// TestVerifTokenConcurrent: rounds of simultaneous AllowN calls from several goroutines on
// several instances of one key (callStart before the call, callEnd after it returned; TLC finds
// the linearisation), separated by sequential steps.  Round flavours: store up; store down
// with the instances in fallback mode; the store going down in the middle of the round; and
// (VERIF_TOKEN_SKEW, default on) store up with some callers whose clock is one second behind
// (they read it before the second changed and reach the store after callers that read it later).
func TestVerifTokenConcurrent(t *testing.T) {
	em := verifOpen(t)
	defer em.Close()
	if !tokWB {
		// the white-box accessors do not compile against this tree: recoveries cannot be observed, so the
		// token-limiter drivers do not run (the period limiter and the design-level models still decide)
		em.Emit(verifEv{"e": "info", "skipped": "token-limiter drivers need the alive/monitor flags of TokenLimiter"})
		return
	}
	defer limInstallClock()()
	traces, rounds := 80, 8
	if verifThorough() {
		traces, rounds = 400, 12
	}
	traces = verifEnvInt("VERIF_TOKEN_TRACES", traces)
	skewOn := verifEnvInt("VERIF_TOKEN_SKEW", 1) == 1
	skewEvery := verifEnvInt("VERIF_TOKEN_SKEW_EVERY", 1) // skew rounds only in every k-th trace
	limRunTraces(t, em, limPar(), traces, func(w *limWorld, job int) {
		rnd := verifRand(7000 + 31*int64(runtime.GOMAXPROCS(0)) + int64(job))
		rate, burst := tokParams(rnd)
		n := 1 + rnd.Intn(4)
		tt := tokBegin(w, rate, burst, n)
		faulty := rnd.Intn(2) == 0
		for rd := 0; rd < rounds && !w.broken && !w.retire; rd++ {
			k := 2 + rnd.Intn(7)
			flavour := "plain"
			switch x := rnd.Intn(10); {
			case faulty && w.mode == "up" && x < 3:
				flavour = "midfault"
			case w.mode == "up" && skewOn && job%skewEvery == 0 && x >= 7 && w.clk >= 1000:
				flavour = "skew"
				for j := 0; j < n; j++ {
					if tt.inFallback(j) {
						flavour = "plain"
					}
				}
			}
			if flavour == "skew" {
				// one call (for nothing) at the store's time, so that the bucket's keys are fresh;
				// then some callers of the round carry a clock that is one second behind
				tt.allow(0, 0, false)
			}
			type call struct {
				i, n, spin int
				t    int64
			}
			calls := make([]call, k)
			for c := range calls {
				calls[c] = call{i: rnd.Intn(n), n: tokSize(rnd, burst), spin: rnd.Intn(4), t: w.clk}
				if flavour == "skew" && rnd.Intn(2) == 0 {
					calls[c].t -= 1000
				}
			}
			start := make(chan struct{})
			var wg sync.WaitGroup
			for c := range calls {
				wg.Add(1)
				go func(cl call) {
					defer wg.Done()
					<-start
					for s := 0; s < cl.spin; s++ {
						runtime.Gosched()
					}
					id := int(atomic.AddInt64(&tokCallSeq, 1))
					w.emit(verifEv{"e": "callStart", "c": id, "i": cl.i, "t": int(cl.t), "n": cl.n})
					ok, path, msg := tt.call(cl.i, cl.t, cl.n, false)
					w.emit(verifEv{"e": "callEnd", "c": id, "ok": ok, "path": path, "err": msg})
				}(calls[c])
			}
			close(start)
			if flavour == "midfault" {
				for s := rnd.Intn(6); s > 0; s-- {
					runtime.Gosched()
				}
				w.fault("down", false)
			}
			wg.Wait()
			// sequential interlude
			for s := rnd.Intn(4); s > 0 && !w.broken && !w.retire; s-- {
				i := rnd.Intn(n)
				switch x := rnd.Intn(10); {
				case x < 3:
					tt.allow(i, tokSize(rnd, burst), false)
				case x < 7:
					w.advance(tokAdvance(rnd, w.clk, rate, burst))
				case x < 8:
					if faulty && w.mode == "up" {
						w.fault("down", false)
						// every instance notices (or not)
						for j := 0; j < n; j++ {
							if rnd.Intn(3) > 0 {
								tt.allow(j, tokSize(rnd, burst), false)
							}
						}
					}
				case x < 9:
					if w.mode == "down" {
						if rnd.Intn(2) == 0 {
							tt.holdOutage()
						}
						w.fault("up", false)
					}
				default:
					if w.mode == "up" {
						tt.settle(i)
					}
				}
			}
		}
		tt.end()
	})
}

// TestVerifTokenOutage: outages that last in REAL time (the recovery monitor lives on a real
// 100 ms ticker): 0 ms .. several seconds, error replies or dropped connections, 2..3 instances of
// which some notice the outage; local calls and clock advances while it lasts; then the store
// returns, every instance is waited for (settle: the driver's own client proves the store
// reachable and the time an instance lingers in fallback mode is logged for the specification to
// judge) and all instances ask the one shared bucket again.
func TestVerifTokenOutage(t *testing.T) {
	em := verifOpen(t)
	defer em.Close()
	if !tokWB {
		// the white-box accessors do not compile against this tree: recoveries cannot be observed, so the
		// token-limiter drivers do not run (the period limiter and the design-level models still decide)
		em.Emit(verifEv{"e": "info", "skipped": "token-limiter drivers need the alive/monitor flags of TokenLimiter"})
		return
	}
	defer limInstallClock()()
	type plan struct {
		holdMs int
		drop   bool
	}
	plans := []plan{{1300, false}, {1250, true}, {300, false}}
	if verifThorough() {
		plans = nil
		for _, h := range []int{0, 120, 600, 1100, 1600, 2600, 4200} {
			plans = append(plans, plan{h, false}, plan{h, true}, plan{h + 77, false})
		}
	}
	limRunTraces(t, em, limPar(), len(plans), func(w *limWorld, job int) {
		rnd := verifRand(11000 + int64(job))
		pl := plans[job]
		rate, burst := tokParams(rnd)
		n := 2 + rnd.Intn(2)
		tt := tokBegin(w, rate, burst, n)
		for r := rnd.Intn(4); r > 0; r-- {
			tt.allow(rnd.Intn(n), tokSize(rnd, burst), false)
		}
		w.fault("down", pl.drop)
		for j := 0; j < n; j++ { // instance 0 always notices, the others mostly
			if j == 0 || rnd.Intn(3) > 0 {
				tt.allow(j, tokSize(rnd, burst), false)
			}
		}
		for until := time.Now().Add(time.Duration(pl.holdMs) * time.Millisecond); time.Now().Before(until); {
			time.Sleep(40 * time.Millisecond)
			switch x := rnd.Intn(10); {
			case x < 3:
				tt.allow(rnd.Intn(n), tokSize(rnd, burst), false)
			case x < 4:
				w.advance(tokAdvance(rnd, w.clk, rate, burst))
			}
		}
		w.fault("up", false)
		for r := rnd.Intn(3); r > 0 && !w.broken; r-- { // calls in the window before the monitors notice
			tt.allow(rnd.Intn(n), tokSize(rnd, burst), false)
		}
		for j := 0; j < n && !w.broken && !w.retire; j++ {
			tt.settle(j)
		}
		if w.broken || w.retire {
			return
		}
		// everybody is back: the instances take turns at the one bucket until each was refused, the
		// clock moves to the next whole second, and they ask for what a second brings
		for j := 0; j < n; j++ {
			for r, refused := 0, 0; r < burst+2 && refused < 1; r++ {
				t0 := w.clk
				ok, path, msg := tt.call(j, t0, 1, false)
				w.emit(verifEv{"e": "allow", "i": j, "t": int(t0), "n": 1, "ok": ok, "path": path, "err": msg})
				if !ok {
					refused++
				}
			}
		}
		w.advance(int(1000 - w.clk%1000))
		for j := 0; j < n; j++ {
			tt.allow(j, 1+rnd.Intn(rate), false)
		}
		tt.end()
	})
}
