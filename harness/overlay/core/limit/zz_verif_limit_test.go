//go:build verif

package limit

// C03 drivers, shared part: a "world" is one miniredis store (its clock only moves by
// FastForward) with one go-zero redis client.  The drivers perform histories on real
// PeriodLimit / TokenLimiter objects and record what the real code answered.  They hold no
// expectations: the verdict comes from TLC validating the recorded traces against
// specs/limit/PeriodLimit.tla and specs/limit/TokenBucket.tla.
//
// Outages: a pre-command hook on the miniredis server answers every command with an error, or
// closes the connection without a reply (a dead server as seen by a client).  A fault is logged as
// fault{flaky} BEFORE the switch is made and fault{up|down} AFTER it took effect.
//
// The redis client carries a circuit breaker whose statistics live on go-zero's relative
// clock (core/timex).  The drivers install the verification clock hook (timex.VerifNow, tag
// verif) as "real elapsed time + offset" and move the offset past the breaker's window every
// time an outage ends, so that an answered store is never hidden behind an open breaker.
//
// Real time enters in two places only, both because core/limit reads it without a hook:
// the recovery monitor's 100 ms ticker (limWorld.probe / tokTrace.settle: the driver proves with
// its OWN client that the store answers and reports for how long an instance lingered in
// fallback mode) and Align()'s time.Now() (limLocalSec: every Take is bracketed by two reads of
// the local wall-clock second).

import (
	"context"
	"encoding/json"
	"errors"
	"fmt"
	"reflect"
	"strings"
	"sync"
	"sync/atomic"
	"testing"
	"time"

	"github.com/alicebob/miniredis/v2"
	"github.com/alicebob/miniredis/v2/server"
	red "github.com/redis/go-redis/v9"
	"github.com/zeromicro/go-zero/core/logx"
	"github.com/zeromicro/go-zero/core/stores/redis"
	"github.com/zeromicro/go-zero/core/timex"
)

// ---- relative clock -------------------------------------------------------------------

var (
	limClockStart  = time.Now()
	limClockOffset int64 // ns
)

func limInstallClock() func() {
	timex.VerifNow = func() time.Duration {
		return time.Hour + time.Since(limClockStart) + time.Duration(atomic.LoadInt64(&limClockOffset))
	}
	return func() { timex.VerifNow = nil }
}

// limForgetFailures moves go-zero's relative clock past the breaker's 10 s window.
func limForgetFailures() {
	atomic.AddInt64(&limClockOffset, int64(15*time.Second))
}

// ---- what the store saw of one call ------------------------------------------------------

type limCallKey struct{}

type limCmd struct {
	name string
	err  error
}

type limCallRec struct {
	mu   sync.Mutex
	cmds []limCmd
}

func (r *limCallRec) add(name string, err error) {
	r.mu.Lock()
	r.cmds = append(r.cmds, limCmd{name, err})
	r.mu.Unlock()
}

var limStalled int32 // a store command took longer than 2 s

// limCheckStall fails the test run (infrastructure, never a verdict) if a store command stalled.
func limCheckStall(t *testing.T) {
	if atomic.LoadInt32(&limStalled) == 1 {
		t.Errorf("a store command took more than 2 s: machine too busy, run discarded")
	}
}

// limHook is a go-redis hook on the world's client: it notes, for calls made with a tagged
// context, the commands that were sent and how they came back.
type limHook struct{}

func (limHook) DialHook(next redis.DialHook) redis.DialHook { return next }

func (limHook) ProcessHook(next redis.ProcessHook) redis.ProcessHook {
	return func(ctx context.Context, cmd redis.Cmder) error {
		t0 := time.Now()
		err := next(ctx, cmd)
		if time.Since(t0) > 2*time.Second {
			// close to go-redis' 3 s read timeout, after which it re-sends the command (a script
			// could then run twice): the machine is too busy for a meaningful run
			atomic.StoreInt32(&limStalled, 1)
		}
		if rec, ok := ctx.Value(limCallKey{}).(*limCallRec); ok {
			rec.add(cmd.Name(), err)
		}
		return err
	}
}

func (limHook) ProcessPipelineHook(next redis.ProcessPipelineHook) redis.ProcessPipelineHook {
	return next
}

// path classifies a token limiter call by what the store saw:
// "store" the script was answered, "fail" the script command erred, "local" no script
// command was sent and the instance's flag said fallback before the call, "nostore" no script
// command was sent although the flag said store, "ctx" the driver had cancelled the context
// and the call erred on that.
func (r *limCallRec) path(cancelled bool, aliveBefore uint32) (string, string) {
	r.mu.Lock()
	defer r.mu.Unlock()
	var last *limCmd
	for k := range r.cmds {
		if r.cmds[k].name == "evalsha" || r.cmds[k].name == "eval" {
			last = &r.cmds[k]
		}
	}
	switch {
	case last == nil && cancelled && aliveBefore == 1:
		return "ctx", ""
	case last == nil && aliveBefore == 1:
		// the flag said "use the store" just before the call, yet nothing reached the wire:
		// the client refused (open circuit breaker, no connection), or a concurrent call of
		// the same instance switched it to fallback mode in between
		return "nostore", ""
	case last == nil:
		return "local", ""
	case last.err == nil || errors.Is(last.err, redis.Nil):
		return "store", ""
	case cancelled && errors.Is(last.err, context.Canceled):
		return "ctx", ""
	default:
		msg := last.err.Error()
		if len(msg) > 60 {
			msg = msg[:60]
		}
		return "fail", msg
	}
}

// ---- world -------------------------------------------------------------------------------

type limWorld struct {
	t      *testing.T
	m      *miniredis.Miniredis
	r      *redis.Redis
	errOn  int32  // 1: every command is answered with an error; 2: the connection is closed instead
	failIn int32  // k > 0: the k-th command from now is answered with an error
	pings  int64  // PINGs refused during error outages
	mode   string // "up" | "down"
	closed bool   // the outage in progress drops connections
	broken bool   // infrastructure trouble: drop the trace
	retire bool   // the trace is complete, but the world must not be used again (a limiter of the
	// trace was left in fallback mode, its monitor may ping for ever)
	probe *red.Client // the driver's own connection to the store (no breaker, no go-zero code)
	clk    int64  // ms since the start of the trace
	mu     sync.Mutex
	evs    []verifEv
}

var limBase = time.Unix(1_700_000_000, 0) // a whole second

var limUncounted = map[string]bool{"HELLO": true, "CLIENT": true, "PING": true, "AUTH": true,
	"SELECT": true, "QUIT": true, "COMMAND": true}

// commands issued by redis.call inside a script run inside the store, not over the wire
func limNestedCall(c *server.Peer) bool {
	if c == nil || c.Ctx == nil {
		return false
	}
	v := reflect.ValueOf(c.Ctx)
	for v.Kind() == reflect.Ptr || v.Kind() == reflect.Interface {
		if v.IsNil() {
			return false
		}
		v = v.Elem()
	}
	if v.Kind() != reflect.Struct {
		return false
	}
	f := v.FieldByName("nested")
	return f.IsValid() && f.Kind() == reflect.Bool && f.Bool()
}

func (w *limWorld) preHook(c *server.Peer, cmd string, args ...string) bool {
	if limNestedCall(c) {
		return false
	}
	if on := atomic.LoadInt32(&w.errOn); on != 0 {
		if strings.ToUpper(cmd) == "PING" {
			atomic.AddInt64(&w.pings, 1)
		}
		if on == 2 {
			c.Close() // no reply: the connection is closed after this command
			return true
		}
		c.WriteError("ERR verif injected outage")
		return true
	}
	if atomic.LoadInt32(&w.failIn) > 0 && !limUncounted[strings.ToUpper(cmd)] {
		if atomic.AddInt32(&w.failIn, -1) == 0 {
			c.WriteError("ERR verif injected glitch")
			return true
		}
	}
	return false
}

// glitch runs f while the k-th command that reaches the store (k >= 1) is answered with an
// error - an outage that lasts for one command.  Logged as fault{flaky} ... fault{up}.
func (w *limWorld) glitch(k int, f func()) {
	if w.mode != "up" || w.broken {
		f()
		return
	}
	w.emit(verifEv{"e": "fault", "mode": "flaky"})
	atomic.StoreInt32(&w.failIn, int32(k))
	f()
	atomic.StoreInt32(&w.failIn, 0)
	limForgetFailures()
	w.emit(verifEv{"e": "fault", "mode": "up"})
}

func newLimWorld(t *testing.T) *limWorld {
	for attempt := 0; attempt < 50; attempt++ {
		m, err := miniredis.Run()
		if err != nil {
			time.Sleep(10 * time.Millisecond)
			continue
		}
		w := &limWorld{t: t, m: m, mode: "up"}
		m.Server().SetPreHook(w.preHook)
		w.r = redis.New(m.Addr(), redis.WithHook(limHook{}))
		w.probe = red.NewClient(&red.Options{Addr: m.Addr(), MaxRetries: -1, PoolSize: 2})
		if !w.r.Ping() || !w.probePing() {
			w.close()
			continue
		}
		// warm-up: the first use of a script on a server is EVALSHA -> NOSCRIPT -> EVAL, and the
		// client's circuit breaker counts every NOSCRIPT reply as a failure; several concurrent
		// first uses could make it refuse the EVALs that follow.  Both scripts are loaded here,
		// one call each on throw-away keys, and the breaker's statistics are aged out.
		NewTokenLimiter(1, 1, w.r, limFreshKey("verif-warm")).AllowN(limBase, 1)
		_, _ = NewPeriodLimit(1, 1, w.r, limFreshKey("verif-warm")).Take("w")
		limForgetFailures()
		return w
	}
	return nil
}

func (w *limWorld) close() {
	if w == nil {
		return
	}
	if w.probe != nil {
		w.probe.Close()
	}
	w.m.Close()
}

// probePing: does the store answer a PING of the driver's own client right now?  (The injected
// outages refuse this client like every other one.)
func (w *limWorld) probePing() bool {
	ctx, cancel := context.WithTimeout(context.Background(), 2*time.Second)
	defer cancel()
	v, err := w.probe.Ping(ctx).Result()
	return err == nil && v == "PONG"
}

// limLocalSec is the local wall-clock second as PeriodLimit's Align() computes it.
func limLocalSec() int64 {
	now := time.Now()
	_, offset := now.Zone()
	return now.Unix() + int64(offset)
}

func (w *limWorld) emit(ev verifEv) {
	w.mu.Lock()
	w.evs = append(w.evs, ev)
	w.mu.Unlock()
}

func (w *limWorld) now() time.Time { return limBase.Add(time.Duration(w.clk) * time.Millisecond) }

func (w *limWorld) advance(d int) {
	w.m.FastForward(time.Duration(d) * time.Millisecond)
	w.clk += int64(d)
	w.emit(verifEv{"e": "adv", "d": d})
}

// fault switches the store. drop: instead of answering every command with an error the server
// closes the connection without a reply (what a client sees of a dead server; the listening port
// is kept, so that no other process on the machine can take it during the outage).
func (w *limWorld) fault(mode string, drop bool) {
	if mode == w.mode || w.broken {
		return
	}
	w.emit(verifEv{"e": "fault", "mode": "flaky"})
	if mode == "down" {
		if drop {
			atomic.StoreInt32(&w.errOn, 2)
		} else {
			atomic.StoreInt32(&w.errOn, 1)
		}
		w.closed = drop
	} else {
		atomic.StoreInt32(&w.errOn, 0)
		if w.closed {
			ok := false
			for attempt := 0; attempt < 2000; attempt++ { // the client finds the server again
				if w.r.Ping() {
					ok = true
					break
				}
				limForgetFailures()
				time.Sleep(5 * time.Millisecond)
			}
			if !ok {
				w.broken = true
				return
			}
			w.closed = false
		}
		limForgetFailures()
	}
	w.mode = mode
	w.emit(verifEv{"e": "fault", "mode": mode})
}

// ---- running many traces on parallel worlds ---------------------------------------------

// limRunTraces runs the jobs (one trace each) on `par` worlds in parallel.  The events of a
// trace are buffered and written to the trace file in one piece.
func limRunTraces(t *testing.T, em *verifEmitter, par int, jobs int, run func(w *limWorld, job int)) {
	logx.Disable()
	if par > jobs {
		par = jobs
	}
	if par < 1 {
		par = 1
	}
	next := int64(-1)
	var wg sync.WaitGroup
	for p := 0; p < par; p++ {
		wg.Add(1)
		go func() {
			defer wg.Done()
			w := newLimWorld(t)
			if w == nil {
				t.Errorf("cannot start a miniredis store")
				return
			}
			defer func() { w.close() }()
			for {
				job := int(atomic.AddInt64(&next, 1))
				if job >= jobs {
					return
				}
				if w.broken || w.retire {
					w.close()
					if w = newLimWorld(t); w == nil {
						t.Errorf("cannot start a miniredis store")
						return
					}
				}
				w.evs = w.evs[:0]
				w.clk = 0
				run(w, job)
				if w.broken {
					t.Errorf("client did not find the store again after an outage (trace %d dropped)", job)
					continue
				}
				limFlush(em, w.evs)
			}
		}()
	}
	wg.Wait()
	limCheckStall(t)
}

func limFlush(em *verifEmitter, evs []verifEv) {
	var buf []byte
	for _, ev := range evs {
		b, err := json.Marshal(ev)
		if err != nil {
			panic(err)
		}
		buf = append(buf, b...)
		buf = append(buf, '\n')
	}
	em.mu.Lock()
	em.w.Write(buf)
	em.n += len(evs)
	em.mu.Unlock()
}

var limKeySeq int64

func limFreshKey(prefix string) string {
	return fmt.Sprintf("%s-%d", prefix, atomic.AddInt64(&limKeySeq, 1))
}

func limPar() int {
	if verifThorough() {
		return verifEnvInt("VERIF_LIMIT_PAR", 32)
	}
	return verifEnvInt("VERIF_LIMIT_PAR", 32)
}
