//go:build verif

package limit

// C03 driver, period limiter: PeriodLimit objects with one (period, quota) on a world's store
// (see zz_verif_limit_test.go); the period only passes by FastForward.  Recorded per Take:
// key, the code and whether an error was returned.

import (
	"context"
	"encoding/json"
	"runtime"
	"sync"
	"sync/atomic"
	"testing"
	"time"
)

type perOp struct {
	Op string `json:"op"`
	K  int    `json:"k"`
	V  int    `json:"v"`
}

type perHistory struct {
	Period int     `json:"period"`
	Quota  int     `json:"quota"`
	Align  bool    `json:"align"`
	Ops    []perOp `json:"ops"`
}

type perTrace struct {
	w      *limWorld
	lims   []*PeriodLimit
	prefix string
	keys   int
	period int
	opened []int64 // driver's own note: clock at which it first asked for the key after it saw it gone
}

var perCallSeq int64

func perBegin(w *limWorld, period, quota int, align bool, objects, keys int) *perTrace {
	pt := &perTrace{w: w, prefix: limFreshKey("verif-per") + ":", keys: keys, period: period,
		opened: make([]int64, keys)}
	for o := 0; o < objects; o++ {
		if align {
			pt.lims = append(pt.lims, NewPeriodLimit(period, quota, w.r, pt.prefix, Align()))
		} else {
			pt.lims = append(pt.lims, NewPeriodLimit(period, quota, w.r, pt.prefix))
		}
	}
	for k := range pt.opened {
		pt.opened[k] = -1
	}
	w.emit(verifEv{"e": "reset", "period": period, "quota": quota, "align": align, "keys": keys})
	return pt
}

func perKey(k int) string { return "k" + string(rune('0'+k)) }

func (pt *perTrace) take(o, k int, cancelled bool) {
	ctx := context.Background()
	if cancelled {
		c, cancel := context.WithCancel(ctx)
		cancel()
		ctx = c
	}
	if pt.opened[k] < 0 || !pt.w.m.Exists(pt.prefix+perKey(k)) {
		pt.opened[k] = pt.w.clk
	}
	code, err := pt.lims[o%len(pt.lims)].TakeCtx(ctx, perKey(k))
	pt.w.emit(verifEv{"e": "take", "k": k, "code": code, "err": err != nil, "cx": cancelled})
}

// remaining life of key k's counter in the store (0: none): only used to aim clock advances
func (pt *perTrace) ttlMs(k int) int {
	key := pt.prefix + perKey(k)
	if !pt.w.m.Exists(key) {
		return 0
	}
	return int(pt.w.m.TTL(key) / time.Millisecond)
}

// advance aimed at the end of key k's period: by the store's ttl, or by the driver's own note
// of when it opened the period (the two differ if the implementation keeps periods wrongly)
func (pt *perTrace) aim(rnd interface{ Intn(int) int }, k int) int {
	rem := pt.ttlMs(k)
	if rnd.Intn(3) == 0 && pt.opened[k] >= 0 {
		rem = int(pt.opened[k] + int64(pt.period)*1000 - pt.w.clk)
	}
	switch x := rnd.Intn(10); {
	case x < 2 && rem > 1:
		return rem - 1
	case x < 4 && rem > 0:
		return rem
	case x < 5 && rem > 0:
		return rem + 1
	case x < 7 && rem > 1:
		return 1 + rnd.Intn(rem)
	case x < 8:
		return pt.period * 1000
	default:
		return 1 + rnd.Intn(1200)
	}
}

func (pt *perTrace) end() { pt.w.fault("up", false) }

// TestVerifPeriodReplay replays TLC-generated histories (PeriodLimitMC, Emit = TRUE).
func TestVerifPeriodReplay(t *testing.T) {
	em := verifOpen(t)
	defer em.Close()
	defer limInstallClock()()
	keys := verifEnvInt("VERIF_PERIOD_KEYS", 2)
	closedEvery := verifEnvInt("VERIF_PERIOD_CLOSED_EVERY", 0)
	probe := verifEnvInt("VERIF_PERIOD_PROBE", 1) == 1
	var hs []perHistory
	for _, raw := range verifInput(t) {
		var h perHistory
		if err := json.Unmarshal(raw, &h); err != nil {
			t.Fatal(err)
		}
		hs = append(hs, h)
	}
	limRunTraces(t, em, limPar(), len(hs), func(w *limWorld, job int) {
		h := hs[job]
		pt := perBegin(w, h.Period, h.Quota, h.Align, 1+job%2, keys)
		for j, op := range h.Ops {
			if w.broken {
				return
			}
			switch op.Op {
			case "take":
				pt.take(j, op.K, false)
			case "advance":
				w.advance(op.V)
			case "fault":
				if op.V == 1 {
					w.fault("down", closedEvery > 0 && job%closedEvery == closedEvery-1)
				} else {
					w.fault("up", false)
				}
			default:
				t.Errorf("unknown op %q", op.Op)
				return
			}
		}
		pt.end()
		// closing probe of the period the history ended in: ask just before the end of the
		// period as the driver noted it, just after it, and fill the new period
		if probe && !w.broken {
			k := job % keys
			if pt.opened[k] >= 0 {
				if rem := int(pt.opened[k] + int64(pt.period)*1000 - w.clk); rem > 1 {
					w.advance(rem - 1)
					pt.take(0, k, false)
					w.advance(1)
				}
			}
			for r := 0; r < h.Quota+1; r++ {
				pt.take(r, k, false)
			}
			if ttl := pt.ttlMs(k); ttl > 0 {
				w.advance(ttl)
				pt.take(0, k, false)
			}
		}
	})
}

// TestVerifPeriodRandom: long seeded sequential histories: (period, quota) in [1,6]^2 (and
// quota 0), 1..3 keys, 1..3 limiter objects, advances aimed at the end of the period, outages,
// Takes with a cancelled context, Align().
func TestVerifPeriodRandom(t *testing.T) {
	em := verifOpen(t)
	defer em.Close()
	defer limInstallClock()()
	traces, length := 100, 80
	if verifThorough() {
		traces, length = 500, 160
	}
	traces = verifEnvInt("VERIF_PERIOD_TRACES", traces)
	limRunTraces(t, em, limPar(), traces, func(w *limWorld, job int) {
		rnd := verifRand(5000 + int64(job))
		period, quota := 1+rnd.Intn(6), 1+rnd.Intn(6)
		if rnd.Intn(12) == 0 {
			quota = 0
		}
		keys := 1 + rnd.Intn(3)
		align := rnd.Intn(6) == 0
		pt := perBegin(w, period, quota, align, 1+rnd.Intn(3), keys)
		faulty := rnd.Intn(3) == 0
		closedOK := verifThorough() && job%25 == 3
		budget := 4
		ln := 20 + rnd.Intn(length)
		for j := 0; j < ln && !w.broken; j++ {
			k := rnd.Intn(keys)
			switch x := rnd.Intn(100); {
			case x < 60:
				pt.take(rnd.Intn(3), k, false)
			case x < 63:
				pt.take(rnd.Intn(3), k, true)
			case x < 67:
				// an outage that lasts for one command (the first or the second of the call)
				w.glitch(1+rnd.Intn(2), func() { pt.take(rnd.Intn(3), k, false) })
			case x < 92:
				w.advance(pt.aim(rnd, k))
			default:
				if !faulty {
					pt.take(rnd.Intn(3), k, false)
					break
				}
				if w.mode == "up" && budget > 0 {
					budget--
					w.fault("down", closedOK && rnd.Intn(2) == 0)
				} else if w.mode == "down" {
					w.fault("up", false)
				}
			}
			if w.mode == "down" && rnd.Intn(4) == 0 {
				w.fault("up", false)
			}
		}
		pt.end()
	})
}

// TestVerifPeriodConcurrent: rounds of simultaneous Takes from several goroutines on the keys of
// one limiter (sometimes with a clock jump aimed at the end of the period, or the store going
// down, at the same time); callStart before the call, callEnd after it returned; TLC finds the
// linearisation.
func TestVerifPeriodConcurrent(t *testing.T) {
	em := verifOpen(t)
	defer em.Close()
	defer limInstallClock()()
	traces, rounds := 80, 8
	if verifThorough() {
		traces, rounds = 400, 12
	}
	traces = verifEnvInt("VERIF_PERIOD_TRACES", traces)
	limRunTraces(t, em, limPar(), traces, func(w *limWorld, job int) {
		rnd := verifRand(9000 + 31*int64(runtime.GOMAXPROCS(0)) + int64(job))
		period, quota := 1+rnd.Intn(4), 1+rnd.Intn(6)
		keys := 1 + rnd.Intn(2)
		pt := perBegin(w, period, quota, false, 1+rnd.Intn(3), keys)
		faulty := rnd.Intn(3) == 0
		for rd := 0; rd < rounds && !w.broken; rd++ {
			k := 2 + rnd.Intn(7)
			adv := -1
			if rnd.Intn(3) == 0 {
				adv = pt.aim(rnd, rnd.Intn(keys))
			}
			midFault := faulty && w.mode == "up" && rnd.Intn(4) == 0
			start := make(chan struct{})
			var wg sync.WaitGroup
			for c := 0; c < k; c++ {
				wg.Add(1)
				go func(o, key, spin int) {
					defer wg.Done()
					<-start
					for s := 0; s < spin; s++ {
						runtime.Gosched()
					}
					id := int(atomic.AddInt64(&perCallSeq, 1))
					w.emit(verifEv{"e": "callStart", "c": id, "k": key, "d": 0})
					code, err := pt.lims[o%len(pt.lims)].Take(perKey(key))
					w.emit(verifEv{"e": "callEnd", "c": id, "code": code, "err": err != nil})
				}(rnd.Intn(3), rnd.Intn(keys), rnd.Intn(4))
			}
			close(start)
			if midFault {
				w.fault("down", false)
			}
			if adv >= 0 {
				for s := rnd.Intn(4); s > 0; s-- {
					runtime.Gosched()
				}
				id := int(atomic.AddInt64(&perCallSeq, 1))
				w.emit(verifEv{"e": "callStart", "c": id, "k": -1, "d": adv})
				w.m.FastForward(time.Duration(adv) * time.Millisecond)
				w.clk += int64(adv)
				w.emit(verifEv{"e": "callEnd", "c": id, "code": 0, "err": false})
			}
			wg.Wait()
			if w.mode == "down" {
				w.fault("up", false)
			}
			for s := rnd.Intn(3); s > 0; s-- {
				if rnd.Intn(2) == 0 {
					pt.take(rnd.Intn(3), rnd.Intn(keys), false)
				} else {
					w.advance(pt.aim(rnd, rnd.Intn(keys)))
				}
			}
		}
		pt.end()
	})
}
