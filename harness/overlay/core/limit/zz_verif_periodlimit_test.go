//go:build verif

package limit

// C03 driver, period limiter: PeriodLimit objects with one (period, quota) on a world's store
// (see zz_verif_limit_test.go); the period only passes by FastForward.  Recorded per Take:
// key, the code, whether an error was returned, and the local wall-clock second read just before
// and just after the call (s0, s1, relative to a per-trace base that is a multiple of the period):
// an Align() limiter cuts the period by the wall clock (time.Now(), no hook) at one of those
// seconds, and the specification computes the counter's life from them.

import (
	"context"
	"encoding/json"
	"runtime"
	"sync"
	"sync/atomic"
	"testing"
	"time"

	"github.com/zeromicro/go-zero/core/logx"
)

type perOp struct {
	Op string `json:"op"`
	K  int    `json:"k"`
	V  int    `json:"v"`
}

type perHistory struct {
	Period int     `json:"period"`
	Quota  int     `json:"quota"`
	Align  bool    `json:"align"`
	Ops    []perOp `json:"ops"`
}

type perTrace struct {
	w      *limWorld
	lims   []*PeriodLimit
	prefix string
	keys   int
	period int
	align  bool
	base   int64   // local wall-clock second subtracted from the logged seconds (a multiple of period)
	opened []int64 // driver's own note: clock at which it first asked for the key after it saw it gone
	ends   []int64 // driver's own note: clock at which that period ends (aligned: by its own wall-clock read)
}

var perCallSeq int64

func perBegin(w *limWorld, period, quota int, align bool, objects, keys int) *perTrace {
	prefix := limFreshKey("verif-per") + ":"
	return perBeginWith(w, perBuild(w, period, quota, align, objects, prefix), prefix, period, quota, align, keys)
}

// perBuild constructs the limiter objects of a trace (for Align() traces possibly long before the
// trace runs: an object may be of any age and born anywhere in an aligned period).
func perBuild(w *limWorld, period, quota int, align bool, objects int, prefix string) []*PeriodLimit {
	var lims []*PeriodLimit
	for o := 0; o < objects; o++ {
		if align {
			lims = append(lims, NewPeriodLimit(period, quota, w.r, prefix, Align()))
		} else {
			lims = append(lims, NewPeriodLimit(period, quota, w.r, prefix))
		}
	}
	return lims
}

func perBeginWith(w *limWorld, lims []*PeriodLimit, prefix string, period, quota int, align bool, keys int) *perTrace {
	pt := &perTrace{w: w, prefix: prefix, keys: keys, period: period, align: align, lims: lims,
		opened: make([]int64, keys), ends: make([]int64, keys)}
	sec := limLocalSec()
	pt.base = sec - sec%int64(period)
	for k := range pt.opened {
		pt.opened[k] = -1
	}
	w.emit(verifEv{"e": "reset", "period": period, "quota": quota, "align": align, "keys": keys})
	return pt
}

// sec is the local wall-clock second, relative to the trace's base
func (pt *perTrace) sec() int { return int(limLocalSec() - pt.base) }

func perKey(k int) string { return "k" + string(rune('0'+k)) }

func (pt *perTrace) take(o, k int, cancelled bool) {
	ctx := context.Background()
	if cancelled {
		c, cancel := context.WithCancel(ctx)
		cancel()
		ctx = c
	}
	s0 := pt.sec()
	if pt.opened[k] < 0 || !pt.w.m.Exists(pt.prefix+perKey(k)) {
		pt.opened[k] = pt.w.clk
		pt.ends[k] = pt.w.clk + int64(pt.period)*1000
		if pt.align {
			pt.ends[k] = pt.w.clk + int64(pt.period-s0%pt.period)*1000
		}
	}
	code, err := pt.lims[o%len(pt.lims)].TakeCtx(ctx, perKey(k))
	pt.w.emit(verifEv{"e": "take", "k": k, "code": code, "err": err != nil, "cx": cancelled, "s0": s0, "s1": pt.sec()})
}

// remaining life of key k's counter in the store (0: none): only used to aim clock advances
func (pt *perTrace) ttlMs(k int) int {
	key := pt.prefix + perKey(k)
	if !pt.w.m.Exists(key) {
		return 0
	}
	return int(pt.w.m.TTL(key) / time.Millisecond)
}

// advance aimed at the end of key k's period: by the store's ttl, or by the driver's own note
// of when it opened the period (the two differ if the implementation keeps periods wrongly)
func (pt *perTrace) aim(rnd interface{ Intn(int) int }, k int) int {
	rem := pt.ttlMs(k)
	if rnd.Intn(3) == 0 && pt.opened[k] >= 0 {
		rem = int(pt.ends[k] - pt.w.clk)
	}
	switch x := rnd.Intn(10); {
	case x < 2 && rem > 1:
		return rem - 1
	case x < 4 && rem > 0:
		return rem
	case x < 5 && rem > 0:
		return rem + 1
	case x < 7 && rem > 1:
		return 1 + rnd.Intn(rem)
	case x < 8:
		return pt.period * 1000
	default:
		return 1 + rnd.Intn(1200)
	}
}

func (pt *perTrace) end() { pt.w.fault("up", false) }

// TestVerifPeriodReplay replays TLC-generated histories (PeriodLimitMC, Emit = TRUE).
func TestVerifPeriodReplay(t *testing.T) {
	em := verifOpen(t)
	defer em.Close()
	defer limInstallClock()()
	keys := verifEnvInt("VERIF_PERIOD_KEYS", 2)
	closedEvery := verifEnvInt("VERIF_PERIOD_CLOSED_EVERY", 0)
	probe := verifEnvInt("VERIF_PERIOD_PROBE", 1) == 1
	var hs []perHistory
	for _, raw := range verifInput(t) {
		var h perHistory
		if err := json.Unmarshal(raw, &h); err != nil {
			t.Fatal(err)
		}
		hs = append(hs, h)
	}
	limRunTraces(t, em, limPar(), len(hs), func(w *limWorld, job int) {
		h := hs[job]
		pt := perBegin(w, h.Period, h.Quota, h.Align, 1+job%2, keys)
		for j, op := range h.Ops {
			if w.broken {
				return
			}
			switch op.Op {
			case "take":
				pt.take(j, op.K, false)
			case "advance":
				w.advance(op.V)
			case "fault":
				if op.V == 1 {
					w.fault("down", closedEvery > 0 && job%closedEvery == closedEvery-1)
				} else {
					w.fault("up", false)
				}
			default:
				t.Errorf("unknown op %q", op.Op)
				return
			}
		}
		pt.end()
		// closing probe of the period the history ended in: ask just before the end of the
		// period as the driver noted it, just after it, and fill the new period
		if probe && !w.broken {
			k := job % keys
			if pt.opened[k] >= 0 {
				if rem := int(pt.ends[k] - w.clk); rem > 1 {
					w.advance(rem - 1)
					pt.take(0, k, false)
					w.advance(1)
				}
			}
			for r := 0; r < h.Quota+1; r++ {
				pt.take(r, k, false)
			}
			if ttl := pt.ttlMs(k); ttl > 0 {
				w.advance(ttl)
				pt.take(0, k, false)
			}
		}
	})
}

// TestVerifPeriodRandom: long seeded sequential histories: (period, quota) in [1,6]^2 (and
// quota 0), 1..3 keys, 1..3 limiter objects, advances aimed at the end of the period, outages,
// Takes with a cancelled context, Align().
func TestVerifPeriodRandom(t *testing.T) {
	em := verifOpen(t)
	defer em.Close()
	defer limInstallClock()()
	traces, length := 100, 80
	if verifThorough() {
		traces, length = 500, 160
	}
	traces = verifEnvInt("VERIF_PERIOD_TRACES", traces)
	limRunTraces(t, em, limPar(), traces, func(w *limWorld, job int) {
		rnd := verifRand(5000 + int64(job))
		period, quota := 1+rnd.Intn(6), 1+rnd.Intn(6)
		if rnd.Intn(12) == 0 {
			quota = 0
		}
		keys := 1 + rnd.Intn(3)
		align := rnd.Intn(6) == 0
		pt := perBegin(w, period, quota, align, 1+rnd.Intn(3), keys)
		faulty := rnd.Intn(3) == 0
		closedOK := verifThorough() && job%25 == 3
		budget := 4
		ln := 20 + rnd.Intn(length)
		for j := 0; j < ln && !w.broken; j++ {
			k := rnd.Intn(keys)
			switch x := rnd.Intn(100); {
			case x < 60:
				pt.take(rnd.Intn(3), k, false)
			case x < 63:
				pt.take(rnd.Intn(3), k, true)
			case x < 67:
				// an outage that lasts for one command (the first or the second of the call)
				w.glitch(1+rnd.Intn(2), func() { pt.take(rnd.Intn(3), k, false) })
			case x < 92:
				w.advance(pt.aim(rnd, k))
			default:
				if !faulty {
					pt.take(rnd.Intn(3), k, false)
					break
				}
				if w.mode == "up" && budget > 0 {
					budget--
					w.fault("down", closedOK && rnd.Intn(2) == 0)
				} else if w.mode == "down" {
					w.fault("up", false)
				}
			}
			if w.mode == "down" && rnd.Intn(4) == 0 {
				w.fault("up", false)
			}
		}
		pt.end()
	})
}

// TestVerifPeriodConcurrent: rounds of simultaneous Takes from several goroutines on the keys of
// one limiter (sometimes with a clock jump aimed at the end of the period, or the store going
// down, at the same time); callStart before the call, callEnd after it returned; TLC finds the
// linearisation.
func TestVerifPeriodConcurrent(t *testing.T) {
	em := verifOpen(t)
	defer em.Close()
	defer limInstallClock()()
	traces, rounds := 80, 8
	if verifThorough() {
		traces, rounds = 400, 12
	}
	traces = verifEnvInt("VERIF_PERIOD_TRACES", traces)
	limRunTraces(t, em, limPar(), traces, func(w *limWorld, job int) {
		rnd := verifRand(9000 + 31*int64(runtime.GOMAXPROCS(0)) + int64(job))
		period, quota := 1+rnd.Intn(4), 1+rnd.Intn(6)
		keys := 1 + rnd.Intn(2)
		pt := perBegin(w, period, quota, rnd.Intn(5) == 0, 1+rnd.Intn(3), keys)
		faulty := rnd.Intn(3) == 0
		for rd := 0; rd < rounds && !w.broken; rd++ {
			k := 2 + rnd.Intn(7)
			adv := -1
			if rnd.Intn(3) == 0 {
				adv = pt.aim(rnd, rnd.Intn(keys))
			}
			midFault := faulty && w.mode == "up" && rnd.Intn(4) == 0
			start := make(chan struct{})
			var wg sync.WaitGroup
			for c := 0; c < k; c++ {
				wg.Add(1)
				go func(o, key, spin int) {
					defer wg.Done()
					<-start
					for s := 0; s < spin; s++ {
						runtime.Gosched()
					}
					id := int(atomic.AddInt64(&perCallSeq, 1))
					w.emit(verifEv{"e": "callStart", "c": id, "k": key, "d": 0, "s0": pt.sec()})
					code, err := pt.lims[o%len(pt.lims)].Take(perKey(key))
					w.emit(verifEv{"e": "callEnd", "c": id, "code": code, "err": err != nil, "s1": pt.sec()})
				}(rnd.Intn(3), rnd.Intn(keys), rnd.Intn(4))
			}
			close(start)
			if midFault {
				w.fault("down", false)
			}
			if adv >= 0 {
				for s := rnd.Intn(4); s > 0; s-- {
					runtime.Gosched()
				}
				id := int(atomic.AddInt64(&perCallSeq, 1))
				w.emit(verifEv{"e": "callStart", "c": id, "k": -1, "d": adv, "s0": 0})
				w.m.FastForward(time.Duration(adv) * time.Millisecond)
				w.clk += int64(adv)
				w.emit(verifEv{"e": "callEnd", "c": id, "code": 0, "err": false, "s1": 0})
			}
			wg.Wait()
			if w.mode == "down" {
				w.fault("up", false)
			}
			for s := rnd.Intn(3); s > 0; s-- {
				if rnd.Intn(2) == 0 {
					pt.take(rnd.Intn(3), rnd.Intn(keys), false)
				} else {
					w.advance(pt.aim(rnd, rnd.Intn(keys)))
				}
			}
		}
		pt.end()
	})
}

// TestVerifPeriodAligned: Align() limiters - the period is the aligned one of the local wall clock,
// which core/limit reads with time.Now() (no hook), so real time takes part:
//   - the limiter objects of the "aged" traces are built first, then the driver lets the wall clock
//     move on (a little over a second, so that it shows another second of the aligned period than at
//     their birth) before it uses them; the other traces build theirs on the spot;
//   - flavour "virtual": the store's clock moves by FastForward only, aimed at the end of the period
//     as the store's ttl has it and as the driver's own wall-clock read has it (just before, at, just
//     after), the quota is exhausted again and again over several periods;
//   - flavour "wall" (thorough): the store's clock follows real time (FastForward by the real time
//     elapsed since the last step) over three to four aligned periods of 2..3 s, Takes every
//     100..300 ms.
// Every Take logs the wall-clock second before and after the call; nothing is judged here.
func TestVerifPeriodAligned(t *testing.T) {
	em := verifOpen(t)
	defer em.Close()
	defer limInstallClock()()
	logx.Disable()
	virt, wall := 24, 0
	if verifThorough() {
		virt, wall = 160, 12
	}
	virt = verifEnvInt("VERIF_ALIGN_TRACES", virt)
	wall = verifEnvInt("VERIF_ALIGN_WALL", wall)
	type job struct {
		period, quota, keys, objects int
		wall                         bool
		prefix                       string
		lims                         []*PeriodLimit // built ahead (aged) or nil
	}
	par := 8
	if verifThorough() {
		par = 16
	}
	if par > virt+wall {
		par = virt + wall
	}
	worlds := make([]*limWorld, par)
	for p := range worlds {
		if worlds[p] = newLimWorld(t); worlds[p] == nil {
			t.Fatal("cannot start a miniredis store")
		}
	}
	defer func() {
		for _, w := range worlds {
			w.close()
		}
	}()
	jobs := make([]job, virt+wall)
	born := limLocalSec()
	for j := range jobs {
		rnd := verifRand(13000 + int64(j))
		jb := job{period: 2 + rnd.Intn(5), quota: 1 + rnd.Intn(3), keys: 1 + rnd.Intn(2), objects: 1 + rnd.Intn(2),
			prefix: limFreshKey("verif-al") + ":"}
		if j >= virt {
			jb.wall, jb.period, jb.keys = true, 2+rnd.Intn(2), 1
		}
		if j%4 != 3 { // three of four traces use objects built now, i.e. before the wall clock moves on
			jb.lims = perBuild(worlds[j%par], jb.period, jb.quota, true, jb.objects, jb.prefix)
		}
		jobs[j] = jb
	}
	// let the wall clock leave the second (of the aligned period) the objects were born in
	for start := time.Now(); limLocalSec() == born || time.Since(start) < 1100*time.Millisecond; {
		time.Sleep(20 * time.Millisecond)
	}
	var wg sync.WaitGroup
	for p := range worlds {
		wg.Add(1)
		go func(p int) {
			defer wg.Done()
			w := worlds[p]
			for j := p; j < len(jobs); j += par {
				jb := jobs[j]
				rnd := verifRand(13500 + int64(j))
				w.evs = w.evs[:0]
				w.clk = 0
				lims := jb.lims
				if lims == nil {
					lims = perBuild(w, jb.period, jb.quota, true, jb.objects, jb.prefix)
				}
				pt := perBeginWith(w, lims, jb.prefix, jb.period, jb.quota, true, jb.keys)
				if jb.wall {
					perWallTrace(pt, rnd, jb.quota)
				} else {
					perVirtualTrace(pt, rnd, jb.quota)
				}
				limFlush(em, w.evs)
			}
		}(p)
	}
	wg.Wait()
	limCheckStall(t)
}

// several periods of one key (and a second key now and then): exhaust the quota, go to the end of
// the period, ask on both sides of it
func perVirtualTrace(pt *perTrace, rnd interface{ Intn(int) int }, quota int) {
	w := pt.w
	for round := 0; round < 4; round++ {
		k := rnd.Intn(pt.keys)
		for r := rnd.Intn(quota + 2); r >= 0; r-- {
			pt.take(rnd.Intn(3), k, false)
		}
		if rnd.Intn(3) == 0 {
			w.advance(1 + rnd.Intn(1000))
			pt.take(rnd.Intn(3), k, false)
		}
		for s := 0; s < 3; s++ {
			w.advance(pt.aim(rnd, k))
			pt.take(rnd.Intn(3), k, false)
			if rnd.Intn(2) == 0 {
				pt.take(rnd.Intn(3), rnd.Intn(pt.keys), false)
			}
		}
	}
}

// the store's clock follows the wall clock
func perWallTrace(pt *perTrace, rnd interface{ Intn(int) int }, quota int) {
	w := pt.w
	start := time.Now()
	synced := start
	total := time.Duration(pt.period)*3*time.Second + time.Duration(rnd.Intn(1500))*time.Millisecond
	for time.Since(start) < total {
		time.Sleep(time.Duration(100+rnd.Intn(200)) * time.Millisecond)
		now := time.Now()
		if d := int(now.Sub(synced) / time.Millisecond); d > 0 {
			w.advance(d)
			synced = synced.Add(time.Duration(d) * time.Millisecond)
		}
		for r := rnd.Intn(quota + 1); r >= 0; r-- {
			pt.take(rnd.Intn(3), 0, false)
		}
	}
}
