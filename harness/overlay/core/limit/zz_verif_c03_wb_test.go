//go:build verif && !verifnowb

package limit

// C03 white-box accessors: the only place in the core/limit drivers that names unexported fields of
// TokenLimiter (the alive flag and the monitor flag under the rescue lock).  The token-limiter drivers log an
// instance's recovery when they OBSERVE it, never assume it, and for that they need these two flags.  When
// this file stops compiling (fields renamed or re-typed), the runner retries with tag verifnowb and
// zz_verif_c03_nowb_test.go takes its place: the token-limiter drivers then skip themselves (one "info" event)
// and the check decides the period limiter and the design-level models only.

import "sync/atomic"

const tokWB = true

func tokAliveFlag(l *TokenLimiter) uint32 { return atomic.LoadUint32(&l.redisAlive) }

// tokFlags: state of the instance's fallback machinery, read under its lock.
func tokFlags(l *TokenLimiter) (alive bool, monitor bool) {
	l.rescueLock.Lock()
	alive = atomic.LoadUint32(&l.redisAlive) == 1
	monitor = l.monitorStarted
	l.rescueLock.Unlock()
	return
}
