//go:build verif

package bloom

// Extension "bloom" (host C19, advisory): bloom.Filter objects on keys of a miniredis store whose
// clock only moves by FastForward. The drivers perform histories (TLC-generated, seeded random,
// concurrent rounds, command-level scheduling) and record what the real code answered. They hold
// no expectations: the verdict comes from TLC validating the trace against specs/bloom/Bloom.tla
// (and, for the bits of small filters, specs/bloom/BloomBits.tla).

import (
	"bytes"
	"context"
	"encoding/json"
	"errors"
	"fmt"
	"math/rand"
	"net"
	"reflect"
	"runtime"
	"strings"
	"sync"
	"sync/atomic"
	"testing"
	"time"

	"github.com/alicebob/miniredis/v2"
	"github.com/alicebob/miniredis/v2/server"
	"github.com/zeromicro/go-zero/core/logx"
	"github.com/zeromicro/go-zero/core/stores/redis"
)

type verifExtbloomOp struct {
	Op  string `json:"op"`
	F   int    `json:"f"`
	X   int    `json:"x"`
	S   int    `json:"s"`
	Bad bool   `json:"bad"`
}

// verifExtbloomWorld is one store (miniredis + go-zero client). A history that injected an
// outage is followed by a fresh world (fresh breaker, fresh connection pool), so that one
// history's outage does not turn later answers into errors.
type verifExtbloomWorld struct {
	t     *testing.T
	em    *verifEmitter
	m     *miniredis.Miniredis
	r     *redis.Redis
	mode  string // "up" | "err" | "closed"
	dirty bool
	dead  bool
	keys  []string  // key names of the running trace (index k-1)
	flt   []*Filter // Filter objects of the running trace (index f-1)
	fkey  []int     // key index (1-based) of every filter
	fbits []uint    // bits of every filter
	elems [][]byte  // element contents (index x-1)
	nbad  int
}

var (
	verifExtbloomKeySeq  int64
	verifExtbloomCallSeq int64
)

func verifExtbloomNewWorld(t *testing.T, em *verifEmitter) *verifExtbloomWorld {
	logx.Disable()
	for attempt := 0; attempt < 50; attempt++ {
		m, err := miniredis.Run()
		if err != nil {
			time.Sleep(10 * time.Millisecond)
			continue
		}
		r := redis.New(m.Addr())
		// the client pool is cached per address; a recycled port may map to a client with dead
		// connections - probe and take another port in that case
		if !r.Ping() {
			m.Close()
			continue
		}
		return &verifExtbloomWorld{t: t, em: em, m: m, r: r, mode: "up"}
	}
	t.Fatal("cannot start a miniredis store")
	return nil
}

func (w *verifExtbloomWorld) shutdown() {
	if w.mode == "err" {
		w.m.SetError("")
	}
	w.m.Close()
}

// next returns a world fit for a new history.
func (w *verifExtbloomWorld) next() *verifExtbloomWorld {
	if w.dirty || w.dead || w.mode != "up" {
		w.shutdown()
		return verifExtbloomNewWorld(w.t, w.em)
	}
	return w
}

// begin starts a new trace: filters[i] = {key index (1-based), bits}; fresh key names.
func (w *verifExtbloomWorld) begin(filters [][2]int, elems [][]byte) {
	nk := 0
	for _, f := range filters {
		if f[0] > nk {
			nk = f[0]
		}
	}
	w.keys = w.keys[:0]
	for k := 0; k < nk; k++ {
		w.keys = append(w.keys, fmt.Sprintf("verif-bloom-%d", atomic.AddInt64(&verifExtbloomKeySeq, 1)))
	}
	w.flt, w.fkey, w.fbits = w.flt[:0], w.fkey[:0], w.fbits[:0]
	for _, f := range filters {
		w.flt = append(w.flt, New(w.r, w.keys[f[0]-1], uint(f[1])))
		w.fkey = append(w.fkey, f[0])
		w.fbits = append(w.fbits, uint(f[1]))
	}
	w.elems = elems
	w.em.Emit(verifEv{"e": "reset", "flt": filters, "nk": nk})
}

// arg returns the element as a slice of exactly its length (no spare capacity).
func (w *verifExtbloomWorld) arg(x int) []byte {
	src := w.elems[x-1]
	if src == nil {
		return nil
	}
	out := make([]byte, len(src))
	copy(out, src)
	return out
}

// infra: a store call that timed out on a store nobody disturbed is the machine being too busy, not
// an answer of the code under test (a bounded wait that expires is infrastructure).
func (w *verifExtbloomWorld) infra(err error) {
	if err == nil || w.dirty {
		return
	}
	var ne net.Error
	if errors.As(err, &ne) && ne.Timeout() {
		w.t.Fatalf("infrastructure: store call timed out on an undisturbed store: %v", err)
	}
}

func (w *verifExtbloomWorld) ev(op string, f, x, s int, bad, r bool, err error, clob, spare bool) {
	w.infra(err)
	w.em.Emit(verifEv{"e": op, "f": f, "x": x, "s": s, "bad": bad, "r": r, "err": err != nil,
		"clob": clob, "spare": spare})
}

// badOffsets: the positions of the element plus one offset that is out of range (equal to bits,
// just above, far above), at the front, in the middle or at the end.
func (w *verifExtbloomWorld) badOffsets(f, x int) []uint {
	fl := w.flt[f-1]
	offs := fl.getLocations(w.arg(x))
	w.nbad++
	var bad uint
	switch w.nbad % 3 {
	case 0:
		bad = fl.bits
	case 1:
		bad = fl.bits + 1
	default:
		bad = fl.bits + 1<<20
	}
	at := (w.nbad / 3) % (len(offs) + 1)
	out := append([]uint{}, offs[:at]...)
	out = append(out, bad)
	return append(out, offs[at:]...)
}

func (w *verifExtbloomWorld) add(f, x int, bad bool) {
	if bad {
		err := w.flt[f-1].bitSet.set(context.Background(), w.badOffsets(f, x))
		w.ev("add", f, x, 0, true, false, err, false, false)
		return
	}
	a := w.arg(x)
	err := w.flt[f-1].Add(a)
	w.ev("add", f, x, 0, false, false, err, !bytes.Equal(a, w.elems[x-1]), false)
}

func (w *verifExtbloomWorld) exists(f, x int, bad bool) {
	if bad {
		r, err := w.flt[f-1].bitSet.check(context.Background(), w.badOffsets(f, x))
		w.ev("exists", f, x, 0, true, r, err, false, false)
		return
	}
	a := w.arg(x)
	r, err := w.flt[f-1].Exists(a)
	w.ev("exists", f, x, 0, false, r, err, !bytes.Equal(a, w.elems[x-1]), false)
}

func (w *verifExtbloomWorld) rbs(f int) *redisBitSet { return w.flt[f-1].bitSet.(*redisBitSet) }

func (w *verifExtbloomWorld) del(f int) {
	err := w.rbs(f).del()
	w.ev("del", f, 0, 0, false, false, err, false, false)
}

func (w *verifExtbloomWorld) expire(f, s int) {
	err := w.rbs(f).expire(s)
	w.ev("expire", f, 0, s, false, false, err, false, false)
}

func (w *verifExtbloomWorld) advance(d int64) {
	if d <= 0 || d > 1<<30 {
		return
	}
	w.m.FastForward(time.Duration(d) * time.Millisecond)
	w.em.Emit(verifEv{"e": "advance", "d": d})
}

// fault switches the store between up, answering every command with an error, and closed.
func (w *verifExtbloomWorld) fault(mode string) {
	if mode == w.mode || w.dead {
		return
	}
	if w.mode == "closed" {
		ok := false
		for attempt := 0; attempt < 100; attempt++ {
			if err := w.m.Restart(); err == nil {
				ok = true
				break
			}
			time.Sleep(5 * time.Millisecond)
		}
		if !ok {
			w.dead = true
			return
		}
	} else if w.mode == "err" {
		w.m.SetError("")
	}
	switch mode {
	case "err":
		w.m.SetError("ERR verif injected outage")
	case "closed":
		w.m.Close()
	}
	w.mode = mode
	w.dirty = true
	w.em.Emit(verifEv{"e": "fault", "mode": mode})
}

// flaky announces that single commands may be refused from now on (command-level scheduler).
func (w *verifExtbloomWorld) flaky() {
	w.dirty = true
	w.em.Emit(verifEv{"e": "fault", "mode": "flaky"})
}

// ttlMs is the remaining life of key k in the store (0: none); also used to aim clock advances.
func (w *verifExtbloomWorld) ttlMs(k int) int64 {
	if !w.m.Exists(w.keys[k-1]) {
		return 0
	}
	return int64(w.m.TTL(w.keys[k-1]) / time.Millisecond)
}

// obs records key k as the store has it (no call to the code under test): does it exist, its
// remaining life, and - for strings of at most 32 bytes - which bits are 1.
func (w *verifExtbloomWorld) obs(k int) {
	if w.mode == "closed" || w.dead {
		return
	}
	key := w.keys[k-1]
	live := w.m.Exists(key)
	bits := []int{}
	seen := true
	if live {
		val, err := w.m.Get(key)
		if err != nil || len(val) > 32 {
			seen = false
		} else {
			for i := 0; i < len(val); i++ {
				for b := 0; b < 8; b++ {
					if val[i]&(1<<uint(7-b)) != 0 {
						bits = append(bits, i*8+b)
					}
				}
			}
		}
	}
	w.em.Emit(verifEv{"e": "obs", "k": k, "live": live, "ttl": w.ttlMs(k), "seen": seen, "bits": bits})
}

func (w *verifExtbloomWorld) obsAll() {
	for k := 1; k <= len(w.keys); k++ {
		w.obs(k)
	}
}

// probe asks every filter for every element (black-box look at the state a history ended in).
func (w *verifExtbloomWorld) probe() {
	if w.dead || w.mode != "up" {
		return
	}
	for f := 1; f <= len(w.flt); f++ {
		for x := 1; x <= len(w.elems); x++ {
			w.exists(f, x, false)
		}
	}
}

// verifExtbloomElems draws n distinct elements: nil, empty, short, long, and pairs where one is
// the other plus a small byte (the filter hashes data ++ byte(i)).
func verifExtbloomElems(rnd *rand.Rand, n int) [][]byte {
	seen := map[string]bool{}
	out := make([][]byte, 0, n)
	for len(out) < n {
		var e []byte
		switch c := rnd.Intn(10); {
		case c == 0 && rnd.Intn(2) == 0:
			e = nil
		case c == 0:
			e = []byte{}
		case c == 1 && len(out) > 0:
			e = append(append([]byte{}, out[rnd.Intn(len(out))]...), byte(rnd.Intn(14)))
		case c < 6:
			e = make([]byte, 1+rnd.Intn(8))
			rnd.Read(e)
		case c < 9:
			e = []byte(fmt.Sprintf("user:%d", rnd.Intn(1000)))
		default:
			e = make([]byte, 100+rnd.Intn(400))
			rnd.Read(e)
		}
		if seen[string(e)] {
			continue
		}
		seen[string(e)] = true
		out = append(out, e)
	}
	return out
}

// geometries: tiny ones (everything collides), byte boundaries, realistic ones
var verifExtbloomBits = []int{1, 2, 3, 7, 8, 9, 16, 31, 64, 100, 128, 255, 256, 1000, 4096, 65536, 1 << 20}

func (w *verifExtbloomWorld) doOp(op verifExtbloomOp, hi int) {
	switch op.Op {
	case "add":
		w.add(op.F, op.X, op.Bad)
	case "exists":
		w.exists(op.F, op.X, op.Bad)
	case "del":
		w.del(op.F)
	case "expire":
		w.expire(op.F, op.S)
	case "advance":
		w.advance(int64(op.S))
	case "fault":
		switch {
		case op.S == 0:
			w.fault("up")
		case hi%25 == 0:
			w.fault("closed")
		default:
			w.fault("err")
		}
	default:
		w.t.Fatalf("unknown op %q", op.Op)
	}
}

// TestVerifExtbloomReplay replays TLC-generated operation histories (BloomMC, GSpec) on the filter
// table FT4 of Bloom.tla: filters 1, 2 = key 1 with geometry A, filter 3 = key 1 with geometry B,
// filter 4 = key 2 with geometry A. The geometries rotate with the history.
func TestVerifExtbloomReplay(t *testing.T) {
	em := verifOpen(t)
	defer em.Close()
	rnd := verifRand(1901)
	geo := [][2]int{{64, 8}, {65536, 1000}, {7, 5}, {2, 1}, {128, 256}, {1 << 20, 4096}, {9, 16}, {100, 31}}
	w := verifExtbloomNewWorld(t, em)
	defer func() { w.shutdown() }()
	for hi, raw := range verifInput(t) {
		var ops []verifExtbloomOp
		if err := json.Unmarshal(raw, &ops); err != nil {
			t.Fatal(err)
		}
		w = w.next()
		g := geo[(hi+int(verifSeed()))%len(geo)]
		nx := 2
		for _, op := range ops {
			if op.X > nx {
				nx = op.X
			}
		}
		w.begin([][2]int{{1, g[0]}, {1, g[0]}, {1, g[1]}, {2, g[0]}}, verifExtbloomElems(rnd, nx))
		for _, op := range ops {
			if w.dead {
				break
			}
			w.doOp(op, hi)
			w.obsAll()
		}
		w.probe()
	}
}

// TestVerifExtbloomRandom: long seeded sequential histories: 1..3 keys, 1..5 filters (same key and
// geometry, same key and another geometry, other keys), 2..6 elements, clock advances aimed at the
// expiry boundary, outages, out-of-range offsets.
func TestVerifExtbloomRandom(t *testing.T) {
	em := verifOpen(t)
	defer em.Close()
	rnd := verifRand(1902)
	histories, length := 60, 80
	if verifThorough() {
		histories, length = 100, 110
	}
	w := verifExtbloomNewWorld(t, em)
	defer func() { w.shutdown() }()
	for h := 0; h < histories; h++ {
		w = w.next()
		nk := 1 + rnd.Intn(3)
		nf := nk + rnd.Intn(4)
		pal := []int{verifExtbloomBits[rnd.Intn(len(verifExtbloomBits))], verifExtbloomBits[rnd.Intn(len(verifExtbloomBits))]}
		filters := make([][2]int, nf)
		for i := range filters {
			k := i + 1
			if i >= nk {
				k = 1 + rnd.Intn(nk)
			}
			filters[i] = [2]int{k, pal[rnd.Intn(4)/3]}
		}
		nx := 2 + rnd.Intn(5)
		w.begin(filters, verifExtbloomElems(rnd, nx))
		faulty := rnd.Intn(5) == 0
		errBudget := 4
		ln := 20 + rnd.Intn(length)
		for k := 0; k < ln && !w.dead; k++ {
			f := 1 + rnd.Intn(nf)
			x := 1 + rnd.Intn(nx)
			switch c := rnd.Intn(100); {
			case c < 28:
				w.add(f, x, false)
			case c < 62:
				w.exists(f, x, false)
			case c < 67:
				w.del(f)
			case c < 74:
				w.expire(f, []int{1, 1, 2, 3, 10, 0, -1}[rnd.Intn(7)])
			case c < 88:
				ttl := w.ttlMs(w.fkey[f-1])
				var d int64
				switch y := rnd.Intn(8); {
				case y < 2 && ttl > 1:
					d = ttl - 1
				case y < 4 && ttl > 0:
					d = ttl
				case y < 5 && ttl > 0:
					d = ttl + 1
				case y < 6 && ttl > 1:
					d = 1 + rnd.Int63n(ttl)
				default:
					d = 1 + rnd.Int63n(1500)
				}
				w.advance(d)
			case c < 94:
				if rnd.Intn(2) == 0 {
					w.add(f, x, true)
				} else {
					w.exists(f, x, true)
				}
			default:
				if !faulty {
					w.exists(f, x, false)
					break
				}
				if w.mode != "up" {
					w.fault("up")
				} else if errBudget > 0 {
					errBudget--
					if rnd.Intn(4) == 0 {
						w.fault("closed")
					} else {
						w.fault("err")
					}
				}
			}
			if w.mode != "up" && rnd.Intn(3) == 0 { // keep outages short
				w.fault("up")
			}
			w.obsAll()
		}
		if w.mode != "up" {
			w.fault("up")
		}
		if !w.dirty {
			w.probe()
		}
	}
}

type verifExtbloomCall struct {
	op   string
	f, x int
	s    int
}

func (w *verifExtbloomWorld) randomCall(rnd *rand.Rand, nf, nx int) verifExtbloomCall {
	cl := verifExtbloomCall{op: "exists", f: 1 + rnd.Intn(nf), x: 1 + rnd.Intn(nx)}
	switch c := rnd.Intn(20); {
	case c < 8:
		cl.op = "add"
	case c < 16:
	case c < 18:
		cl.op, cl.x = "del", 0
	default:
		cl.op, cl.x, cl.s = "expire", 0, []int{1, 2, 0}[rnd.Intn(3)]
	}
	return cl
}

// invoke performs one call between callStart and callEnd.
func (w *verifExtbloomWorld) invoke(cl verifExtbloomCall) {
	id := int(atomic.AddInt64(&verifExtbloomCallSeq, 1))
	w.em.Emit(verifEv{"e": "callStart", "c": id, "op": cl.op, "f": cl.f, "x": cl.x, "s": cl.s, "bad": false, "buf": 0})
	var r, clob bool
	var err error
	switch cl.op {
	case "add":
		a := w.arg(cl.x)
		err = w.flt[cl.f-1].Add(a)
		clob = !bytes.Equal(a, w.elems[cl.x-1])
	case "exists":
		a := w.arg(cl.x)
		r, err = w.flt[cl.f-1].Exists(a)
		clob = !bytes.Equal(a, w.elems[cl.x-1])
	case "del":
		err = w.rbs(cl.f).del()
	case "expire":
		err = w.rbs(cl.f).expire(cl.s)
	}
	w.infra(err)
	w.em.Emit(verifEv{"e": "callEnd", "c": id, "r": r, "err": err != nil, "clob": clob, "spare": false})
}

func (w *verifExtbloomWorld) smallWorldTrace(rnd *rand.Rand) (nf, nx int) {
	nk := 1 + rnd.Intn(2)
	nf = nk + 1 + rnd.Intn(3)
	pal := []int{verifExtbloomBits[rnd.Intn(len(verifExtbloomBits))], verifExtbloomBits[rnd.Intn(len(verifExtbloomBits))]}
	filters := make([][2]int, nf)
	for i := range filters {
		k := i + 1
		if i >= nk {
			k = 1 + rnd.Intn(nk)
		}
		filters[i] = [2]int{k, pal[rnd.Intn(4)/3]}
	}
	nx = 2 + rnd.Intn(3)
	w.begin(filters, verifExtbloomElems(rnd, nx))
	return nf, nx
}

// TestVerifExtbloomConcurrent: rounds of simultaneous Add / Exists / Del / Expire from several
// goroutines (and sometimes a clock jump at the same time), separated by sequential steps.
func TestVerifExtbloomConcurrent(t *testing.T) {
	em := verifOpen(t)
	defer em.Close()
	rnd := verifRand(1903 + int64(runtime.GOMAXPROCS(0)))
	traces, rounds := 25, 6
	if verifThorough() {
		traces, rounds = 80, 8
	}
	w := verifExtbloomNewWorld(t, em)
	defer func() { w.shutdown() }()
	for tr := 0; tr < traces; tr++ {
		w = w.next()
		nf, nx := w.smallWorldTrace(rnd)
		for rd := 0; rd < rounds; rd++ {
			k := 2 + rnd.Intn(4)
			calls := make([]verifExtbloomCall, k)
			spins := make([]int, k)
			for c := range calls {
				calls[c] = w.randomCall(rnd, nf, nx)
				spins[c] = rnd.Intn(4)
			}
			adv := int64(-1)
			if rnd.Intn(3) == 0 {
				ttl := w.ttlMs(1)
				switch y := rnd.Intn(4); {
				case y == 0 && ttl > 1:
					adv = ttl - 1
				case y == 1 && ttl > 0:
					adv = ttl
				case y == 2 && ttl > 0:
					adv = ttl + 1
				default:
					adv = 1 + rnd.Int63n(1200)
				}
			}
			start := make(chan struct{})
			var wg sync.WaitGroup
			for c := range calls {
				wg.Add(1)
				go func(cl verifExtbloomCall, spin int) {
					defer wg.Done()
					<-start
					for s := 0; s < spin; s++ {
						runtime.Gosched()
					}
					w.invoke(cl)
				}(calls[c], spins[c])
			}
			close(start)
			if adv > 0 {
				for s := 0; s < rnd.Intn(4); s++ {
					runtime.Gosched()
				}
				id := int(atomic.AddInt64(&verifExtbloomCallSeq, 1))
				em.Emit(verifEv{"e": "callStart", "c": id, "op": "advance", "f": 0, "x": 0, "s": adv, "bad": false, "buf": 0})
				w.m.FastForward(time.Duration(adv) * time.Millisecond)
				em.Emit(verifEv{"e": "callEnd", "c": id, "r": false, "err": false, "clob": false, "spare": false})
			}
			wg.Wait()
			w.obsAll()
			// sequential interlude
			for s := rnd.Intn(3); s > 0; s-- {
				f, x := 1+rnd.Intn(nf), 1+rnd.Intn(nx)
				switch rnd.Intn(4) {
				case 0:
					w.add(f, x, false)
				case 1:
					if ttl := w.ttlMs(w.fkey[f-1]); ttl > 0 {
						w.advance(ttl - 1 + rnd.Int63n(3))
					} else {
						w.advance(1 + rnd.Int63n(500))
					}
				default:
					w.exists(f, x, false)
				}
				w.obsAll()
			}
		}
		w.probe()
	}
}

// ---- command-level scheduler -------------------------------------------------------
//
// verifExtbloomGate is installed as miniredis' pre-command hook: every command a client sends
// (EVALSHA/EVAL of the two scripts, DEL, EXPIRE today; SETBIT/GETBIT ... if the implementation
// ever splits a call into several commands) waits at the gate until the driver lets it through.
// With all running calls parked at the gate the driver decides which command the store executes
// next and may move the clock in between: calls are interleaved at the granularity of store
// commands, deterministically (seeded), without touching go-zero.
type verifExtbloomGate struct {
	mu      sync.Mutex
	cond    *sync.Cond
	on      bool
	waiting []chan bool // parked commands; send true to let it run, false to fail it
	running int         // calls started and not returned
	expired bool
}

var verifExtbloomGatePass = map[string]bool{"HELLO": true, "CLIENT": true, "PING": true, "AUTH": true,
	"SELECT": true, "QUIT": true, "COMMAND": true}

// commands issued by redis.call inside a script run under the store lock and are not parked
func verifExtbloomNested(c *server.Peer) bool {
	if c == nil || c.Ctx == nil {
		return false
	}
	v := reflect.ValueOf(c.Ctx)
	for v.Kind() == reflect.Ptr || v.Kind() == reflect.Interface {
		if v.IsNil() {
			return false
		}
		v = v.Elem()
	}
	if v.Kind() != reflect.Struct {
		return false
	}
	f := v.FieldByName("nested")
	return f.IsValid() && f.Kind() == reflect.Bool && f.Bool()
}

func (g *verifExtbloomGate) hook(c *server.Peer, cmd string, args ...string) bool {
	if verifExtbloomGatePass[strings.ToUpper(cmd)] || verifExtbloomNested(c) {
		return false
	}
	g.mu.Lock()
	if !g.on {
		g.mu.Unlock()
		return false
	}
	ch := make(chan bool, 1)
	g.waiting = append(g.waiting, ch)
	g.cond.Broadcast()
	g.mu.Unlock()
	if <-ch {
		return false
	}
	c.WriteError("ERR verif injected failure")
	return true
}

// settle waits until every running call is parked at the gate (or none is running).
func (g *verifExtbloomGate) settle(t *testing.T) (parked, running int) {
	timer := time.AfterFunc(60*time.Second, func() {
		g.mu.Lock()
		g.expired = true
		g.cond.Broadcast()
		g.mu.Unlock()
	})
	defer timer.Stop()
	g.mu.Lock()
	defer g.mu.Unlock()
	for len(g.waiting) != g.running && !g.expired {
		g.cond.Wait()
	}
	if g.expired {
		for _, ch := range g.waiting {
			ch <- true
		}
		n := len(g.waiting)
		g.waiting = nil
		g.on = false
		t.Fatalf("bloom scheduler: calls neither parked nor returned (parked %d, running %d)", n, g.running)
	}
	return len(g.waiting), g.running
}

func (g *verifExtbloomGate) release(k int, run bool) {
	g.mu.Lock()
	ch := g.waiting[k]
	g.waiting = append(g.waiting[:k], g.waiting[k+1:]...)
	g.mu.Unlock()
	ch <- run
}

// TestVerifExtbloomSched: rounds of 2..4 overlapping calls whose store commands are released one
// at a time in a seeded order, with clock jumps aimed at the expiry boundary between them and
// occasional injected command failures.
func TestVerifExtbloomSched(t *testing.T) {
	em := verifOpen(t)
	defer em.Close()
	rnd := verifRand(1904)
	traces, rounds := 30, 6
	if verifThorough() {
		traces, rounds = 100, 8
	}
	w := verifExtbloomNewWorld(t, em)
	defer func() { w.shutdown() }()
	g := &verifExtbloomGate{}
	g.cond = sync.NewCond(&g.mu)
	for tr := 0; tr < traces; tr++ {
		if w.dirty || w.dead || tr == 0 {
			if tr > 0 {
				w.shutdown()
				w = verifExtbloomNewWorld(t, em)
			}
			w.m.Server().SetPreHook(g.hook)
		}
		nf, nx := w.smallWorldTrace(rnd)
		failing := rnd.Intn(4) == 0
		if failing {
			w.flaky()
		}
		for rd := 0; rd < rounds; rd++ {
			k := 2 + rnd.Intn(3)
			calls := make([]verifExtbloomCall, k)
			for c := range calls {
				calls[c] = w.randomCall(rnd, nf, nx)
			}
			// rounds built around one element: its Add racing Del / Expire / Exists on the same key
			if rnd.Intn(2) == 0 {
				f, x := 1+rnd.Intn(nf), 1+rnd.Intn(nx)
				calls[0] = verifExtbloomCall{op: "add", f: f, x: x}
				calls[1] = verifExtbloomCall{op: []string{"del", "exists", "expire"}[rnd.Intn(3)], f: f, x: x}
				if calls[1].op != "exists" {
					calls[1].x = 0
				}
			}
			g.mu.Lock()
			g.on = true
			g.running = k
			g.mu.Unlock()
			for c := range calls {
				go func(cl verifExtbloomCall) {
					w.invoke(cl)
					g.mu.Lock()
					g.running--
					g.cond.Broadcast()
					g.mu.Unlock()
				}(calls[c])
			}
			for {
				parked, running := g.settle(t)
				if running == 0 {
					break
				}
				if rnd.Intn(3) == 0 {
					ttl := w.ttlMs(1 + rnd.Intn(len(w.keys)))
					switch y := rnd.Intn(5); {
					case y == 0 && ttl > 1:
						w.advance(ttl - 1)
					case y <= 2 && ttl > 0:
						w.advance(ttl)
					case y == 3 && ttl > 0:
						w.advance(ttl + 1)
					default:
						w.advance(1 + rnd.Int63n(800))
					}
				}
				g.release(rnd.Intn(parked), !(failing && rnd.Intn(6) == 0))
			}
			g.mu.Lock()
			g.on = false
			g.mu.Unlock()
			w.obsAll()
			if rnd.Intn(3) == 0 {
				w.exists(1+rnd.Intn(nf), 1+rnd.Intn(nx), false)
				w.obsAll()
			}
		}
		if !failing {
			w.probe()
		}
	}
}

// ---- the caller's buffer -------------------------------------------------------------
//
// TestVerifExtbloomAlias hands Add / Exists slices that have spare capacity behind their length
// (sub-slices of a larger buffer) and records whether the backing array changed; then rounds in
// which several goroutines are given the SAME sub-slice (legal for a read-only argument), followed
// by a look with a private copy.
func TestVerifExtbloomAlias(t *testing.T) {
	em := verifOpen(t)
	defer em.Close()
	rnd := verifRand(1905)
	w := verifExtbloomNewWorld(t, em)
	defer func() { w.shutdown() }()
	// one trace: (1) sequential calls with spare capacity behind the argument on key 1; (2) rounds,
	// each with its own key, filter and element: 1 Add and 3 Exists share one sub-slice
	rounds := 80
	if verifThorough() {
		rounds = 160
	}
	rounds = verifEnvInt("VERIF_EXTBLOOM_ALIAS_ROUNDS", rounds)
	nx := 4
	filters := [][2]int{{1, 4096}, {1, 4096}}
	elems := verifExtbloomElems(rnd, nx)
	for i := 0; i < rounds; i++ {
		filters = append(filters, [2]int{i + 2, 1 << 16})
		elems = append(elems, []byte(fmt.Sprintf("alias-%d-%d", i, rnd.Intn(1000000))))
	}
	w.begin(filters, elems)
	for i := 0; i < 12; i++ {
		x := 1 + i%nx
		src := w.elems[x-1]
		buf := make([]byte, len(src)+1+rnd.Intn(8))
		for j := range buf {
			buf[j] = 0xA5
		}
		copy(buf, src)
		want := append([]byte{}, buf...)
		a := buf[:len(src)]
		if i%2 == 0 {
			err := w.flt[i%2].Add(a)
			w.ev("add", 1+i%2, x, 0, false, false, err, !bytes.Equal(buf, want), true)
		} else {
			r, err := w.flt[i%2].Exists(a)
			w.ev("exists", 1+i%2, x, 0, false, r, err, !bytes.Equal(buf, want), true)
		}
	}
	for f := 1; f <= 2; f++ {
		for x := 1; x <= nx; x++ {
			w.exists(f, x, false)
		}
	}
	for rd := 1; rd <= rounds; rd++ {
		f, x := rd+2, rd+nx
		src := w.elems[x-1]
		buf := make([]byte, len(src)+8)
		copy(buf, src)
		want := append([]byte{}, buf...)
		a := buf[:len(src)]
		start := make(chan struct{})
		var wg sync.WaitGroup
		for c := 0; c < 4; c++ {
			wg.Add(1)
			go func(c int) {
				defer wg.Done()
				<-start
				id := int(atomic.AddInt64(&verifExtbloomCallSeq, 1))
				op := "exists"
				if c == 0 {
					op = "add"
				}
				em.Emit(verifEv{"e": "callStart", "c": id, "op": op, "f": f, "x": x, "s": 0, "bad": false, "buf": rd})
				var r bool
				var err error
				if c == 0 {
					err = w.flt[f-1].Add(a)
				} else {
					r, err = w.flt[f-1].Exists(a)
				}
				// the buffer is compared once all calls of the round are back (below)
				em.Emit(verifEv{"e": "callEnd", "c": id, "r": r, "err": err != nil, "clob": false, "spare": true})
			}(c)
		}
		close(start)
		wg.Wait()
		// a private copy: is the element there?  (clob: what the round did to the shared buffer)
		p := w.arg(x)
		r, err := w.flt[f-1].Exists(p)
		w.ev("exists", f, x, 0, false, r, err, !bytes.Equal(buf, want), true)
	}
}
