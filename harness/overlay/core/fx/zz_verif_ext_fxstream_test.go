//go:build verif

package fx

// Extension "fxstream" (host C05): drivers for the operators of fx.Stream.
//
// A case is a source (ints, emitted by a From generator that blocks at a gate owned by the
// driver), a chain of operators and a terminal operator.  The driver puts a TAP between every
// two stages (a goroutine that logs each item / the close it receives and forwards it on an
// unbuffered channel, i.e. what Buffer(0) does), runs construction + terminal operator in a
// call goroutine, and observes "at rest" from ONE atomic goroutine snapshot (runtime.Stack(all)
// stops the world): every goroutine with a frame of this package is blocked in a channel
// operation or WaitGroup.Wait.  No sleeps or time limits decide anything; a wait that does not
// end within verifExtfxstreamLong is an infrastructure failure (t.Fatal).
//
// Drive and record only: no expectations here.  TLC validates the recorded events against
// specs/fxstream/FxStream.tla (module FxTrace).

import (
	"bytes"
	"encoding/json"
	"runtime"
	"sort"
	"strconv"
	"sync"
	"sync/atomic"
	"testing"
	"time"

	"github.com/zeromicro/go-zero/core/logx"
)

const verifExtfxstreamLong = 60 * time.Second

type verifExtfxstreamOp struct {
	Op string  `json:"op"`
	N  int     `json:"n"`
	F  string  `json:"f"`
	W  int     `json:"w"`
	O  [][]int `json:"o"`
}

type verifExtfxstreamTerm struct {
	Op string `json:"op"`
	N  int    `json:"n"`
	F  string `json:"f"`
}

type verifExtfxstreamCase struct {
	Src  []int                `json:"src"`
	Gate int                  `json:"gate"`
	Ops  []verifExtfxstreamOp `json:"ops"`
	Term verifExtfxstreamTerm `json:"term"`
}

// ---- the user functions (same tables as FxOps.tla) -------------------------------------

var verifExtfxstreamTick uint32

// a little scheduling noise inside user callbacks (seeded by the call order only)
func verifExtfxstreamYield() {
	if n := atomic.AddUint32(&verifExtfxstreamTick, 1); n%3 == 0 {
		runtime.Gosched()
	}
}

func verifExtfxstreamMapF(f string) MapFunc {
	return func(item any) any {
		verifExtfxstreamYield()
		switch f {
		case "len":
			return len(item.([]any))
		case "sum":
			s := 0
			for _, e := range item.([]any) {
				s += e.(int)
			}
			return s
		}
		x := item.(int)
		switch f {
		case "inc":
			return x + 1
		case "dbl":
			return 2 * x
		case "mod3":
			return x % 3
		case "sq":
			return x * x
		case "sqpe":
			if x%2 == 0 {
				panic(x)
			}
			return x * x
		}
		panic("verif: unknown map function " + f)
	}
}

func verifExtfxstreamPred(p string) func(item any) bool {
	return func(item any) bool {
		verifExtfxstreamYield()
		x := item.(int)
		switch p {
		case "even":
			return x%2 == 0
		case "odd":
			return x%2 == 1
		case "gt2":
			return x > 2
		case "all":
			return true
		case "none":
			return false
		}
		panic("verif: unknown predicate " + p)
	}
}

func verifExtfxstreamKey(k string) KeyFunc {
	return func(item any) any {
		x := item.(int)
		switch k {
		case "id":
			return x
		case "mod2":
			return x % 2
		case "mod3":
			return x % 3
		}
		panic("verif: unknown key function " + k)
	}
}

func verifExtfxstreamLess(l string) LessFunc {
	return func(a, b any) bool {
		x, y := a.(int), b.(int)
		switch l {
		case "lt":
			return x < y
		case "gt":
			return x > y
		case "ltmod3":
			return x%3 < y%3
		}
		panic("verif: unknown less function " + l)
	}
}

func verifExtfxstreamWalkF(f string) WalkFunc {
	return func(item any, pipe chan<- any) {
		verifExtfxstreamYield()
		switch f {
		case "dup":
			pipe <- item
			pipe <- item.(int) + 10
		case "odd1":
			if item.(int)%2 == 1 {
				pipe <- item
			}
		case "flat":
			for _, e := range item.([]any) {
				pipe <- e
			}
		default:
			panic("verif: unknown walk function " + f)
		}
	}
}

func verifExtfxstreamOpts(w int) []Option {
	switch {
	case w == 0:
		return nil
	case w == -1:
		return []Option{UnlimitedWorkers()}
	case w == -2:
		return []Option{WithWorkers(0)}
	}
	return []Option{WithWorkers(w)}
}

func verifExtfxstreamApply(o verifExtfxstreamOp, s Stream) Stream {
	switch o.Op {
	case "buffer":
		return s.Buffer(o.N)
	case "head":
		return s.Head(int64(o.N))
	case "tail":
		return s.Tail(int64(o.N))
	case "skip":
		return s.Skip(int64(o.N))
	case "distinct":
		return s.Distinct(verifExtfxstreamKey(o.F))
	case "filter":
		return s.Filter(FilterFunc(verifExtfxstreamPred(o.F)), verifExtfxstreamOpts(o.W)...)
	case "map":
		return s.Map(verifExtfxstreamMapF(o.F), verifExtfxstreamOpts(o.W)...)
	case "walk":
		return s.Walk(verifExtfxstreamWalkF(o.F), verifExtfxstreamOpts(o.W)...)
	case "group":
		return s.Group(verifExtfxstreamKey(o.F))
	case "sort":
		return s.Sort(verifExtfxstreamLess(o.F))
	case "reverse":
		return s.Reverse()
	case "split":
		return s.Split(o.N)
	case "merge":
		return s.Merge()
	case "concat":
		var others []Stream
		for i, ints := range o.O {
			ints := ints
			if i%2 == 0 {
				items := make([]any, len(ints))
				for j, x := range ints {
					items[j] = x
				}
				others = append(others, Just(items...))
			} else {
				others = append(others, From(func(source chan<- any) {
					for _, x := range ints {
						source <- x
					}
				}))
			}
		}
		if o.N == 1 { // the package-level function
			return Concat(s, others...)
		}
		return s.Concat(others...)
	}
	panic("verif: unknown operator " + o.Op)
}

// ---- encoding --------------------------------------------------------------------------

func verifExtfxstreamItem(v any) verifEv {
	switch x := v.(type) {
	case int:
		return verifEv{"t": 0, "v": []int{x}}
	case []any:
		ints := make([]int, 0, len(x))
		for _, e := range x {
			if i, ok := e.(int); ok {
				ints = append(ints, i)
			} else {
				ints = append(ints, -999)
			}
		}
		return verifEv{"t": 1, "v": ints}
	}
	return verifEv{"t": 9, "v": []int{}}
}

func verifExtfxstreamBool(b bool) []verifEv {
	if b {
		return []verifEv{verifExtfxstreamItem(1)}
	}
	return []verifEv{verifExtfxstreamItem(0)}
}

// the terminal operator; the result as a sequence of items ([] = nil / nothing)
func verifExtfxstreamTerminal(tm verifExtfxstreamTerm, s Stream) []verifEv {
	res := []verifEv{}
	opt := func(v any) []verifEv {
		if v == nil {
			return []verifEv{}
		}
		return []verifEv{verifExtfxstreamItem(v)}
	}
	switch tm.Op {
	case "count":
		return []verifEv{verifExtfxstreamItem(s.Count())}
	case "first":
		return opt(s.First())
	case "last":
		return opt(s.Last())
	case "max":
		return opt(s.Max(verifExtfxstreamLess(tm.F)))
	case "min":
		return opt(s.Min(verifExtfxstreamLess(tm.F)))
	case "any":
		return verifExtfxstreamBool(s.AnyMatch(verifExtfxstreamPred(tm.F)))
	case "all":
		return verifExtfxstreamBool(s.AllMatch(verifExtfxstreamPred(tm.F)))
	case "none":
		return verifExtfxstreamBool(s.NoneMatch(verifExtfxstreamPred(tm.F)))
	case "done":
		s.Done()
		return res
	case "foreach":
		s.ForEach(func(item any) { res = append(res, verifExtfxstreamItem(item)) })
		return res
	case "reduce":
		s.Reduce(func(pipe <-chan any) (any, error) {
			for item := range pipe {
				res = append(res, verifExtfxstreamItem(item))
			}
			return len(res), nil
		})
		return res
	case "forall": // a ForAllFunc that reads tm.N items and leaves the rest
		s.ForAll(func(pipe <-chan any) {
			for len(res) < tm.N {
				item, ok := <-pipe
				if !ok {
					return
				}
				res = append(res, verifExtfxstreamItem(item))
			}
		})
		return res
	case "parallel":
		var mu sync.Mutex
		w := tm.N
		if w == 0 {
			w = -1
		}
		s.Parallel(func(item any) {
			verifExtfxstreamYield()
			mu.Lock()
			res = append(res, verifExtfxstreamItem(item))
			mu.Unlock()
		}, verifExtfxstreamOpts(w)...)
		return res
	}
	panic("verif: unknown terminal operator " + tm.Op)
}

// ---- goroutine snapshot ----------------------------------------------------------------

var verifExtfxstreamBuf = make([]byte, 1<<20)

func verifExtfxstreamGid() int64 {
	var b [64]byte
	n := runtime.Stack(b[:], false)
	f := bytes.Fields(b[:n])
	id, _ := strconv.ParseInt(string(f[1]), 10, 64)
	return id
}

// goroutines (other than self and the ignored ones) that have a frame of this package or were
// created by it: how many, and whether every one of them is blocked.
func verifExtfxstreamSnapshot(self int64, ignore map[int64]bool) (ids []int64, rest bool) {
	for {
		n := runtime.Stack(verifExtfxstreamBuf, true)
		if n == len(verifExtfxstreamBuf) {
			verifExtfxstreamBuf = make([]byte, 2*len(verifExtfxstreamBuf))
			continue
		}
		rest = true
		for _, blk := range bytes.Split(verifExtfxstreamBuf[:n], []byte("\n\n")) {
			// (a goroutine started through threading.GoSafe / RoutineGroup that has not run yet shows
			// only frames of core/threading)
			if !bytes.HasPrefix(blk, []byte("goroutine ")) || !(bytes.Contains(blk, []byte("go-zero/core/fx.")) ||
				bytes.Contains(blk, []byte("go-zero/core/threading."))) {
				continue
			}
			nl := bytes.IndexByte(blk, '\n')
			if nl < 0 {
				nl = len(blk)
			}
			hd := blk[:nl]
			sp := bytes.IndexByte(hd[10:], ' ')
			lb, rb := bytes.IndexByte(hd, '['), bytes.LastIndexByte(hd, ']')
			if sp < 0 || lb < 0 || rb < lb {
				continue
			}
			id, _ := strconv.ParseInt(string(hd[10:10+sp]), 10, 64)
			if id == self || ignore[id] {
				continue
			}
			st := string(hd[lb+1 : rb])
			if c := bytes.IndexByte([]byte(st), ','); c >= 0 {
				st = st[:c]
			}
			ids = append(ids, id)
			top := blk[nl:]
			switch st {
			case "chan receive", "chan send":
			case "semacquire":
				// only WaitGroup.Wait; a goroutine that starts a GC cycle also shows semacquire
				if !(bytes.HasPrefix(top, []byte("\nsync.runtime_Semacquire(")) &&
					bytes.Contains(top, []byte("\nsync.(*WaitGroup).Wait("))) {
					rest = false
				}
			default:
				rest = false
			}
		}
		return ids, rest
	}
}

type verifExtfxstreamRunner struct {
	t    *testing.T
	em   *verifEmitter
	self int64
}

// waits until the pipeline is at rest or stop() holds; reports the goroutines still there
func (r *verifExtfxstreamRunner) settle(ignore map[int64]bool, stop func() bool) []int64 {
	deadline := time.Now().Add(verifExtfxstreamLong)
	for spin := 0; ; spin++ {
		if stop != nil && stop() {
			return nil
		}
		ids, rest := verifExtfxstreamSnapshot(r.self, ignore)
		if rest {
			return ids
		}
		if spin < 20 {
			runtime.Gosched()
		} else {
			time.Sleep(20 * time.Microsecond)
		}
		if spin%256 == 255 && time.Now().After(deadline) {
			r.t.Fatalf("verif: pipeline neither progressing to rest nor finishing within %v", verifExtfxstreamLong)
		}
	}
}

func (r *verifExtfxstreamRunner) tap(at int, s Stream) Stream {
	out := make(chan any)
	em := r.em
	go func() {
		for item := range s.source {
			em.Emit(verifEv{"e": "item", "at": at, "v": verifExtfxstreamItem(item)})
			out <- item
		}
		em.Emit(verifEv{"e": "close", "at": at})
		close(out)
	}()
	return Range(out)
}

func verifExtfxstreamOpsJSON(ops []verifExtfxstreamOp) []verifEv {
	out := make([]verifEv, 0, len(ops))
	for _, o := range ops {
		oo := o.O
		if oo == nil {
			oo = [][]int{}
		}
		for i := range oo {
			if oo[i] == nil {
				oo[i] = []int{}
			}
		}
		out = append(out, verifEv{"op": o.Op, "n": o.N, "f": o.F, "w": o.W, "o": oo})
	}
	return out
}

func (r *verifExtfxstreamRunner) run(c verifExtfxstreamCase) {
	em := r.em
	leftover := map[int64]bool{}
	ids, _ := verifExtfxstreamSnapshot(r.self, nil)
	for _, id := range ids { // goroutines an earlier (rejected) case left behind
		leftover[id] = true
	}
	src := c.Src
	if src == nil {
		src = []int{}
	}
	em.Emit(verifEv{"e": "reset", "src": src, "gate": c.Gate, "ops": verifExtfxstreamOpsJSON(c.Ops),
		"term": verifEv{"op": c.Term.Op, "n": c.Term.N, "f": c.Term.F}})
	gate := make(chan struct{})
	var returned atomic.Bool
	done := make(chan struct{})
	go func() {
		defer close(done)
		cur := r.tap(0, From(func(source chan<- any) {
			for i, x := range src {
				if i == c.Gate {
					<-gate
				}
				source <- x
			}
			if c.Gate == len(src) {
				<-gate
			}
		}))
		for i, o := range c.Ops {
			var next Stream
			panicked := func() (p bool) {
				defer func() {
					if e := recover(); e != nil {
						p = true
					}
				}()
				next = verifExtfxstreamApply(o, cur)
				return false
			}()
			if panicked {
				em.Emit(verifEv{"e": "panic", "at": i + 1})
				drain(cur.source) // the caller's clean-up: nothing of the driver may stay blocked
				return
			}
			cur = r.tap(i+1, next)
		}
		res := verifExtfxstreamTerminal(c.Term, cur)
		em.Emit(verifEv{"e": "ret", "res": res})
		returned.Store(true)
	}()
	if c.Gate >= 0 {
		r.settle(leftover, nil)
		em.Emit(verifEv{"e": "quiet", "ret": returned.Load()})
		em.Emit(verifEv{"e": "release"})
		close(gate)
	}
	finished := func() bool {
		select {
		case <-done:
			return true
		default:
			return false
		}
	}
	if left := r.settle(leftover, finished); !finished() {
		// at rest although the source is exhausted and the call is still running
		em.Emit(verifEv{"e": "quiet", "ret": returned.Load()})
		em.Emit(verifEv{"e": "end", "leaked": len(left)})
		return
	}
	left := r.settle(leftover, func() bool {
		ids, _ := verifExtfxstreamSnapshot(r.self, leftover)
		return len(ids) == 0
	})
	em.Emit(verifEv{"e": "end", "leaked": len(left)})
}

// ---- TLC-generated pipelines -----------------------------------------------------------

func TestVerifExtfxstreamReplay(t *testing.T) {
	logx.Disable()
	em := verifOpen(t)
	defer em.Close()
	r := &verifExtfxstreamRunner{t: t, em: em, self: verifExtfxstreamGid()}
	reps := verifEnvInt("VERIF_EXTFX_REPS", 1)
	for _, raw := range verifInput(t) {
		var c verifExtfxstreamCase
		if err := json.Unmarshal(raw, &c); err != nil {
			t.Fatal(err)
		}
		for i := 0; i < reps; i++ {
			r.run(c)
		}
	}
}

// ---- seeded random pipelines -----------------------------------------------------------

func TestVerifExtfxstreamRandom(t *testing.T) {
	logx.Disable()
	em := verifOpen(t)
	defer em.Close()
	r := &verifExtfxstreamRunner{t: t, em: em, self: verifExtfxstreamGid()}
	rnd := verifRand(505)
	cases := verifEnvInt("VERIF_EXTFX_CASES", 400)
	pick := func(xs ...string) string { return xs[rnd.Intn(len(xs))] }
	workers := func() int { return []int{0, 0, -1, -2, 1, 1, 2, 3, 16}[rnd.Intn(9)] }
	for n := 0; n < cases; n++ {
		var c verifExtfxstreamCase
		ln := rnd.Intn(9)
		if rnd.Intn(8) == 0 {
			ln = 9 + rnd.Intn(12)
		}
		c.Src = make([]int, ln)
		span := 2 + rnd.Intn(8)
		for i := range c.Src {
			c.Src[i] = rnd.Intn(span)
		}
		c.Gate = -1
		if rnd.Intn(3) > 0 {
			c.Gate = rnd.Intn(ln + 1)
		}
		lvl := 0
		for k := rnd.Intn(5); k > 0; k-- {
			o := verifExtfxstreamOp{F: "-"}
			small := func() int { // boundary-heavy parameter
				switch rnd.Intn(6) {
				case 0:
					return 1
				case 1:
					return ln
				case 2:
					return ln + 1 + rnd.Intn(3)
				}
				return 1 + rnd.Intn(ln+1)
			}
			if lvl == 0 {
				switch x := rnd.Intn(20); {
				case x < 1:
					o.Op, o.N = "buffer", rnd.Intn(5)-1
				case x < 4:
					o.Op, o.N = "head", small()
				case x < 6:
					o.Op, o.N = "tail", small()
				case x < 8:
					o.Op, o.N = "skip", small()-1
				case x < 9:
					o.Op, o.F = "distinct", pick("id", "mod2", "mod3")
				case x < 11:
					o.Op, o.F, o.W = "filter", pick("even", "odd", "gt2", "all", "none"), workers()
				case x < 13:
					o.Op, o.F, o.W = "map", pick("inc", "dbl", "mod3", "sq", "sqpe"), workers()
				case x < 14:
					o.Op, o.F, o.W = "walk", pick("dup", "odd1"), workers()
				case x < 15:
					o.Op, o.F = "sort", pick("lt", "gt", "ltmod3")
				case x < 16:
					o.Op = "reverse"
				case x < 17:
					o.Op, o.N = "split", small()
					lvl = 1
				case x < 18:
					o.Op = "merge"
					lvl = 1
				case x < 19:
					o.Op, o.F = "group", pick("id", "mod2", "mod3")
					lvl = 1
				default:
					o.Op, o.N = "concat", rnd.Intn(2)
					for j := rnd.Intn(3); j >= 0; j-- {
						other := make([]int, rnd.Intn(4))
						for i := range other {
							other[i] = rnd.Intn(span)
						}
						o.O = append(o.O, other)
					}
				}
				if rnd.Intn(25) == 0 { // the documented constructor panics
					switch o.Op {
					case "head", "tail", "split":
						o.N = -rnd.Intn(2)
					case "skip":
						o.N = -1
					}
				}
			} else {
				switch x := rnd.Intn(9); {
				case x < 1:
					o.Op, o.N = "buffer", rnd.Intn(3)
				case x < 2:
					o.Op, o.N = "head", 1+rnd.Intn(3)
				case x < 3:
					o.Op, o.N = "tail", 1+rnd.Intn(3)
				case x < 4:
					o.Op, o.N = "skip", rnd.Intn(3)
				case x < 5:
					o.Op = "reverse"
				case x < 7:
					o.Op, o.F, o.W = "map", pick("len", "sum"), workers()
					lvl = 0
				default:
					o.Op, o.F, o.W = "walk", "flat", workers()
					lvl = 0
				}
			}
			c.Ops = append(c.Ops, o)
		}
		c.Term = verifExtfxstreamTerm{F: "-"}
		if lvl == 0 && rnd.Intn(2) == 0 {
			switch rnd.Intn(5) {
			case 0:
				c.Term.Op, c.Term.F = "max", pick("lt", "gt", "ltmod3")
			case 1:
				c.Term.Op, c.Term.F = "min", pick("lt", "gt", "ltmod3")
			case 2:
				c.Term.Op, c.Term.F = "any", pick("even", "odd", "gt2", "all", "none")
			case 3:
				c.Term.Op, c.Term.F = "all", pick("even", "odd", "gt2", "all", "none")
			default:
				c.Term.Op, c.Term.F = "none", pick("even", "odd", "gt2", "all", "none")
			}
		} else {
			c.Term.Op = pick("count", "first", "first", "last", "done", "foreach", "reduce", "forall", "forall", "parallel")
			switch c.Term.Op {
			case "forall":
				c.Term.N = rnd.Intn(ln + 2)
			case "parallel":
				c.Term.N = rnd.Intn(4)
			}
		}
		r.run(c)
	}
}

// ---- the workers of Walk / Map / Filter / Stream.Parallel / fx.Parallel ----------------------
//
// Every invocation of the user function logs "wstart", waits at a gate of its own, and logs
// "wend" just before it returns.  The driver waits for the pipeline to be at rest (goroutine
// snapshot), logs "quiet", opens the gate of one waiting invocation chosen by the schedule
// (rank among the waiting items), and so on.  TLC validates against FxWalk.tla (FxWalkTrace).

type verifExtfxstreamWCase struct {
	N     int    `json:"n"`
	W     int    `json:"w"` // 0 no option, -1 UnlimitedWorkers, -2 WithWorkers(0), -3 WithWorkers(-1), k WithWorkers(k)
	Kind  string `json:"kind"`
	Ranks []int  `json:"ranks"`
}

func verifExtfxstreamWOpts(w int) []Option {
	if w == -3 {
		return []Option{WithWorkers(-1)}
	}
	return verifExtfxstreamOpts(w)
}

func (r *verifExtfxstreamRunner) runWorkers(c verifExtfxstreamWCase, pick func(n int) int) {
	em := r.em
	leftover := map[int64]bool{}
	ids, _ := verifExtfxstreamSnapshot(r.self, nil)
	for _, id := range ids {
		leftover[id] = true
	}
	em.Emit(verifEv{"e": "reset", "n": c.N, "w": c.W, "kind": c.Kind})
	gates := make([]chan struct{}, c.N)
	for i := range gates {
		gates[i] = make(chan struct{})
	}
	var mu sync.Mutex
	waiting := map[int]bool{}
	enter := func(item any) int {
		i := item.(int)
		em.Emit(verifEv{"e": "wstart", "i": i})
		mu.Lock()
		waiting[i] = true
		mu.Unlock()
		<-gates[i]
		return i
	}
	exit := func(i int) { em.Emit(verifEv{"e": "wend", "i": i}) }
	items := make([]any, c.N)
	for i := range items {
		items[i] = i
	}
	source := func() Stream {
		if c.N%2 == 0 {
			return Just(items...)
		}
		return From(func(source chan<- any) {
			for _, it := range items {
				source <- it
			}
		})
	}
	opts := verifExtfxstreamWOpts(c.W)
	done := make(chan struct{})
	go func() {
		defer close(done)
		var out Stream
		switch c.Kind {
		case "walk":
			out = source().Walk(func(item any, pipe chan<- any) {
				i := enter(item)
				pipe <- item
				exit(i)
			}, opts...)
		case "map":
			out = source().Map(func(item any) any {
				i := enter(item)
				exit(i)
				return i + 100
			}, opts...)
		case "filter":
			out = source().Filter(func(item any) bool {
				i := enter(item)
				exit(i)
				return i%2 == 1
			}, opts...)
		case "parallel":
			source().Parallel(func(item any) { exit(enter(item)) }, opts...)
			em.Emit(verifEv{"e": "ret"})
			return
		case "fns":
			fns := make([]func(), c.N)
			for i := range fns {
				i := i
				fns[i] = func() { exit(enter(i)) }
			}
			Parallel(fns...)
			em.Emit(verifEv{"e": "ret"})
			return
		default:
			panic("verif: unknown kind " + c.Kind)
		}
		for item := range out.source {
			v, ok := item.(int)
			if !ok {
				v = -999
			}
			em.Emit(verifEv{"e": "out", "v": v})
		}
		em.Emit(verifEv{"e": "close"})
	}()
	finished := func() bool {
		select {
		case <-done:
			return true
		default:
			return false
		}
	}
	for step := 0; ; step++ {
		r.settle(leftover, nil)
		em.Emit(verifEv{"e": "quiet"})
		mu.Lock()
		var w []int
		for i := range waiting {
			w = append(w, i)
		}
		mu.Unlock()
		if len(w) == 0 {
			break
		}
		sort.Ints(w)
		cnt := 1
		if pick != nil && step >= len(c.Ranks) && len(w) > 1 && pick(3) == 0 {
			cnt = 1 + pick(len(w)) // several gates opened before the next snapshot
		}
		for ; cnt > 0; cnt-- {
			k := 0
			if step < len(c.Ranks) {
				k = c.Ranks[step] % len(w)
			} else if pick != nil {
				k = pick(len(w))
			}
			i := w[k]
			w = append(w[:k], w[k+1:]...)
			mu.Lock()
			delete(waiting, i)
			mu.Unlock()
			em.Emit(verifEv{"e": "rel", "i": i})
			close(gates[i])
		}
	}
	var left []int64
	if finished() {
		left = r.settle(leftover, func() bool {
			ids, _ := verifExtfxstreamSnapshot(r.self, leftover)
			return len(ids) == 0
		})
	} else { // at rest, nobody waits at a gate, and the call is not over
		left = r.settle(leftover, nil)
	}
	em.Emit(verifEv{"e": "end", "leaked": len(left)})
}

func TestVerifExtfxstreamWorkersReplay(t *testing.T) {
	logx.Disable()
	em := verifOpen(t)
	defer em.Close()
	r := &verifExtfxstreamRunner{t: t, em: em, self: verifExtfxstreamGid()}
	for _, raw := range verifInput(t) {
		var c verifExtfxstreamWCase
		if err := json.Unmarshal(raw, &c); err != nil {
			t.Fatal(err)
		}
		r.runWorkers(c, nil)
	}
}

func TestVerifExtfxstreamWorkersRandom(t *testing.T) {
	logx.Disable()
	em := verifOpen(t)
	defer em.Close()
	r := &verifExtfxstreamRunner{t: t, em: em, self: verifExtfxstreamGid()}
	rnd := verifRand(506)
	cases := verifEnvInt("VERIF_EXTFX_WCASES", 150)
	kinds := []string{"walk", "map", "filter", "parallel", "fns"}
	// around defaultWorkers = 16, every kind: more items than the default cap with no option,
	// with UnlimitedWorkers and with a cap just above / at the default
	for _, kind := range kinds {
		for _, nw := range [][2]int{{18, 0}, {18, -1}, {18, 17}, {17, 16}} {
			r.runWorkers(verifExtfxstreamWCase{N: nw[0], W: nw[1], Kind: kind}, rnd.Intn)
		}
	}
	for n := 0; n < cases; n++ {
		c := verifExtfxstreamWCase{Kind: kinds[rnd.Intn(len(kinds))]}
		switch rnd.Intn(4) {
		case 0:
			c.N = rnd.Intn(4)
		case 1:
			c.N = 15 + rnd.Intn(6) // around defaultWorkers
		default:
			c.N = rnd.Intn(12)
		}
		c.W = []int{0, 0, -1, -2, -3, 1, 1, 2, 3, 5, 16, 17}[rnd.Intn(12)]
		if rnd.Intn(3) == 0 && c.N > 0 { // the cap exactly at / next to the number of items
			c.W = c.N + rnd.Intn(3) - 1
			if c.W < 1 {
				c.W = 1
			}
		}
		r.runWorkers(c, rnd.Intn)
	}
}
