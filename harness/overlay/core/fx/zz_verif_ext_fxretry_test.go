//go:build verif

package fx

// Extension fxretry (advisory, host C04) -- driver for DoWithRetry / DoWithRetryCtx.
//
// One trace = one call. fn is the harness's: it logs that it was entered (with the
// retryCount it got), and answers what the plan's script says for that entry ("nil", a
// plain error, an error on the ignore list, an error wrapping one, or "hang": block until
// the call has returned). The caller's context is cancelled where the plan says: before the
// call, by fn while it hangs, by fn just before it answers, or from outside just after fn
// answered (the last two race with retry's select on purpose: the spec admits either
// outcome). Intervals / timeouts are "short" (1 ms / 15 ms: the spec never demands that they
// have or have not elapsed) or "huge" (1000 s). Nothing here knows what the result should be:
// the verdict comes from TLC (specs/retry/RetryTrace.tla).

import (
	"bytes"
	"context"
	"encoding/json"
	"errors"
	"runtime"
	"strings"
	"sync"
	"sync/atomic"
	"testing"
	"time"
)

type verifExtfxretryPlan struct {
	Variant string   `json:"variant"`
	Times   int      `json:"times"`
	Ivl     string   `json:"ivl"`
	Tmo     string   `json:"tmo"`
	Ign     []string `json:"ign"`
	Pre     string   `json:"pre"`
	Script  []string `json:"script"`
	Cancel  int      `json:"cancel"` // -1: never; k: once k attempts have been entered (0: before the call)
	Mode    int      `json:"mode"`   // non-hanging attempt: 0 fn cancels before it answers, 1 from outside after it answered
	Jitter  int      `json:"jitter"` // fn yields the processor this many times before answering
}

type verifExtfxretryWrap struct {
	name  string
	inner error
}

func (w *verifExtfxretryWrap) Error() string { return w.name }
func (w *verifExtfxretryWrap) Unwrap() error { return w.inner }

var (
	verifExtfxretryE1   = errors.New("E1")
	verifExtfxretryE2   = errors.New("E2")
	verifExtfxretryIG1  = errors.New("IG1")
	verifExtfxretryIG2  = errors.New("IG2")
	verifExtfxretryWIG1 = &verifExtfxretryWrap{name: "WIG1", inner: verifExtfxretryIG1}
	verifExtfxretryErrs = map[string]error{
		"E1": verifExtfxretryE1, "E2": verifExtfxretryE2, "IG1": verifExtfxretryIG1,
		"IG2": verifExtfxretryIG2, "WIG1": verifExtfxretryWIG1,
	}
	verifExtfxretryKnown = []struct {
		name string
		err  error
	}{
		{"E1", verifExtfxretryE1}, {"E2", verifExtfxretryE2}, {"IG1", verifExtfxretryIG1},
		{"IG2", verifExtfxretryIG2}, {"WIG1", verifExtfxretryWIG1},
		{"context canceled", context.Canceled}, {"context deadline exceeded", context.DeadlineExceeded},
	}
)

const (
	verifExtfxretryShortIvl = time.Millisecond
	verifExtfxretryShortTmo = 15 * time.Millisecond
	verifExtfxretryHuge     = 1000 * time.Second
	verifExtfxretryWatchdog = 30 * time.Second
)

// per-call event buffer (calls run concurrently; the file gets one call after the other)
type verifExtfxretryTrace struct {
	mu     sync.Mutex
	evs    []verifEv
	closed bool
}

func (t *verifExtfxretryTrace) emit(ev verifEv) {
	t.mu.Lock()
	if !t.closed {
		t.evs = append(t.evs, ev)
	}
	t.mu.Unlock()
}

func (t *verifExtfxretryTrace) flush(em *verifEmitter, end verifEv) {
	t.mu.Lock()
	t.closed = true
	evs := append(t.evs, end)
	t.mu.Unlock()
	for _, ev := range evs {
		em.Emit(ev)
	}
}

func verifExtfxretryStrs(s []string) []string {
	if s == nil {
		return []string{}
	}
	return s
}

func verifExtfxretryRet(err error) verifEv {
	parts, lines, is := []string{}, []string{}, []string{}
	if err != nil {
		if u, ok := err.(interface{ Unwrap() []error }); ok {
			for _, e := range u.Unwrap() {
				parts = append(parts, e.Error())
			}
		} else {
			parts = append(parts, err.Error())
		}
		lines = strings.Split(err.Error(), "\n")
		for _, k := range verifExtfxretryKnown {
			if errors.Is(err, k.err) {
				is = append(is, k.name)
			}
		}
	}
	return verifEv{"e": "ret", "isnil": err == nil, "parts": parts, "lines": lines, "is": is}
}

// verifExtfxretryCall performs one call of the real function according to the plan.
func verifExtfxretryCall(t testing.TB, p verifExtfxretryPlan, tr *verifExtfxretryTrace) {
	tr.emit(verifEv{"e": "reset"})
	parent := context.Background()
	var cancel context.CancelFunc
	switch p.Pre {
	case "live":
		parent, cancel = context.WithCancel(parent)
		defer cancel()
	case "canceled":
		var c context.CancelFunc
		parent, c = context.WithCancel(parent)
		c()
	case "deadline":
		var c context.CancelFunc
		parent, c = context.WithDeadline(parent, time.Now().Add(-time.Hour))
		defer c()
	}
	var opts []RetryOption
	if p.Times > 0 {
		opts = append(opts, WithRetry(p.Times))
	}
	switch p.Ivl {
	case "short":
		opts = append(opts, WithInterval(verifExtfxretryShortIvl))
	case "huge":
		opts = append(opts, WithInterval(verifExtfxretryHuge))
	}
	switch p.Tmo {
	case "short":
		opts = append(opts, WithTimeout(verifExtfxretryShortTmo))
	case "huge":
		opts = append(opts, WithTimeout(verifExtfxretryHuge))
	}
	if len(p.Ign) > 0 {
		var ign []error
		for _, n := range p.Ign {
			ign = append(ign, verifExtfxretryErrs[n])
		}
		opts = append(opts, WithIgnoreErrors(ign))
	}

	returned := make(chan struct{})
	var entered atomic.Int32
	var once sync.Once
	doCancel := func() {
		once.Do(func() {
			tr.emit(verifEv{"e": "cancel"})
			cancel()
		})
	}
	body := func(rc int) error {
		idx := int(entered.Add(1)) - 1
		out := "E1"
		if idx < len(p.Script) {
			out = p.Script[idx]
		}
		tr.emit(verifEv{"e": "att", "i": idx, "rc": rc, "out": out})
		mine := cancel != nil && p.Cancel == idx+1
		if out == "hang" {
			if mine {
				doCancel()
			}
			<-returned
			return verifExtfxretryE1
		}
		for j := 0; j < p.Jitter; j++ {
			runtime.Gosched()
		}
		if mine {
			if p.Mode == 0 {
				doCancel()
			} else {
				go func() {
					for j := 0; j <= p.Jitter; j++ {
						runtime.Gosched()
					}
					doCancel()
				}()
			}
		}
		if out == "nil" {
			return nil
		}
		return verifExtfxretryErrs[out]
	}

	tr.emit(verifEv{"e": "start", "variant": p.Variant, "times": p.Times, "ivl": p.Ivl, "tmo": p.Tmo,
		"ign": verifExtfxretryStrs(p.Ign), "pre": p.Pre})
	if cancel != nil && p.Cancel == 0 {
		doCancel()
	}
	done := make(chan error, 1)
	go func() {
		if p.Variant == "ctx" {
			done <- DoWithRetryCtx(parent, func(_ context.Context, retryCount int) error {
				return body(retryCount)
			}, opts...)
		} else {
			done <- DoWithRetry(func() error { return body(-1) }, opts...)
		}
	}()
	select {
	case err := <-done:
		tr.emit(verifExtfxretryRet(err))
	case <-time.After(verifExtfxretryDog()):
		// every plan can return; what this means is the spec's business (RetryTrace: stuck)
		verifExtfxretryStuck.Add(1)
		tr.emit(verifEv{"e": "stuck"})
	}
	close(returned)
}

// The first three stuck calls wait the full watchdog; after that the run is failing anyway and the
// remaining calls use a short one, so that a broken retry does not cost 30 s per call.
var verifExtfxretryStuck atomic.Int32

func verifExtfxretryDog() time.Duration {
	if verifExtfxretryStuck.Load() >= 3 {
		return 2 * time.Second
	}
	return verifExtfxretryWatchdog
}

// verifExtfxretryQuiesce waits until every goroutine created by fx.retry is gone or blocked
// sending (after the calls have returned nobody will ever receive: stuck for good) and
// returns how many are stuck. One runtime.Stack snapshot is atomic.
func verifExtfxretryQuiesce(t testing.TB) int {
	deadline := time.Now().Add(verifExtfxretryWatchdog)
	buf := make([]byte, 1<<20)
	for {
		n := runtime.Stack(buf, true)
		for n == len(buf) {
			buf = make([]byte, 2*len(buf))
			n = runtime.Stack(buf, true)
		}
		alive, stuck := 0, 0
		for _, g := range bytes.Split(buf[:n], []byte("\n\n")) {
			if !bytes.Contains(g, []byte("created by github.com/zeromicro/go-zero/core/fx.retry")) {
				continue
			}
			alive++
			head := g
			if i := bytes.IndexByte(g, '\n'); i >= 0 {
				head = g[:i]
			}
			if bytes.Contains(head, []byte("[chan send")) {
				stuck++
			}
		}
		if alive == stuck {
			return stuck
		}
		if time.Now().After(deadline) {
			t.Fatalf("ext-fxretry: goroutines of returned calls still running after the watchdog (infrastructure)")
		}
		time.Sleep(50 * time.Microsecond)
	}
}

// verifExtfxretryRunAll: the first `seq` plans one by one (leak accounting per call), the
// rest by `workers` goroutines; every call is one trace; a last trace carries the number of
// goroutines left blocked by the concurrent part.
func verifExtfxretryRunAll(t *testing.T, plans []verifExtfxretryPlan, seq, workers int) {
	em := verifOpen(t)
	defer em.Close()
	base := verifExtfxretryQuiesce(t)
	if seq > len(plans) {
		seq = len(plans)
	}
	for _, p := range plans[:seq] {
		tr := &verifExtfxretryTrace{}
		verifExtfxretryCall(t, p, tr)
		now := verifExtfxretryQuiesce(t)
		tr.flush(em, verifEv{"e": "end", "leaked": now - base})
		base = now
	}
	rest := plans[seq:]
	trs := make([]*verifExtfxretryTrace, len(rest))
	var next atomic.Int32
	var wg sync.WaitGroup
	for w := 0; w < workers; w++ {
		wg.Add(1)
		go func() {
			defer wg.Done()
			for {
				k := int(next.Add(1)) - 1
				if k >= len(rest) {
					return
				}
				trs[k] = &verifExtfxretryTrace{}
				verifExtfxretryCall(t, rest[k], trs[k])
			}
		}()
	}
	wg.Wait()
	now := verifExtfxretryQuiesce(t)
	for _, tr := range trs {
		if tr != nil {
			tr.flush(em, verifEv{"e": "end", "leaked": -1})
		}
	}
	em.Emit(verifEv{"e": "reset"})
	em.Emit(verifEv{"e": "quiesce", "leaked": now - base})
}

// spec -> code: plans derived from the behaviours TLC enumerated for Retry.tla
func TestVerifExtfxretryReplay(t *testing.T) {
	var plans []verifExtfxretryPlan
	for _, raw := range verifInput(t) {
		var p verifExtfxretryPlan
		if err := json.Unmarshal(raw, &p); err != nil {
			t.Fatal(err)
		}
		plans = append(plans, p)
	}
	if len(plans) == 0 {
		t.Fatal("no plans")
	}
	verifExtfxretryRunAll(t, plans, verifEnvInt("VERIF_EXT_SEQ", 400), verifEnvInt("VERIF_EXT_WORKERS", 8))
}

// code -> spec: seeded random calls (more attempts, two ignored errors, random cancellation
// points and yields), run concurrently
func TestVerifExtfxretryRandom(t *testing.T) {
	rnd := verifRand(4711)
	n := verifEnvInt("VERIF_EXT_CALLS", 1500)
	outs := []string{"nil", "E1", "E1", "E1", "E2", "E2", "IG1", "IG2", "WIG1", "hang"}
	durs := []string{"none", "none", "short", "short", "huge"}
	var plans []verifExtfxretryPlan
	for len(plans) < n {
		p := verifExtfxretryPlan{Variant: "plain", Pre: "bg", Cancel: -1, Ign: []string{}}
		if rnd.Intn(3) > 0 {
			p.Variant = "ctx"
			p.Pre = []string{"bg", "live", "live", "live", "canceled", "deadline"}[rnd.Intn(6)]
		}
		if rnd.Intn(4) > 0 {
			p.Times = 1 + rnd.Intn(6)
		}
		p.Ivl = durs[rnd.Intn(len(durs))]
		p.Tmo = durs[rnd.Intn(len(durs))]
		switch rnd.Intn(4) {
		case 1:
			p.Ign = []string{"IG1"}
		case 2:
			p.Ign = []string{"IG1", "IG2"}
		case 3:
			p.Ign = []string{"IG2"}
		}
		times := p.Times
		if times == 0 {
			times = 3
		}
		for i := 0; i < times; i++ {
			o := outs[rnd.Intn(len(outs))]
			if i < times-1 && rnd.Intn(2) == 0 {
				o = "E1" // longer runs of failures
			}
			p.Script = append(p.Script, o)
		}
		if p.Pre == "live" && rnd.Intn(4) > 0 {
			p.Cancel = rnd.Intn(times + 1)
		}
		p.Mode = rnd.Intn(2)
		p.Jitter = rnd.Intn(3)
		// the call must be able to end: something has to interrupt a hang / a huge interval
		ends := p.Tmo == "short" || p.Pre == "canceled" || p.Pre == "deadline"
		if !ends {
			stop := -1 // index of the first attempt after which the call cannot go on by itself
			for i, o := range p.Script {
				if o == "hang" || (p.Ivl == "huge" && o != "nil") {
					stop = i
					break
				}
				if o == "nil" {
					break
				}
				ignored := false
				for _, g := range p.Ign {
					if o == g || (o == "WIG1" && g == "IG1") {
						ignored = true
					}
				}
				if ignored {
					break
				}
			}
			if stop >= 0 && (p.Cancel < 0 || p.Cancel > stop+1) {
				if p.Pre != "live" {
					continue
				}
				p.Cancel = stop + 1
			}
		}
		plans = append(plans, p)
	}
	verifExtfxretryRunAll(t, plans, 0, verifEnvInt("VERIF_EXT_WORKERS", 8))
}
