//go:build verif

package fx

// C05 adapter for the worker pool of fx.Stream.Walk (through Parallel, fx.WithWorkers).  Drive
// and record only; the verdict comes from TLC validating the trace against
// specs/caps/Semaphore.tla.  One Parallel call lasts for the whole trace: tickets are items fed
// to the source, the ParallelFunc is the guarded region (a panic in it is recovered by GoSafe).

import (
	"sync/atomic"
	"testing"
	"time"

	"github.com/zeromicro/go-zero/core/logx"
)

type verifCapsFx struct {
	feed chan int
	done chan struct{}
}

func (a *verifCapsFx) Kind() string                 { return "fx" }
func (a *verifCapsFx) Supports(w string) bool       { return w == "block" || w == "panic" }
func (a *verifCapsFx) Release() string              { return "close" }
func (a *verifCapsFx) Over(c *verifCapsCtx) bool    { return false }
func (a *verifCapsFx) Quiesce(c *verifCapsCtx) bool { return true }
func (a *verifCapsFx) Close(c *verifCapsCtx) bool {
	close(a.feed)
	d := verifCapsLong
	if atomic.LoadInt32(c.expired) > 0 {
		d = time.Second
	}
	select {
	case <-a.done:
		return true
	case <-time.After(d):
		atomic.AddInt32(c.expired, 1)
		c.Emit(verifEv{"e": "stuck", "what": "Parallel did not return"})
		return false
	}
}
func (a *verifCapsFx) Do(c *verifCapsCtx, p int, mode string) {
	c.AcqStart(p, "block")
	a.feed <- p
}

func verifCapsMake(c *verifCapsCtx, kind string, n int, age int) (verifCapsAdapter, func(), func()) {
	logx.Disable()
	if kind != "fx" {
		return nil, nil, nil
	}
	a := &verifCapsFx{feed: make(chan int), done: make(chan struct{})}
	go func() {
		defer close(a.done)
		From(func(source chan<- any) {
			for p := range a.feed {
				source <- p
			}
		}).Parallel(func(item any) {
			c.Region(item.(int), 0)
		}, WithWorkers(n))
	}()
	return a, nil, nil
}

func TestVerifCapsReplay(t *testing.T) { verifCapsReplayAll(t, verifCapsMake) }

func TestVerifCapsStress(t *testing.T) {
	verifCapsStressAll(t, []string{"fx"}, verifCapsMake)
}
