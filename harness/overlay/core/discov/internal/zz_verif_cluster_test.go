//go:build verif

package internal

// C13 driver for the registry layer. Registry-event histories are applied to the real
// cluster; recording UpdateListeners log the OnAdd/OnDelete calls they receive. No
// expectations here: TLC validates the trace against specs/discov/ClusterTrace.tla.
//
//   direct mode  handleWatchEvents / handleChanges called synchronously
//   loop mode    cluster.monitor with a fake EtcdClient: events travel through the watch
//                goroutine (several events per response), snapshots arrive through a
//                compacted watch (watch -> load) or through cluster.reload (reconnect)
//   both         later listeners join through Registry.Monitor on the existing watcher

import (
	"context"
	"encoding/json"
	"fmt"
	"sort"
	"sync"
	"testing"
	"time"

	"go.etcd.io/etcd/api/v3/etcdserverpb"
	"go.etcd.io/etcd/api/v3/mvccpb"
	clientv3 "go.etcd.io/etcd/client/v3"
	"google.golang.org/grpc"
	"google.golang.org/grpc/credentials/insecure"
)

type clusterOp struct {
	Op   string      `json:"op"` // put | del | reload | join
	K    string      `json:"k"`
	V    string      `json:"v"`
	Snap [][2]string `json:"snap"`
	More bool        `json:"more"`
}

type clusterHist struct {
	Excl bool        `json:"excl"`
	Ops  []clusterOp `json:"ops"`
}

type clusterRecorder struct {
	mu    sync.Mutex
	calls [][3]string
	// gate: when armed, the next call is recorded, reports itself on entered and returns
	// only when release is closed (a listener that is slow inside its callback)
	armed   bool
	entered chan [3]string
	release chan struct{}
}

func (r *clusterRecorder) record(c [3]string) {
	r.mu.Lock()
	r.calls = append(r.calls, c)
	gate := r.armed
	r.armed = false
	r.mu.Unlock()
	if gate {
		r.entered <- c
		<-r.release
	}
}

func (r *clusterRecorder) arm() {
	r.mu.Lock()
	r.armed = true
	r.entered = make(chan [3]string, 1)
	r.release = make(chan struct{})
	r.mu.Unlock()
}

func (r *clusterRecorder) disarm() {
	r.mu.Lock()
	r.armed = false
	r.mu.Unlock()
}

func (r *clusterRecorder) OnAdd(kv KV)    { r.record([3]string{"add", kv.Key, kv.Val}) }
func (r *clusterRecorder) OnDelete(kv KV) { r.record([3]string{"del", kv.Key, kv.Val}) }

func (r *clusterRecorder) take() [][3]string {
	r.mu.Lock()
	out := r.calls
	r.calls = nil
	r.mu.Unlock()
	if out == nil {
		out = [][3]string{}
	}
	return out
}

type clusterFakeEtcd struct {
	conn    *grpc.ClientConn
	mu      sync.Mutex
	snap    [][2]string
	rev     int64
	watches chan chan clientv3.WatchResponse
}

func (f *clusterFakeEtcd) ActiveConnection() *grpc.ClientConn { return f.conn }
func (f *clusterFakeEtcd) Close() error                       { return nil }
func (f *clusterFakeEtcd) Ctx() context.Context               { return context.Background() }
func (f *clusterFakeEtcd) Get(_ context.Context, _ string, _ ...clientv3.OpOption) (*clientv3.GetResponse, error) {
	f.mu.Lock()
	defer f.mu.Unlock()
	f.rev++
	resp := &clientv3.GetResponse{Header: &etcdserverpb.ResponseHeader{Revision: f.rev}}
	for _, kv := range f.snap {
		resp.Kvs = append(resp.Kvs, &mvccpb.KeyValue{Key: []byte(kv[0]), Value: []byte(kv[1])})
	}
	return resp, nil
}
func (f *clusterFakeEtcd) Grant(context.Context, int64) (*clientv3.LeaseGrantResponse, error) {
	return nil, fmt.Errorf("not used")
}
func (f *clusterFakeEtcd) KeepAlive(context.Context, clientv3.LeaseID) (<-chan *clientv3.LeaseKeepAliveResponse, error) {
	return nil, fmt.Errorf("not used")
}
func (f *clusterFakeEtcd) Put(context.Context, string, string, ...clientv3.OpOption) (*clientv3.PutResponse, error) {
	return nil, fmt.Errorf("not used")
}
func (f *clusterFakeEtcd) Revoke(context.Context, clientv3.LeaseID) (*clientv3.LeaseRevokeResponse, error) {
	return nil, fmt.Errorf("not used")
}
func (f *clusterFakeEtcd) Watch(_ context.Context, _ string, _ ...clientv3.OpOption) clientv3.WatchChan {
	ch := make(chan clientv3.WatchResponse)
	f.watches <- ch
	return ch
}

const clusterWait = 120 * time.Second

var clusterSeq int

func clusterHistory(t *testing.T, em *verifEmitter, conn *grpc.ClientConn, h clusterHist, loop bool, nl int,
	rnd interface{ Intn(int) int }) {
	clusterSeq++
	endpoints := []string{fmt.Sprintf("verif-cluster-%d:2379", clusterSeq)}
	c := newCluster(endpoints)
	reg := &Registry{clusters: map[string]*cluster{getClusterKey(endpoints): c}}
	key := watchKey{key: "svc"}
	fake := &clusterFakeEtcd{conn: conn, rev: 1, watches: make(chan chan clientv3.WatchResponse, 64)}
	NewClient = func([]string) (EtcdClient, error) { return fake, nil }
	defer func() { NewClient = DialClient }()

	var recs []*clusterRecorder
	var ch chan clientv3.WatchResponse
	nextWatch := func() chan clientv3.WatchResponse {
		select {
		case w := <-fake.watches:
			return w
		case <-time.After(clusterWait):
			t.Fatal("cluster driver: the cluster did not (re)start its watch")
			return nil
		}
	}
	send := func(r clientv3.WatchResponse) {
		select {
		case ch <- r:
		case <-time.After(clusterWait):
			t.Fatal("cluster driver: the watch loop does not take responses")
		}
	}
	values := func() [][2]string {
		c.lock.RLock()
		defer c.lock.RUnlock()
		out := [][2]string{}
		if w, ok := c.watchers[key]; ok {
			for k, v := range w.values {
				out = append(out, [2]string{k, v})
			}
		}
		sort.Slice(out, func(i, j int) bool { return out[i][0] < out[j][0] })
		return out
	}
	taken := func() [][][3]string {
		out := [][][3]string{}
		for _, r := range recs {
			out = append(out, r.take())
		}
		return out
	}

	// the first nl listeners
	em.Emit(verifEv{"e": "reset", "nl": nl})
	for i := 0; i < nl; i++ {
		recs = append(recs, &clusterRecorder{})
	}
	if loop {
		if err := c.monitor(key, recs[0]); err != nil { // load (empty) + watch goroutine
			t.Fatal(err)
		}
		ch = nextWatch()
		for _, r := range recs[1:] {
			c.addListener(key, r)
		}
		defer func() {
			c.lock.Lock()
			if w, ok := c.watchers[key]; ok && w.cancel != nil {
				w.cancel()
			}
			c.lock.Unlock()
		}()
	} else {
		for _, r := range recs {
			c.addListener(key, r)
		}
	}

	event := func(op clusterOp) *clientv3.Event {
		if op.Op == "put" {
			return &clientv3.Event{Type: clientv3.EventTypePut,
				Kv: &mvccpb.KeyValue{Key: []byte(op.K), Value: []byte(op.V)}}
		}
		return &clientv3.Event{Type: clientv3.EventTypeDelete, Kv: &mvccpb.KeyValue{Key: []byte(op.K)}}
	}
	var batch []*clientv3.Event
	var pending []verifEv
	for i, op := range h.Ops {
		switch op.Op {
		case "put", "del":
			batch = append(batch, event(op))
			ev := verifEv{"e": op.Op, "k": op.K, "obs": false, "calls": [][][3]string{}, "cv": [][2]string{}}
			if op.Op == "put" {
				ev["v"] = op.V
			}
			pending = append(pending, ev)
			if op.More && i+1 < len(h.Ops) && (h.Ops[i+1].Op == "put" || h.Ops[i+1].Op == "del") {
				continue
			}
			if loop {
				send(clientv3.WatchResponse{Events: batch})
				send(clientv3.WatchResponse{}) // barrier
			} else {
				c.handleWatchEvents(context.Background(), key, batch)
			}
			// the calls of a batch are logged with its last event
			for j := range pending[:len(pending)-1] {
				empty := [][][3]string{}
				for range recs {
					empty = append(empty, [][3]string{})
				}
				pending[j]["calls"] = empty
			}
			last := pending[len(pending)-1]
			last["obs"] = true
			last["calls"] = taken()
			last["cv"] = values()
			for _, ev := range pending {
				em.Emit(ev)
			}
			batch, pending = nil, nil
		case "reload":
			snap := op.Snap
			if snap == nil {
				snap = [][2]string{}
			}
			fake.mu.Lock()
			fake.snap = snap
			fake.mu.Unlock()
			switch {
			case !loop && rnd.Intn(2) == 0:
				var kvs []KV
				for _, kv := range snap {
					kvs = append(kvs, KV{Key: kv[0], Val: kv[1]})
				}
				c.handleChanges(key, kvs)
			case !loop:
				c.load(fake, key)
			case rnd.Intn(2) == 0:
				send(clientv3.WatchResponse{CompactRevision: 1}) // compacted: watch -> load -> watch
				ch = nextWatch()
			default:
				// cluster.reload keeps c.lock while it waits for the watch goroutine, which needs
				// c.lock to finish handling a response it has taken (a deadlock in go-zero that is
				// not part of C13). A cancelled watch makes the goroutine re-watch; once the new
				// Watch call has arrived it needs no lock any more.
				send(clientv3.WatchResponse{Canceled: true})
				ch = nextWatch()
				c.reload(fake) // reconnect: stop the watches, load + watch again
				ch = nextWatch()
			}
			em.Emit(verifEv{"e": "reload", "snap": snap, "obs": true, "calls": taken(), "cv": values()})
		case "join":
			r := &clusterRecorder{}
			if err := reg.Monitor(endpoints, "svc", false, r); err != nil {
				t.Fatal(err)
			}
			recs = append(recs, r)
			em.Emit(verifEv{"e": "join", "obs": true, "calls": taken(), "cv": values()})
		default:
			t.Fatalf("cluster driver: unknown op %q", op.Op)
		}
	}
}

func clusterRandomHistory(rnd interface{ Intn(int) int }, length int) clusterHist {
	var h clusterHist
	nk := 1 + rnd.Intn(5)
	nv := 1 + rnd.Intn(4)
	key := func() string { return fmt.Sprintf("svc/%d", 1+rnd.Intn(nk)) }
	val := func() string { return fmt.Sprintf("10.0.0.%d:80", 1+rnd.Intn(nv)) }
	cur := map[string]string{}
	n := 3 + rnd.Intn(length)
	for i := 0; i < n; i++ {
		var op clusterOp
		switch r := rnd.Intn(100); {
		case r < 45:
			op = clusterOp{Op: "put", K: key(), V: val(), More: rnd.Intn(4) == 0}
			if len(cur) > 0 && rnd.Intn(3) == 0 {
				for k := range cur {
					op.K = k
					break
				}
			}
			cur[op.K] = op.V
		case r < 72:
			op = clusterOp{Op: "del", K: key(), More: rnd.Intn(4) == 0}
			delete(cur, op.K)
		case r < 78:
			op = clusterOp{Op: "join"}
		default:
			snap := map[string]string{}
			for k, v := range cur {
				switch rnd.Intn(4) {
				case 0:
				case 1:
					snap[k] = val()
				default:
					snap[k] = v
				}
			}
			for j := rnd.Intn(3); j > 0; j-- {
				snap[key()] = val()
			}
			op = clusterOp{Op: "reload"}
			keys := make([]string, 0, len(snap))
			for k := range snap {
				keys = append(keys, k)
			}
			sort.Strings(keys)
			for _, k := range keys {
				op.Snap = append(op.Snap, [2]string{k, snap[k]})
			}
			cur = snap
		}
		h.Ops = append(h.Ops, op)
	}
	return h
}

// TestVerifDiscovCluster replays TLC-generated histories (one per distinct state of
// DiscovImpl) and seeded random ones on the real cluster, in direct and in loop mode.
func TestVerifDiscovCluster(t *testing.T) {
	em := verifOpen(t)
	defer em.Close()
	conn, err := grpc.NewClient("passthrough:///verif-etcd", grpc.WithTransportCredentials(insecure.NewCredentials()))
	if err != nil {
		t.Fatal(err)
	}
	rnd := verifRand(133)
	for i, raw := range verifInput(t) {
		var h clusterHist
		if err := json.Unmarshal(raw, &h); err != nil {
			t.Fatal(err)
		}
		clusterHistory(t, em, conn, h, i%2 == 1, 1+i%2, rnd)
	}
	histories, length := 150, 30
	if verifThorough() {
		histories, length = 3000, 60
	}
	for i := 0; i < histories; i++ {
		clusterHistory(t, em, conn, clusterRandomHistory(rnd, length), rnd.Intn(2) == 0, 1+rnd.Intn(3), rnd)
	}
}

// TestVerifDiscovClusterJoin: a listener joins an existing watcher (Registry.Monitor)
// while a watch event is being delivered. The overlap is made deterministic with a
// listener that is slow inside one callback (gate); nothing in go-zero is touched.
//
//	shape 1  the joiner is slow in its first replayed OnAdd; meanwhile an event for a key
//	         that has not been replayed yet is delivered; then the replay continues
//	shape 2  an old listener is slow in the callback of the first event of a two-event
//	         response; meanwhile the joiner subscribes; then the second event is delivered
func TestVerifDiscovClusterJoin(t *testing.T) {
	em := verifOpen(t)
	defer em.Close()
	rnd := verifRand(138)
	rounds := 2
	if verifThorough() {
		rounds = 12
	}
	wait := func(what string, ch <-chan struct{}) {
		select {
		case <-ch:
		case <-time.After(clusterWait):
			t.Fatalf("join driver: %s did not finish", what)
		}
	}
	for round := 0; round < rounds; round++ {
		clusterSeq++
		endpoints := []string{fmt.Sprintf("verif-join-%d:2379", clusterSeq)}
		c := newCluster(endpoints)
		reg := &Registry{clusters: map[string]*cluster{getClusterKey(endpoints): c}}
		key := watchKey{key: "svc"}
		old := &clusterRecorder{}
		c.addListener(key, old)
		recs := []*clusterRecorder{old}
		values := func() [][2]string {
			c.lock.RLock()
			defer c.lock.RUnlock()
			out := [][2]string{}
			for k, v := range c.watchers[key].values {
				out = append(out, [2]string{k, v})
			}
			sort.Slice(out, func(i, j int) bool { return out[i][0] < out[j][0] })
			return out
		}
		taken := func() [][][3]string {
			out := [][][3]string{}
			for _, r := range recs {
				out = append(out, r.take())
			}
			return out
		}
		none := func() [][][3]string {
			out := [][][3]string{}
			for range recs {
				out = append(out, [][3]string{})
			}
			return out
		}
		put := func(k, v string) *clientv3.Event {
			return &clientv3.Event{Type: clientv3.EventTypePut, Kv: &mvccpb.KeyValue{Key: []byte(k), Value: []byte(v)}}
		}
		del := func(k string) *clientv3.Event {
			return &clientv3.Event{Type: clientv3.EventTypeDelete, Kv: &mvccpb.KeyValue{Key: []byte(k)}}
		}
		logged := func(ev *clientv3.Event, obs bool) verifEv {
			out := verifEv{"k": string(ev.Kv.Key), "obs": obs, "calls": none(), "cv": [][2]string{}}
			if ev.Type == clientv3.EventTypePut {
				out["e"], out["v"] = "put", string(ev.Kv.Value)
			} else {
				out["e"] = "del"
			}
			if obs {
				out["calls"], out["cv"] = taken(), values()
			}
			return out
		}
		em.Emit(verifEv{"e": "reset", "nl": 1})
		nk := 2 + rnd.Intn(3)
		for i := 1; i <= nk; i++ {
			ev := put(fmt.Sprintf("svc/%d", i), fmt.Sprintf("10.0.0.%d:80", i))
			c.handleWatchEvents(context.Background(), key, []*clientv3.Event{ev})
			em.Emit(logged(ev, true))
		}
		joiner := &clusterRecorder{}
		other := func(not string) string { // a registered key different from `not`
			for {
				k := fmt.Sprintf("svc/%d", 1+rnd.Intn(nk))
				if k != not {
					return k
				}
			}
		}
		change := func(k string) *clientv3.Event {
			if rnd.Intn(2) == 0 {
				return del(k)
			}
			return put(k, fmt.Sprintf("10.0.1.%d:80", 1+rnd.Intn(9)))
		}
		done := make(chan struct{})
		if round%2 == 0 { // shape 1
			joiner.arm()
			go func() {
				defer close(done)
				if err := reg.Monitor(endpoints, "svc", false, joiner); err != nil {
					t.Error(err)
				}
			}()
			var first [3]string
			select {
			case first = <-joiner.entered:
			case <-done: // Monitor returned without calling the new listener: nothing overlaps
				joiner.disarm()
			case <-time.After(clusterWait):
				t.Fatal("join driver: Registry.Monitor neither called the listener nor returned")
			}
			recs = append(recs, joiner)
			em.Emit(verifEv{"e": "join", "obs": false, "calls": none(), "cv": [][2]string{}})
			ev := change(other(first[1]))
			c.handleWatchEvents(context.Background(), key, []*clientv3.Event{ev})
			em.Emit(logged(ev, false))
			close(joiner.release)
			wait("Registry.Monitor", done)
		} else { // shape 2
			e1 := change(other(""))
			e2 := change(other(string(e1.Kv.Key)))
			old.arm()
			go func() {
				defer close(done)
				c.handleWatchEvents(context.Background(), key, []*clientv3.Event{e1, e2})
			}()
			select {
			case <-old.entered:
			case <-done: // the events were handled without calling the old listener
				old.disarm()
			case <-time.After(clusterWait):
				t.Fatal("join driver: handleWatchEvents neither called the listener nor returned")
			}
			em.Emit(logged(e1, false))
			em.Emit(logged(e2, false))
			if err := reg.Monitor(endpoints, "svc", false, joiner); err != nil {
				t.Fatal(err)
			}
			recs = append(recs, joiner)
			em.Emit(verifEv{"e": "join", "obs": false, "calls": none(), "cv": [][2]string{}})
			close(old.release)
			wait("handleWatchEvents", done)
		}
		em.Emit(verifEv{"e": "sync", "calls": taken(), "cv": values()})
	}
}
