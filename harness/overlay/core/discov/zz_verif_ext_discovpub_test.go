//go:build verif

package discov

// Extension "discovpub" (host C13, advisory): drivers for the life cycle of discov.Publisher as
// a protocol with the etcd client.  They drive real Publishers against a fake
// internal.EtcdClient whose every call blocks until the driver answers it, and record
//   - the API calls and returns (KeepAlive / Pause / Resume / Stop, each on its own goroutine),
//   - the client calls the publisher made, with the answer the driver chose,
//   - stream ends / keep-alive responses the driver injected,
//   - "rest" observations: a goroutine dump in which every goroutine of this publisher is
//     parked (loops in a select, loops waiting for the re-registration tick, blocked Pause /
//     Resume callers).  Goroutines are attributed to a publisher through the "created by ... in
//     goroutine N" ancestry: N made a call on this publisher's fake client before.
// No expectations here: the verdict comes from TLC validating the recorded traces against
// specs/discovpub/Pub.tla (PubTrace.tla).  Nothing depends on wall-clock time: the one-second
// ticker of doKeepAlive is waited for ("tick" = poll until the waiting loop has left its wait),
// bounded waits that expire are infrastructure failures (t.Fatal).
//
//   TestVerifExtdiscovpubReplay   TLC-generated environment command lists (PubImpl.tla, Mode "rtc"):
//                                 one command, then let the library run until nothing moves
//   TestVerifExtdiscovpubStress   seeded random command lists without waiting in between: API
//                                 callers, replies and stream ends race with the loops

import (
	"context"
	"encoding/json"
	"errors"
	"fmt"
	"math/rand"
	"reflect"
	"regexp"
	"runtime"
	"strconv"
	"strings"
	"sync"
	"sync/atomic"
	"testing"
	"time"

	"github.com/zeromicro/go-zero/core/discov/internal"
	"github.com/zeromicro/go-zero/core/logx"
	"github.com/zeromicro/go-zero/core/threading"
	clientv3 "go.etcd.io/etcd/client/v3"
	"google.golang.org/grpc"
	"google.golang.org/grpc/credentials/insecure"
)

// ---------------------------------------------------------------- goroutine dumps

type verifExtdiscovpubG struct {
	id, parent int64
	state      string // "select", "chan receive", "chan send", "runnable", ...
	top        string // first frame that is not in package runtime
	stack      string
}

var (
	verifExtdiscovpubDumpMu  sync.Mutex
	verifExtdiscovpubDumpBuf = make([]byte, 1<<20)
	verifExtdiscovpubHead    = regexp.MustCompile(`^goroutine (\d+) \[([^\],]*)`)
	verifExtdiscovpubParent  = regexp.MustCompile(`(?m)^created by .* in goroutine (\d+)$`)
)

var (
	verifExtdiscovpubLastAt   time.Time
	verifExtdiscovpubLastDump map[int64]*verifExtdiscovpubG
)

// verifExtdiscovpubDump returns one consistent (stop-the-world) snapshot of all goroutines that
// was taken after the instant `after` (snapshots are shared between the publishers that are
// driven in parallel; the maps are read-only).
func verifExtdiscovpubDump(after time.Time) map[int64]*verifExtdiscovpubG {
	verifExtdiscovpubDumpMu.Lock()
	defer verifExtdiscovpubDumpMu.Unlock()
	if verifExtdiscovpubLastDump != nil && verifExtdiscovpubLastAt.After(after) {
		return verifExtdiscovpubLastDump
	}
	at := time.Now()
	var n int
	for {
		n = runtime.Stack(verifExtdiscovpubDumpBuf, true)
		if n < len(verifExtdiscovpubDumpBuf) {
			break
		}
		verifExtdiscovpubDumpBuf = make([]byte, 2*len(verifExtdiscovpubDumpBuf))
	}
	out := make(map[int64]*verifExtdiscovpubG)
	for _, blk := range strings.Split(string(verifExtdiscovpubDumpBuf[:n]), "\n\n") {
		m := verifExtdiscovpubHead.FindStringSubmatch(blk)
		if m == nil {
			continue
		}
		g := &verifExtdiscovpubG{state: m[2], stack: blk}
		g.id, _ = strconv.ParseInt(m[1], 10, 64)
		if pm := verifExtdiscovpubParent.FindStringSubmatch(blk); pm != nil {
			g.parent, _ = strconv.ParseInt(pm[1], 10, 64)
		}
		lines := strings.Split(blk, "\n")
		for i := 1; i < len(lines); i += 2 {
			if strings.HasPrefix(lines[i], "created by ") {
				break
			}
			if !strings.HasPrefix(lines[i], "runtime.") {
				g.top = lines[i]
				break
			}
		}
		out[g.id] = g
	}
	verifExtdiscovpubLastAt, verifExtdiscovpubLastDump = at, out
	return out
}

// ---------------------------------------------------------------- the fake etcd client

type verifExtdiscovpubCall struct {
	kind  string // grant | put | kalive | revoke
	ttl   int64
	lease int64
	key   int
	kid   int64
	val   int
	ok    bool
	newL  int64
	ch    chan *clientv3.LeaseKeepAliveResponse
	reply chan struct{}
}

type verifExtdiscovpubCaller struct {
	kind string
	goid atomic.Int64
	done atomic.Bool
}

// one publisher = one trace
type verifExtdiscovpubWorld struct {
	mu        sync.Mutex
	evs       []verifEv
	closed    bool
	pending   []*verifExtdiscovpubCall
	known     map[int64]bool // goroutines that called into the fake (and the KeepAlive callers)
	callers   []*verifExtdiscovpubCaller
	nextLease int64
	streams   map[int64]chan *clientv3.LeaseKeepAliveResponse
	open      []int64 // leases whose stream the driver has not ended
	pub       *Publisher
	stopped   bool
}

func (w *verifExtdiscovpubWorld) emit(ev verifEv) {
	w.mu.Lock()
	if !w.closed {
		w.evs = append(w.evs, ev)
	}
	w.mu.Unlock()
}

//go:noinline
func (w *verifExtdiscovpubWorld) call(c *verifExtdiscovpubCall) {
	c.reply = make(chan struct{})
	id := int64(threading.RoutineId())
	w.mu.Lock()
	w.known[id] = true
	w.pending = append(w.pending, c)
	w.mu.Unlock()
	<-c.reply
}

// one fake per worker slot (the registry caches the client per endpoints); the worker swaps worlds
type verifExtdiscovpubFake struct {
	conn *grpc.ClientConn
	w    atomic.Pointer[verifExtdiscovpubWorld]
}

var errVerifExtdiscovpub = errors.New("verif: injected etcd error")

func (f *verifExtdiscovpubFake) ActiveConnection() *grpc.ClientConn { return f.conn }
func (f *verifExtdiscovpubFake) Close() error                       { return nil }
func (f *verifExtdiscovpubFake) Ctx() context.Context               { return context.Background() }
func (f *verifExtdiscovpubFake) Get(context.Context, string, ...clientv3.OpOption) (*clientv3.GetResponse, error) {
	return nil, errVerifExtdiscovpub
}
func (f *verifExtdiscovpubFake) Watch(context.Context, string, ...clientv3.OpOption) clientv3.WatchChan {
	return make(chan clientv3.WatchResponse)
}

func (f *verifExtdiscovpubFake) Grant(_ context.Context, ttl int64) (*clientv3.LeaseGrantResponse, error) {
	c := &verifExtdiscovpubCall{kind: "grant", ttl: ttl}
	f.w.Load().call(c)
	if !c.ok {
		return nil, errVerifExtdiscovpub
	}
	return &clientv3.LeaseGrantResponse{ID: clientv3.LeaseID(c.newL), TTL: ttl}, nil
}

func verifExtdiscovpubNum(s, prefix string) int {
	if !strings.HasPrefix(s, prefix) {
		return -1
	}
	n, err := strconv.Atoi(s[len(prefix):])
	if err != nil || n < 0 || n > 1<<20 {
		return -1
	}
	return n
}

func (f *verifExtdiscovpubFake) Put(_ context.Context, key, val string, opts ...clientv3.OpOption) (*clientv3.PutResponse, error) {
	c := &verifExtdiscovpubCall{kind: "put", key: -1, kid: -1, lease: -1}
	if i := strings.LastIndexByte(key, '/'); i >= 0 {
		c.key = verifExtdiscovpubNum(key[:i], "k")
		if n, err := strconv.ParseInt(key[i+1:], 10, 64); err == nil && n >= 0 && n < 1<<30 {
			c.kid = n
		}
	}
	c.val = verifExtdiscovpubNum(val, "v")
	op := clientv3.OpPut(key, val, opts...)
	if fl := reflect.ValueOf(op).FieldByName("leaseID"); fl.IsValid() && fl.CanInt() && fl.Int() >= 0 && fl.Int() < 1<<30 {
		c.lease = fl.Int()
	}
	f.w.Load().call(c)
	if !c.ok {
		return nil, errVerifExtdiscovpub
	}
	return &clientv3.PutResponse{}, nil
}

func verifExtdiscovpubLease(id clientv3.LeaseID) int64 {
	if id < 0 || id >= 1<<30 {
		return -1
	}
	return int64(id)
}

func (f *verifExtdiscovpubFake) KeepAlive(_ context.Context, id clientv3.LeaseID) (<-chan *clientv3.LeaseKeepAliveResponse, error) {
	c := &verifExtdiscovpubCall{kind: "kalive", lease: verifExtdiscovpubLease(id)}
	f.w.Load().call(c)
	if !c.ok {
		return nil, errVerifExtdiscovpub
	}
	return c.ch, nil
}

func (f *verifExtdiscovpubFake) Revoke(_ context.Context, id clientv3.LeaseID) (*clientv3.LeaseRevokeResponse, error) {
	c := &verifExtdiscovpubCall{kind: "revoke", lease: verifExtdiscovpubLease(id)}
	f.w.Load().call(c)
	if !c.ok {
		return nil, errVerifExtdiscovpub
	}
	return &clientv3.LeaseRevokeResponse{}, nil
}

// ---------------------------------------------------------------- worker slots

type verifExtdiscovpubSlot struct {
	endpoints []string
	fake      *verifExtdiscovpubFake
}

var (
	verifExtdiscovpubSlots   sync.Map // endpoint -> *verifExtdiscovpubFake
	verifExtdiscovpubSlotSeq atomic.Int64
)

func verifExtdiscovpubInstall(t *testing.T) func() {
	mockLock.Lock()
	logx.Disable()
	internal.NewClient = func(endpoints []string) (internal.EtcdClient, error) {
		if len(endpoints) == 1 {
			if f, ok := verifExtdiscovpubSlots.Load(endpoints[0]); ok {
				return f.(*verifExtdiscovpubFake), nil
			}
		}
		return nil, errVerifExtdiscovpub
	}
	return func() {
		internal.NewClient = internal.DialClient
		mockLock.Unlock()
	}
}

// a fresh slot: its own endpoints (its own cluster and cached client in the registry); the
// connection-state watcher the registry starts for a new client is spawned here, by a
// goroutine that never belongs to a publisher
func verifExtdiscovpubNewSlot(t *testing.T, conn *grpc.ClientConn) *verifExtdiscovpubSlot {
	ep := fmt.Sprintf("verif-ext-discovpub-%d", verifExtdiscovpubSlotSeq.Add(1))
	s := &verifExtdiscovpubSlot{endpoints: []string{ep}, fake: &verifExtdiscovpubFake{conn: conn}}
	verifExtdiscovpubSlots.Store(ep, s.fake)
	cli, err := internal.GetRegistry().GetConn(s.endpoints)
	if err != nil || cli != internal.EtcdClient(s.fake) {
		t.Fatalf("ext-discovpub: the registry did not hand out the fake client: %v", err)
	}
	return s
}

// ---------------------------------------------------------------- driving one publisher

type verifExtdiscovpubRest struct {
	loops, tick, pb, rb, calls int
}

const verifExtdiscovpubPatience = 60 * time.Second

// wait reasons of a goroutine blocked in a channel operation (a select with one case is
// compiled to a plain receive)
var verifExtdiscovpubParked = map[string]bool{"select": true, "chan receive": true, "chan send": true, "select (no cases)": true}

func (w *verifExtdiscovpubWorld) inCall(g *verifExtdiscovpubG) bool {
	return g.state == "chan receive" && strings.Contains(g.top, "verifExtdiscovpubWorld).call")
}

// settle polls goroutine dumps until every goroutine of this publisher is parked: loops in a
// select of keepAliveAsync's goroutine, loops in doKeepAlive's wait for the ticker, library
// goroutines inside a client call the driver has not answered, API callers blocked in their
// channel send or finished.  With no client call outstanding the observation is logged as a
// "rest" event -- atomically with respect to this publisher's other events: if anything was
// logged since before the dump was taken, the dump is discarded.  passTick: a state with a
// loop waiting for the ticker is not accepted (wait until the tick has fired).
func (w *verifExtdiscovpubWorld) settle(t *testing.T, passTick bool) verifExtdiscovpubRest {
	deadline := time.Now().Add(verifExtdiscovpubPatience)
	var last string
	for it := 0; ; it++ {
		if time.Now().After(deadline) {
			t.Fatalf("ext-discovpub: publisher did not come to rest (passTick=%v): %s", passTick, last)
		}
		switch {
		case it == 0:
		case it < 20:
			runtime.Gosched()
		case passTick:
			time.Sleep(20 * time.Millisecond)
		case it < 200:
			time.Sleep(200 * time.Microsecond)
		default:
			time.Sleep(2 * time.Millisecond)
		}
		w.mu.Lock()
		n0 := len(w.evs)
		npend := len(w.pending)
		callers := append([]*verifExtdiscovpubCaller(nil), w.callers...)
		known := make(map[int64]bool, len(w.known))
		for k := range w.known {
			known[k] = true
		}
		w.mu.Unlock()
		callerIds := make(map[int64]*verifExtdiscovpubCaller, len(callers))
		started := true
		for _, c := range callers {
			id := c.goid.Load()
			if id == 0 {
				started = false
			}
			callerIds[id] = c
		}
		if !started {
			last = "an API caller goroutine has not started yet"
			continue
		}
		dump := verifExtdiscovpubDump(time.Now())
		var r verifExtdiscovpubRest
		stable := true
		for _, c := range callers {
			if c.done.Load() {
				continue
			}
			g := dump[c.goid.Load()]
			switch {
			case g == nil:
				// finished between the dump and now: done is set before the goroutine exits
				if !c.done.Load() {
					stable, last = false, "caller vanished"
				}
			case g.state == "chan send" && c.kind == "pause":
				r.pb++
			case g.state == "chan send" && c.kind == "resume":
				r.rb++
			case w.inCall(g):
				r.calls++
			default:
				stable, last = false, "caller "+c.kind+" busy: "+g.state+" "+g.top
			}
		}
		for _, g := range dump {
			if !known[g.parent] || callerIds[g.id] != nil {
				continue
			}
			switch {
			case w.inCall(g):
				r.calls++
			case verifExtdiscovpubParked[g.state] && strings.Contains(g.top, "keepAliveAsync.func"):
				r.loops++ // in the renewing select or in the paused select
			case (verifExtdiscovpubParked[g.state] || g.state == "sleep") && strings.Contains(g.top, "(*Publisher).doKeepAlive("):
				r.tick++ // only time moves it
			default:
				stable, last = false, "library goroutine busy: "+g.state+" "+g.top
			}
		}
		if !stable {
			continue
		}
		if r.calls != npend {
			last = fmt.Sprintf("calls parked %d, registered %d", r.calls, npend)
			continue
		}
		if passTick && r.tick > 0 {
			last = "waiting for the ticker"
			continue
		}
		if r.calls > 0 {
			return r
		}
		w.mu.Lock()
		fresh := len(w.evs) == n0 && len(w.pending) == 0
		if fresh && !w.closed {
			w.evs = append(w.evs, verifEv{"e": "rest", "loops": r.loops, "tick": r.tick, "pb": r.pb, "rb": r.rb})
		}
		w.mu.Unlock()
		if fresh {
			return r
		}
		last = "events were logged while the dump was taken"
	}
}

// an API call on its own goroutine
func (w *verifExtdiscovpubWorld) api(kind string) {
	c := &verifExtdiscovpubCaller{kind: kind}
	w.mu.Lock()
	w.callers = append(w.callers, c)
	w.mu.Unlock()
	go func() {
		id := int64(threading.RoutineId())
		if kind == "ka" {
			w.mu.Lock()
			w.known[id] = true
			w.mu.Unlock()
		}
		c.goid.Store(id)
		switch kind {
		case "ka":
			w.emit(verifEv{"e": "kaCall"})
			err := w.pub.KeepAlive()
			w.emit(verifEv{"e": "kaRet", "err": err != nil})
		case "pause":
			w.emit(verifEv{"e": "pauseCall"})
			w.pub.Pause()
			w.emit(verifEv{"e": "pauseRet"})
		case "resume":
			w.emit(verifEv{"e": "resumeCall"})
			w.pub.Resume()
			w.emit(verifEv{"e": "resumeRet"})
		case "stop":
			w.emit(verifEv{"e": "stopCall"})
			w.pub.Stop()
			w.emit(verifEv{"e": "stopRet"})
		}
		c.done.Store(true)
	}()
}

func (w *verifExtdiscovpubWorld) kaOutstanding() bool {
	w.mu.Lock()
	defer w.mu.Unlock()
	for _, c := range w.callers {
		if c.kind == "ka" && !c.done.Load() {
			return true
		}
	}
	return false
}

// answer the oldest outstanding client call; false when there is none
func (w *verifExtdiscovpubWorld) reply(ok bool) bool {
	w.mu.Lock()
	if len(w.pending) == 0 {
		w.mu.Unlock()
		return false
	}
	c := w.pending[0]
	w.pending = w.pending[1:]
	w.mu.Unlock()
	c.ok = ok
	switch c.kind {
	case "grant":
		if ok {
			w.nextLease++
			c.newL = w.nextLease
		}
		w.emit(verifEv{"e": "grant", "ttl": int(c.ttl), "ok": ok, "l": int(c.newL)})
	case "put":
		w.emit(verifEv{"e": "put", "l": int(c.lease), "key": c.key, "kid": int(c.kid), "val": c.val, "ok": ok})
	case "kalive":
		if ok {
			c.ch = make(chan *clientv3.LeaseKeepAliveResponse, 4)
			w.streams[c.lease] = c.ch
			w.open = append(w.open, c.lease)
		}
		w.emit(verifEv{"e": "kalive", "l": int(c.lease), "ok": ok})
	case "revoke":
		w.emit(verifEv{"e": "revoke", "l": int(c.lease), "ok": ok})
	}
	close(c.reply)
	return true
}

func (w *verifExtdiscovpubWorld) isOpen(l int64) bool {
	for _, x := range w.open {
		if x == l {
			return true
		}
	}
	return false
}

func (w *verifExtdiscovpubWorld) closeStream(l int64) bool {
	if !w.isOpen(l) {
		return false
	}
	for i, x := range w.open {
		if x == l {
			w.open = append(w.open[:i], w.open[i+1:]...)
			break
		}
	}
	w.emit(verifEv{"e": "close", "l": int(l)})
	close(w.streams[l])
	return true
}

func (w *verifExtdiscovpubWorld) respond(l int64) bool {
	if !w.isOpen(l) || len(w.streams[l]) == cap(w.streams[l]) {
		return false
	}
	w.emit(verifEv{"e": "karesp", "l": int(l)})
	select {
	case w.streams[l] <- &clientv3.LeaseKeepAliveResponse{ID: clientv3.LeaseID(l)}:
	default: // only this goroutine sends; the buffer had room
	}
	return true
}

func verifExtdiscovpubNewWorld(s *verifExtdiscovpubSlot, id int64, key, val int) *verifExtdiscovpubWorld {
	w := &verifExtdiscovpubWorld{known: map[int64]bool{}, streams: map[int64]chan *clientv3.LeaseKeepAliveResponse{}}
	var opts []PubOption
	if id > 0 {
		opts = append(opts, WithId(id))
	}
	w.pub = NewPublisher(s.endpoints, fmt.Sprintf("k%d", key), fmt.Sprintf("v%d", val), opts...)
	w.evs = append(w.evs, verifEv{"e": "reset", "id": int(id), "ttl": int(TimeToLive), "key": key, "val": val})
	s.fake.w.Store(w)
	return w
}

// finish: Stop, answer whatever is still asked (ok), let waiting loops see their tick, take the
// last observation; then release what the history left blocked.  Returns false when library
// goroutines are left over (the slot must not be used again).
func (w *verifExtdiscovpubWorld) finish(t *testing.T) bool {
	w.api("stop")
	var r verifExtdiscovpubRest
	for i := 0; ; i++ {
		r = w.settle(t, false)
		if i >= 8 {
			break // keeps registering after Stop: recorded as it is; the goroutines are abandoned with the slot
		}
		if r.calls > 0 {
			for w.reply(true) {
			}
			continue
		}
		if r.tick > 0 {
			r = w.settle(t, true)
			if r.calls > 0 {
				continue
			}
		}
		break
	}
	w.mu.Lock()
	w.closed = true
	w.mu.Unlock()
	for i := 0; i < r.pb; i++ {
		<-w.pub.pauseChan
	}
	for i := 0; i < r.rb; i++ {
		<-w.pub.resumeChan
	}
	return r.loops == 0 && r.tick == 0 && r.calls == 0
}

type verifExtdiscovpubCmd struct {
	C  string `json:"c"`
	Ok bool   `json:"ok"`
	L  int64  `json:"l"`
}

type verifExtdiscovpubJob struct {
	Id   int64                  `json:"id"`
	Cmds []verifExtdiscovpubCmd `json:"cmds"`
	n    int
	rng  *rand.Rand // stress: commands are drawn while the publisher runs
}

func (j *verifExtdiscovpubJob) run(t *testing.T, w *verifExtdiscovpubWorld, lockstep bool) {
	var last verifExtdiscovpubRest
	if j.rng == nil {
		for _, c := range j.Cmds {
			w.step(t, c, lockstep, &last)
		}
		return
	}
	steps := 12 + j.rng.Intn(28)
	failp := 5 + j.rng.Intn(30)
	ticks := 0
	for i := 0; i < steps; i++ {
		was := w.stopped
		w.step(t, w.random(j.rng, i, steps, failp, &ticks), lockstep, &last)
		if w.stopped && !was && steps > i+6 {
			steps = i + 6 // little happens after Stop
		}
		if j.rng.Intn(3) == 0 {
			runtime.Gosched()
		}
	}
}

// perform one command; lockstep: let the library run until nothing moves afterwards
func (w *verifExtdiscovpubWorld) step(t *testing.T, c verifExtdiscovpubCmd, lockstep bool, lastp *verifExtdiscovpubRest) {
	switch c.C {
	case "ka":
		// usage assumption: KeepAlive is called when no loop of this publisher runs
		r := *lastp
		if !lockstep {
			r = w.settle(t, false)
			*lastp = r
		}
		if r.calls > 0 || r.loops > 0 || r.tick > 0 || w.kaOutstanding() {
			return
		}
		w.api("ka")
	case "pause", "resume", "stop":
		w.api(c.C)
	case "reply":
		if !w.reply(c.Ok) {
			return
		}
	case "close":
		if !w.closeStream(c.L) {
			return
		}
	case "resp":
		if !w.respond(c.L) {
			return
		}
	case "tick":
		r := *lastp
		if !lockstep {
			r = w.settle(t, false)
		}
		if r.tick == 0 {
			*lastp = r
			return
		}
		*lastp = w.settle(t, true)
		return
	case "rest":
		*lastp = w.settle(t, false)
		return
	}
	if lockstep {
		*lastp = w.settle(t, false)
	}
}

func verifExtdiscovpubRun(t *testing.T, em *verifEmitter, jobs []verifExtdiscovpubJob, lockstep bool, workers int) {
	restore := verifExtdiscovpubInstall(t)
	defer restore()
	old := TimeToLive
	TimeToLive = 7 + verifSeed()%5
	defer func() { TimeToLive = old }()
	conn, err := grpc.NewClient("passthrough:///verif-ext-discovpub", grpc.WithTransportCredentials(insecure.NewCredentials()))
	if err != nil {
		t.Fatal(err)
	}
	defer conn.Close()
	var flush sync.Mutex
	var next atomic.Int64
	var wg sync.WaitGroup
	for k := 0; k < workers; k++ {
		wg.Add(1)
		go func() {
			defer wg.Done()
			slot := verifExtdiscovpubNewSlot(t, conn)
			for {
				i := int(next.Add(1)) - 1
				if i >= len(jobs) || t.Failed() {
					return
				}
				job := jobs[i]
				w := verifExtdiscovpubNewWorld(slot, job.Id, 1+job.n%3, 1+job.n%5)
				job.run(t, w, lockstep)
				clean := w.finish(t)
				flush.Lock()
				for _, ev := range w.evs {
					em.Emit(ev)
				}
				flush.Unlock()
				if !clean {
					slot = verifExtdiscovpubNewSlot(t, conn)
				}
			}
		}()
	}
	wg.Wait()
}

// TestVerifExtdiscovpubReplay: $VERIF_IN = one job per line: {"id": WithId or 0, "cmds": [...]}.
func TestVerifExtdiscovpubReplay(t *testing.T) {
	em := verifOpen(t)
	defer em.Close()
	var jobs []verifExtdiscovpubJob
	for i, raw := range verifInput(t) {
		var j verifExtdiscovpubJob
		if err := json.Unmarshal(raw, &j); err != nil {
			t.Fatalf("bad behaviour %d: %v", i, err)
		}
		j.n = i
		jobs = append(jobs, j)
	}
	if len(jobs) == 0 {
		t.Fatal("no behaviours")
	}
	verifExtdiscovpubRun(t, em, jobs, true, verifEnvInt("VERIF_EXT_PUB_WORKERS", 24))
}

// TestVerifExtdiscovpubStress: seeded random command lists, nothing waits for the library
// between two commands (except where the usage assumption needs an observation).
func TestVerifExtdiscovpubStress(t *testing.T) {
	em := verifOpen(t)
	defer em.Close()
	runs := verifEnvInt("VERIF_EXT_PUB_RUNS", 60)
	var jobs []verifExtdiscovpubJob
	for i := 0; i < runs; i++ {
		rng := verifRand(int64(7919 + i + 100000*verifEnvInt("VERIF_EXT_PUB_SALT", 0)))
		j := verifExtdiscovpubJob{n: i, rng: rng}
		if rng.Intn(2) == 0 {
			j.Id = int64(1 + rng.Intn(50))
		}
		jobs = append(jobs, j)
	}
	verifExtdiscovpubRun(t, em, jobs, false, verifEnvInt("VERIF_EXT_PUB_WORKERS", 24))
}

// the next random command, chosen by looking at what the environment knows (calls it has not
// answered, streams it has not ended, whether it has called Stop)
func (w *verifExtdiscovpubWorld) random(rng *rand.Rand, i, steps, failp int, ticks *int) verifExtdiscovpubCmd {
	w.mu.Lock()
	npend := len(w.pending)
	w.mu.Unlock()
	var c verifExtdiscovpubCmd
	if i == 0 {
		c.C = "ka"
		return c
	}
	if npend > 0 && rng.Intn(100) < 75 {
		c.C, c.Ok = "reply", rng.Intn(100) >= failp
		return c
	}
	x := rng.Intn(100)
	switch {
	case x < 10:
		c.C = "ka"
	case x < 24:
		c.C = "pause"
	case x < 38:
		c.C = "resume"
	case x < 58 && len(w.open) > 0:
		c.C, c.L = "close", w.open[rng.Intn(len(w.open))]
	case x < 64 && len(w.open) > 0:
		c.C, c.L = "resp", w.open[rng.Intn(len(w.open))]
	case x < 76 && *ticks < 3:
		c.C = "tick"
		*ticks++
	case x < 80 && (3*i > 2*steps || rng.Intn(4) == 0) && (!w.stopped || rng.Intn(4) == 0):
		c.C = "stop"
		w.stopped = true
	case x < 90:
		c.C = "rest"
	default:
		c.C, c.Ok = "reply", rng.Intn(100) >= failp
	}
	return c
}
