//go:build verif

package discov

// C13 drivers for package discov. They perform registry-event histories on the real code
// and record what Values() returned and what the listeners saw. No expectations here: the
// verdict comes from TLC validating the recorded trace against specs/discov/Discov.tla.
//
//   TestVerifDiscovContainer  the container alone (OnAdd / OnDelete / getValues)
//   TestVerifDiscovStack      NewSubscriber -> Registry -> cluster with a fake EtcdClient
//                             whose Get / Watch the driver feeds (PUT / DELETE watch events,
//                             several events in one response, compaction -> reload snapshot,
//                             late subscription to an existing watcher)

import (
	"context"
	"encoding/json"
	"fmt"
	"sort"
	"sync"
	"testing"
	"time"

	"github.com/zeromicro/go-zero/core/discov/internal"
	"github.com/zeromicro/go-zero/core/logx"
	"go.etcd.io/etcd/api/v3/etcdserverpb"
	"go.etcd.io/etcd/api/v3/mvccpb"
	clientv3 "go.etcd.io/etcd/client/v3"
	"google.golang.org/grpc"
	"google.golang.org/grpc/credentials/insecure"
)

type discovOp struct {
	Op   string      `json:"op"` // put | del | reload | listen
	K    string      `json:"k"`
	V    string      `json:"v"`
	Snap [][2]string `json:"snap"`
	More bool        `json:"more"` // stack driver: same watch response as the next op
}

type discovHist struct {
	Excl bool       `json:"excl"`
	NL   int        `json:"nl"`
	Ops  []discovOp `json:"ops"`
}

func discovSorted(v []string) []string {
	out := append([]string{}, v...)
	sort.Strings(out)
	return out
}

// discovCalls collects listener invocations (listener id, Values() read inside the call).
type discovCalls struct {
	mu    sync.Mutex
	calls []verifEv
}

func (c *discovCalls) listener(id int, values func() []string) func() {
	return func() {
		v := discovSorted(values())
		c.mu.Lock()
		c.calls = append(c.calls, verifEv{"l": id, "vals": v})
		c.mu.Unlock()
	}
}

func (c *discovCalls) take() []verifEv {
	c.mu.Lock()
	out := c.calls
	c.calls = nil
	c.mu.Unlock()
	if out == nil {
		out = []verifEv{}
	}
	return out
}

func discovSnap(s [][2]string) [][2]string {
	if s == nil {
		return [][2]string{}
	}
	return s
}

// ---------------------------------------------------------------- container

func discovContainerHistory(t *testing.T, em *verifEmitter, h discovHist) {
	c := newContainer(h.Excl)
	rec := &discovCalls{}
	nl := 0
	for ; nl < h.NL; nl++ {
		c.addListener(rec.listener(nl+1, c.getValues))
	}
	em.Emit(verifEv{"e": "reset", "excl": h.Excl, "nl": h.NL})
	for _, op := range h.Ops {
		switch op.Op {
		case "put":
			c.OnAdd(internal.KV{Key: op.K, Val: op.V})
			em.Emit(verifEv{"e": "put", "k": op.K, "v": op.V, "obs": true,
				"vals": discovSorted(c.getValues()), "calls": rec.take()})
		case "del":
			// a DELETE watch event carries no value
			c.OnDelete(internal.KV{Key: op.K, Val: op.V})
			em.Emit(verifEv{"e": "del", "k": op.K, "obs": true,
				"vals": discovSorted(c.getValues()), "calls": rec.take()})
		case "listen":
			nl++
			c.addListener(rec.listener(nl, c.getValues))
			em.Emit(verifEv{"e": "listen"})
		default:
			t.Fatalf("container driver: unknown op %q", op.Op)
		}
	}
}

func discovRandomHistory(rnd interface{ Intn(int) int }, length int, reloads, batches bool) discovHist {
	h := discovHist{Excl: rnd.Intn(2) == 0, NL: rnd.Intn(3)}
	nk := 1 + rnd.Intn(5)
	nv := 1 + rnd.Intn(4)
	key := func() string { return fmt.Sprintf("svc/%d", 1+rnd.Intn(nk)) }
	val := func() string { return fmt.Sprintf("10.0.0.%d:80", 1+rnd.Intn(nv)) }
	cur := map[string]string{}
	n := 3 + rnd.Intn(length)
	for i := 0; i < n; i++ {
		var op discovOp
		switch r := rnd.Intn(100); {
		case r < 45:
			op = discovOp{Op: "put", K: key(), V: val()}
			if len(cur) > 0 && rnd.Intn(3) == 0 { // update an existing key in place
				for k := range cur {
					op.K = k
					break
				}
			}
			cur[op.K] = op.V
		case r < 75:
			op = discovOp{Op: "del", K: key()}
			delete(cur, op.K)
		case r < 80:
			op = discovOp{Op: "listen"}
		default:
			if !reloads {
				op = discovOp{Op: "put", K: key(), V: val()}
				cur[op.K] = op.V
				break
			}
			// a snapshot: the current table with a few keys changed, dropped or added
			snap := map[string]string{}
			for k, v := range cur {
				switch rnd.Intn(4) {
				case 0:
				case 1:
					snap[k] = val()
				default:
					snap[k] = v
				}
			}
			for j := rnd.Intn(3); j > 0; j-- {
				snap[key()] = val()
			}
			op = discovOp{Op: "reload"}
			keys := make([]string, 0, len(snap))
			for k := range snap {
				keys = append(keys, k)
			}
			sort.Strings(keys)
			for _, k := range keys {
				op.Snap = append(op.Snap, [2]string{k, snap[k]})
			}
			cur = snap
		}
		if batches && (op.Op == "put" || op.Op == "del") && rnd.Intn(4) == 0 {
			op.More = true
		}
		h.Ops = append(h.Ops, op)
	}
	return h
}

func discovInputHistories(t *testing.T) []discovHist {
	var out []discovHist
	for i, raw := range verifInput(t) {
		var h discovHist
		if err := json.Unmarshal(raw, &h); err != nil {
			t.Fatal(err)
		}
		h.NL = 1 + i%2
		out = append(out, h)
	}
	return out
}

// TestVerifDiscovContainer replays TLC-generated put/del histories (one per distinct state of
// DiscovImpl) and seeded random ones on the real container.
func TestVerifDiscovContainer(t *testing.T) {
	em := verifOpen(t)
	defer em.Close()
	for _, h := range discovInputHistories(t) {
		discovContainerHistory(t, em, h)
	}
	rnd := verifRand(131)
	histories, length := 200, 40
	if verifThorough() {
		histories, length = 2000, 80
	}
	for i := 0; i < histories; i++ {
		discovContainerHistory(t, em, discovRandomHistory(rnd, length, false, false))
	}
}

// ---------------------------------------------------------------- whole stack, fake etcd client

type discovFakeEtcd struct {
	conn    *grpc.ClientConn
	mu      sync.Mutex
	snap    [][2]string
	rev     int64
	watches chan chan clientv3.WatchResponse
}

func (f *discovFakeEtcd) ActiveConnection() *grpc.ClientConn { return f.conn }
func (f *discovFakeEtcd) Close() error                       { return nil }
func (f *discovFakeEtcd) Ctx() context.Context               { return context.Background() }
func (f *discovFakeEtcd) Get(_ context.Context, _ string, _ ...clientv3.OpOption) (*clientv3.GetResponse, error) {
	f.mu.Lock()
	defer f.mu.Unlock()
	f.rev++
	resp := &clientv3.GetResponse{Header: &etcdserverpb.ResponseHeader{Revision: f.rev}}
	for _, kv := range f.snap {
		resp.Kvs = append(resp.Kvs, &mvccpb.KeyValue{Key: []byte(kv[0]), Value: []byte(kv[1])})
	}
	return resp, nil
}
func (f *discovFakeEtcd) Grant(context.Context, int64) (*clientv3.LeaseGrantResponse, error) {
	return nil, fmt.Errorf("not used")
}
func (f *discovFakeEtcd) KeepAlive(context.Context, clientv3.LeaseID) (<-chan *clientv3.LeaseKeepAliveResponse, error) {
	return nil, fmt.Errorf("not used")
}
func (f *discovFakeEtcd) Put(context.Context, string, string, ...clientv3.OpOption) (*clientv3.PutResponse, error) {
	return nil, fmt.Errorf("not used")
}
func (f *discovFakeEtcd) Revoke(context.Context, clientv3.LeaseID) (*clientv3.LeaseRevokeResponse, error) {
	return nil, fmt.Errorf("not used")
}
func (f *discovFakeEtcd) Watch(_ context.Context, _ string, _ ...clientv3.OpOption) clientv3.WatchChan {
	ch := make(chan clientv3.WatchResponse) // unbuffered: a completed send = the watch loop took it
	f.watches <- ch
	return ch
}

const discovWait = 120 * time.Second

var discovStackSeq int

func discovStackHistory(t *testing.T, em *verifEmitter, conn *grpc.ClientConn, h discovHist, primer int) {
	discovStackSeq++
	endpoints := []string{fmt.Sprintf("verif-etcd-%d:2379", discovStackSeq)}
	fake := &discovFakeEtcd{conn: conn, rev: 1, watches: make(chan chan clientv3.WatchResponse, 64)}
	internal.NewClient = func([]string) (internal.EtcdClient, error) { return fake, nil }
	defer func() { internal.NewClient = internal.DialClient }()

	nextWatch := func() chan clientv3.WatchResponse {
		select {
		case ch := <-fake.watches:
			return ch
		case <-time.After(discovWait):
			t.Fatal("stack driver: the cluster did not (re)start its watch")
			return nil
		}
	}
	send := func(ch chan clientv3.WatchResponse, r clientv3.WatchResponse) {
		select {
		case ch <- r:
		case <-time.After(discovWait):
			t.Fatal("stack driver: the watch loop does not take responses")
		}
	}

	ops := h.Ops
	var ch chan clientv3.WatchResponse
	var opts []SubOption
	if h.Excl {
		opts = append(opts, Exclusive())
	}
	cur := map[string]string{}
	setSnap := func() [][2]string {
		keys := make([]string, 0, len(cur))
		for k := range cur {
			keys = append(keys, k)
		}
		sort.Strings(keys)
		s := [][2]string{}
		for _, k := range keys {
			s = append(s, [2]string{k, cur[k]})
		}
		fake.mu.Lock()
		fake.snap = s
		fake.mu.Unlock()
		return s
	}
	event := func(op discovOp) *clientv3.Event {
		if op.Op == "put" {
			cur[op.K] = op.V
			return &clientv3.Event{Type: clientv3.EventTypePut,
				Kv: &mvccpb.KeyValue{Key: []byte(op.K), Value: []byte(op.V)}}
		}
		delete(cur, op.K)
		return &clientv3.Event{Type: clientv3.EventTypeDelete, Kv: &mvccpb.KeyValue{Key: []byte(op.K)}}
	}
	deliver := func(evs []*clientv3.Event) {
		send(ch, clientv3.WatchResponse{Events: evs})
		send(ch, clientv3.WatchResponse{}) // taken only after the previous response was handled
	}
	reload := func(snap [][2]string) {
		cur = map[string]string{}
		for _, kv := range snap {
			cur[kv[0]] = kv[1]
		}
		setSnap()
		send(ch, clientv3.WatchResponse{CompactRevision: 1}) // ErrCompacted -> load -> watch again
		ch = nextWatch()
	}

	// optionally another subscriber holds the watcher first: the observed subscriber then
	// joins through Registry.Monitor's replay of the current values
	if primer > 0 {
		setSnap()
		p, err := NewSubscriber(endpoints, "svc")
		if err != nil {
			t.Fatal(err)
		}
		defer p.Close()
		ch = nextWatch()
		for ; primer > 0 && len(ops) > 0; primer-- {
			op := ops[0]
			ops = ops[1:]
			switch op.Op {
			case "put", "del":
				deliver([]*clientv3.Event{event(op)})
			case "reload":
				reload(op.Snap)
			}
		}
	}

	joined := setSnap()
	sub, err := NewSubscriber(endpoints, "svc", opts...)
	if err != nil {
		t.Fatal(err)
	}
	defer sub.Close()
	if ch == nil {
		ch = nextWatch()
	}
	rec := &discovCalls{}
	nl := 0
	em.Emit(verifEv{"e": "reset", "excl": h.Excl, "nl": 0})
	em.Emit(verifEv{"e": "reload", "snap": joined, "obs": true,
		"vals": discovSorted(sub.Values()), "calls": rec.take()})
	for ; nl < h.NL; nl++ {
		sub.AddListener(rec.listener(nl+1, sub.Values))
		em.Emit(verifEv{"e": "listen"})
	}
	var batch []*clientv3.Event
	var pending []verifEv
	for i, op := range ops {
		switch op.Op {
		case "put", "del":
			batch = append(batch, event(op))
			ev := verifEv{"e": op.Op, "k": op.K, "obs": false, "vals": []string{}, "calls": []verifEv{}}
			if op.Op == "put" {
				ev["v"] = op.V
			}
			pending = append(pending, ev)
			if op.More && i+1 < len(ops) && (ops[i+1].Op == "put" || ops[i+1].Op == "del") {
				continue
			}
			deliver(batch)
			last := pending[len(pending)-1]
			last["obs"] = true
			last["vals"] = discovSorted(sub.Values())
			last["calls"] = rec.take()
			for _, ev := range pending {
				em.Emit(ev)
			}
			batch, pending = nil, nil
		case "reload":
			reload(op.Snap)
			em.Emit(verifEv{"e": "reload", "snap": discovSnap(op.Snap), "obs": true,
				"vals": discovSorted(sub.Values()), "calls": rec.take()})
		case "listen":
			nl++
			sub.AddListener(rec.listener(nl, sub.Values))
			em.Emit(verifEv{"e": "listen"})
		default:
			t.Fatalf("stack driver: unknown op %q", op.Op)
		}
	}
}

// TestVerifDiscovStack replays TLC-generated histories with reload snapshots and seeded
// random ones through the real Subscriber / Registry / cluster code.
func TestVerifDiscovStack(t *testing.T) {
	logx.Disable()
	em := verifOpen(t)
	defer em.Close()
	conn, err := grpc.NewClient("passthrough:///verif-etcd", grpc.WithTransportCredentials(insecure.NewCredentials()))
	if err != nil {
		t.Fatal(err)
	}
	for _, h := range discovInputHistories(t) {
		discovStackHistory(t, em, conn, h, 0)
	}
	rnd := verifRand(132)
	histories, length := 120, 30
	if verifThorough() {
		histories, length = 2500, 60
	}
	for i := 0; i < histories; i++ {
		primer := 0
		if rnd.Intn(3) == 0 {
			primer = 1 + rnd.Intn(6)
		}
		discovStackHistory(t, em, conn, discovRandomHistory(rnd, length, true, true), primer)
	}
}
