//go:build verif

package mr

// C05 adapters for the mapper worker pool (mr.WithWorkers) of MapReduceVoid ("mr") and ForEach
// ("mrfe").  Drive and record only; the verdict comes from TLC validating the trace against
// specs/caps/Semaphore.tla.  One library call lasts for the whole trace: tickets are items fed
// to the generate function, the mapper is the guarded region.  A worker slot is given back by
// the library some time after the mapper returned, which is never reported: releases are logged
// as complete once the call has returned.

import (
	"sync/atomic"
	"testing"
	"time"
)

type verifCapsMr struct {
	kind string
	feed chan int
	done chan struct{}
}

func (a *verifCapsMr) Kind() string                 { return a.kind }
func (a *verifCapsMr) Supports(w string) bool       { return w == "block" }
func (a *verifCapsMr) Release() string              { return "close" }
func (a *verifCapsMr) Over(c *verifCapsCtx) bool    { return false }
func (a *verifCapsMr) Quiesce(c *verifCapsCtx) bool { return true }
func (a *verifCapsMr) Close(c *verifCapsCtx) bool {
	close(a.feed)
	d := verifCapsLong
	if atomic.LoadInt32(c.expired) > 0 {
		d = time.Second
	}
	select {
	case <-a.done:
		return true
	case <-time.After(d):
		atomic.AddInt32(c.expired, 1)
		c.Emit(verifEv{"e": "stuck", "what": "the mapreduce call did not return"})
		return false
	}
}
func (a *verifCapsMr) Do(c *verifCapsCtx, p int, mode string) {
	c.AcqStart(p, "block")
	a.feed <- p
}

func verifCapsMake(c *verifCapsCtx, kind string, n int, age int) (verifCapsAdapter, func(), func()) {
	a := &verifCapsMr{kind: kind, feed: make(chan int), done: make(chan struct{})}
	gen := func(source chan<- int) {
		for p := range a.feed {
			source <- p
		}
	}
	switch kind {
	case "mr":
		go func() {
			defer close(a.done)
			defer func() { recover() }()
			_ = MapReduceVoid(gen, func(p int, w Writer[int], cancel func(error)) {
				c.Region(p, 0)
				w.Write(p)
			}, func(pipe <-chan int, cancel func(error)) {
				for range pipe {
				}
			}, WithWorkers(n))
		}()
	case "mrfe":
		go func() {
			defer close(a.done)
			defer func() { recover() }()
			ForEach(gen, func(p int) { c.Region(p, 0) }, WithWorkers(n))
		}()
	default:
		return nil, nil, nil
	}
	return a, nil, nil
}

func TestVerifCapsReplay(t *testing.T) { verifCapsReplayAll(t, verifCapsMake) }

func TestVerifCapsStress(t *testing.T) {
	verifCapsStressAll(t, []string{"mr", "mrfe"}, verifCapsMake)
}
