//go:build verif

package mr

// C10 driver: drives real MapReduce / MapReduceVoid / MapReduceChan / ForEach / Finish / FinishVoid calls
// whose user functions (generator, mappers, reducer) are supplied by the harness, and records what those
// functions and the caller observe.  No expectations here: the verdict comes from TLC validating the
// recorded trace against specs/mr/MR.tla (via MRTrace.tla).
//
// Two ways of driving:
//   steered  every operation of a user function (send an item, write, receive, cancel, panic, return) and
//            the context's end is one step of a TLC-generated schedule (MRImpl.tla, steering mode); between
//            steps the driver waits until the library cannot move (every goroutine of the call is blocked:
//            a consistent runtime.Stack snapshot - a logical condition, not a delay);
//   free     every user function follows a seeded random script with random yields; functions may stall
//            until the call returned or nothing else can move; the context ends at a scripted event count.
// Goroutine accounting at the end of a call (never a delay-based verdict): with every gate open, the
// driver samples all goroutines until either none that was started by the library for this call is left,
// or all that are left (and the caller, if it has not returned) are blocked on channel operations /
// wait groups / sync.Once with identical stacks in three consecutive samples; only those count as leaked.

import (
	"bytes"
	"context"
	"errors"
	"fmt"
	"reflect"
	"runtime"
	"sort"
	"strconv"
	"strings"
	"sync"
	"sync/atomic"
	"testing"
	"time"

)

const (
	verifMRRedOut      = 900
	verifMRGenPanic    = 100001
	verifMRRedPanic    = 100003
	verifMRCtxErr      = -2 // context.DeadlineExceeded
	verifMROtherErr    = -3
	verifMRCtxCanceled = -4 // context.Canceled
	verifMRInternal    = -1
	verifMRHookWrite   = "mr.write.guarded"
	verifMRHookSelect  = "mr.main.select"
	verifMRMaxStuck    = 6 // calls that ended stuck (each leaves goroutines behind): stop producing more
	verifMRInfraLimitS = 90
)

type verifMRErr struct{ id int }

func (e verifMRErr) Error() string { return "verif: cancel error " + strconv.Itoa(e.id) }

type verifMRPanic struct{ id int }

// The error domain of cancel (identities, see MR.tla "error domain"): besides nil (0) and ordinary error values
// (1..6999, verifMRErr) the unusual-but-legal ones:
//   7001        a nil *verifMRPtrErr in an error interface (err != nil holds at the call site)
//   7002, 7003  a nil map / nil func of a type that implements error
//   7004..7099  an error value of a type that cannot be compared with ==
//   7100..7149  fmt.Errorf("%w") wrapper, 7150..7199 errors.Join: the identity is the wrapper's
//   7200..7299  a pointer error, allocated once per call (the same value may be passed to cancel more than once)
//   -2, -4      context.DeadlineExceeded / context.Canceled passed to cancel by user code
type verifMRPtrErr struct{ id int }

func (e *verifMRPtrErr) Error() string {
	if e == nil {
		return "verif: typed nil pointer error"
	}
	return "verif: pointer error " + strconv.Itoa(e.id)
}

type verifMRMapErr map[string]int

func (e verifMRMapErr) Error() string { return "verif: map error (nil: " + strconv.FormatBool(e == nil) + ")" }

type verifMRFuncErr func() string

func (e verifMRFuncErr) Error() string {
	if e == nil {
		return "verif: nil func error"
	}
	return e()
}

type verifMRSliceErr struct {
	id   int
	tags []string
}

func (e verifMRSliceErr) Error() string { return "verif: uncomparable error " + strconv.Itoa(e.id) }

// errFor: the error value of an identity; one value per identity and call.
func (c *verifMRCall) errFor(id int) error {
	if id == 0 {
		return nil
	}
	c.errMu.Lock()
	defer c.errMu.Unlock()
	if e, ok := c.errTab[id]; ok {
		return e
	}
	var e error
	switch {
	case id == verifMRCtxErr:
		e = context.DeadlineExceeded
	case id == verifMRCtxCanceled:
		e = context.Canceled
	case id == 7001:
		var p *verifMRPtrErr
		e = p
	case id == 7002:
		var m verifMRMapErr
		e = m
	case id == 7003:
		var f verifMRFuncErr
		e = f
	case id >= 7004 && id < 7100:
		e = verifMRSliceErr{id: id, tags: []string{"x"}}
	case id >= 7100 && id < 7150:
		e = fmt.Errorf("verif: wrapper %d: %w", id, verifMRErr{id + 400})
	case id >= 7150 && id < 7200:
		e = errors.Join(verifMRErr{id + 400}, verifMRErr{id + 500})
	case id >= 7200 && id < 7300:
		e = &verifMRPtrErr{id}
	default:
		e = verifMRErr{id}
	}
	c.errTab[id] = e
	return e
}

// identify: WHICH error came back - the identity of an error value passed to cancel in this call (compared as
// values, never unwrapped), else the library's sentinels / context errors, else "some other error".
func (c *verifMRCall) identify(err error) int {
	switch v := err.(type) { // == on these dynamic types would panic or is meaningless: identify by type and content
	case verifMRMapErr:
		if v == nil {
			return 7002
		}
		return verifMROtherErr
	case verifMRFuncErr:
		if v == nil {
			return 7003
		}
		return verifMROtherErr
	case verifMRSliceErr:
		return v.id
	}
	if reflect.TypeOf(err).Comparable() {
		c.errMu.Lock()
		for id, e := range c.errTab {
			if reflect.TypeOf(e).Comparable() && e == err {
				c.errMu.Unlock()
				return id
			}
		}
		c.errMu.Unlock()
	}
	switch {
	case errors.Is(err, ErrCancelWithNil):
		return 0
	case errors.Is(err, context.DeadlineExceeded):
		return verifMRCtxErr
	case errors.Is(err, context.Canceled):
		return verifMRCtxCanceled
	}
	if me, ok := err.(verifMRErr); ok { // an error value nobody passed to cancel as such (e.g. an unwrapped one)
		return me.id
	}
	return verifMROtherErr
}

// ---------------------------------------------------------------- goroutine snapshots

type verifMRG struct {
	id      int64
	state   string
	lib     bool // created by a library function of this package (not by the harness)
	stack   string
	blocked bool
}

var verifMRStackBuf = make([]byte, 8<<20)

var verifMRBlockedStates = map[string]bool{
	"chan receive": true, "chan send": true, "select": true, "semacquire": true,
	"sync.WaitGroup.Wait": true, "sync.Cond.Wait": true, "chan receive (nil chan)": true,
	"chan send (nil chan)": true, "select (no cases)": true,
	"sync.Mutex.Lock": true, "sync.RWMutex.Lock": true, "sync.RWMutex.RLock": true,
}

func verifMRGID() int64 {
	var b [64]byte
	n := runtime.Stack(b[:], false)
	s := string(b[:n])
	s = strings.TrimPrefix(s, "goroutine ")
	if i := strings.IndexByte(s, ' '); i > 0 {
		id, _ := strconv.ParseInt(s[:i], 10, 64)
		return id
	}
	return -1
}

// verifMRSnapshot returns every goroutine that has something to do with this package.
func verifMRSnapshot() []verifMRG {
	n := runtime.Stack(verifMRStackBuf, true)
	var out []verifMRG
	for _, blk := range bytes.Split(verifMRStackBuf[:n], []byte("\n\n")) {
		s := string(blk)
		if !strings.Contains(s, "core/mr.") {
			continue
		}
		if !strings.HasPrefix(s, "goroutine ") {
			continue
		}
		hdr := s
		if i := strings.IndexByte(s, '\n'); i >= 0 {
			hdr = s[:i]
		}
		i, j := strings.IndexByte(hdr, '['), strings.LastIndexByte(hdr, ']')
		if i < 0 || j < i {
			continue
		}
		id, _ := strconv.ParseInt(strings.TrimSpace(hdr[len("goroutine "):i]), 10, 64)
		state := hdr[i+1 : j]
		if k := strings.IndexByte(state, ','); k >= 0 {
			state = state[:k]
		}
		g := verifMRG{id: id, state: state, stack: s[len(hdr):]}
		if k := strings.LastIndex(s, "created by "); k >= 0 {
			c := s[k+len("created by "):]
			if e := strings.IndexAny(c, " \n"); e >= 0 {
				c = c[:e]
			}
			g.lib = strings.Contains(c, "core/mr.") && !strings.Contains(c, "verifMR") && !strings.Contains(c, "TestVerif")
		}
		g.blocked = verifMRBlockedStates[state]
		// waiting for the emitter's mutex is progress, not blockage
		if g.blocked && strings.HasPrefix(state, "sync.") && strings.Contains(s, "verifEmitter") {
			g.blocked = false
		}
		out = append(out, g)
	}
	return out
}

// goroutines the library left behind in earlier calls (already reported there)
var verifMRKnown = map[int64]bool{}
var verifMRStuckCalls int32

// ---------------------------------------------------------------- one call

type verifMROp struct {
	A string `json:"a"` // send | write | recv | recvall | cancel | panic | ret | stall | yield
	E int    `json:"e"` // cancel: error id (0 = nil)
}

type verifMRActor struct {
	name    string
	cmd     chan verifMROp
	waiting int32
	script  []verifMROp // free mode
}

type verifMRCall struct {
	t       *testing.T
	em      *verifEmitter
	api     string // mr | void | chan | foreach | finish | finishvoid
	wset    bool   // WithWorkers(workers) is passed
	workers int    // the raw option value: any int
	nitems  int
	errMu   sync.Mutex
	errTab  map[int]error

	ctx       context.Context
	ctxCancel context.CancelFunc
	useCtx    bool
	ctxOnce   sync.Once
	ctxAt     int64 // free mode: end the context when this many events have been logged (<0: never)
	ctxQuiet  bool  // free mode: end the context when nothing can move any more

	steer  bool
	mu     sync.Mutex
	actors map[string]*verifMRActor
	autoCh chan struct{} // closed when every gate is open
	stall  chan struct{} // free mode: closed when stalls end
	stall1 chan struct{} // free mode: a first-phase stall, closed the first time nothing else can move (or the call returned)
	plan   func(name string, item int) []verifMROp
	yieldy int

	nev      int64
	returned int32
	auxMu    sync.Mutex
	aux      map[int64]bool // harness goroutines that belong to this call (caller, feeder)
	redGID   int64
	hookOn   bool
	hooks    map[string]chan struct{}
	skipped  int
}

func verifMRApiClass(api string) string {
	switch api {
	case "mr", "chan":
		return "mr"
	case "void":
		return "void"
	case "finish":
		return "finish"
	}
	return "foreach"
}

func newVerifMRCall(t *testing.T, em *verifEmitter, api string, wset bool, workers int, useCtx bool) *verifMRCall {
	c := &verifMRCall{t: t, em: em, api: api, wset: wset, workers: workers, useCtx: useCtx, actors: map[string]*verifMRActor{},
		errTab: map[int]error{},
		autoCh: make(chan struct{}), stall: make(chan struct{}), stall1: make(chan struct{}), aux: map[int64]bool{}, hooks: map[string]chan struct{}{},
		ctxAt: -1}
	c.ctx = context.Background()
	if useCtx {
		c.ctx, c.ctxCancel = context.WithCancel(context.Background())
	}
	return c
}

func (c *verifMRCall) emit(ev verifEv) {
	c.em.Emit(ev)
	n := atomic.AddInt64(&c.nev, 1)
	if c.useCtx && c.ctxAt >= 0 && n >= c.ctxAt {
		c.endCtx()
	}
}

// endCtx ends the context (once); the events bracket the moment Done() is closed.
func (c *verifMRCall) endCtx() {
	if !c.useCtx {
		return
	}
	c.ctxOnce.Do(func() {
		c.em.Emit(verifEv{"e": "ctxStart"})
		atomic.AddInt64(&c.nev, 1)
		c.ctxCancel()
		c.em.Emit(verifEv{"e": "ctxEnd"})
		atomic.AddInt64(&c.nev, 1)
	})
}

func (c *verifMRCall) options() []Option {
	var o []Option
	if c.wset {
		o = append(o, WithWorkers(c.workers))
	}
	if c.useCtx {
		o = append(o, WithContext(c.ctx))
	}
	return o
}

// workerCfg: the worker configuration as the caller wrote it (what it means is the spec's business):
// was a count given, which, and the package's default. Finish/FinishVoid: the count is the number of functions.
func (c *verifMRCall) workerCfg() (bool, int) {
	if c.api == "finish" || c.api == "finishvoid" {
		return true, c.nitems
	}
	return c.wset, c.workers
}

func (c *verifMRCall) regAux() func() {
	id := verifMRGID()
	c.auxMu.Lock()
	c.aux[id] = true
	c.auxMu.Unlock()
	return func() {
		c.auxMu.Lock()
		delete(c.aux, id)
		c.auxMu.Unlock()
	}
}

// ---- gates

func (c *verifMRCall) actor(name string, item int) *verifMRActor {
	a := &verifMRActor{name: name, cmd: make(chan verifMROp, 1)}
	c.mu.Lock()
	if !c.steer && c.plan != nil {
		a.script = c.plan(name, item)
	}
	c.actors[name] = a
	c.mu.Unlock()
	return a
}

// next: the next operation of a user function. Steered: wait at the gate for the driver. Free: the script.
// When every gate is open the function finishes ("ret").
func (c *verifMRCall) next(a *verifMRActor) verifMROp {
	if c.steer {
		atomic.StoreInt32(&a.waiting, 1)
		defer atomic.StoreInt32(&a.waiting, 0)
		select {
		case op := <-a.cmd:
			return op
		case <-c.autoCh:
			return verifMROp{A: "ret"}
		}
	}
	for {
		if len(a.script) == 0 {
			return verifMROp{A: "ret"}
		}
		op := a.script[0]
		a.script = a.script[1:]
		switch op.A {
		case "stall":
			<-c.stall
		case "stall1":
			<-c.stall1
		case "yield":
			for i := 0; i < op.E; i++ {
				runtime.Gosched()
			}
		case "sleep":
			time.Sleep(time.Duration(op.E) * time.Microsecond)
		default:
			return op
		}
	}
}

func (c *verifMRCall) doCancel(cancel func(error), e int) {
	c.emit(verifEv{"e": "cancelStart", "err": e})
	cancel(c.errFor(e))
	c.emit(verifEv{"e": "cancelEnd"})
}

// openStall1 ends the first-phase stalls (functions that wait until nothing else can move, then go on while the
// second-phase stalls still hold).
func (c *verifMRCall) openStall1() {
	c.mu.Lock()
	c.openStall1Locked()
	c.mu.Unlock()
}

func (c *verifMRCall) openStall1Locked() {
	select {
	case <-c.stall1:
	default:
		close(c.stall1)
	}
}

// ---- user functions

func (c *verifMRCall) generate(source chan<- int) {
	a := c.actor("gen", 0)
	n := 0
	for {
		op := c.next(a)
		switch op.A {
		case "send":
			n++
			c.emit(verifEv{"e": "genSend", "i": n})
			source <- n
		case "panic":
			c.emit(verifEv{"e": "genEnd", "how": "panic", "p": verifMRGenPanic})
			panic(verifMRPanic{verifMRGenPanic})
		default:
			c.emit(verifEv{"e": "genEnd", "how": "ret", "p": 0})
			return
		}
	}
}

func (c *verifMRCall) mapper(item int, w Writer[int], cancel func(error)) {
	c.emit(verifEv{"e": "mapStart", "i": item})
	a := c.actor("map:"+strconv.Itoa(item), item)
	k := 0
	for {
		op := c.next(a)
		switch op.A {
		case "write":
			if w == nil {
				continue
			}
			k++
			v := item*10 + k
			if !c.steer {
				v = item*100 + k
			}
			c.emit(verifEv{"e": "mapWrite", "i": item, "v": v})
			w.Write(v)
			c.emit(verifEv{"e": "mapWriteEnd", "i": item})
		case "cancel":
			if cancel == nil {
				continue
			}
			e := op.E
			if c.api == "finish" {
				// returning an error IS the cancellation: the library calls cancel(err) after fn returned
				if e == 0 {
					e = item
				}
				c.emit(verifEv{"e": "cancelStart", "err": e})
				c.emit(verifEv{"e": "mapEnd", "i": item, "how": "ret", "p": 0})
				cancel(c.errFor(e))
				return
			}
			c.doCancel(cancel, e)
		case "panic":
			c.emit(verifEv{"e": "mapEnd", "i": item, "how": "panic", "p": item})
			panic(verifMRPanic{item})
		default:
			c.emit(verifEv{"e": "mapEnd", "i": item, "how": "ret", "p": 0})
			return
		}
	}
}

func (c *verifMRCall) reducer(pipe <-chan int, w Writer[int], cancel func(error)) {
	atomic.StoreInt64(&c.redGID, verifMRGID())
	c.emit(verifEv{"e": "redStart"})
	a := c.actor("red", 0)
	closed, wrote := false, false
	recv := func() {
		v, ok := <-pipe
		if ok {
			c.emit(verifEv{"e": "redRecv", "v": v})
		} else {
			closed = true
			c.emit(verifEv{"e": "redClosed"})
		}
	}
	// a panic out of the library (writer.Write) passes through the user's reducer like any other
	defer func() {
		if r := recover(); r != nil {
			if _, mine := r.(verifMRPanic); !mine {
				c.emit(verifEv{"e": "redEnd", "how": "ipanic", "p": 0, "txt": fmt.Sprint(r)})
			}
			panic(r)
		}
	}()
	for {
		op := c.next(a)
		switch op.A {
		case "recv":
			if !closed {
				recv()
			}
		case "recvall":
			for !closed {
				recv()
			}
		case "write":
			if w == nil || wrote {
				continue
			}
			wrote = true
			c.emit(verifEv{"e": "redWrite", "v": verifMRRedOut})
			w.Write(verifMRRedOut)
			c.emit(verifEv{"e": "redWriteEnd"})
		case "cancel":
			c.doCancel(cancel, op.E)
		case "panic":
			c.emit(verifEv{"e": "redEnd", "how": "panic", "p": verifMRRedPanic})
			panic(verifMRPanic{verifMRRedPanic})
		default:
			c.emit(verifEv{"e": "redEnd", "how": "ret", "p": 0})
			return
		}
	}
}

// ---- the call itself

func (c *verifMRCall) classify(val int, err error) (string, int) {
	cls := verifMRApiClass(c.api)
	switch {
	case cls == "foreach":
		return "none", 0
	case err == nil && cls == "mr":
		return "val", val
	case err == nil:
		return "noout", 0
	case errors.Is(err, ErrReduceNoOutput):
		return "noout", 0
	}
	return "err", c.identify(err)
}

// invoke runs the library call on the current goroutine and logs how it came back.
func (c *verifMRCall) invoke(reg chan struct{}) {
	defer c.regAux()()
	close(reg)
	var val int
	var err error
	defer func() {
		if r := recover(); r != nil {
			if p, ok := r.(verifMRPanic); ok {
				c.emit(verifEv{"e": "ret", "kind": "panic", "v": p.id})
			} else {
				c.emit(verifEv{"e": "ret", "kind": "panic", "v": verifMRInternal, "txt": fmt.Sprint(r)})
			}
		} else {
			k, v := c.classify(val, err)
			ev := verifEv{"e": "ret", "kind": k, "v": v}
			if err != nil {
				ev["txt"] = err.Error()
			}
			c.emit(ev)
		}
		atomic.StoreInt32(&c.returned, 1)
	}()
	opts := c.options()
	switch c.api {
	case "mr":
		c.emit(verifEv{"e": "callStart"})
		val, err = MapReduce(c.generate, c.mapper, c.reducer, opts...)
	case "void":
		c.emit(verifEv{"e": "callStart"})
		err = MapReduceVoid(c.generate, c.mapper, func(pipe <-chan int, cancel func(error)) {
			c.reducer(pipe, nil, cancel)
		}, opts...)
	case "chan":
		source := make(chan int)
		reg := make(chan struct{})
		go func() { // the harness is the producer of the source
			defer c.regAux()()
			close(reg)
			defer close(source)
			c.generate(source)
		}()
		<-reg
		c.emit(verifEv{"e": "callStart"})
		val, err = MapReduceChan(source, c.mapper, c.reducer, opts...)
	case "foreach":
		c.emit(verifEv{"e": "callStart"})
		ForEach(c.generate, func(item int) { c.mapper(item, nil, nil) }, opts...)
	case "finish", "finishvoid":
		// the "generated items" are the functions passed in; the library's own generator sends them
		for i := 1; i <= c.nitems; i++ {
			c.emit(verifEv{"e": "genSend", "i": i})
		}
		c.emit(verifEv{"e": "genEnd", "how": "ret", "p": 0})
		c.emit(verifEv{"e": "callStart"})
		if c.api == "finish" {
			fns := make([]func() error, c.nitems)
			for i := range fns {
				item := i + 1
				fns[i] = func() (e error) {
					c.mapper(item, nil, func(err error) { e = err })
					return
				}
			}
			err = Finish(fns...)
		} else {
			fns := make([]func(), c.nitems)
			for i := range fns {
				item := i + 1
				fns[i] = func() { c.mapper(item, nil, nil) }
			}
			FinishVoid(fns...)
		}
	default:
		c.t.Fatalf("unknown api %q", c.api)
	}
}

func (c *verifMRCall) start() {
	wset, wopt := c.workerCfg()
	c.emit(verifEv{"e": "reset", "api": verifMRApiClass(c.api), "wset": wset, "wopt": wopt, "defw": defaultWorkers,
		"call": c.api, "ctx": c.useCtx, "steer": c.steer})
	reg := make(chan struct{})
	go c.invoke(reg)
	<-reg // the caller is registered: from now on the call is never mistaken for quiescent before it started
}

// ---------------------------------------------------------------- quiescence / accounting

// live: goroutines of this call that are still around: started by the library (and not left over from an
// earlier call), or harness goroutines registered for this call.
func (c *verifMRCall) live() (all []verifMRG, lib int) {
	me := verifMRGID()
	c.auxMu.Lock()
	aux := map[int64]bool{}
	for id := range c.aux {
		aux[id] = true
	}
	c.auxMu.Unlock()
	for _, g := range verifMRSnapshot() {
		if g.id == me || verifMRKnown[g.id] {
			continue
		}
		if g.lib {
			lib++
			all = append(all, g)
		} else if aux[g.id] {
			all = append(all, g)
		}
	}
	return
}

func verifMRAllBlocked(gs []verifMRG) bool {
	for _, g := range gs {
		if !g.blocked {
			return false
		}
	}
	return true
}

// settle: wait until no goroutine of the call can move without the driver (steering only).
func (c *verifMRCall) settle() {
	deadline := time.Now().Add(verifMRInfraLimitS * time.Second)
	for i := 0; ; i++ {
		if i < 4 {
			runtime.Gosched()
		} else {
			time.Sleep(time.Duration(10*(1+i/50)) * time.Microsecond)
		}
		gs, _ := c.live()
		if verifMRAllBlocked(gs) {
			return
		}
		if time.Now().After(deadline) {
			c.t.Fatalf("verif infrastructure: the call did not become quiescent within %d s", verifMRInfraLimitS)
		}
	}
}

// waitReturnedOrQuiet (free mode): the call returned, or nothing of it can move.
func (c *verifMRCall) waitReturnedOrQuiet() {
	deadline := time.Now().Add(verifMRInfraLimitS * time.Second)
	for i := 0; ; i++ {
		if atomic.LoadInt32(&c.returned) == 1 {
			return
		}
		if i < 4 {
			runtime.Gosched()
		} else {
			time.Sleep(time.Duration(20*(1+i/20)) * time.Microsecond)
		}
		if i%4 == 3 {
			gs, _ := c.live()
			if verifMRAllBlocked(gs) && atomic.LoadInt32(&c.returned) == 0 {
				return
			}
		}
		if time.Now().After(deadline) {
			c.t.Fatalf("verif infrastructure: the call neither returned nor became quiescent within %d s", verifMRInfraLimitS)
		}
	}
}

func verifMRSig(gs []verifMRG) string {
	var parts []string
	for _, g := range gs {
		parts = append(parts, fmt.Sprintf("%d|%s|%s", g.id, g.state, g.stack))
	}
	sort.Strings(parts)
	return strings.Join(parts, "\n")
}

// finish: open every gate, then account for the goroutines of the call and log the `end` event.
func (c *verifMRCall) finish() {
	c.mu.Lock()
	select {
	case <-c.autoCh:
	default:
		close(c.autoCh)
	}
	c.openStall1Locked()
	select {
	case <-c.stall:
	default:
		close(c.stall)
	}
	for k, h := range c.hooks {
		delete(c.hooks, k)
		close(h)
	}
	c.hookOn = false
	c.mu.Unlock()

	deadline := time.Now().Add(verifMRInfraLimitS * time.Second)
	same, last := 0, ""
	pause := 200 * time.Microsecond
	var left []verifMRG
	leaked := 0
	for i := 0; ; i++ {
		gs, lib := c.live()
		if len(gs) == 0 {
			left, leaked = nil, 0
			break
		}
		if verifMRAllBlocked(gs) {
			sig := verifMRSig(gs)
			if sig == last {
				same++
			} else {
				same, last = 1, sig
			}
			if same >= 3 {
				left, leaked = gs, lib
				break
			}
		} else {
			same, last = 0, ""
		}
		if time.Now().After(deadline) {
			c.t.Fatalf("verif infrastructure: goroutines of the call still running after %d s:\n%s", verifMRInfraLimitS, verifMRSig(gs))
		}
		if i < 3 {
			runtime.Gosched()
		} else {
			time.Sleep(pause)
			if pause < 50*time.Millisecond {
				pause *= 2
			}
		}
	}
	ret := atomic.LoadInt32(&c.returned) == 1
	if c.skipped > 0 {
		c.em.Emit(verifEv{"e": "info", "skipped": c.skipped})
	}
	ev := verifEv{"e": "end", "returned": ret, "leaked": leaked}
	if len(left) > 0 {
		var where []string
		for _, g := range left {
			verifMRKnown[g.id] = true
			where = append(where, g.state+" @ "+verifMRInnermost(g.stack))
		}
		sort.Strings(where)
		ev["where"] = where
		atomic.AddInt32(&verifMRStuckCalls, 1)
	}
	c.em.Emit(ev)
	if c.ctxCancel != nil {
		c.ctxCancel()
	}
}

// innermost frame of this package in a stack (diagnostics only)
func verifMRInnermost(stack string) string {
	for _, ln := range strings.Split(stack, "\n") {
		if strings.Contains(ln, "core/mr.") && !strings.HasPrefix(ln, "\t") && !strings.HasPrefix(ln, "created by") {
			if i := strings.Index(ln, "core/mr."); i >= 0 {
				ln = ln[i+len("core/mr."):]
			}
			if i := strings.IndexByte(ln, '('); i > 0 && !strings.HasPrefix(ln, "(") {
				ln = ln[:i]
			}
			return ln
		}
	}
	return "?"
}
